/-
C06 — parallel_reduce / parallel_deterministic_reduce / parallel_scan / parallel_sort
(executable models, core Lean only).

Code modelled
  include/oneapi/tbb/parallel_reduce.h   start_reduce::{execute, offer_work_impl, finalize},
                                          reduction_tree_node::{join, has_right_zombie, left_body},
                                          start_deterministic_reduce, deterministic_reduction_tree_node
  include/oneapi/tbb/partitioner.h        fold_tree, tree_node / node::m_ref_count,
                                          simple_partition_type::execute, static_partition_type (proportional_mode)
  include/oneapi/tbb/blocked_range.h      do_split (midpoint and proportional)
  include/oneapi/tbb/parallel_scan.h      start_scan, finish_scan, sum_node, final_sum
  include/oneapi/tbb/parallel_sort.h      quick_sort_range (median_of_three, pseudo_median_of_nine, split_range),
                                          quick_sort_pretest_body, parallel_quick_sort's serial probe

Body values live in the FREE MONOID: the value of a body is the `List Nat` of element indices it has
absorbed, `join` is append.  Every associative operation is a homomorphic image of this, so "the final
list is `[lo, …, hi-1]`" is exactly "the result is the left-to-right fold using only associativity".
-/
import TbbVerif.Core.Sched
import TbbVerif.Core.Proto
import TbbVerif.Generated.C06
import TbbVerif.Model.C05

namespace TbbVerif.C06

/-- the index list of the half-open range `[lo, hi)` -/
def rng (lo hi : Nat) : List Nat := List.range' lo (hi - lo)

/-! ## 1. `ReduceTree`: parallel_reduce's task tree with the lazily split right body

State words follow the code: a `start_reduce` task has `my_range = [lo,hi)`, `my_body`, `is_right_child`;
a `reduction_tree_node` has `m_ref_count`, `left_body`, `has_right_zombie`/`zombie_space`.
The tree *shape* is kept as an inductive tree (the `my_parent` pointers), a released child link is `gone`.
Body *values* are stored at their owner (the user's body at the top, a zombie inside its node); the
pointer words `my_body` / `left_body` are kept as ids and every dereference is CHECKED against the id of
the body found positionally (`Ctx.err`); `reduce_pointers_ok` proves the check never fails.

One model step = one of the code's atomic actions of one thread:
  `start`   start_reduce::execute of a spawned right child: `my_parent->m_ref_count.load() == 2` decides the
            lazy split `new (zombie_space) Body(*my_body, split())`, `has_right_zombie = true`
  `run k`   `run_body` on the leftmost `k` elements of `my_range`          (partitioner's choice of chunk)
  `offer k` `offer_work`: the rightmost `k` elements go to a new right child under a new tree node with
            `m_ref_count = 2`, `left_body = *my_body`                        (partitioner's choice of split)
  `finish`  `finalize`: the task is destroyed, first iteration of `fold_tree`: `--parent->m_ref_count`
  `fold`    `fold_tree` at a node whose count reached 0: `join`, delete; the thread goes on to the parent, whose
            `--m_ref_count` is a separate `finish` step (a right child may still read 2 in between)
The schedule (a list of `(position, action)`) is the oracle: it contains every steal pattern (which
thread runs which task when, hence what a right child reads in `m_ref_count`) and every partitioner /
grain size (which `k`s are chosen). -/
namespace Red

abbrev BodyId := Nat

inductive Ev where
  | split (z b : BodyId)            -- body `z` constructed by `Body(b, split())`
  | run (b : BodyId) (lo hi : Nat)  -- `b(range [lo,hi))`
  | join (b z : BodyId)             -- `b.join(z)`
  deriving Repr, DecidableEq, Inhabited

structure Body where
  id : BodyId
  val : List Nat
  /-- ghost: the body this one was split from -/
  src : BodyId
  deriving Repr, DecidableEq, Inhabited

inductive Tree where
  | task (lo hi : Nat) (myBody : BodyId) (isRight started : Bool)
  | node (ref : Nat) (leftBody : BodyId) (zombie : Option Body) (l r : Tree)
  | gone
  deriving Repr, DecidableEq, Inhabited

inductive Act where
  | start
  | run (k : Nat)
  | offer (k : Nat)
  | finish
  | fold
  deriving Repr, DecidableEq, Inhabited

structure Ctx where
  next : Nat := 1
  log : List Ev := []
  /-- a `my_body` / `left_body` pointer did not designate the body found positionally -/
  err : Bool := false
  deriving Repr, DecidableEq, Inhabited

structure Res where
  acc : Body
  tree : Tree
  ctx : Ctx
  /-- the step executed `--parent->m_ref_count` -/
  dec : Bool
  /-- the action was enabled -/
  ok : Bool
  deriving Repr

def noop (acc : Body) (c : Ctx) (t : Tree) : Res := ⟨acc, t, c, false, false⟩

def stepTask (acc : Body) (c : Ctx) (a : Act) (lo hi : Nat) (mb : BodyId) (isR st : Bool) : Res :=
  match a with
  | .run k =>
      if st ∧ 1 ≤ k ∧ k ≤ hi - lo then
        ⟨{ acc with val := acc.val ++ rng lo (lo + k) }, .task (lo + k) hi mb isR st,
         { c with log := c.log ++ [.run mb lo (lo + k)], err := c.err || (mb != acc.id) }, false, true⟩
      else noop acc c (.task lo hi mb isR st)
  | .offer k =>
      if st ∧ 1 ≤ k ∧ k < hi - lo then
        ⟨acc, .node 2 mb none (.task lo (hi - k) mb false true) (.task (hi - k) hi mb true false), c, false, true⟩
      else noop acc c (.task lo hi mb isR st)
  | .finish =>
      if st ∧ lo = hi then ⟨acc, .gone, c, true, true⟩ else noop acc c (.task lo hi mb isR st)
  | _ => noop acc c (.task lo hi mb isR st)

def decRef (ref : Nat) (dec : Bool) : Nat := if dec then ref - 1 else ref

/-- `some (lo, hi, my_body)` iff the action is the start of `execute` of the spawned (not yet started)
right child that sits directly below the node -/
def spawnedRight (p : List Bool) (a : Act) (r : Tree) : Option (Nat × Nat × BodyId) :=
  match p, a, r with
  | [], .start, .task lo hi mb true false => some (lo, hi, mb)
  | _, _, _ => none

/-- one atomic action `a` of the thread working at position `p` of the tree; `acc` is the body that
the code reaches through `my_body` / `left_body` at this position -/
def stepAt (acc : Body) (c : Ctx) (p : List Bool) (a : Act) (t : Tree) : Res :=
  match p, t with
  | [], .task lo hi mb isR st => stepTask acc c a lo hi mb isR st
  | _ :: _, .task lo hi mb isR st => noop acc c (.task lo hi mb isR st)
  | _, .gone => noop acc c .gone
  | [], .node ref lb z l r =>
      if a = .fold ∧ ref = 0 then
        -- the thread that brought the count to 0 owns the node: `self->join(ed.context)`, delete, `n = parent`.
        -- The decrement of the parent's count is the NEXT atomic action of that thread: the position becomes
        -- an empty running "task" (the climbing thread) whose `finish` performs `--parent->m_ref_count`.
        match z with
        | some zb =>   -- has_right_zombie: left_body.join(*zombie_space.begin())
            ⟨{ acc with val := acc.val ++ zb.val }, .task 0 0 lb false true,
             { c with log := c.log ++ [.join lb zb.id], err := c.err || (lb != acc.id) }, false, true⟩
        | none => ⟨acc, .task 0 0 lb false true, c, false, true⟩
      else noop acc c (.node ref lb z l r)
  | false :: p, .node ref lb z l r =>
      let res := stepAt acc c p a l
      ⟨res.acc, .node (decRef ref res.dec) lb z res.tree r, res.ctx, false, res.ok⟩
  | true :: p, .node ref lb z l r =>
      match spawnedRight p a r with
      | some (lo, hi, mb) =>
          -- start_reduce::execute: `is_right_child && my_parent->m_ref_count.load(acquire) == 2`, the GENERATED guard
          -- (`Generated.C06.reduceSplitsBody isRight parentRef stolen`, translated from the source text; the model
          -- has no notion of "stolen": the proofs need the guard not to depend on it)
          if Generated.C06.reduceSplitsBody true ref false = true then   -- left sibling not finished: split the body into the parent's zombie space
            ⟨acc, .node ref lb (some ⟨c.next, [], mb⟩) l (.task lo hi c.next true true),
             { c with next := c.next + 1, log := c.log ++ [.split c.next mb] }, false, true⟩
          else ⟨acc, .node ref lb z l (.task lo hi mb true true), c, false, true⟩
      | none =>
        match z with
        | some zb =>
            let res := stepAt zb c p a r
            ⟨acc, .node (decRef ref res.dec) lb (some res.acc) l res.tree, res.ctx, false, res.ok⟩
        | none =>
            let res := stepAt acc c p a r
            ⟨res.acc, .node (decRef ref res.dec) lb none l res.tree, res.ctx, false, res.ok⟩

structure St where
  /-- the user's body passed to parallel_reduce (id 0) -/
  root : Body := ⟨0, [], 0⟩
  tree : Tree := .gone
  /-- `wait_node::m_ref_count` / `m_wait`: 1 until the root link is released -/
  waitRef : Nat := 1
  ctx : Ctx := {}
  deriving Repr

/-- `start_reduce::run`: nothing happens for an empty range; otherwise the root task is executed by the
calling thread (it is not a right child, so its `execute` starts with the partitioner). -/
def init (lo hi : Nat) : St :=
  if lo < hi then { tree := .task lo hi 0 false true } else { tree := .gone, waitRef := 0 }

def step (s : St) (pa : List Bool × Act) : St :=
  let res := stepAt s.root s.ctx pa.1 pa.2 s.tree
  { root := res.acc, tree := res.tree, waitRef := decRef s.waitRef res.dec, ctx := res.ctx }

def run (lo hi : Nat) (sched : List (List Bool × Act)) : St := sched.foldl step (init lo hi)

/-- does the action change anything at all? (used by the driver to report "not enabled") -/
def enabled (s : St) (pa : List Bool × Act) : Bool := (stepAt s.root s.ctx pa.1 pa.2 s.tree).ok

/-- elements still to be appended below a position, in order -/
def pend : Tree → List Nat
  | .task lo hi _ _ _ => rng lo hi
  | .node _ _ z l r => pend l ++ ((match z with | some zb => zb.val | none => []) ++ pend r)
  | .gone => []

def cnt : Tree → Nat
  | .gone => 0
  | _ => 1

def active : Tree → Bool
  | .task _ _ _ _ st => st
  | .node .. => true
  | .gone => false

def sub : Tree → List Bool → Option Tree
  | t, [] => some t
  | .node _ _ _ l _, false :: p => sub l p
  | .node _ _ _ _ r, true :: p => sub r p
  | _, _ => none

/-- A deterministic scheduler used for the single-thread correspondence and for non-vacuity:
LIFO execution by one thread with a simple_partitioner of grain `g` — the task keeps offering the upper
half while divisible, runs its chunk, finishes; the most recently spawned right child is taken next.
`fuel` bounds the number of actions. Returns the schedule. -/
def serialSched (g : Nat) : Nat → St → List (List Bool × Act) → List (List Bool × Act)
  | 0, _, acc => acc.reverse
  | fuel + 1, s, acc =>
      match pick g s.tree [] with
      | some pa => serialSched g fuel (step s pa) (pa :: acc)
      | none => acc.reverse
where
  /-- leftmost live position and its next action -/
  pick (g : Nat) : Tree → List Bool → Option (List Bool × Act)
    | .task lo hi _ isR st, p =>
        if !st then (if isR then some (p, .start) else none)
        else if hi - lo > g then some (p, .offer (hi - (lo + (hi - lo) / 2)))
        else if lo < hi then some (p, .run (hi - lo))
        else some (p, .finish)
    | .node ref _ _ l r, p =>
        if ref = 0 then some (p, .fold)
        else match pick g l (p ++ [false]) with
          | some x => some x
          | none => pick g r (p ++ [true])
    | .gone, _ => none

end Red

/-! ## 2. `DetReduce`: parallel_deterministic_reduce — eager body split, split/join tree fixed by (range, grain)

`start_deterministic_reduce::offer_work_impl` allocates the `deterministic_reduction_tree_node`, whose
constructor splits the body at once (`right_body{input_left_body, split()}`), and hands `right_body`
to the right child; `join` is unconditional (`left_body.join(right_body)`).  Only simple_partitioner and
static_partitioner are accepted: neither reads anything schedule dependent (`check_being_stolen` is the
base-class `false`), so the only freedom left is the interleaving.

Body values live in the FREE MAGMA (no associativity assumed): `run v lo hi` is the value after
`body(range [lo,hi))` on a body of value `v`, `join a b` the value after `a.join(b)`. -/
namespace Det

inductive Val where
  | init                          -- a freshly split body (or the user's body on entry)
  | run (v : Val) (lo hi : Nat)
  | join (a b : Val)
  deriving Repr, DecidableEq, Inhabited

/-- `blocked_range::do_split(r, proportional_split&)`:
`right_part = size_t(float(size) * float(right) / float(left + right) + 0.5f)`, evaluated in binary32 exactly as coded
(round-to-nearest-even after every operation): the model of C05 (`C05.propRightPart`, tied to the real `float` code by
C05's differential on every run), for EVERY size and proportion; `none` where the C++ expression is undefined. -/
def propRight (size l r : Nat) : Option Nat := C05.propRightPart size l r

/-- The split decision of one `start_deterministic_reduce` task with range `[lo,hi)`, grain `g`,
partition divisor `d`: `some (mid, dLeft, dRight)` if it offers work, `none` if it runs its body.
simple_partition_type::execute: `while (range.is_divisible()) offer_work(split)`; midpoint split.
static_partition_type (partition_type_base::execute + proportional_mode): split while
`range.is_divisible() && my_divisor > 1` with `right = my_divisor/2`, `left = my_divisor - right`;
the right task gets `my_divisor = right`, the left keeps `my_divisor - right`. -/
def splitOf (g : Nat) (static : Bool) (lo hi d : Nat) : Option (Nat × Nat × Nat) :=
  if g < hi - lo then
    if static then
      if 1 < d then
        match propRight (hi - lo) (d - d / 2) (d / 2) with
        | some rp => if 0 < rp ∧ rp < hi - lo then some (hi - rp, d - d / 2, d / 2) else none
        | none => none
      else none
    else if 0 < (hi - lo) / 2 then some (lo + (hi - lo) / 2, d, d) else none   -- grainsize ≥ 1 is asserted by blocked_range
  else none

theorem splitOf_bounds {g : Nat} {static : Bool} {lo hi d mid dl dr : Nat}
    (h : splitOf g static lo hi d = some (mid, dl, dr)) : lo < mid ∧ mid < hi := by
  unfold splitOf at h
  split at h
  · split at h
    · split at h
      · split at h
        · split at h
          · simp at h; omega
          · simp at h
        · simp at h
      · simp at h
    · split at h
      · simp only [Option.some.injEq, Prod.mk.injEq] at h
        omega
      · simp at h
  · simp at h

/-- the value a task with body value `v` produces for `[lo,hi)`: THE split/join tree -/
def detTerm (g : Nat) (static : Bool) (v : Val) (lo hi d : Nat) : Val :=
  match _h : splitOf g static lo hi d with
  | some (mid, dl, dr) => .join (detTerm g static v lo mid dl) (detTerm g static .init mid hi dr)
  | none => .run v lo hi
termination_by hi - lo
decreasing_by
  · have := splitOf_bounds _h; omega
  · have := splitOf_bounds _h; omega

/-- elements in operand order -/
def flat : Val → List Nat
  | .init => []
  | .run v lo hi => flat v ++ rng lo hi
  | .join a b => flat a ++ flat b

inductive Tree where
  | task (lo hi d : Nat)
  | node (ref : Nat) (rightBody : Val) (l r : Tree)
  | gone
  deriving Repr, DecidableEq, Inhabited

inductive Act where
  | offer | run | finish | fold
  deriving Repr, DecidableEq, Inhabited

structure Res where
  acc : Val
  tree : Tree
  dec : Bool
  ok : Bool
  deriving Repr

def noop (acc : Val) (t : Tree) : Res := ⟨acc, t, false, false⟩
def decRef (ref : Nat) (dec : Bool) : Nat := if dec then ref - 1 else ref

def stepAt (g : Nat) (static : Bool) (acc : Val) (p : List Bool) (a : Act) (t : Tree) : Res :=
  match p, t with
  | [], .task lo hi d =>
      match a with
      | .offer =>
          match splitOf g static lo hi d with
          | some (mid, dl, dr) => ⟨acc, .node 2 .init (.task lo mid dl) (.task mid hi dr), false, true⟩
          | none => noop acc (.task lo hi d)
      | .run =>
          if lo < hi ∧ splitOf g static lo hi d = none then ⟨.run acc lo hi, .task hi hi d, false, true⟩
          else noop acc (.task lo hi d)
      | .finish => if lo = hi then ⟨acc, .gone, true, true⟩ else noop acc (.task lo hi d)
      | .fold => noop acc (.task lo hi d)
  | _ :: _, .task lo hi d => noop acc (.task lo hi d)
  | _, .gone => noop acc .gone
  | [], .node ref rb l r =>
      if a = .fold ∧ ref = 0 then ⟨.join acc rb, .gone, true, true⟩ else noop acc (.node ref rb l r)
  | false :: p, .node ref rb l r =>
      let res := stepAt g static acc p a l
      ⟨res.acc, .node (decRef ref res.dec) rb res.tree r, false, res.ok⟩
  | true :: p, .node ref rb l r =>
      let res := stepAt g static rb p a r
      ⟨acc, .node (decRef ref res.dec) res.acc l res.tree, false, res.ok⟩

structure St where
  root : Val := .init
  tree : Tree := .gone
  deriving Repr

def init (lo hi d : Nat) : St := if lo < hi then { tree := .task lo hi d } else {}

def step (g : Nat) (static : Bool) (s : St) (pa : List Bool × Act) : St :=
  let res := stepAt g static s.root pa.1 pa.2 s.tree
  { root := res.acc, tree := res.tree }

def run (g : Nat) (static : Bool) (lo hi d : Nat) (sched : List (List Bool × Act)) : St :=
  sched.foldl (step g static) (init lo hi d)

/-- canonical text of a value (the harness prints the same from a recording body) -/
def Val.show : Val → String
  | .init => "I"
  | .run .init lo hi => s!"[{lo},{hi})"
  | .run v lo hi => s!"(R {v.show} {lo} {hi})"
  | .join a b => s!"({a.show} {b.show})"

/-- a schedule that completes the reduction: always the rightmost live position first (the opposite
of the serial LIFO order, to show the result does not depend on it); `rightFirst = false` picks the
leftmost. -/
def pick (g : Nat) (static : Bool) (rightFirst : Bool) : Tree → List Bool → Option (List Bool × Act)
  | .task lo hi d, p =>
      if lo = hi then some (p, .finish)
      else match splitOf g static lo hi d with
        | some _ => some (p, .offer)
        | none => some (p, .run)
  | .node ref _ l r, p =>
      if ref = 0 then some (p, .fold)
      else if rightFirst then
        match pick g static rightFirst r (p ++ [true]) with
        | some x => some x
        | none => pick g static rightFirst l (p ++ [false])
      else
        match pick g static rightFirst l (p ++ [false]) with
        | some x => some x
        | none => pick g static rightFirst r (p ++ [true])
  | .gone, _ => none

def autoSched (g : Nat) (static : Bool) (rightFirst : Bool) : Nat → St → List (List Bool × Act) → List (List Bool × Act)
  | 0, _, acc => acc.reverse
  | fuel + 1, s, acc =>
      match pick g static rightFirst s.tree [] with
      | some pa => autoSched g static rightFirst fuel (step g static s pa) (pa :: acc)
      | none => acc.reverse

end Det

/-! ## 3. `QSort`: parallel_sort — quick_sort_range::split_range, the serial probe and the parallel pretest

Keys are `Nat`s, the comparator is any `Nat → Nat → Bool`.  `split_range` works on the sub-array
`[begin, begin+size)`, modelled as an `Array Nat` of its own.  Accesses the code performs outside the
array (possible only for comparators that are not strict weak orders, or for `size = 0`) make the
model return `none`. -/
namespace QS

abbrev Cmp := Nat → Nat → Bool

/-- `array[k]` -/
def el (a : Array Nat) (k : Nat) : Nat := a.getD k 0

/-- `quick_sort_range::median_of_three(array, l, m, r)` -/
def med3 (lt : Cmp) (a : Array Nat) (l m r : Nat) : Nat :=
  if lt (el a l) (el a m) then (if lt (el a m) (el a r) then m else (if lt (el a l) (el a r) then r else l))
  else (if lt (el a r) (el a m) then m else (if lt (el a r) (el a l) then r else l))

/-- `pseudo_median_of_nine(array, range)` with `offset = range.size / 8` -/
def pmed9 (lt : Cmp) (a : Array Nat) : Nat :=
  let o := a.size / Generated.C06.medianDivisor
  med3 lt a (med3 lt a 0 o (o * 2)) (med3 lt a (o * 3) (o * 4) (o * 5)) (med3 lt a (o * 6) (o * 7) (a.size - 1))

/-- `do { --j; } while( comp(*first_element, array[j]) );` started with the given `j`;
`none` = `--j` on `j == 0` (the loop left the array) -/
def scanDown (lt : Cmp) (a : Array Nat) : Nat → Option Nat
  | 0 => none
  | j + 1 => if lt (el a 0) (el a j) then scanDown lt a j else some j

/-- `do { if( i == j ) goto partition; ++i; } while( comp(array[i], *first_element) );`
returns the new `i` and whether the loop left through the `goto`; `d` = `j - i` iterations at most -/
def scanUpF (lt : Cmp) (a : Array Nat) : Nat → Nat → Nat × Bool
  | 0, i => (i, true)                                  -- i == j: goto partition
  | d + 1, i => if lt (el a (i + 1)) (el a 0) then scanUpF lt a d (i + 1) else (i + 1, false)

def scanUp (lt : Cmp) (a : Array Nat) (j : Nat) (i : Nat) : Nat × Bool := scanUpF lt a (j - i) i

/-- the `for(;;)` loop of `split_range`; returns the array and `j` at label `partition`.
`fuel` = number of iterations allowed (the array size suffices: `j` strictly decreases). -/
def partLoop (lt : Cmp) : Nat → Array Nat → Nat → Nat → Option (Array Nat × Nat)
  | 0, _, _, _ => none
  | fuel + 1, a, i, j =>
      match scanDown lt a j with
      | none => none
      | some j' =>
          if j' < i then none            -- __TBB_ASSERT( i <= j, "bad ordering relation?" )
          else
            let (i', viaGoto) := scanUp lt a j' i
            if viaGoto then some (a, j')
            else if i' = j' then some (a, j')
            else partLoop lt fuel (a.swapIfInBounds i' j') i' j'

/-- `split_range(range)`: returns the permuted array and the pivot position `j`; the old range keeps
`[0, j)`, the new range gets `[j+1, size)` (`new_range_size = size - (j+1)`), the pivot `array[j]` is in neither. -/
def splitRange (lt : Cmp) (a : Array Nat) : Option (Array Nat × Nat) :=
  if a.size = 0 then none
  else
    let m := pmed9 lt a
    let a1 := if m ≠ 0 then a.swapIfInBounds 0 m else a
    match partLoop lt a1.size a1 0 a1.size with
    | none => none
    | some (a2, j) => some (a2.swapIfInBounds j 0, j)


/-! ### the same code with the sequence of comparator calls `(first argument, second argument)` recorded (for the white-box
comparison-trace differential; the driver also checks at run time that the traced version computes `splitRange`) -/

def med3T (lt : Cmp) (a : Array Nat) (l m r : Nat) : Nat × List (Nat × Nat) :=
  if lt (el a l) (el a m) then
    (if lt (el a m) (el a r) then (m, [(el a l, el a m), (el a m, el a r)])
     else (if lt (el a l) (el a r) then r else l, [(el a l, el a m), (el a m, el a r), (el a l, el a r)]))
  else
    (if lt (el a r) (el a m) then (m, [(el a l, el a m), (el a r, el a m)])
     else (if lt (el a r) (el a l) then r else l, [(el a l, el a m), (el a r, el a m), (el a r, el a l)]))

/-- the three inner medians are function arguments (their evaluation order is unspecified in C++): their comparisons are
returned separately from those of the outer median -/
def pmed9T (lt : Cmp) (a : Array Nat) : Nat × List (Nat × Nat) × List (Nat × Nat) :=
  let o := a.size / Generated.C06.medianDivisor
  let m1 := med3T lt a 0 o (o * 2)
  let m2 := med3T lt a (o * 3) (o * 4) (o * 5)
  let m3 := med3T lt a (o * 6) (o * 7) (a.size - 1)
  let m := med3T lt a m1.1 m2.1 m3.1
  (m.1, m1.2 ++ m2.2 ++ m3.2, m.2)

def scanDownT (lt : Cmp) (a : Array Nat) : Nat → Option Nat × List (Nat × Nat)
  | 0 => (none, [])
  | j + 1 =>
      if lt (el a 0) (el a j) then
        let r := scanDownT lt a j
        (r.1, (el a 0, el a j) :: r.2)
      else (some j, [(el a 0, el a j)])

def scanUpFT (lt : Cmp) (a : Array Nat) : Nat → Nat → (Nat × Bool) × List (Nat × Nat)
  | 0, i => ((i, true), [])
  | d + 1, i =>
      if lt (el a (i + 1)) (el a 0) then
        let r := scanUpFT lt a d (i + 1)
        (r.1, (el a (i + 1), el a 0) :: r.2)
      else ((i + 1, false), [(el a (i + 1), el a 0)])

def partLoopT (lt : Cmp) : Nat → Array Nat → Nat → Nat → Option (Array Nat × Nat) × List (Nat × Nat)
  | 0, _, _, _ => (none, [])
  | fuel + 1, a, i, j =>
      let sd := scanDownT lt a j
      match sd.1 with
      | none => (none, sd.2)
      | some j' =>
          if j' < i then (none, sd.2)
          else
            let su := scanUpFT lt a (j' - i) i
            let (i', viaGoto) := su.1
            if viaGoto then (some (a, j'), sd.2 ++ su.2)
            else if i' = j' then (some (a, j'), sd.2 ++ su.2)
            else
              let r := partLoopT lt fuel (a.swapIfInBounds i' j') i' j'
              (r.1, sd.2 ++ su.2 ++ r.2)

/-- `split_range` with its comparison trace: (result, comparisons of the three inner medians, all later comparisons in order) -/
def splitRangeT (lt : Cmp) (a : Array Nat) : Option (Array Nat × Nat) × List (Nat × Nat) × List (Nat × Nat) :=
  if a.size = 0 then (none, [], [])
  else
    let pm := pmed9T lt a
    let m := pm.1
    let a1 := if m ≠ 0 then a.swapIfInBounds 0 m else a
    let r := partLoopT lt a1.size a1 0 a1.size
    match r.1 with
    | none => (none, pm.2.1, pm.2.2 ++ r.2)
    | some (a2, j) => (some (a2.swapIfInBounds j 0, j), pm.2.1, pm.2.2 ++ r.2)

/-- `parallel_sort`: `if (end - begin < min_parallel_size) std::sort(…) else parallel_quick_sort(…)` (for `end > begin`) -/
def serialPath (n : Nat) : Bool := decide (n < Generated.C06.minParallelSize)

/-- `quick_sort_range::is_divisible()` -/
def isDivisible (size : Nat) : Bool := decide (size ≥ Generated.C06.sortGrainsize)

/-- where parallel_for (auto_partitioner) chose to split a quick_sort_range: the oracle -/
inductive Dec where
  | leaf
  | split (l r : Dec)
  deriving Repr, Inhabited

/-- `do_parallel_quick_sort`: the task tree of `parallel_for(quick_sort_range, quick_sort_body, auto_partitioner)`
under the split oracle `d`; leaves run `leafSort` (= `std::sort(begin, begin+size, comp)`).
A range is split only if `is_divisible()`. `none` = `split_range` left the array. -/
def psort (lt : Cmp) (leafSort : Array Nat → Array Nat) : Dec → Array Nat → Option (Array Nat)
  | .leaf, a => some (leafSort a)
  | .split dl dr, a =>
      if isDivisible a.size then
        match splitRange lt a with
        | none => none
        | some (a', j) =>
            match psort lt leafSort dl (a'.extract 0 j), psort lt leafSort dr (a'.extract (j + 1) a'.size) with
            | some l, some r => some (l ++ #[el a' j] ++ r)
            | _, _ => none
      else some (leafSort a)

/-- the serial probe of `parallel_quick_sort`, all of it GENERATED from the source text:
`for (k = begin + probeStart; k != begin + probeEnd; ++k) if (comp(*(k + probeArg1), *(k + probeArg2))) …`
(in the source: `k = begin`, bound `begin + serial_cutoff`, test `comp(*(k + 1), *k)`);
`true` = the test fired for some `k`, i.e. the code goes on to `do_parallel_quick_sort` -/
def serialProbe (lt : Cmp) (a : Array Nat) : Bool :=
  (List.range' Generated.C06.probeStart (Generated.C06.probeEnd - Generated.C06.probeStart)).any
    (fun k => lt (el a (k + Generated.C06.probeArg1)) (el a (k + Generated.C06.probeArg2)))

/-- the comparisons `(index of first argument, index of second argument)` the serial probe performs, in order,
up to and including the first one that fires -/
def probeTrace (lt : Cmp) (a : Array Nat) : List (Nat × Nat) :=
  go (List.range' Generated.C06.probeStart (Generated.C06.probeEnd - Generated.C06.probeStart))
where
  go : List Nat → List (Nat × Nat)
    | [] => []
    | k :: ks =>
        (k + Generated.C06.probeArg1, k + Generated.C06.probeArg2) ::
          (if lt (el a (k + Generated.C06.probeArg1)) (el a (k + Generated.C06.probeArg2)) then [] else go ks)

/-- first index handed to the parallel pretest, GENERATED: `blocked_range(k + 1, end)` with `k` = the probe loop's final
value (or an absolute `begin + …` expression, should the source ever say so) -/
def pretestBegin : Nat := Generated.C06.pretestBegin

/-! ### quick_sort_pretest_body: chunks of `[pretestBegin, n)` run concurrently; shared state = the
context's cancellation flag.  One step = one loop iteration of one chunk. -/
structure Chunk where
  lo : Nat          -- range.begin()
  hi : Nat          -- range.end()
  k : Nat           -- loop variable
  stopped : Bool := false   -- left the loop through `break`
  deriving Repr, DecidableEq, Inhabited

structure PSt where
  cancelled : Bool := false
  chunks : List Chunk := []
  deriving Repr

/-- one iteration of `for (k = range.begin(); k != my_end; ++k, ++i)` -/
def pretestIter (lt : Cmp) (a : Array Nat) (cancelled : Bool) (c : Chunk) : Bool × Chunk :=
  if c.stopped ∨ c.k ≥ c.hi then (cancelled, c)
  else if (c.k - c.lo) % Generated.C06.pretestPoll = 0 ∧ cancelled then (cancelled, { c with stopped := true })
  else if lt (el a (c.k - 1 + Generated.C06.pretestArg1)) (el a (c.k - 1 + Generated.C06.pretestArg2)) then
    (true, { c with stopped := true })   -- `if (comp(*(k), *(k - 1))) { cancel_group_execution(); break; }` (GENERATED argument offsets)
  else (cancelled, { c with k := c.k + 1 })

def pretestStep (lt : Cmp) (a : Array Nat) (s : PSt) (t : Nat) : PSt :=
  match s.chunks[t]? with
  | none => s
  | some c =>
      let (f, c') := pretestIter lt a s.cancelled c
      { cancelled := f, chunks := s.chunks.set t c' }

def pretestInit (chunks : List (Nat × Nat)) : PSt :=
  { chunks := chunks.map (fun c => { lo := c.1, hi := c.2, k := c.1 }) }

def pretestRun (lt : Cmp) (a : Array Nat) (chunks : List (Nat × Nat)) (sched : List Nat) : PSt :=
  sched.foldl (pretestStep lt a) (pretestInit chunks)

/-- all chunk bodies have returned -/
def pretestDone (s : PSt) : Bool := s.chunks.all (fun c => c.stopped || decide (c.k ≥ c.hi))

/-- `chunks` tile `[lo, hi)` (what parallel_for guarantees, C05) -/
def tiles : Nat → List (Nat × Nat) → Nat → Prop
  | lo, [], hi => lo = hi
  | lo, (a, b) :: rs, hi => a = lo ∧ a < b ∧ tiles b rs hi

instance instDecidableTiles : ∀ lo rs hi, Decidable (tiles lo rs hi)
  | lo, [], hi => by unfold tiles; infer_instance
  | lo, (a, b) :: rs, hi => by
      unfold tiles
      have := instDecidableTiles b rs hi
      infer_instance

/-- insertion sort, used as the executable stand-in for `std::sort` on leaves in the driver -/
def insertSorted (lt : Cmp) (x : Nat) : List Nat → List Nat
  | [] => [x]
  | y :: ys => if lt x y then x :: y :: ys else y :: insertSorted lt x ys

def isort (lt : Cmp) (a : Array Nat) : Array Nat := (a.toList.foldr (insertSorted lt) []).toArray

end QS

/-! ## 4. `Scan`: parallel_scan's two passes

Pass 1 (`start_scan` tasks, `finish_scan` continuations) builds a tree of `sum_node`s; pass 2
(`sum_node::execute`, `final_sum::execute`) walks the kept part of it.  Bodies are heap objects
(`final_sum::m_body`, ids into `Ctx.heap`), values in the free monoid.

What is schedule dependent in the code is: `is_stolen(ed)` of a right child's first `execute` (`Oracle.stolen lo hi`,
keyed by the task's range), `m_partition.should_execute_range(ed)` (`Oracle.exec lo hi`; always `false` for
simple_partitioner), and WHEN a right child runs relative to its left sibling (`Oracle.early lo hi`), which decides
what it reads in `m_parent->m_result.m_left_sum`:
  * not `early`: a right child that is not stolen runs on the thread that finished the left task, and
    `m_left_sum == &m_body` can only have been written by a leaf that ran sequentially on the same body, so
    evaluating the left subtree to completion first (big-step) gives the value the code reads;
  * `early` (re-entrant bodies): a leaf body of the left subtree re-enters the scheduler (task_group::wait, a nested
    parallel algorithm) and the dispatch loop pops the right child from the owner's deque: same thread, NOT stolen,
    left sibling unfinished, `m_left_sum` still null (the slot is written once, by the rightmost leaf of the left
    subtree when it completes).  The child is evaluated FIRST, in the context its parent had when it split.
The `treat_as_stolen` expression itself is `Generated.C06.scanTreatAsStolen`, translated from the source text.
Ranges are `blocked_range`s with grain `g` (midpoint split, recomputed identically in pass 2). -/
namespace Scan

/-- bodies (`final_sum::m_body` objects and the user's body) are heap indices -/
abbrev BodyId := Nat

inductive Ev where
  | split (z b : Nat)                                  -- `final_sum(b, split())` / `Body(b, split())`
  | pre (b : Nat) (lo hi : Nat)                        -- `b(range, pre_scan_tag())`
  | fin (b : Nat) (lo hi : Nat) (incoming : List Nat)  -- `b(range, final_scan_tag())`, with b's value before
  | rjoin (b a : Nat)                                  -- `b.reverse_join(a)`
  | assign (b a : Nat)                                 -- `b.assign(a)`
  deriving Repr, DecidableEq, Inhabited

/-- the kept `sum_node`s (what `m_return_slot` hands to pass 2) -/
inductive STree where
  | nil
  | node (lo hi : Nat) (leftSum : Option Nat) (leftIsFinal : Bool) (l r : STree)
  deriving Repr, DecidableEq, Inhabited

structure Oracle where
  stolen : Nat → Nat → Bool
  exec : Nat → Nat → Bool
  /-- RE-ENTRANT BODIES: the spawned right child with range `[lo,hi)` is popped from its owner's deque by the
  owner itself while a leaf body of its left sibling's subtree is still running (that body waits on a
  task_group / runs another parallel algorithm, the wait's dispatch loop takes the newest local task):
  the child is NOT stolen (`is_stolen(ed)` is false unless `stolen` says otherwise), its left sibling is
  unfinished, `m_parent->m_result.m_left_sum` is still null, and it runs BEFORE the rest of the left subtree. -/
  early : Nat → Nat → Bool := fun _ _ => false

structure Ctx where
  heap : List (List Nat) := []
  log : List Ev := []
  /-- null `m_left_sum` / `*m_sum_slot` dereferenced, or the two children of a `sum_node` given the same body -/
  err : Bool := false
  deriving Repr, DecidableEq, Inhabited

def Ctx.val (c : Ctx) (b : Nat) : List Nat := c.heap.getD b []

def Ctx.setVal (c : Ctx) (b : Nat) (v : List Nat) : Ctx := { c with heap := c.heap.set b v }

/-- `new Body(b, split())`: a fresh identity body -/
def Ctx.alloc (c : Ctx) (src : Nat) : Ctx × Nat :=
  ({ c with heap := c.heap ++ [[]], log := c.log ++ [.split c.heap.length src] }, c.heap.length)

def Ctx.preScan (c : Ctx) (b : Nat) (lo hi : Nat) : Ctx :=
  { (c.setVal b (c.val b ++ rng lo hi)) with log := c.log ++ [.pre b lo hi] }

def Ctx.finalScan (c : Ctx) (b : Nat) (lo hi : Nat) : Ctx :=
  { (c.setVal b (c.val b ++ rng lo hi)) with log := c.log ++ [.fin b lo hi (c.val b)] }

/-- `b.reverse_join(a)`: `b := a ⊕ b` -/
def Ctx.rjoin (c : Ctx) (b a : Nat) : Ctx :=
  { (c.setVal b (c.val a ++ c.val b)) with log := c.log ++ [.rjoin b a] }

def Ctx.assign (c : Ctx) (b a : Nat) : Ctx :=
  { (c.setVal b (c.val a)) with log := c.log ++ [.assign b a] }

def Ctx.fail (c : Ctx) : Ctx := { c with err := true }

structure R1 where
  ctx : Ctx
  /-- what the subtree stored through `m_return_slot` -/
  ret : STree
  /-- what the subtree stored through `m_sum_slot` (if the task had one) -/
  sum : Option Nat
  /-- `m_parent->m_right_zombie` as set by the task -/
  zombie : Option Nat
  deriving Repr

def mid (lo hi : Nat) : Nat := lo + (hi - lo) / 2

/-- `finish_scan::execute` on the results of the two children (`Rr.ctx` is the context after both ran) -/
def finishRes (lo hi : Nat) (fin' hasSS : Bool) (Lr Rr : R1) (z : Option Nat) : R1 :=
  ⟨(if Rr.zombie.isSome && hasSS then
      match Rr.sum, Lr.sum with
      | some rs, some ls => Rr.ctx.rjoin rs ls       -- `(*m_sum_slot)->reverse_join(*m_result.m_left_sum)`
      | _, _ => Rr.ctx.fail
    else Rr.ctx),
   (if Rr.zombie.isSome || Rr.ret != .nil then STree.node lo hi Lr.sum (fin' && (Lr.ret == .nil)) Lr.ret Rr.ret else .nil),
   (if hasSS then Rr.sum else none), z⟩

/-- the life of one `start_scan` task that starts with range `[lo,hi)` (big-step: including the
`finish_scan` continuations it creates). `pls` = `m_parent->m_result.m_left_sum` as read by a right child.
The guard is the GENERATED one (`Generated.C06.scanTreatAsStolen`, translated from the source text of
`start_scan::execute` on every run); a really stolen task whose guard evaluation reads `m_left_sum`
(`Generated.C06.scanGuardReadsLeftSum`, from the short-circuit structure of the same expression) races with the
thread that writes it, and a task that is not a right child must not dereference `m_parent` at all (the root has
none): both flagged as `err`.
A right child with `o.early` runs FIRST (nested inside its left sibling's first leaf body, before that body
has added anything), reading a null `m_left_sum`; otherwise the left subtree is evaluated to completion first. -/
def scanTask (g : Nat) (o : Oracle) : Nat → Nat → Nat → Nat → Bool → Bool → Bool → Option Nat → Ctx → R1
  | fuel, lo, hi, body, isFinal, hasSS, isRight, pls, c =>
    let stolen := o.stolen lo hi
    let neq := (some body != pls)
    let treatAsStolen := Generated.C06.scanTreatAsStolen isRight stolen neq
    let c := if (stolen || !isRight) && Generated.C06.scanGuardReadsLeftSum isRight stolen neq then c.fail else c
    -- `right_zombie = new final_sum(m_body, alloc); m_body = *right_zombie; m_is_final = false`
    let (c, body, isFinal, zombie) :=
      if treatAsStolen then
        let (c', z) := c.alloc body
        (c', z, false, some z)
      else (c, body, isFinal, none)
    let leafCond := (isRight && !treatAsStolen) || !(decide (g < hi - lo)) || o.exec lo hi
    match fuel with
    | 0 =>
        let c := if isFinal then c.finalScan body lo hi else if hasSS then c.preScan body lo hi else c
        ⟨c, .nil, if hasSS then some body else none, zombie⟩
    | fuel + 1 =>
      if leafCond then
        let c := if isFinal then c.finalScan body lo hi else if hasSS then c.preScan body lo hi else c
        ⟨c, .nil, if hasSS then some body else none, zombie⟩
      else if o.early (mid lo hi) hi then
        -- re-entrant body: the right child is run by its owner before the left part has done anything
        let R := scanTask g o fuel (mid lo hi) hi body isFinal hasSS true none c
        let L := scanTask g o fuel lo (mid lo hi) body isFinal true false none R.ctx
        finishRes lo hi isFinal hasSS L ⟨L.ctx, R.ret, R.sum, R.zombie⟩ zombie
      else
        -- `result = new sum_node(m_range, m_is_final, …)`, `new_parent = new finish_scan(…)`, right child
        -- split off; this task goes on as the left child with `m_sum_slot = &result->m_left_sum`
        let L := scanTask g o fuel lo (mid lo hi) body isFinal true false none c
        let R := scanTask g o fuel (mid lo hi) hi body isFinal hasSS true L.sum L.ctx
        finishRes lo hi isFinal hasSS L R zombie

/-- `final_sum::execute` of a body turned into a leaf task by `finish_construction` -/
def finalLeaf (c : Ctx) (b : Nat) (lo hi : Nat) (stuffLast : Bool) : Ctx :=
  let c := c.finalScan b lo hi
  if stuffLast then c.assign 0 b else c

def STree.isNil : STree → Bool
  | .nil => true
  | _ => false

/-- pass 2: `sum_node::execute` (first invocation) and everything below it -/
def exec2 : STree → Nat → Option Nat → Bool → Ctx → Ctx
  | .nil, _, _, _, c => c
  | .node lo hi ls lif l r, body, inc, stuffLast, c =>
      match ls with
      | none => c.fail
      | some ls =>
        let c1 := match inc with
          | some i => c.rjoin ls i            -- `m_left_sum->reverse_join(*m_incoming)`
          | none => c
        let c2 := if !lif && body == ls then c1.fail else c1
        -- right child: `create_child(Range(m_range,split()), *m_left_sum, m_right, m_left_sum, m_stuff_last)`:
        -- a kept `m_right` sum_node, or `m_left_sum` itself turned into the final_sum leaf task
        let c3 := if r.isNil then finalLeaf c2 ls (mid lo hi) hi stuffLast else exec2 r ls (some ls) stuffLast c2
        -- left child: `m_left_is_final ? nullptr : create_child(m_range, *m_body, m_left, m_incoming, nullptr)`
        if lif then c3
        else if l.isNil then finalLeaf c3 body lo (mid lo hi) false
        else exec2 l body inc false c3

/-- `start_scan::run(range, body, partitioner)`: user's body is object 0, `temp_body` object 1 -/
def scan (g : Nat) (o : Oracle) (lo hi : Nat) : Ctx :=
  let c0 : Ctx := { heap := [[]] }
  if lo < hi then
    let (c, t) := c0.alloc 0
    let c := c.rjoin t 0
    let r := scanTask g o (hi - lo) lo hi t true false false none c
    if r.ret.isNil then r.ctx.assign 0 t          -- `temp_body.assign_to(body)`
    else exec2 r.ret t none true r.ctx
  else c0

def finals (log : List Ev) : List (Nat × Nat × List Nat) :=
  log.filterMap (fun e => match e with | .fin _ lo hi inc => some (lo, hi, inc) | _ => none)

/-- oracle given by explicit lists of ranges (driver) -/
def oracleOf (stolen exec : List (Nat × Nat)) (early : List (Nat × Nat) := []) : Oracle :=
  { stolen := fun lo hi => stolen.contains (lo, hi), exec := fun lo hi => exec.contains (lo, hi),
    early := fun lo hi => early.contains (lo, hi) }

end Scan

/-! ## line-protocol drivers -/
namespace Drv
open Proto

def showList (xs : List Nat) : String :=
  match xs with
  | [] => "e"
  | x :: _ =>
      let last := xs.getLast?.getD x
      if xs == rng x (last + 1) then s!"{x}..{last}" else "?" ++ " ".intercalate (xs.map toString)

def pathStr (p : List Bool) : String := if p.isEmpty then "-" else String.ofList (p.map fun b => if b then 'R' else 'L')

/-! ### reduce: replay of an observed event log (lazy placement of the unobservable steps) -/
namespace RD
open Red

def showEv : Ev → String
  | .split z b => s!"S {z} {b}"
  | .run b lo hi => s!"R {b} {lo} {hi}"
  | .join b z => s!"J {b} {z}"

/-- first position (in-order) of a live task satisfying `q lo hi isRight started` -/
def findTask (q : Nat → Nat → Bool → Bool → Bool) : Tree → List Bool → Option (List Bool)
  | .task lo hi _ isR st, p => if q lo hi isR st then some p else none
  | .node _ _ _ l r, p =>
      match findTask q l (p ++ [false]) with
      | some x => some x
      | none => findTask q r (p ++ [true])
  | .gone, _ => none

def findZombie (z : BodyId) : Tree → List Bool → Option (List Bool)
  | .node _ _ zb l r, p =>
      if (zb.map (·.id)) == some z then some p
      else match findZombie z l (p ++ [false]) with
        | some x => some x
        | none => findZombie z r (p ++ [true])
  | _, _ => none

/-- an enabled `finish` / `fold` inside the subtree (the unobservable steps of `fold_tree`) -/
def pickSettle : Tree → List Bool → Option (List Bool × Act)
  | .task lo hi _ _ st, p => if st && lo == hi then some (p, .finish) else none
  | .node ref _ _ l r, p =>
      if ref = 0 then some (p, .fold)
      else match pickSettle l (p ++ [false]) with
        | some x => some x
        | none => pickSettle r (p ++ [true])
  | .gone, _ => none

def settle : Nat → St → List Bool → St
  | 0, s, _ => s
  | fuel + 1, s, p =>
      match sub s.tree p with
      | none => s
      | some t =>
        match pickSettle t p with
        | some pa =>
            -- a join performed while settling is an event the log did not contain at this point: only
            -- zombie-less folds and finishes are silent
            let s' := step s pa
            if s'.ctx.log.length == s.ctx.log.length then settle fuel s' p else s
        | none => s

def fuelOf (s : St) : Nat := 4 * (s.ctx.log.length + 16) + 100000

/-- apply one action that must be enabled and must emit exactly `expect` (or nothing if `none`) -/
def applyExpect (s : St) (pa : List Bool × Act) (expect : Option Ev) : St × String :=
  if !enabled s pa then (s, s!"FAIL not-enabled {pathStr pa.1}")
  else
    let s' := step s pa
    let emitted := s'.ctx.log.drop s.ctx.log.length
    match expect, emitted with
    | none, [] => (s', "ok")
    | some e, [e'] => if e == e' then (s', "ok") else (s', s!"FAIL model-event {showEv e'} observed {showEv e}")
    | none, e' :: _ => (s', s!"FAIL model-event {showEv e'} observed none")
    | some e, [] => (s', s!"FAIL model-event none observed {showEv e}")
    | some e, e' :: _ => (s', s!"FAIL model-event {showEv e'} observed {showEv e}")

def dropLast (p : List Bool) : List Bool := p.dropLast

/-- the task at `p` shows its first event and no body split was observed before it: if it has not started
yet (a spawned right child), everything below its left sibling must be finished, and its `execute` starts
without splitting the body -/
def startSilently (s : St) (p : List Bool) : St × String :=
  let started := match sub s.tree p with
    | some (.task _ _ _ _ st) => st
    | _ => true
  if started then (s, "ok")
  else
    let s0 := settle (fuelOf s) s (dropLast p ++ [false])
    let (s1, r1) := applyExpect s0 (p, .start) none
    (s1, if r1 == "ok" then r1 else r1 ++ " (right child starts without a split while its left sibling is unfinished)")

def drive (s : St) (ws : List String) : St × String :=
  match ws with
  | ["init", lo, hi] =>
      match nat? lo, nat? hi with
      | some lo, some hi => (init lo hi, "ok")
      | _, _ => (s, "bad-op")
  | ["X", lo, m, hi] =>
      match nat? lo, nat? m, nat? hi with
      | some lo, some m, some hi =>
          match findTask (fun l h _ _ => l == lo && h == hi) s.tree [] with
          | some p =>
              let (s1, r1) := startSilently s p
              if r1 != "ok" then (s1, r1) else applyExpect s1 (p, .offer (hi - m)) none
          | none => (s, s!"FAIL no task with range [{lo},{hi})")
      | _, _, _ => (s, "bad-op")
  | ["S", z, b, lo] =>
      match nat? z, nat? b, nat? lo with
      | some z, some b, some lo =>
          match findTask (fun l _ isR st => !st && isR && l == lo) s.tree [] with
          | some p => applyExpect s (p, .start) (some (.split z b))
          | none => (s, s!"FAIL no spawned right child starting at {lo}")
      | _, _, _ => (s, "bad-op")
  | ["R", b, lo, hi] =>
      match nat? b, nat? lo, nat? hi with
      | some b, some lo, some hi =>
          match findTask (fun l h _ _ => l == lo && decide (hi ≤ h) && decide (lo < hi)) s.tree [] with
          | none => (s, s!"FAIL no task whose range starts at {lo}")
          | some p =>
              let (s1, r1) := startSilently s p
              if r1 != "ok" then (s1, r1) else applyExpect s1 (p, .run (hi - lo)) (some (.run b lo hi))
      | _, _, _ => (s, "bad-op")
  | ["J", b, z] =>
      match nat? b, nat? z with
      | some b, some z =>
          match findZombie z s.tree [] with
          | none => (s, s!"FAIL no tree node holds zombie {z}")
          | some p =>
              let s0 := settle (fuelOf s) s p
              applyExpect s0 (p, .fold) (some (.join b z))
      | _, _ => (s, "bad-op")
  | ["end"] =>
      let s0 := settle (fuelOf s) s []
      (s0, s!"done gone={showBool (s0.tree == .gone)} wait={s0.waitRef} err={showBool s0.ctx.err} value={showList s0.root.val}")
  | _ => (s, "bad-op")

def driver : Proto.Driver := { σ := St, init := {}, step := drive }

end RD

/-! ### sort: comparators of the E-PURE harness -/
def parseCmp (w : String) : Option QS.Cmp :=
  if w == "lt" then some (fun x y => decide (x < y))
  else if w == "gt" then some (fun x y => decide (x > y))
  else if w.startsWith "div" then (nat? (w.drop 3).toString).bind fun d => if d = 0 then none else some (fun x y => decide (x / d < y / d))
  else if w.startsWith "mod" then (nat? (w.drop 3).toString).bind fun m => if m = 0 then none else some (fun x y => decide (x % m < y % m))
  -- a strict PARTIAL order whose incomparability is not transitive (not a strict weak ordering): x precedes y iff y - x > k
  else if w.startsWith "gap" then (nat? (w.drop 3).toString).bind fun k => some (fun x y => decide (x + k < y))
  else none

def parseArr (ws : List String) : Option (Array Nat) :=
  match ws with
  | n :: rest =>
      match nat? n, nats? rest with
      | some n, some xs => if xs.length = n then some xs.toArray else none
      | _, _ => none
  | [] => none

def showArr (a : Array Nat) : String := showNats a.toList

/-- one sequential run of a pretest chunk `[lo,hi)` with the flag initially clear:
returns (cancelled, number of comparisons) -/
def pretestChunk (lt : QS.Cmp) (a : Array Nat) (lo hi : Nat) : Bool × Nat :=
  let s := (List.range (hi - lo + 1)).foldl (fun s _ => QS.pretestStep lt a s 0) (QS.pretestInit [(lo, hi)])
  match s.chunks with
  | c :: _ => (s.cancelled, if s.cancelled then c.k - lo + 1 else c.k - lo)
  | [] => (s.cancelled, 0)

/-- the pretest on ONE thread (chunks in ascending order): the comparisons `(index of first argument, index of second
argument)` up to and including the first that fires (at most `fuel` of them), and whether any fires at all -/
def pretestSeq (lt : QS.Cmp) (a : Array Nat) (fuel : Nat) : List (Nat × Nat) × Bool :=
  let ks := List.range' QS.pretestBegin (a.size - QS.pretestBegin)
  (go ks fuel, ks.any (fires ·))
where
  fires (k : Nat) : Bool :=
    lt (QS.el a (k - 1 + Generated.C06.pretestArg1)) (QS.el a (k - 1 + Generated.C06.pretestArg2))
  go : List Nat → Nat → List (Nat × Nat)
    | [], _ => []
    | _, 0 => []
    | k :: ks, fuel + 1 =>
        (k - 1 + Generated.C06.pretestArg1, k - 1 + Generated.C06.pretestArg2) :: (if fires k then [] else go ks fuel)

def parsePairs : List Nat → List (Nat × Nat)
  | a :: b :: rest => (a, b) :: parsePairs rest
  | _ => []

def showScanEv (base : Nat) : Scan.Ev → String
  | .split z b => s!"S {z} {b}"
  | .pre b lo hi => s!"P {b} {lo} {hi}"
  | .fin b lo hi inc => s!"F {b} {lo} {hi} {showBool (inc == rng base lo)} {inc.length}"
  | .rjoin b a => s!"J {b} {a}"
  | .assign b a => s!"A {b} {a}"

def drive (ws : List String) : String :=
  match ws with
  | ["serial", g, lo, hi] =>
      match nat? g, nat? lo, nat? hi with
      | some g, some lo, some hi =>
          let s0 := Red.init lo hi
          let sched := Red.serialSched g (8 * (hi - lo) + 16) s0 []
          let s := sched.foldl Red.step s0
          let evs := ";".intercalate (s.ctx.log.map RD.showEv)
          s!"gone={showBool (s.tree == .gone)} value={showList s.root.val} steps={sched.length} log={evs}"
      | _, _, _ => "bad-op"
  | ["det", g, st, lo, hi, d] =>
      match nat? g, nat? st, nat? lo, nat? hi, nat? d with
      | some g, some st, some lo, some hi, some d =>
          if lo < hi then (Det.detTerm g (st != 0) .init lo hi d).show else "I"
      | _, _, _, _, _ => "bad-op"
  | ["detrun", g, st, lo, hi, d, rf] =>
      match nat? g, nat? st, nat? lo, nat? hi, nat? d, nat? rf with
      | some g, some st, some lo, some hi, some d, some rf =>
          let s0 := Det.init lo hi d
          let sched := Det.autoSched g (st != 0) (rf != 0) (8 * (hi - lo) + 16) s0 []
          let s := sched.foldl (Det.step g (st != 0)) s0
          s!"gone={showBool (s.tree == .gone)} {s.root.show}"
      | _, _, _, _, _, _ => "bad-op"
  | "split" :: c :: rest =>
      match parseCmp c, parseArr rest with
      | some lt, some a =>
          match QS.splitRange lt a with
          | some (a', j) => s!"{j} {a'.size - (j + 1)} {j + 1} {showArr a'}"
          | none => "none"
      | _, _ => "bad-op"
  | "splitt" :: c :: rest =>
      match parseCmp c, parseArr rest with
      | some lt, some a =>
          let r := QS.splitRangeT lt a
          let same := r.1 == QS.splitRange lt a
          let tr (l : List (Nat × Nat)) : String := ",".intercalate (l.map fun p => s!"{p.1}:{p.2}")
          match r.1 with
          | some (a', j) => s!"{j} {a'.size - (j + 1)} {j + 1} {showArr a'} same={showBool same} k={r.2.1.length} trace={tr (r.2.1 ++ r.2.2)}"
          | none => s!"none same={showBool same} k={r.2.1.length} trace={tr (r.2.1 ++ r.2.2)}"
      | _, _ => "bad-op"
  | "med3" :: c :: l :: m :: r :: rest =>
      match parseCmp c, nat? l, nat? m, nat? r, parseArr rest with
      | some lt, some l, some m, some r, some a =>
          if l < a.size ∧ m < a.size ∧ r < a.size then s!"{QS.med3 lt a l m r}" else "bad-op"
      | _, _, _, _, _ => "bad-op"
  | "pmed9" :: c :: rest =>
      match parseCmp c, parseArr rest with
      | some lt, some a => if a.size = 0 then "bad-op" else s!"{QS.pmed9 lt a}"
      | _, _ => "bad-op"
  | ["div", n] =>
      match nat? n with
      | some n => showBool (QS.isDivisible n)
      | none => "bad-op"
  | ["path", n] =>
      match nat? n with
      | some n => showBool (QS.serialPath n)
      | none => "bad-op"
  | "pretest" :: c :: lo :: hi :: rest =>
      match parseCmp c, nat? lo, nat? hi, parseArr rest with
      | some lt, some lo, some hi, some a =>
          if 1 ≤ lo ∧ lo ≤ hi ∧ hi ≤ a.size then
            let (f, n) := pretestChunk lt a lo hi
            s!"{showBool f} {n}"
          else "bad-op"
      | _, _, _, _ => "bad-op"
  | "pqs" :: c :: rest =>
      -- parallel_quick_sort on one thread: does it return without sorting, and its first comparisons
      match parseCmp c, parseArr rest with
      | some lt, some a =>
          if a.size > Generated.C06.probeEnd ∧ QS.pretestBegin ≤ a.size ∧ 16 ≤ a.size then
            let fired := QS.serialProbe lt a
            let (pre, cancelled) := if fired then ([], false) else pretestSeq lt a 24
            let tr := (QS.probeTrace lt a ++ pre).take 24
            s!"skipped={showBool (!fired && !cancelled)} trace={",".intercalate (tr.map fun p => s!"{p.1}:{p.2}")}"
          else "bad-op"
      | _, _ => "bad-op"
  | "probe" :: c :: rest =>
      match parseCmp c, parseArr rest with
      | some lt, some a =>
          if a.size > Generated.C06.probeEnd then s!"{showBool (QS.serialProbe lt a)} {QS.pretestBegin}" else "bad-op"
      | _, _ => "bad-op"
  | "scan" :: g :: lo :: hi :: "S" :: rest =>
      match nat? g, nat? lo, nat? hi with
      | some g, some lo, some hi =>
          let (sw, ew) := rest.span (· != "E")
          let (ew, yw) := (ew.drop 1).span (· != "Y")
          match nats? sw, nats? ew, nats? (yw.drop 1) with
          | some sn, some en, some yn =>
              let c := Scan.scan g (Scan.oracleOf (parsePairs sn) (parsePairs en) (parsePairs yn)) lo hi
              s!"err={showBool c.err} value={showList (c.val 0)} log={";".intercalate (c.log.map (showScanEv lo))}"
          | _, _, _ => "bad-op"
      | _, _, _ => "bad-op"
  | _ => "bad-op"

def driver : Proto.Driver := Proto.pureDriver drive

end Drv

end TbbVerif.C06
