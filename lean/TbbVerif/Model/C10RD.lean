/-
C10 — line-protocol driver of the refined model `HMapR` (Model/C10R.lean): replay of the access-level trace of the real
concurrent_hash_map with the real spin_rw_mutex (E-SHIM).  Every access of the implementation to a bucket / element lock
word, to my_mask, my_size, my_table and to a bucket's node_list is compared with the access the model performs next
(which word, kind, value read, value written, success).

Also: executable mirror `checkCoupled` of the coupling invariant of Proofs/C10/RInv.lean, evaluated on every replayed state.
-/
import TbbVerif.Model.C10R

namespace TbbVerif.C10R

open TbbVerif.C10 TbbVerif.Proto

/-! ## Executable mirror of the coupling invariant (Proofs/C10/RInv.lean, `Coupled`) -/

def phaseR (ph : C08.Phase) : Bool := ph == .holdR || ph == .upgWait || ph == .upgReady

/-- the C08 invariant of one lock word, evaluated -/
def c08InvB (c : C08.St) : Bool :=
  let cnt (ph : C08.Phase) := c.ths.countP (fun t => t.phase == ph)
  let isLocker (t : C08.Th) : Bool :=
    match t.ops with
    | .lock :: _ => t.phase == .idle
    | .upgrade :: _ => t.pc == .upgSlowLock || t.pc == .lockCas || t.pc == .lockOr
    | _ => false
  let nl := c.ths.countP isLocker
  c.word.r == cnt .rt + cnt .holdR + cnt .upgWait + cnt .upgReady &&
  cnt .holdW + cnt .upgWait + cnt .upgReady == (if c.word.w then 1 else 0) &&
  (!(0 < cnt .holdW + cnt .upgReady) || cnt .holdR == 0) &&
  (!(0 < cnt .upgWait + cnt .upgReady) || c.word.p) &&
  (!c.word.p || 0 < nl + cnt .upgWait + cnt .upgReady) && !c.bad

/-- spec lock `l` is what the C08 phases say -/
def lockCB (n : Nat) (l : Lock) (c : C08.St) : Bool :=
  c.ths.length == n && c08InvB c &&
  (c.ths.zipIdx).all (fun (th, i) =>
    ((th.phase == .holdW) == (l.w == some i)) && (phaseR th.phase == l.r.contains i) && !th.misuse && th.ops.length ≤ 1) &&
  l.r.eraseDups.length == l.r.length

def eholdsB (t : Th) : Option (Node × Bool) :=
  match t.acc with
  | some a => some a
  | none => if t.pc == .eRel then t.n.map (fun x => (x, true)) else none

def b0Of (t : Th) : Nat := match t.stk with | (b, _) :: _ => b | [] => 0

/-- mirror of `CurOK` -/
def curOKB (t : Th) (r : RTh) (L : LId) (op : C08.Op) (th : C08.Th) : Bool :=
  let onElem : Bool := match t.n with | some x => L == .e x | none => false
  let blkPc : Bool := t.pc == .lockBlk || (t.pc == .lockTry && r.lag)
  match op with
  | .tryLock => th.phase == .idle && ((t.pc == .lockTry && !r.lag && L == .b t.tgt) || (t.pc == .elemTry && onElem && t.op.acc == 2))
  | .tryLockShared => (th.phase == .idle || th.phase == .rt) && t.pc == .elemTry && onElem && t.op.acc != 2
  | .lock => th.phase == .idle && ((blkPc && wantW t && L == .b t.tgt) || (t.pc == .eLock && onElem))
  | .lockShared => (th.phase == .idle || th.phase == .rt) && blkPc && !wantW t && L == .b t.tgt
  | .upgrade =>
      if phaseR th.phase then
        ((t.pc == .rhUpg || t.pc == .upg || t.pc == .eUpg) && !t.stk.isEmpty && L == .b (b0Of t)) || (t.pc == .xUpg && onElem)
      else th.phase == .idle &&
        (((t.pc == .rhRelock || t.pc == .relock || t.pc == .eRelock) && L == .b t.tgt) || (t.pc == .xRelock && onElem))
  | _ => false

def checkCoupled (s : RSt) : Option String :=
  let sh := s.a.sh
  let n := s.a.ths.length
  let bs := List.range (2 ^ (sh.lvl + 1))
  let nodes : List Node := (bs.foldl (fun acc b => acc ++ sh.chainOf b) []) ++
    (s.a.ths.foldl (fun acc t => acc ++ (match t.n with | some x => [x] | none => []) ++ (match t.acc with | some (x, _) => [x] | none => [])) [])
  let fails : List String :=
    (if s.rt.length == n then [] else ["rtlen"]) ++
    (bs.filterMap (fun b => if lockCB n (sh.blk b) (s.bw b) then none else some s!"lockC b{b}")) ++
    (nodes.filterMap (fun x => if lockCB n (sh.elk x) (s.ew x) then none else some s!"lockC e{x.id}")) ++
    (bs.filterMap (fun b =>
      if !(sh.bkt b).isFlagged then none
      else if (s.bw b).ths.all (fun th => (th.phase == .idle || th.phase == .holdW) && th.pc != .sharedAdd && (th.pc != .lockCas || th.sv == 0)) &&
              ((sh.blk b).w.isSome || (s.bw b).word == {}) then none
      else some s!"flagC b{b}")) ++
    ((s.a.ths.zipIdx).foldl (fun acc (t, tid) =>
      match s.rt[tid]? with
      | none => acc ++ [s!"rt t{tid}"]
      | some r =>
        let slot (L : LId) : Option C08.Th := (getL s L).ths[tid]?
        let opsOn (L : LId) : List C08.Op := match slot L with | some th => th.ops | none => []
        let others : List LId := (bs.map LId.b ++ nodes.map LId.e).filter (fun L => some L != r.cur)
        acc ++ (if others.all (fun L => (opsOn L).isEmpty) then [] else [s!"opsOther t{tid}"])
            ++ (match r.cur with
                | some L => (match slot L with
                    | some th => (match th.ops with
                        | [op] => if curOKB t r L op th then [] else [s!"curOK t{tid} {repr t.pc} {repr op} {repr th.phase}"]
                        | _ => [s!"opsCur t{tid}"])
                    | none => [s!"slot t{tid}"])
                | none => [])
            ++ (if !(t.pc == .relock || t.pc == .rhRelock || t.pc == .eRelock || t.pc == .xRelock) || r.cur.isSome then [] else [s!"inop t{tid}"])
            ++ (if !r.lag || t.pc == .lockTry then [] else [s!"lagPc t{tid}"])
            ++ (if !(r.lag && (sh.bkt t.tgt).isFlagged) || (sh.blk t.tgt).w.isSome then [] else [s!"lagK t{tid}"])
            ++ (bs.filterMap (fun b => match slot (.b b) with
                  | some th => if (th.phase != .holdW || t.stk.contains (b, true)) && (!phaseR th.phase || t.stk.contains (b, false)) then none else some s!"heldRevB t{tid} b{b}"
                  | none => some s!"slotB t{tid}"))
            ++ (nodes.filterMap (fun x => match slot (.e x) with
                  | some th => if (th.phase != .holdW || eholdsB t == some (x, true)) && (!phaseR th.phase || eholdsB t == some (x, false)) then none else some s!"heldRevE t{tid} e{x.id} {repr t.pc}"
                  | none => some s!"slotE t{tid}"))) [])
  if fails.isEmpty then none else some (" ".intercalate fails)

/-! ## Driver -/

structure DSt where
  s : RSt := { bw := fun _ => idleLock 0, ew := fun _ => idleLock 0 }
  mode : Nat := 0
  par : Nat := 0
  saved : Option RSt := none
  chkInv : Bool := false
  tolerated : Nat := 0
  /-- node_list value last read / written by the writer of a bucket (checked against the model chain at the release) -/
  lastNL : List (Nat × String) := []
  /-- coverage tags of the current run (which paths of the lock protocol the replayed trace went through) -/
  cov : List String := []

/-- materialise the function-valued components (extensionally the identity on the buckets below the mask's double and on
the nodes of the table / the threads; everything else is idle in every reachable state) -/
def compactR (s : RSt) : RSt :=
  let a := { s.a with sh := compact s.a.sh 0 }
  let n := s.a.ths.length
  let nb := 2 ^ (s.a.sh.lvl + 1)
  let ab := (Array.range nb).map s.bw
  let nodes : List Node := ((List.range nb).foldl (fun acc b => acc ++ s.a.sh.chainOf b) []) ++
    (s.a.ths.foldl (fun acc t => acc ++ (match t.n with | some x => [x] | none => []) ++ (match t.acc with | some (x, _) => [x] | none => [])) [])
  let live := nodes.filter (fun x => !((s.ew x).word == {} && (s.ew x).ths.all (fun th => th.ops.isEmpty && th.phase == .idle)))
  let ae := live.map (fun x => (x, s.ew x))
  { s with a := a,
           bw := fun i => if h : i < ab.size then ab[i] else idleLock n,
           ew := fun x => match ae.lookup x with | some c => c | none => idleLock n }

def headOf (sh : Sh) (b : Nat) : String :=
  match sh.bkt b with
  | .flagged => "F"
  | .pending _ => "nil"
  | .chain [] => "nil"
  | .chain (x :: _) => s!"n{x.id}"

def showLId : LId → String
  | .b i => s!"bw {i}"
  | .e x => s!"ew {x.id}"

def showC08Ev (L : LId) : Option C08.Ev → String
  | none => s!"{showLId L} -"
  | some e => if e.kind == "load" then s!"{showLId L} load {e.a} 0 1" else s!"{showLId L} {e.kind} {e.a} {e.b} {showBool e.ok}"

/-- the access the model thread performs next on a lock word, if its next access is one -/
def nextLockAccess (s : RSt) (tid : Nat) (alt : Nat) : Option (LId × Option C08.Ev) :=
  match s.a.ths[tid]?, s.rt[tid]? with
  | some t, some r =>
    let L? : Option (LId × C08.St) :=
      match r.cur with
      | some L => some (L, getL s L)
      | none => (request t r alt).map (fun (L, op) => (L, issue (getL s L) tid op))
    L?.map (fun (L, c) => (L, C08.evOf c tid))
  | _, _ => none

/-- which notable path of the code the step from (`t`, `r`) to (`t'`, `r'`) took -/
def covTags (t t' : Th) (r r' : RTh) (lab : List String) : List String :=
  let slowTo (p : Pc) : Bool := p == .relock || p == .rhRelock || p == .eRelock || p == .xRelock
  let upgAt (p : Pc) : Bool := p == .upg || p == .rhUpg || p == .eUpg || p == .xUpg
  (if upgAt t.pc && slowTo t'.pc then [s!"upgrade-slow:{repr t.pc}"] else []) ++
  (if upgAt t.pc && !slowTo t'.pc && !upgAt t'.pc then [s!"upgrade-inplace:{repr t.pc}"] else []) ++
  (if t.pc == .relock && t'.pc == .dng then ["research-found"] else []) ++
  (if t.pc == .relock && t'.pc == .chk1 then ["research-absent"] else []) ++
  (if t.pc == .eRelock && t'.pc == .chk1 then ["erase-research"] else []) ++
  (if t.pc == .elemTry && t'.pc == .rdMask then ["elem-giveup-restart"] else []) ++
  (if t.pc == .elemTry && t'.pc == .elemTry && r'.cur.isNone && lab[0]? == some "ew" then ["elem-try-failed"] else []) ++
  (if t.pc == .chk1 && t'.pc == .chk2 then ["mask-race-bucket-changed"] else []) ++
  (if t.pc == .chk1 && t'.pc != .chk2 && t'.m != t.m then ["mask-race-same-bucket"] else []) ++
  (if t.pc == .chk2 && t'.pc == .relB .restart then ["mask-race-restart"] else []) ++
  (if t.pc == .chk2 && t'.pc != .relB .restart then ["mask-race-not-rehashed"] else []) ++
  (if !r.lag && r'.lag then ["try-failed-still-flagged"] else []) ++
  (if t.pc == .lockTry && !r.lag && t'.pc == .lockBlk then ["try-failed-unflagged"] else []) ++
  (if t.pc == .lockTry && t'.pc == .mark then ["rehash"] else []) ++
  (if t.pc == .lockTry && !r.lag && t'.pc != .mark && t'.pc != .lockBlk && t'.pc != .lockTry then ["try-ok-already-rehashed"] else []) ++
  (if t.pc == Pc.eLock && t'.pc == Pc.eLock && lab[2]? == some "load" && lab[3]? != some "0" then ["erase-waits-for-accessor"] else []) ++
  (if t.pc == .xUpg && t'.pc == .xUpg && lab[2]? == some "load" &&
      (match lab[3]?.bind nat? with | some v => v % 4 == 3 && v / 4 != 1 | none => false) then ["exclude-waits-for-accessor"] else []) ++
  (if t.pc == .pubMask then ["growth"] else []) ++
  (if t.pc == .rhRelock && t'.pc != .rhRelock then ["rehash-rescan-after-contended-upgrade"] else []) ++
  (if t.pc == .rhRel && t'.pc == .rhRel then ["rehash-recursive"] else [])

def holdsBucket (t : Th) (b : Nat) : Option Bool := (t.stk.find? (fun f => f.1 == b)).map (·.2)

/-- memory orders the model relies on for the accesses that are model steps (publication of a new segment / mask / the
"rehashed" mark; RMWs on lock words and on my_size): `none` = any order -/
def orderOK (what ord : String) : Bool :=
  let acq := ord == "acq" || ord == "acqrel" || ord == "sc"
  let rel := ord == "rel" || ord == "acqrel" || ord == "sc"
  match what with
  | "ldmask" | "ldl" | "ldt" => acq
  | "stmask" | "stl" | "tst" => rel
  | "rmw" => ord == "sc" || ord == "acqrel"
  | _ => true

def driveEv (d : DSt) (tid : Nat) (lab0 : List String) : DSt × String :=
  let hash := hashFn d.mode d.par
  let ord : String := match lab0.getLast? with | some w => if w.startsWith "@" then (w.drop 1).toString else "" | none => ""
  let lab := if ord == "" then lab0 else lab0.dropLast
  match d.s.a.ths[tid]?, d.s.rt[tid]? with
  | some t, some r =>
    match lab with
    | "begin" :: k :: _ =>
        if t.pc != .idle then (d, s!"MISMATCH begin of {k} while the model thread is inside an operation")
        else (d, "ok")
    | ["end", rr, v] =>
        if t.pc != .idle then (d, s!"MISMATCH end while the model thread is at {repr t.pc}")
        else match t.results with
          | (ok, val) :: _ =>
              if showBool ok == rr && toString val == v then (d, "ok") else (d, s!"MISMATCH result impl={rr},{v} model={showBool ok},{val}")
          | [] => (d, "MISMATCH end without a model result")
    | "snap" :: rest => (d, checkSnap d.s.a.sh rest)
    | k :: rest =>
        let finish (d0 : DSt) (got want : String) : DSt × String :=
          let d1 := match d0.s.a.ths[tid]?, d0.s.rt[tid]? with
            | some t', some r' => { d0 with cov := (covTags t t' r r' lab).foldl (fun acc c => if acc.contains c then acc else c :: acc) d0.cov }
            | _, _ => d0
          -- (the `HMap` invariant itself is evaluated by the `c10` driver on the critical-section-level trace of the same run)
          let cf := if d.chkInv then (checkCoupled d1.s).map (fun f => s!"coupling: {f}") else none
          let what := if k == "bw" || k == "ew" then (if lab[2]? == some "load" then "any" else "rmw") else if k == "szinc" || k == "szdec" || k == "tcas" then "rmw" else k
          if got != want then (d1, s!"MISMATCH impl={want} model={got} pc={repr t.pc} cur={repr r.cur} lag={r.lag}")
          else if ord != "" && !orderOK what ord then (d1, s!"MISMATCH memory order of `{want}`: {ord} is weaker than the model requires")
          else match cf with
            | some f => (d1, s!"MISMATCH invariant fails after `{want}`: {f}")
            | none => (d1, "ok")
        if k == "bw" || k == "ew" then
          let alt := if r.cur.isNone && t.pc == .elemTry && k == "bw" then 1 else 0
          match nextLockAccess d.s tid alt with
          | none => (d, s!"MISMATCH impl={" ".intercalate lab} but the model thread (pc={repr t.pc}) does not access a lock word next")
          | some (L, ev) =>
              let got := showC08Ev L ev
              -- node_list of a bucket released by its writer: the last value the implementation read / wrote must be the model's head
              -- the call (if the operation is not yet in progress), then the access
              let s0 := if r.cur.isNone then rstep hash d.s { tid := tid, alt := alt } else d.s
              let s1 := rstep hash s0 { tid := tid, alt := alt }
              let relChk : Option String :=
                match L, ev with
                | .b b, some e =>
                    if e.kind == "fand" then
                      match d.lastNL.lookup b with
                      | some v => if v == headOf s1.a.sh b || v == "?" then none else some s!"MISMATCH node_list of bucket {b} at its release: impl={v} model={headOf s1.a.sh b}"
                      | none => none
                    else none
                | _, _ => none
              let d1 := { d with s := s1, lastNL := match L, ev with
                            | .b b, some e => if e.kind == "fand" then d.lastNL.filter (fun p => p.1 != b) else d.lastNL
                            | _, _ => d.lastNL }
              match relChk with
              | some m => (d1, m)
              | none => finish d1 got (" ".intercalate lab)
        else if k == "ldl" || k == "stl" then
          match rest with
          | [bs, v] =>
            match nat? bs with
            | none => (d, "bad-op")
            | some b =>
              if k == "ldl" && r.cur.isNone && (t.pc == .peek || t.pc == .chk2) then
                let a : Act := { tid := tid, alt := 0 }
                let got := showLab (labOf hash d.s.a a)
                let d1 := { d with s := rstep hash d.s a }
                finish d1 got s!"ldl {b} {if v == "F" then "1" else "0"}"
              else if k == "stl" && r.cur.isNone && t.pc == .mark && v == "nil" then
                let a : Act := { tid := tid, alt := 0 }
                let got := showLab (labOf hash d.s.a a)
                let d1 := { d with s := rstep hash d.s a, lastNL := (b, v) :: d.lastNL.filter (fun p => p.1 != b) }
                finish d1 got s!"stl {b}"
              else
                match holdsBucket t b with
                | some true => ({ d with lastNL := (b, v) :: d.lastNL.filter (fun p => p.1 != b) }, "ok")
                | some false =>
                    if k == "stl" then (d, s!"MISMATCH impl stores node_list of bucket {b} while the model thread holds it as a reader")
                    else if v == headOf d.s.a.sh b || v == "?" then (d, "ok")
                    else (d, s!"MISMATCH node_list of bucket {b} read under the reader lock: impl={v} model={headOf d.s.a.sh b}")
                | none =>
                    if k == "stl" then (d, s!"MISMATCH impl stores node_list of bucket {b} which the model thread does not hold")
                    else ({ d with tolerated := d.tolerated + 1 }, "skip")
          | _ => (d, "bad-op")
        else if (k == "ldt" && !(r.cur.isNone && t.pc == .elect1)) || (k == "tst" && !(r.cur.isNone && t.pc == .alloc)) then
          -- get_bucket's load of my_table[s] / the further stores of enable_segment's first block: not model steps, but they
          -- publish / acquire a segment, so their memory order is checked all the same
          if ord != "" && !orderOK k ord then (d, s!"MISMATCH memory order of `{" ".intercalate lab}`: {ord} is weaker than the model requires")
          else ({ d with tolerated := d.tolerated + 1 }, "skip")
        else
          match nextLockAccess d.s tid 0 with
          | some (L, ev) => (d, s!"MISMATCH impl={" ".intercalate lab} model={showC08Ev L ev} pc={repr t.pc}")
          | none =>
              let a : Act := { tid := tid, alt := 0 }
              let got := showLab (labOf hash d.s.a a)
              let d1 := { d with s := rstep hash d.s a }
              finish d1 got (" ".intercalate lab)
    | [] => (d, "bad-op")
  | _, _ => (d, "bad-tid")

def drive (d : DSt) (ws : List String) : DSt × String :=
  let hash := hashFn d.mode d.par
  match ws with
  | ["reset"] => ({}, "ok")
  | ["inv", x] => ({ d with chkInv := x == "1" }, "ok")
  | ["save"] => ({ d with saved := some d.s }, "ok")
  | ["restore"] =>
      match d.saved with
      | some s => ({ d with s := s, tolerated := 0, lastNL := [], cov := [] }, "ok")
      | none => (d, "bad-op")
  | "hash" :: md :: rest =>
      let mode := match md with | "id" => 0 | "const" => 1 | "shl" => 2 | "mul" => 3 | "fold" => 4 | _ => 0
      ({ d with mode := mode, par := (rest.head?.bind nat?).getD 0 }, "ok")
  | "pre" :: ks =>
      match nats? ks with
      | some ks =>
          -- sequential pre-population on `HMap` (no contention: every lock word is back to 0 afterwards)
          let st1 : St := { sh := d.s.a.sh, ths := [{ ops := (ks.map (fun k => [({ k := .ins, key := k, val := k, acc := 2 } : Op), { k := .release }])).flatten }] }
          let st2 := runSeq hash st1 (ks.length * 200 + 200)
          let sh := compact st2.sh (st2.sh.nextId + 1)
          ({ d with s := { a := { sh := sh, ths := [] }, bw := fun _ => idleLock 0, ew := fun _ => idleLock 0, rt := [] } }, s!"ok {sh.size}")
      | none => (d, "bad-op")
  | "prog" :: ops =>
      match ops.mapM parseOp with
      | some os =>
          let n := d.s.a.ths.length + 1
          -- all locks are idle while programs are being added: re-dimension them
          ({ d with s := { a := { d.s.a with ths := d.s.a.ths ++ [{ ops := os }] }, bw := fun _ => idleLock n, ew := fun _ => idleLock n,
                           rt := d.s.rt ++ [{}] } }, "ok")
      | none => (d, "bad-op")
  | "ev" :: t :: lab =>
      match nat? t with
      | some t =>
          let (d1, o) := driveEv d t lab
          (if o == "ok" && (lab.head? == some "snap") then { d1 with s := compactR d1.s } else d1, o)
      | none => (d, "bad-op")
  | ["final"] => (d, showFinal hash d.s.a.sh)
  | ["idle"] =>
      let busy := d.s.a.ths.filter (fun t => !(t.ops.isEmpty && t.pc == .idle))
      let held := (List.range (2 ^ d.s.a.sh.lvl)).filter (fun b => !(d.s.a.sh.blk b).isFree || (d.s.bw b).word != {})
      (d, if busy.isEmpty && held.isEmpty then s!"ok tolerated={d.tolerated} cov={",".intercalate d.cov}" else s!"MISMATCH at the end of the trace {busy.length} model threads are inside an operation, {held.length} bucket locks held or lock words non-zero")
  | _ => (d, "bad-op")

def driver : Proto.Driver := { σ := DSt, init := {}, step := drive }

end TbbVerif.C10R
