/-
C16 — arenas bound concurrency, give unique slots, respect the worker budget (executable model, core Lean only).

Code modelled (all in /repo/src/tbb):
* `market::update_allotment`, `market::adjust_demand`, `market::set_active_num_workers`,
  `register_client` / `unregister_and_destroy_client`                       (market.cpp)
* `arena::update_request`, `pm_client::update_request`                     (arena.cpp, pm_client.h)
* `thread_request_serializer::{update, set_active_num_workers, limit_delta}` and the packed
  `my_pending_delta` word; `thread_request_serializer_proxy` (mandatory concurrency)   (thread_request_serializer.cpp)
* `threading_control_impl::{adjust_demand, set_active_num_workers}` (the order of the two calls) (threading_control.cpp)
* `global_control` storage: `create` / `destroy`, comparator, `apply_active`          (global_control.cpp)
* `arena_slot::try_occupy` / `release`, `arena::occupy_free_slot{,_in_range}`, `atomic_update(my_limit)` (arena_slot.h, arena.cpp)
-/
import TbbVerif.Core.Sched
import TbbVerif.Core.Proto
import TbbVerif.Generated.C16

namespace TbbVerif.C16

/-! ## 1. `market::update_allotment` -/

/-- What `update_allotment` reads of a client: `pm_client::min_workers()`, `max_workers()`. -/
structure Client where
  minW : Nat
  maxW : Nat
  deriving Repr, DecidableEq

/-- What `update_allotment` writes to a client: `set_allotment(allotted)` and, unless the client was
skipped because `max_workers() == 0`, `set_top_priority(setTop)`. -/
structure Out where
  allotted : Nat
  setTop : Option Bool
  deriving Repr, DecidableEq

/-- The locals of `update_allotment` that live across loop iterations. `topLevel = none` stands for
`max_priority_level == num_priority_levels` (not yet determined). -/
structure Loop where
  unassigned : Nat
  assigned : Nat
  carry : Nat
  topLevel : Option Nat
  deriving Repr, DecidableEq

/-- One iteration of the inner loop (one client).  `soft` = `my_num_workers_soft_limit`, `mw` = `max_workers`,
`D` = `my_priority_level_demand[list_idx]`, `app` = `assigned_per_priority`.  `none` = integer division by
zero (the process dies with SIGFPE). -/
def clientStep (soft mw D app level : Nat) (st : Loop) (c : Client) : Option (Loop × Out) :=
  if c.maxW = 0 then some (st, { allotted := 0, setTop := none })
  else
    let top := st.topLevel.getD level
    if soft = 0 then
      let a := if 0 < c.minW ∧ st.assigned < mw then 1 else 0
      some ({ st with topLevel := some top, assigned := st.assigned + a },
            { allotted := a, setTop := some (level == top) })
    else if D = 0 then none
    else
      let tmp := c.maxW * app + st.carry
      some ({ st with topLevel := some top, carry := tmp % D, assigned := st.assigned + tmp / D },
            { allotted := tmp / D, setTop := some (level == top) })

/-- The inner loop over one priority list.  The code walks the vector with reverse iterators
(`rbegin … rend`): the *last* registered client is served first.  The recursion below does exactly that
(the tail is processed before the head) and returns the outputs in vector order. -/
def levelLoop (soft mw D app level : Nat) : Loop → List Client → Option (Loop × List Out)
  | st, [] => some (st, [])
  | st, c :: cs =>
    match levelLoop soft mw D app level st cs with
    | none => none
    | some (st1, os) =>
      match clientStep soft mw D app level st1 c with
      | none => none
      | some (st2, o) => some (st2, o :: os)

/-- The outer loop over `list_idx = level, level+1, …`; a level is `(my_priority_level_demand[l], my_clients[l])`. -/
def levelsLoop (soft mw : Nat) : Nat → Loop → List (Nat × List Client) → Option (Loop × List (List Out))
  | _, st, [] => some (st, [])
  | level, st, (D, cs) :: rest =>
    let app := min D st.unassigned
    let st0 := { st with unassigned := st.unassigned - app }
    match levelLoop soft mw D app level st0 cs with
    | none => none
    | some (st1, os) =>
      match levelsLoop soft mw (level + 1) st1 rest with
      | none => none
      | some (st2, oss) => some (st2, os :: oss)

/-- `effective_soft_limit` -/
def effLimit (soft mand : Nat) : Nat := if 0 < mand ∧ soft = 0 then 1 else soft

/-- `market::update_allotment()` on the market words `soft = my_num_workers_soft_limit`, `total = my_total_demand`,
`mand = my_mandatory_num_requested` and the per-level `(demand, clients)`. -/
def updateAllotment (soft total mand : Nat) (levels : List (Nat × List Client)) : Option (Loop × List (List Out)) :=
  let mw := min total (effLimit soft mand)
  levelsLoop soft mw 0 { unassigned := mw, assigned := 0, carry := 0, topLevel := none } levels

/-- The allotment vector (per level, in vector order). -/
def allot (soft total mand : Nat) (levels : List (Nat × List Client)) : Option (List (List Nat)) :=
  (updateAllotment soft total mand levels).map (fun r => r.2.map (fun os => os.map (·.allotted)))

/-- `assigned_per_priority` of every level when `u` workers are still unassigned. -/
def shares : List Nat → Nat → List Nat
  | [], _ => []
  | D :: Ds, u => min D u :: shares Ds (u - min D u)

/-- The market words are consistent with the clients: what `adjust_demand` maintains. -/
def WF (total : Nat) (levels : List (Nat × List Client)) : Prop :=
  total = (levels.map (·.1)).sum ∧ ∀ lv ∈ levels, lv.1 = (lv.2.map (·.maxW)).sum

instance (total : Nat) (levels : List (Nat × List Client)) : Decidable (WF total levels) := by
  unfold WF; infer_instance

/-- A client that can receive the mandatory worker. -/
def eligible (c : Client) : Prop := 0 < c.minW ∧ 0 < c.maxW
instance (c : Client) : Decidable (eligible c) := by unfold eligible; infer_instance

def anyEligible (levels : List (Nat × List Client)) : Prop := ∃ lv ∈ levels, ∃ c ∈ lv.2, eligible c
instance (levels : List (Nat × List Client)) : Decidable (anyEligible levels) := by unfold anyEligible; infer_instance

/-- Pointwise relation between two lists of equal length. -/
def Pointwise {α β : Type} (R : α → β → Prop) : List α → List β → Prop
  | [], [] => True
  | a :: as, b :: bs => R a b ∧ Pointwise R as bs
  | _, _ => False

/-! ## 2. `arena::update_request`, the market as an operation-driven machine -/

/-- `clamp(value, lower_bound, upper_bound)` of `_utils.h`. -/
def clampI (v lo hi : Int) : Int := if v > lo then (if v > hi then hi else v) else lo

/-- The request words of an `arena` and its `pm_client`. -/
structure Arena where
  id : Nat
  maxNumWorkers : Nat        -- arena::my_max_num_workers
  mandReq : Int := 0         -- arena::my_mandatory_requests
  totalReq : Int := 0        -- arena::my_total_num_workers_requested
  minW : Nat := 0            -- pm_client::my_min_workers
  maxW : Nat := 0            -- pm_client::my_max_workers
  deriving Repr, DecidableEq

/-- `arena::update_request` followed by `pm_client::update_request`: new arena words and the returned `delta`. -/
def Arena.updateRequest (a : Arena) (md wd : Int) : Arena × Int :=
  let mandReq := a.mandReq + md
  let minW : Nat := if mandReq > 0 then 1 else 0
  let totalReq := a.totalReq + wd
  let hi : Int := if minW > 0 ∧ a.maxNumWorkers = 0 then 1 else (a.maxNumWorkers : Int)
  let maxW : Nat := (clampI totalReq 0 hi).toNat
  ({ a with mandReq := mandReq, totalReq := totalReq, minW := minW, maxW := maxW }, (maxW : Int) - (a.maxW : Int))

def Arena.client (a : Arena) : Client := { minW := a.minW, maxW := a.maxW }

/-- What `update_allotment` writes into an arena: `(my_num_workers_allotted, my_is_top_priority)`. -/
abbrev Grant := Nat × Bool

structure Market where
  softLimit : Nat                      -- my_num_workers_soft_limit
  totalDemand : Int := 0               -- my_total_demand
  mandatoryNum : Int := 0              -- my_mandatory_num_requested
  lv : List (Int × List Arena)         -- per level: (my_priority_level_demand[l], my_clients[l] in vector order)
  grants : List (List Grant)           -- per level, per client (same shape as the client lists)
  deriving Repr, DecidableEq

def Market.init (soft : Nat) : Market :=
  { softLimit := soft, lv := List.replicate Generated.C16.numPriorityLevels (0, []),
    grants := List.replicate Generated.C16.numPriorityLevels [] }

/-- The `(demand, clients)` view `update_allotment` iterates over. -/
def Market.levels (m : Market) : List (Nat × List Client) :=
  m.lv.map (fun p => (p.1.toNat, p.2.map Arena.client))

def applyOut (g : Grant) (o : Out) : Grant := (o.allotted, o.setTop.getD g.2)

/-- `market::update_allotment()`.  `none`: a negative demand word (`__TBB_ASSERT(max_workers >= 0)`, undefined
afterwards) or an integer division by zero. -/
def Market.updateAllotment (m : Market) : Option Market :=
  if m.totalDemand < 0 ∨ m.lv.any (·.1 < 0) then none
  else
    match C16.updateAllotment m.softLimit m.totalDemand.toNat m.mandatoryNum.toNat m.levels with
    | none => none
    | some (_, oss) => some { m with grants := List.zipWith (fun gs os => List.zipWith applyOut gs os) m.grants oss }

def Market.find (m : Market) (id : Nat) : Option (Nat × Nat) :=
  let rec go (l : Nat) : List (Int × List Arena) → Option (Nat × Nat)
    | [] => none
    | p :: rest => match p.2.findIdx? (·.id == id) with
      | some i => some (l, i)
      | none => go (l + 1) rest
  go 0 m.lv

def Market.allotView (m : Market) : List (List Nat) := m.grants.map (·.map (·.1))

/-- `market::set_active_num_workers` -/
def Market.setLimit (m : Market) (n : Nat) : Option Market :=
  if m.softLimit ≠ n then ({ m with softLimit := n }).updateAllotment else some m

/-- The state change of `market::adjust_demand` before `update_allotment()`; returns `delta`. -/
def Market.request (m : Market) (l i : Nat) (md wd : Int) : Option (Market × Int) :=
  match m.lv[l]? with
  | some (d, cs) =>
    match cs[i]? with
    | some a =>
      let r := a.updateRequest md wd
      some ({ m with
        totalDemand := m.totalDemand + r.2
        mandatoryNum := m.mandatoryNum + md
        lv := m.lv.set l (d + r.2, cs.set i r.1) }, r.2)
    | none => none
  | none => none

/-- `market::adjust_demand` up to (not including) `notify_thread_request(delta)`; returns `delta`. -/
def Market.adjust (m : Market) (l i : Nat) (md wd : Int) : Option (Market × Int) :=
  match m.request l i md wd with
  | some (m1, delta) => m1.updateAllotment.map (fun m2 => (m2, delta))
  | none => none

/-- `market::register_client` (`push_back`); the arena starts with allotment 0. -/
def Market.register (m : Market) (id level mnw : Nat) : Option Market :=
  match m.find id, m.lv[level]?, m.grants[level]? with
  | none, some (d, cs), some gs =>
    some { m with lv := m.lv.set level (d, cs ++ [{ id := id, maxNumWorkers := mnw }]),
                  grants := m.grants.set level (gs ++ [(0, false)]) }
  | _, _, _ => none

/-- `market::unregister_and_destroy_client`; only an arena without outstanding requests is destroyed
(`arena::free_arena` asserts it). -/
def Market.unregister (m : Market) (id : Nat) : Option Market :=
  match m.find id with
  | some (l, i) =>
    match m.lv[l]?, m.grants[l]? with
    | some (d, cs), some gs =>
      match cs[i]? with
      | some a =>
        if a.maxW = 0 ∧ a.mandReq = 0 then
          some { m with lv := m.lv.set l (d, cs.eraseIdx i), grants := m.grants.set l (gs.eraseIdx i) }
        else none
      | none => none
    | _, _ => none
  | none => none

/-! ## 3. `thread_request_serializer` -/

/-- `thread_request_serializer::limit_delta(delta, limit, new_value)` -/
def limitDelta (delta limit newValue : Int) : Int :=
  let prev := newValue - delta
  min limit newValue - min limit prev

namespace Pack
open Generated.C16 TbbVerif.Cint

def base : Nat := pendingDeltaBase
/-- `delta_mask = (pending_delta_base << 1) - 1` -/
def mask : Nat := (base <<< 1) - 1
/-- `counter_value = delta_mask + 1` -/
def counter : Nat := mask + 1

/-- `my_pending_delta.fetch_add(counter_value + delta)`: the new 64-bit word (`delta` is converted to `uint64_t`). -/
def add (word : Nat) (delta : Int) : Nat := (word + counter + wrapU 64 delta) % 2 ^ 64

/-- `int prev_pending_delta = …; prev_pending_delta == pending_delta_base`: is the caller the drainer? -/
def isDrainer (prevWord : Nat) : Bool := wrapS 32 (prevWord : Int) == (base : Int)

/-- `int(word & delta_mask) - int(pending_delta_base)` -/
def extract (word : Nat) : Int := wrapS 32 ((word &&& mask : Nat) : Int) - wrapS 32 (base : Int)
end Pack

structure Serializer where
  softLimit : Int                 -- my_soft_limit
  totalRequest : Int := 0         -- my_total_request
  pending : Nat := Pack.base      -- my_pending_delta
  handed : Int := 0               -- ghost: sum of all deltas passed to `adjust_job_count_estimate`
  deriving Repr, DecidableEq

/-- The critical section of `update` (under `my_mutex`). -/
def Serializer.apply (s : Serializer) (d : Int) : Serializer × Int :=
  let total := s.totalRequest + d
  let out := limitDelta d s.softLimit total
  ({ s with totalRequest := total, handed := s.handed + out }, out)

/-- `thread_request_serializer::update(delta)` executed without interference: returns the delta handed to the
thread dispatcher (`none` if this call was not the drainer). -/
def Serializer.update (s : Serializer) (delta : Int) : Serializer × Option Int :=
  let word := Pack.add s.pending delta
  if Pack.isDrainer s.pending then
    let d := Pack.extract word                      -- exchange(pending_delta_base) returns `word`
    let (s', out) := ({ s with pending := Pack.base }).apply d
    (s', some out)
  else ({ s with pending := word }, none)

/-- `thread_request_serializer::set_active_num_workers(soft_limit)` -/
def Serializer.setLimit (s : Serializer) (soft : Int) : Serializer × Int :=
  let out := limitDelta (soft - s.softLimit) s.totalRequest soft
  ({ s with softLimit := soft, handed := s.handed + out }, out)

structure Proxy where
  ser : Serializer
  numMandatory : Int := 0         -- my_num_mandatory_requests
  enabled : Bool := false         -- my_is_mandatory_concurrency_enabled
  deriving Repr, DecidableEq

/-- `thread_request_serializer_proxy::register_mandatory_request` (the reader lock is upgraded to a writer lock
before the re-check, so the body is atomic with respect to the other proxy operations). -/
def Proxy.registerMandatory (p : Proxy) (md : Int) : Proxy :=
  if md = 0 then p else
    let prev := p.numMandatory
    let p1 := { p with numMandatory := prev + md }
    if md > 0 ∧ prev = 0 then
      if p1.numMandatory > 0 ∧ !p1.enabled ∧ p1.ser.softLimit = 0 then
        { p1 with enabled := true, ser := (p1.ser.setLimit 1).1 }
      else p1
    else if md < 0 ∧ prev = 1 then
      if p1.numMandatory ≤ 0 ∧ p1.enabled ∧ p1.ser.softLimit ≠ 0 then
        { p1 with enabled := false, ser := (p1.ser.setLimit 0).1 }
      else p1
    else p1

/-- `thread_request_serializer_proxy::set_active_num_workers` -/
def Proxy.setLimit (p : Proxy) (soft : Nat) : Proxy :=
  if soft ≠ 0 then { p with enabled := false, ser := (p.ser.setLimit soft).1 }
  else if p.numMandatory > 0 then { p with enabled := true, ser := (p.ser.setLimit 1).1 }
  else { p with ser := (p.ser.setLimit 0).1 }

/-- Market + serializer as wired by `threading_control_impl`. -/
structure World where
  market : Market
  proxy : Proxy
  userLimit : Nat        -- ghost: last value given to `set_active_num_workers` (initially the market's soft limit)
  deriving Repr, DecidableEq

def World.init (soft : Nat) : World :=
  { market := Market.init soft, proxy := { ser := { softLimit := soft } }, userLimit := soft }

inductive WOp where
  | reg (id level maxNumWorkers : Nat)
  | unreg (id : Nat)
  | adjust (id : Nat) (md wd : Int)
  | setLimit (n : Nat)
  deriving Repr, DecidableEq

/-- One operation; `none` = the operation is rejected (unknown / duplicate id, bad level, `mandatory_delta`
outside `[-1,1]`, unregistering a client that still requests workers, or `update_allotment` undefined). -/
def World.step (w : World) : WOp → Option World
  | .reg id level mnw => (w.market.register id level mnw).map (fun m => { w with market := m })
  | .unreg id => (w.market.unregister id).map (fun m => { w with market := m })
  | .adjust id md wd =>
    if md < -1 ∨ 1 < md then none else
    match w.market.find id with
    | some (l, i) =>
      -- threading_control_impl::adjust_demand: serializer first, then the permit manager
      let p1 := w.proxy.registerMandatory md
      match w.market.adjust l i md wd with
      | some (m2, delta) =>
        -- permit_manager::notify_thread_request
        let p2 := if delta ≠ 0 then { p1 with ser := (p1.ser.update delta).1 } else p1
        some { w with market := m2, proxy := p2 }
      | none => none
    | none => none
  | .setLimit n =>
    -- threading_control_impl::set_active_num_workers: serializer first, then the permit manager
    let p1 := w.proxy.setLimit n
    match w.market.setLimit n with
    | some m2 => some { market := m2, proxy := p1, userLimit := n }
    | none => none

/-- Run a sequence of operations; `none` as soon as one is rejected. -/
def World.run (w : World) : List WOp → Option World
  | [] => some w
  | o :: os => match w.step o with
    | some w' => w'.run os
    | none => none

/-! ### the packed pending-delta word under interleaving -/

/-- One thread executing `update(delta)`: `pc 0` before the `fetch_add`, `1` (drainer) before the `exchange`,
`2` (drainer) before the critical section, `3` done. -/
structure PTh where
  delta : Int
  pc : Nat := 0
  d : Int := 0            -- the aggregated delta the drainer extracted
  deriving Repr, DecidableEq

structure PSt where
  ser : Serializer
  ths : List PTh
  deriving Repr, DecidableEq

def PSt.step (s : PSt) (t : Tid) : PSt :=
  match s.ths[t]? with
  | none => s
  | some th =>
    match th.pc with
    | 0 =>
      let word := Pack.add s.ser.pending th.delta
      let pc' := if Pack.isDrainer s.ser.pending then 1 else 3
      { ser := { s.ser with pending := word }, ths := s.ths.set t { th with pc := pc' } }
    | 1 =>
      { ser := { s.ser with pending := Pack.base }, ths := s.ths.set t { th with pc := 2, d := Pack.extract s.ser.pending } }
    | 2 =>
      { ser := (s.ser.apply th.d).1, ths := s.ths.set t { th with pc := 3 } }
    | _ => s

def pendSys (soft : Int) (deltas : List Int) : Sys PSt :=
  { init := { ser := { softLimit := soft }, ths := deltas.map (fun d => { delta := d }) }, step := PSt.step }

/-! ## 4. `global_control` storage -/

structure GC where
  preferMin : Bool            -- `is_first_arg_preferred(a,b) = a<b` (max_allowed_parallelism); otherwise `a>b`
  dflt : Nat                  -- default_value()
  active : Nat := 0           -- my_active_value
  live : List (Nat × Nat) := []   -- my_list: (handle, value)
  applied : List Nat := []    -- ghost: arguments of apply_active, oldest first
  deriving Repr, DecidableEq

/-- `(*my_list.begin())->my_value`: the set is ordered by `control_storage_comparator` = ascending value. -/
def listMin : List Nat → Nat
  | [] => 0
  | [x] => x
  | x :: xs => min x (listMin xs)

def GC.preferred (g : GC) (a b : Nat) : Bool := if g.preferMin then a < b else a > b

def GC.apply (g : GC) (v : Nat) : GC := { g with active := v, applied := g.applied ++ [v] }

/-- `global_control_impl::create` -/
def GC.create (g : GC) (h v : Nat) : GC :=
  let g1 := if g.live.isEmpty ∨ g.preferred v g.active then g.apply v else g
  { g1 with live := g1.live ++ [(h, v)] }

/-- `global_control_impl::destroy` (handles not in the list are ignored, as for `scheduler_handle`). -/
def GC.destroy (g : GC) (h : Nat) : GC :=
  if g.live.any (·.1 == h) then
    let live' := g.live.filter (·.1 != h)
    let newActive := if live'.isEmpty then g.dflt else listMin (live'.map (·.2))
    let g1 := { g with live := live' }
    if newActive ≠ g.active then g1.apply newActive else g1
  else g

/-- `active_value_unsafe()` -/
def GC.activeValue (g : GC) : Nat := if g.live.isEmpty then g.dflt else g.active

inductive GOp where
  | create (h v : Nat)
  | destroy (h : Nat)
  deriving Repr, DecidableEq

def GC.step (g : GC) : GOp → GC
  | .create h v => g.create h v
  | .destroy h => g.destroy h

/-- handles are unique among live controls (an object is created once) -/
def GC.run (g : GC) (ops : List GOp) : GC := ops.foldl GC.step g

/-! ## 5. slot occupation protocol -/

structure SCfg where
  numSlots : Nat
  reserved : Nat
  deriving Repr, DecidableEq

/-- Program counter = the next atomic access of the thread. -/
inductive SPc where
  | idle                                         -- outside; next access: the first one of a new `occupy_free_slot`
  | rangeBegin (lo hi : Nat)                     -- first access of `occupy_free_slot_in_range(lo, hi)`; start index not yet chosen
  | scanLoad (lo hi start i : Nat) (wrapped : Bool)   -- `my_slots[i].is_occupied()` (relaxed load)
  | scanXchg (lo hi start i : Nat) (wrapped : Bool)   -- `my_slots[i].my_is_occupied.exchange(true)`
  | limLoad (idx : Nat)                           -- atomic_update(my_limit, idx+1): acquire load
  | limCas (idx old : Nat)                        -- … compare_exchange_strong(old, idx+1)
  | inside (idx : Nat)                            -- owns slot idx; next access: `release()` store
  deriving Repr, DecidableEq

structure STh where
  worker : Bool
  pc : SPc := .idle
  hints : List Nat := []      -- start-index choices (`my_arena_index` / `my_random`), one per range scanned
  slot : Option Nat := none   -- ghost: the slot owned (from the successful exchange until `release()`)
  deriving Repr, DecidableEq

structure SSt where
  occ : List Bool             -- my_slots[i].my_is_occupied
  limit : Nat                 -- my_limit
  ths : List STh
  deriving Repr, DecidableEq

/-- An atomic access as the E-SHIM log prints it: kind, variable, order, a, b, ok. -/
structure Ev where
  kind : String
  var : String
  order : String
  a : Nat
  b : Nat
  ok : Nat
  deriving Repr, DecidableEq

def b2n (b : Bool) : Nat := if b then 1 else 0

/-- The general range `[reserved, num_slots)`, or `idle` (= `out_of_arena`) when it is empty. -/
def generalStart (cfg : SCfg) : SPc :=
  if cfg.reserved < cfg.numSlots then .rangeBegin cfg.reserved cfg.numSlots else .idle

/-- `occupy_free_slot<as_worker>`: external threads try `[0, reserved)` first, workers never do. -/
def enterStart (cfg : SCfg) (worker : Bool) : SPc :=
  if !worker ∧ 0 < cfg.reserved ∧ 0 < cfg.numSlots then .rangeBegin 0 (min cfg.reserved cfg.numSlots)
  else generalStart cfg

/-- Slot `i` was not obtained: next slot of the two scan loops, next range, or give up. -/
def advance (cfg : SCfg) (worker : Bool) (lo hi start i : Nat) (wrapped : Bool) : SPc :=
  if !wrapped ∧ i + 1 < hi then .scanLoad lo hi start (i + 1) false
  else if !wrapped ∧ lo < start then .scanLoad lo hi start lo true
  else if wrapped ∧ i + 1 < start then .scanLoad lo hi start (i + 1) true
  else if !worker ∧ lo < cfg.reserved then generalStart cfg      -- the reserved range is exhausted
  else .idle

/-- Execute the access at pc `.scanLoad …` -/
def doScanLoad (cfg : SCfg) (occ : List Bool) (th : STh) (lo hi start i : Nat) (wrapped : Bool) : STh × Ev :=
  let v := occ.getD i false
  let ev : Ev := { kind := "load", var := s!"occ{i}", order := "rlx", a := b2n v, b := 0, ok := 1 }
  if v then ({ th with pc := advance cfg th.worker lo hi start i wrapped }, ev)
  else ({ th with pc := .scanXchg lo hi start i wrapped }, ev)

/-- First access of a range: choose the start index (`tls.my_arena_index` if it lies in the range, otherwise
`my_random.get() % (upper - lower) + lower` — any index of the range, here taken from `hints`). -/
def doRangeBegin (cfg : SCfg) (occ : List Bool) (th : STh) (lo hi : Nat) : STh × Ev :=
  let start := lo + th.hints.headD 0 % (hi - lo)
  doScanLoad cfg occ { th with hints := th.hints.tail } lo hi start start false

/-- One atomic access of thread `th`.  Returns the new thread state, `occ`, `my_limit` and the access. -/
def stepTh (cfg : SCfg) (occ : List Bool) (limit : Nat) (th : STh) : STh × List Bool × Nat × Option Ev :=
  match th.pc with
  | .idle =>
    match th.hints with
    | [] => (th, occ, limit, none)                 -- the thread has stopped
    | _ :: _ =>
      match enterStart cfg th.worker with
      | .rangeBegin lo hi =>
        let (th', ev) := doRangeBegin cfg occ th lo hi
        (th', occ, limit, some ev)
      | _ => ({ th with hints := th.hints.tail }, occ, limit, none)   -- no slot range at all: out_of_arena
  | .rangeBegin lo hi =>
    let (th', ev) := doRangeBegin cfg occ th lo hi
    (th', occ, limit, some ev)
  | .scanLoad lo hi start i w =>
    let (th', ev) := doScanLoad cfg occ th lo hi start i w
    (th', occ, limit, some ev)
  | .scanXchg lo hi start i w =>
    let old := occ.getD i false
    let ev : Ev := { kind := "xchg", var := s!"occ{i}", order := "sc", a := b2n old, b := 1, ok := 1 }
    if old then ({ th with pc := advance cfg th.worker lo hi start i w }, occ.set i true, limit, some ev)
    else ({ th with pc := .limLoad i, slot := some i }, occ.set i true, limit, some ev)
  | .limLoad idx =>
    let ev : Ev := { kind := "load", var := "limit", order := "acq", a := limit, b := 0, ok := 1 }
    if limit < idx + 1 then ({ th with pc := .limCas idx limit }, occ, limit, some ev)
    else ({ th with pc := .inside idx }, occ, limit, some ev)
  | .limCas idx old =>
    if limit = old then
      ({ th with pc := .inside idx }, occ, idx + 1, some { kind := "cas", var := "limit", order := "sc", a := old, b := idx + 1, ok := 1 })
    else
      let ev : Ev := { kind := "cas", var := "limit", order := "sc", a := old, b := limit, ok := 0 }
      if limit < idx + 1 then ({ th with pc := .limCas idx limit }, occ, limit, some ev)
      else ({ th with pc := .inside idx }, occ, limit, some ev)
  | .inside idx =>
    ({ th with pc := .idle, slot := none }, occ.set idx false, limit,
      some { kind := "store", var := s!"occ{idx}", order := "rel", a := 0, b := b2n (occ.getD idx false), ok := 1 })

def SSt.step (cfg : SCfg) (s : SSt) (t : Tid) : SSt :=
  match s.ths[t]? with
  | none => s
  | some th =>
    let (th', occ', limit', _) := stepTh cfg s.occ s.limit th
    { occ := occ', limit := limit', ths := s.ths.set t th' }

/-- `N` threads (each a worker or not, with an arbitrary list of start-index choices) on one arena. -/
def slotSys (cfg : SCfg) (threads : List (Bool × List Nat)) : Sys SSt :=
  { init := { occ := List.replicate cfg.numSlots false, limit := 1,
              ths := threads.map (fun p => { worker := p.1, hints := p.2 }) },
    step := SSt.step cfg }

/-- Thread `t` owns slot `i`. -/
def SSt.holds (s : SSt) (t : Tid) (i : Nat) : Prop := ∃ th, s.ths[t]? = some th ∧ th.slot = some i

/-- Number of threads inside the arena. -/
def SSt.insideCount (s : SSt) : Nat := s.ths.countP (fun th => th.slot.isSome)

end TbbVerif.C16
