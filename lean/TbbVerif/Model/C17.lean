/-
C17 — tbbmalloc front-end arithmetic (executable model, core Lean only).

Code modelled (src/tbbmalloc/frontend.cpp unless noted), over constants and guards that are
*regenerated* from the current tree into `Generated/C17.lean`:
  * `getSmallObjectIndex`, `getIndexOrObjectSize<true/false>` (`getIndex`, `getObjectSize`), `highestBitPos`
  * slab layout: `Block::initEmptyBlock` / `allocateFromBumpPtr` (bump pointer running down from the slab end)
  * `allocateAligned` (the case split is generated from the source text), `Block::findAllocatedObject`,
    `Block::findObjectToFree`, `Block::findObjectSize` (= `scalable_msize` of a slab object)
  * `MemoryPool::getFromLLOCache` placement arithmetic (headers, alignUp/alignDown, the 32-bit `ptrDelta`,
    cache-line shuffling)
  * the slab ownership protocol (owner + foreign freers): `publicFreeList` CAS push / exchange privatise,
    `allocatedCount`, free list, bump pointer — one model step per atomic access of a foreign thread and
    per (thread-private) owner operation.
Addresses inside a slab are offsets from the 16K-aligned slab base; `dist` is the distance from the slab end.
-/
import TbbVerif.Core.Sched
import TbbVerif.Core.Proto
import TbbVerif.Generated.C17

namespace TbbVerif.C17
open TbbVerif.Cint
open TbbVerif.Generated.C17

/-! ### arithmetic helpers (the mathematical meaning of `alignUp` / `alignDown` for power-of-two alignments;
`Proofs/C17.lean` shows that the generated bit-mask versions compute these) -/

def alignUpN (x a : Nat) : Nat := (x + (a - 1)) / a * a
def alignDownN (x a : Nat) : Nat := x / a * a

/-- `highestBitPos(n)` = index of the most significant set bit (`bsr`) -/
def highestBitPos (n : Nat) : Nat := Nat.log2 n

/-- `getSmallObjectIndex(size)`, `1 ≤ size ≤ maxSmallObjectSize` -/
def smallIndex (size : Nat) : Nat :=
  let r := (size - 1) >>> 3
  if is64bit = 1 ∧ r ≠ 0 then r ||| 1 else r

/-- `getIndexOrObjectSize<true>(size)`; `none` outside `1..fittingSize5` (callers replace 0 by `sizeof(size_t)`
and route `size ≥ minLargeObjectSize` to the large-object path). 32-bit unsigned arithmetic as in the code. -/
def indexOf (size : Nat) : Option Nat :=
  if size = 0 then none
  else if size ≤ maxSmallObjectSize then some (smallIndex size)
  else if size ≤ maxSegregatedObjectSize then
    let order := highestBitPos (size - 1)
    some (wrapU 32 ((minSegregatedObjectIndex : Int) - 4 * 6 - 4 + 4 * (order : Int) + (((size - 1) >>> (order - 2) : Nat) : Int)))
  else if size ≤ fittingSize3 then
    if size ≤ fittingSize2 then
      if size ≤ fittingSize1 then some minFittingIndex else some (minFittingIndex + 1)
    else some (minFittingIndex + 2)
  else if size ≤ fittingSize5 then
    if size ≤ fittingSize4 then some (minFittingIndex + 3) else some (minFittingIndex + 4)
  else none

/-- `getIndexOrObjectSize<false>(size)` -/
def objectSizeOf (size : Nat) : Option Nat :=
  if size = 0 then none
  else if size ≤ maxSmallObjectSize then some ((smallIndex size + 1) <<< 3)
  else if size ≤ maxSegregatedObjectSize then
    let order := highestBitPos (size - 1)
    let alignment := 128 >>> (9 - order)
    some (alignUp size alignment)
  else if size ≤ fittingSize3 then
    if size ≤ fittingSize2 then
      if size ≤ fittingSize1 then some fittingSize1 else some fittingSize2
    else some fittingSize3
  else if size ≤ fittingSize5 then
    if size ≤ fittingSize4 then some fittingSize4 else some fittingSize5
  else none

/-- object size of bin `idx` in closed form (the table the two functions above must agree with) -/
def binObjSize (idx : Nat) : Nat :=
  if idx < minSegregatedObjectIndex then (idx + 1) * 8
  else if idx < minFittingIndex then
    let g := (idx - minSegregatedObjectIndex) / 4
    let j := (idx - minSegregatedObjectIndex) % 4
    2 ^ (6 + g) + (j + 1) * 2 ^ (4 + g)
  else if idx = minFittingIndex then fittingSize1
  else if idx = minFittingIndex + 1 then fittingSize2
  else if idx = minFittingIndex + 2 then fittingSize3
  else if idx = minFittingIndex + 3 then fittingSize4
  else fittingSize5

/-- `internalPoolMalloc`: `if (!size) size = sizeof(size_t)` -/
def normSize (size : Nat) : Nat := if size = 0 then sizeofSizeT else size

/-- alignment every object of the class serving a plain `malloc(size)` is promised to have -/
def promisedAlign (size : Nat) : Nat := if normSize size ≤ 8 then 8 else 16

/-! ### slab layout -/

/-- number of objects of size `O` in a slab -/
def slabCapacity (O : Nat) : Nat := (slabSize - sizeofBlock) / O

/-- offset (from the slab base) of the `k`-th object handed out by the bump pointer, `1 ≤ k ≤ slabCapacity O` -/
def objStart (O k : Nat) : Nat := slabSize - k * O

/-- the bump pointer as a state machine: `initEmptyBlock` sets `bumpPtr = base + slabSize - objectSize`;
`allocateFromBumpPtr` returns it and moves it down, resetting it to null when it would enter the header. -/
def bumpInit (O : Nat) : Option Nat := some (slabSize - O)

def bumpAlloc (O : Nat) (bump : Option Nat) : Option Nat × Option Nat :=
  match bump with
  | none => (none, none)
  | some b =>
    -- `(uintptr_t)bumpPtr - objectSize` is computed on absolute addresses (base ≥ slabSize), no wrap-around:
    -- the comparison `< this + sizeof(Block)` is modelled on integers
    let nb : Int := (b : Int) - (O : Int)
    (some b, if nb < (sizeofBlock : Int) then none else some nb.toNat)

/-- first `n` results of the bump allocator -/
def bumpSeq (O : Nat) : Nat → Option Nat → List Nat
  | 0, _ => []
  | n + 1, bump =>
    match bumpAlloc O bump with
    | (some r, nb) => r :: bumpSeq O n nb
    | (none, _) => []

/-! ### interior pointers -/

/-- `Block::findAllocatedObject(address)` with `dist = slabEnd - address` (a `uint16_t` in the code):
returns the distance of the object start from the slab end. -/
def findAllocated (O dist : Nat) : Nat :=
  let offset := dist % 2 ^ 16
  let rem := offset % O
  -- `address - (rem ? O - rem : 0)`  ⇒ distance grows by the same amount
  dist + (if rem ≠ 0 then O - rem else 0)

/-- `Block::findObjectToFree(object)`; `base` is 16K-aligned so alignment of the address is alignment of the
offset `slabSize - dist`. -/
def findObjectToFree (O dist : Nat) : Nat :=
  if O ≤ maxSegregatedObjectSize then dist
  else if (slabSize - dist) % (2 * fittingAlignment) ≠ 0 then dist
  else findAllocated O dist

/-- `Block::findObjectSize(object)` (= msize of a slab pointer) -/
def findObjectSize (O dist : Nat) : Nat := O - (findObjectToFree O dist - dist)

/-! ### `allocateAligned` -/

inductive Strategy where
  /-- `internalPoolMalloc(req)`; `adjust`: the result is `alignUp(ptr, alignment)` (case 3) -/
  | small (req : Nat) (adjust : Bool)
  /-- `getFromLLOCache(size, align)` -/
  | large (align : Nat)
  deriving Repr, DecidableEq

/-- the case split of `allocateAligned(size, alignment)`; every guard and request expression is the
generated translation of the source text -/
def alignedStrategy (size alignment : Nat) : Strategy :=
  if aaCase1 size alignment then .small (aaReq1 size alignment) false
  else if aaSmall size alignment then
    if aaNatural size alignment then .small (aaReq2 size alignment) false
    else if aaCase3 size alignment then .small (aaReq3 size alignment) true
    else .large (aaLargeAlign size alignment)
  else .large (aaLargeAlign size alignment)

/-- what a small-object strategy returns when the slab allocator hands out the `k`-th object of the slab:
`(objectSize, offset of the returned pointer inside the object)`; `none` if the request is not a slab size -/
def smallResult (req : Nat) (adjust : Bool) (alignment k : Nat) : Option (Nat × Nat) :=
  match objectSizeOf (normSize req) with
  | none => none
  | some O =>
    let start := objStart O k
    let p := if adjust then alignUp start alignment else start
    some (O, p - start)

/-! ### large objects: `getFromLLOCache` placement -/

def headersSize : Nat := sizeofLargeMemoryBlock + sizeofLargeObjectHdr

/-- address returned for a large object: `lmb` = block address, `U` = `unalignedSize`, `tls` = thread has TLS
(shuffling enabled), `idx` = the incremented `currCacheIdx`.  `ptrDelta`, `numOfPossibleOffsets`, `offset`
are `unsigned` (32 bit) in the code. -/
def lloPlace (lmb U size alignment idx : Nat) (tls : Bool) : Nat :=
  let alignedArea := alignUp ((lmb + headersSize) % 2 ^ 64) alignment
  let alignedRight := alignDown (subU64 ((lmb + U) % 2 ^ 64) size) alignment
  let ptrDelta := (subU64 alignedRight alignedArea) % 2 ^ 32
  if ptrDelta ≠ 0 ∧ tls then
    let num := (ptrDelta / alignment) % 2 ^ 32
    let offset := (idx % 2 ^ 32) % num
    (alignedArea + (offset * alignment) % 2 ^ 64) % 2 ^ 64
  else alignedArea

/-! ### slab ownership protocol (owner + foreign freers)

State of one slab of `cap` objects (ids `0..cap-1`).  The owner's operations (`allocate`, `freeOwnObject`,
`privatizePublicFreeList`) touch owner-private fields plus ONE atomic access to `publicFreeList` (the
exchange), so each is one step.  A foreign `freePublicObject(obj)` is: load `publicFreeList` (step 1), write
`obj->next`, CAS (step 2, retried with the reloaded value on failure).  Objects are identified by index. -/

inductive FPc where
  | idle | loaded (obj : Nat) (seen : List Nat) | done
  deriving Repr, DecidableEq

inductive OwnerOp where
  | alloc | free (obj : Nat) | privatize
  deriving Repr, DecidableEq

structure Slab where
  cap        : Nat
  bumpLeft   : Nat                 -- objects never handed out yet (bump pointer region)
  freeList   : List Nat := []
  publicList : List Nat := []      -- `publicFreeList` chain (head first)
  allocCount : Nat := 0            -- `allocatedCount`
  live       : List Nat := []      -- ghost: objects currently owned by the user
  frs        : List (Nat × FPc) := []   -- foreign freers: object to free, pc
  ownerOps   : List OwnerOp := []  -- remaining script of the owner
  handed     : List Nat := []      -- ghost log of hand-outs
  bad        : Bool := false       -- ghost: an object was handed out while live / freed twice
  deriving Repr, DecidableEq

/-- thread 0 is the owner, thread `i+1` is foreign freer `i` -/
def slabStep (s : Slab) (tid : Tid) : Slab :=
  match tid with
  | 0 =>
    match s.ownerOps with
    | [] => s
    | op :: rest =>
      let s := { s with ownerOps := rest }
      match op with
      | .alloc =>
        match s.freeList with
        | o :: fl =>
          { s with freeList := fl, allocCount := s.allocCount + 1, live := o :: s.live, handed := s.handed ++ [o],
                   bad := s.bad || s.live.contains o }
        | [] =>
          if s.bumpLeft > 0 then
            let o := s.cap - s.bumpLeft
            { s with bumpLeft := s.bumpLeft - 1, allocCount := s.allocCount + 1, live := o :: s.live,
                     handed := s.handed ++ [o], bad := s.bad || s.live.contains o }
          else s
      | .free o =>
        if s.live.contains o ∧ ¬ (s.frs.any (fun f => f.1 == o)) then
          { s with live := s.live.erase o, freeList := o :: s.freeList, allocCount := s.allocCount - 1 }
        else s     -- not a legal request of the user program: ignored
      | .privatize =>
        -- `publicFreeList.exchange(nullptr)`; walk the chain decrementing `allocatedCount`; merge
        { s with publicList := [], freeList := s.publicList ++ s.freeList,
                 allocCount := s.allocCount - s.publicList.length }
  | i + 1 =>
    match s.frs[i]? with
    | none => s
    | some (o, pc) =>
      match pc with
      | .idle =>
        if s.live.contains o then
          -- the user gives the object up now; `localPublicFreeList = publicFreeList.load()`
          { s with live := s.live.erase o, frs := s.frs.set i (o, .loaded o s.publicList) }
        else { s with frs := s.frs.set i (o, .done) }
      | .loaded obj seen =>
        if s.publicList = seen then
          { s with publicList := obj :: seen, frs := s.frs.set i (o, .done) }   -- CAS succeeded
        else { s with frs := s.frs.set i (o, .loaded obj s.publicList) }       -- CAS failed: reloaded
      | .done => s

def slabSys (cap : Nat) (ownerOps : List OwnerOp) (foreign : List Nat) : Sys Slab :=
  { init := { cap := cap, bumpLeft := cap, ownerOps := ownerOps, frs := foreign.map (fun o => (o, .idle)) },
    step := slabStep }

/-! ### spec-level shadow heap (the monitor every allocator history must satisfy) -/

structure Blk where
  start : Nat
  size  : Nat
  deriving Repr, DecidableEq

/-- live blocks, pairwise disjoint -/
def Blk.disjoint (a b : Blk) : Prop := a.start + a.size ≤ b.start ∨ b.start + b.size ≤ a.start

instance (a b : Blk) : Decidable (Blk.disjoint a b) := by unfold Blk.disjoint; infer_instance

/-- `Heap.alloc` accepts a new block only if it is disjoint from every live block -/
def heapAlloc (h : List Blk) (b : Blk) : Option (List Blk) :=
  if h.all (fun x => decide (Blk.disjoint x b)) then some (b :: h) else none

def heapFree (h : List Blk) (start : Nat) : Option (List Blk) :=
  match h.find? (fun x => x.start == start) with
  | some b => some (h.erase b)
  | none => none

/-! ### line-protocol driver (E-PURE) -/

open Proto in
def showOpt : Option Nat → String
  | some x => toString x
  | none => "none"

open Proto in
def drive (ws : List String) : String :=
  match ws with
  | ["idx", s] => match nat? s with
      | some s => match indexOf s, objectSizeOf s with
          | some i, some o => s!"{i} {o}"
          | _, _ => "none"
      | none => "bad-op"
  | ["find", o, d] => match nat? o, nat? d with
      | some o, some d => s!"{findAllocated o d} {findObjectToFree o d} {findObjectSize o d}"
      | _, _ => "bad-op"
  -- `al size log2(align) k` : k = which object of the slab was handed out (observed on the implementation)
  | ["al", s, a, k] => match nat? s, nat? a, nat? k with
      | some s, some a, some k =>
        match alignedStrategy s (2 ^ a) with
        | .small req adj =>
          match smallResult req adj (2 ^ a) k with
          | some (o, off) => s!"S {o} off={off} msize={o - off}"
          | none => s!"S-bad-request {req}"
        | .large al => s!"L {al}"
      | _, _, _ => "bad-op"
  | ["m", s, k] => match nat? s, nat? k with
      | some s, some k =>
        if normSize s < minLargeObjectSize then
          match smallResult s false 1 k with
          | some (o, off) => s!"S {o} off={off} msize={o - off}"
          | none => "S-bad-request"
        else s!"L {largeObjectAlignment}"
      | _, _ => "bad-op"
  | ["place", lmb, u, s, a, idx, tls] => match nats? [lmb, u, s, a, idx, tls] with
      | some [lmb, u, s, a, idx, tls] => s!"{lloPlace lmb u s (2 ^ a) idx (tls != 0)}"
      | _ => "bad-op"
  | ["bump", o, n] => match nat? o, nat? n with
      | some o, some n => showNats (bumpSeq o n (bumpInit o))
      | _, _ => "bad-op"
  | _ => "bad-op"

def driver : Proto.Driver := Proto.pureDriver drive

end TbbVerif.C17
