/-
C19 — enumerable_thread_specific / combinable across the container's LIFECYCLE, for every key kind (executable model,
core Lean only).

One model step = one container operation: `local()` by a thread, `clear()`, destruction + re-construction at the same
address.  (Within one generation the concurrent `local()` calls are covered, access by access, by `Ets` in
Model/C19.lean: `ets_one_element_per_thread` is what justifies treating a `table_lookup` as one step here; `get_tls` /
`set_tls` touch only the calling thread's slot; `clear()` and construction / destruction are not concurrency-safe
operations.)

What is modelled exactly as coded:
 * `ets_base<ets_key_per_instance>::table_lookup`: `found = get_tls(); if (found) exists = true; else { found =
   super::table_lookup(exists); set_tls(found); }` — the per-thread cache of the native TLS key;
 * the native TLS key itself: `pthread_key_create` hands out a key for which EVERY thread reads null (glibc re-uses key
   numbers but bumps their sequence number, which is the same thing: modelled as fresh key ids), `pthread_key_delete`
   releases it, `set_tls(nullptr)` clears the slot of the CALLING thread only;
 * `clear()`, the constructor and the destructor as the SEQUENCES of primitive actions (`KOp`) found in the source text
   (regenerated into Generated/C19.lean: `lifeClearKey`, … ; `Cfg.ofCodes`);
 * `my_locals` (a concurrent_vector: `clear()` destroys the elements and KEEPS the storage, so the n-th element of the
   next generation has the address of the n-th element of this one): a pointer is a position in `my_locals`; the ghost
   generation tag says which generation's element it designates.
-/
import TbbVerif.Core.Sched
import TbbVerif.Core.Proto

namespace TbbVerif.C19.Life

/-- primitive actions of the lifecycle functions -/
inductive KOp where
  | destroyKey      -- `destroy_key()`  = `pthread_key_delete(my_key)`
  | createKey       -- `create_key()`   = `pthread_key_create(&my_key, nullptr)`
  | setTlsNull      -- `set_tls(nullptr)` by the calling thread
  | superClear      -- `ets_base<ets_no_key>::table_clear()`: free the arrays, `my_count = 0`
  | localsClear     -- `my_locals.clear()` / destruction of `my_locals`
  | unknown         -- a statement the generator does not know
  deriving DecidableEq, Repr

def KOp.decode : Nat → KOp
  | 0 => .destroyKey | 1 => .createKey | 2 => .setTlsNull | 3 => .superClear | 4 => .localsClear | _ => .unknown

/-- the lifecycle functions as sequences of primitive actions (`…Key`: ets_key_per_instance, `…No`: ets_no_key and
combinable) -/
structure Cfg where
  clearKey  : List KOp
  clearNo   : List KOp
  ctorKey   : List KOp
  ctorNo    : List KOp
  dtorKey   : List KOp
  dtorNo    : List KOp
  tlsLookup : Bool          -- `ets_base<ets_key_per_instance>::table_lookup` has the shape quoted above
  swapKey   : Bool          -- `internal_swap` (same-type move construction / move assignment / swap) exchanges `my_locals`, the table AND `my_key`
  deriving DecidableEq, Repr

def Cfg.ofCodes (ck cn kk kn dk dn : List Nat) (tl : Bool) (sw : Bool := true) : Cfg :=
  ⟨ck.map KOp.decode, cn.map KOp.decode, kk.map KOp.decode, kn.map KOp.decode, dk.map KOp.decode, dn.map KOp.decode, tl, sw⟩

/-- what /repo's unchanged header does -/
def Cfg.expected : Cfg :=
  { clearKey := [.localsClear, .destroyKey, .createKey, .superClear], clearNo := [.localsClear, .superClear],
    ctorKey := [.createKey], ctorNo := [],
    dtorKey := [.destroyKey, .createKey, .superClear, .localsClear, .destroyKey], dtorNo := [.superClear, .localsClear],
    tlsLookup := true, swapKey := true }

/-- a finished `local()` call -/
structure Ret where
  tid   : Tid
  cur   : Nat      -- generation of the container when the call returned
  pgen  : Nat      -- ghost: generation in which the returned element was created
  pos   : Nat      -- the returned address (position in `my_locals`)
  ex    : Bool     -- the `exists` flag
  fresh : Bool     -- ghost: the thread had NOT accessed the container since the last clear()
  own   : Bool     -- ghost: the address designates an element that is alive, in the container, created by this thread in this generation
  deriving DecidableEq, Repr

structure St where
  perInst : Bool                                   -- ets_key_per_instance (true) / ets_no_key, combinable (false)
  gen     : Nat := 0                               -- generation of the element storage (number of clear()s of my_locals)
  locals  : List Tid := []                         -- my_locals: creator of the element at each position
  table   : Tid → Option Nat := fun _ => none      -- the hash table, operation level: key ↦ position
  key     : Option Nat := none                     -- my_key (none: deleted / not created)
  nkeys   : Nat := 0                               -- keys handed out so far (the next fresh id)
  live    : List Nat := []                         -- keys created by this container and not deleted
  tls     : Tid → Nat → Option (Nat × Nat) := fun _ _ => none   -- TLS values: thread, key ↦ (ghost generation, position)
  inits   : List (Tid × Nat) := []                 -- ghost: initialiser calls (thread, generation)
  rets    : List Ret := []                         -- ghost: finished local() calls, newest first
  bad     : Bool := false                          -- use of a deleted key / double delete / unknown statement

def kstep (t : Tid) (s : St) : KOp → St
  | .destroyKey => match s.key with
      | some k => { s with key := none, live := s.live.erase k }
      | none => { s with bad := true }
  | .createKey => { s with key := some s.nkeys, nkeys := s.nkeys + 1, live := s.nkeys :: s.live }
  | .setTlsNull => match s.key with
      | some k => { s with tls := fun t' k' => if t' = t ∧ k' = k then none else s.tls t' k' }
      | none => { s with bad := true }
  | .superClear => { s with table := fun _ => none }
  | .localsClear => { s with locals := [], gen := s.gen + 1 }
  | .unknown => { s with bad := true }

/-- `ets_base<ets_no_key>::table_lookup` at the operation level (its atomic-access-level behaviour is `Ets`) -/
def tableLookup (s : St) (t : Tid) : St × (Nat × Nat) × Bool :=
  match s.table t with
  | some p => (s, (s.gen, p), true)
  | none =>
    let p := s.locals.length
    ({ s with locals := s.locals ++ [t], table := fun t' => if t' = t then some p else s.table t',
              inits := (t, s.gen) :: s.inits }, (s.gen, p), false)

def finish (s : St) (t : Tid) (fresh : Bool) (ptr : Nat × Nat) (ex : Bool) : St :=
  { s with rets := { tid := t, cur := s.gen, pgen := ptr.1, pos := ptr.2, ex := ex, fresh := fresh,
                     own := decide (ptr.1 = s.gen) && decide (s.locals[ptr.2]? = some t) } :: s.rets }

def setTls (s : St) (t : Tid) (k : Nat) (ptr : Nat × Nat) : St :=
  { s with tls := fun t' k' => if t' = t ∧ k' = k then some ptr else s.tls t' k' }

def accessed (s : St) (t : Tid) : Bool := s.rets.any (fun r => r.tid == t && r.cur == s.gen)

def localStep (cfg : Cfg) (s : St) (t : Tid) : St :=
  let fresh := !accessed s t
  if s.perInst then
    if !cfg.tlsLookup then { s with bad := true } else
    match s.key with
    | none => { s with bad := true }
    | some k =>
      match s.tls t k with
      | some ptr => finish s t fresh ptr true
      | none =>
        let r := tableLookup s t
        finish (setTls r.1 t k r.2.1) t fresh r.2.1 r.2.2
  else
    let r := tableLookup s t
    finish r.1 t fresh r.2.1 r.2.2

inductive Op where
  | loc (t : Tid)          -- `local()` by thread t
  | clear (t : Tid)        -- `clear()` called by thread t
  | recreate (t : Tid)     -- thread t destroys the container and constructs a new one at the same address
  | moveFresh (t : Tid)    -- thread t move-assigns a freshly constructed container into this one: `C fresh; cont = std::move(fresh);`
  deriving DecidableEq, Repr

def clearOps (cfg : Cfg) (s : St) : List KOp := if s.perInst then cfg.clearKey else cfg.clearNo
def recreateOps (cfg : Cfg) (s : St) : List KOp := if s.perInst then cfg.dtorKey ++ cfg.ctorKey else cfg.dtorNo ++ cfg.ctorNo

/-- `C fresh; cont = std::move(fresh);` (same-type move assignment = `internal_swap`, then the temporary dies with the old
contents).  If `internal_swap` exchanges the key together with the table and `my_locals`, everything the container owned
(elements, table, key) dies with the temporary and the container continues with the temporary's fresh state: the same
state change as destroy-and-re-construct.  If the key is NOT exchanged (the table and `my_locals` are), the container keeps
its old key — under which threads still cache pointers to elements that now die with the temporary — while the
temporary's key is created and deleted again. -/
def moveFreshStep (cfg : Cfg) (s : St) (t : Tid) : St :=
  if !s.perInst || cfg.swapKey then (recreateOps cfg s).foldl (kstep t) s
  else { s with table := fun _ => none, locals := [], gen := s.gen + 1, nkeys := s.nkeys + 1 }

def step (cfg : Cfg) (s : St) : Op → St
  | .loc t => localStep cfg s t
  | .clear t => (clearOps cfg s).foldl (kstep t) s
  | .recreate t => (recreateOps cfg s).foldl (kstep t) s
  | .moveFresh t => moveFreshStep cfg s t

def init (cfg : Cfg) (perInst : Bool) : St :=
  (if perInst then cfg.ctorKey else cfg.ctorNo).foldl (kstep 0) { perInst := perInst }

def run (cfg : Cfg) (perInst : Bool) (ops : List Op) : St := ops.foldl (step cfg) (init cfg perInst)

/-! ### line-protocol driver -/
open Proto

structure DSt where
  cfg : Cfg := Cfg.expected
  st  : St := init Cfg.expected false

def showRet (r : Ret) : String :=
  (if r.own then s!"{r.tid}@{r.pgen}" else if r.pgen = r.cur then "?" else "dead") ++ " " ++ showBool r.ex

/-- `cfg <7 code lists separated by | > <tls 0|1>` is not needed by the check (the driver uses the generated cfg, see
Driver/C19.lean); `new <0|1>` constructs a container (1 = ets_key_per_instance); `l t` / `c t` / `r t` / `x t` (move-assign a fresh container); every command
prints `<result of the local() or -> | <size> <live keys> <bad>` -/
def drive (d : DSt) (ws : List String) : DSt × String :=
  let fin (st : St) (res : String) : DSt × String :=
    ({ d with st := st }, s!"{res} | {st.locals.length} {st.live.length} {showBool st.bad}")
  match ws with
  | ["new", k] => match nat? k with
      | some k => fin (init d.cfg (k == 1)) "-"
      | none => (d, "bad-op")
  | ["l", t] => match nat? t with
      | some t =>
        let st := step d.cfg d.st (.loc t)
        fin st (match st.rets with | r :: _ => if st.rets.length = d.st.rets.length + 1 then showRet r else "-" | [] => "-")
      | none => (d, "bad-op")
  | ["c", t] => match nat? t with
      | some t => fin (step d.cfg d.st (.clear t)) "-"
      | none => (d, "bad-op")
  | ["r", t] => match nat? t with
      | some t => fin (step d.cfg d.st (.recreate t)) "-"
      | none => (d, "bad-op")
  | ["x", t] => match nat? t with
      | some t => fin (step d.cfg d.st (.moveFresh t)) "-"
      | none => (d, "bad-op")
  | _ => (d, "bad-op")

def driverWith (cfg : Cfg) : Proto.Driver := { σ := DSt, init := { cfg := cfg, st := init cfg false }, step := drive }

end TbbVerif.C19.Life
