/-
C18 — the failure ladder of the tbbmalloc back end under an ADVERSARIAL raw-memory oracle, and what the front end does
with a null result (executable model, core Lean only).

The ladder itself (`Backend::genericGetBlock`: bins → `scanCoalescQ(force)` → `askMemFromOS` (region size choice,
`addNewRegion`, the `maxRequestedSize` / `numOfLockedBins` hints, `bootsrapMemStatus`) → on refusal `releaseMemInCaches`
(`hardCachesCleanup` = `Backend::clean`, `waitTillBlockReleased`, the locked-bins second chance) → retry → nullptr) is the
per-operation model of C17 (`Model/C17Backend.lean`, imported read-only): there the oracle is the list `raws` of answers
`Option (address × granted size)` consumed in call order, and ANY answer may be `none`.

This file adds, on top of it:
  * the vocabulary of the C18 theorems: the regSpans of the registered regions (= the projection of `regionList` onto the
    PoolLedger of `Model/C18.lean`), `totalMemSize`, what a usable / generous oracle answer is, quiescence;
  * the front-end layers that turn a null of the back end into a failed operation and must roll back what they had
    already taken: `MemoryPool::getEmptyBlock` (slab blocks + one back reference each), `ExtMemoryPool::mallocLargeObject`
    (back reference first, then the block), `StartupBlock` / `TLSData` creation, `BackRefBlock` allocation — over the pair
    (back end, back-reference table) of C17's models.
-/
import TbbVerif.Model.C17Backend
import TbbVerif.Model.C17BackendInv
import TbbVerif.Model.C17Backref
import TbbVerif.Model.C18

namespace TbbVerif.C18.Ladder
open TbbVerif.C17
open TbbVerif.C17.BE
open TbbVerif.Generated.C17Backend

/-- one answer of the raw-memory oracle (OS `mmap` or the pool's `rawAlloc` callback): refusal, or address and granted size -/
abbrev Ans := Option (Nat × Nat)

/-- the raw memory the back end has registered: the projection of `regionList` onto the PoolLedger -/
def regSpans (rs : List BE.Region) : List (Nat × Nat) := rs.map (fun r => (r.base, r.allocSz))

/-- `Backend::totalMemSize` as it must be: the sum over the registered regions -/
def totalMem (rs : List BE.Region) : Nat := (rs.map (·.allocSz)).sum

/-- the memory the oracle granted in a list of answers -/
def grants (raws : List Ans) : List (Nat × Nat) := raws.filterMap id

/-- a grant the back end can register for a raw request of `req` bytes: word aligned, not null, not overlapping a live
region, at least as large as asked -/
def usable (s : St) (req : Nat) : Ans → Bool
  | none => false
  | some (a, g) => a % 8 == 0 && a != 0 && !regionsOverlap s.regions a g && decide (req ≤ g) && decide (beSizeofMemRegion ≤ g)

/-- no other thread is inside the back end (no bin mutex held by the environment) and no delayed coalescing request is
pending -/
def quiet (s : St) : Prop := s.g.binLocked = [] ∧ s.g.queue = []

instance (s : St) : Decidable (quiet s) := by unfold quiet; infer_instance

def spanDisj (x y : Nat × Nat) : Prop := x.1 + x.2 ≤ y.1 ∨ y.1 + y.2 ≤ x.1

instance (x y : Nat × Nat) : Decidable (spanDisj x y) := by unfold spanDisj; infer_instance

/-- an oracle that grants everything from now on: every answer is a fresh word-aligned mapping, disjoint from the
registered regions and from the earlier answers, of at least `big` bytes -/
def generous (big : Nat) : List (Nat × Nat) → List Ans → Prop
  | _, [] => True
  | _, none :: _ => False
  | occ, some (a, g) :: rest => a % 8 = 0 ∧ a ≠ 0 ∧ big ≤ g ∧ (∀ o ∈ occ, spanDisj (a, g) o) ∧ generous big ((a, g) :: occ) rest

instance generousDec (big : Nat) : (occ : List (Nat × Nat)) → (raws : List Ans) → Decidable (generous big occ raws)
  | _, [] => by unfold generous; infer_instance
  | _, none :: _ => by unfold generous; infer_instance
  | occ, some (a, g) :: rest => by
    unfold generous
    have := generousDec big ((a, g) :: occ) rest
    infer_instance

def isBlock : GetRes → Bool
  | .block _ => true
  | _ => false

/-- the largest raw request the ladder can make for a legal `genericGetBlock` in a pool of this granularity -/
def maxRawRequest (granularity : Nat) : Nat := 2 ^ 41 + granularity

/-! ### the front end on a null of the back end

State: the back end of the pool and the (global) back-reference table.  `rawsBe` are the oracle's answers to the back end,
`rawsBr` those to the back-reference table (`getBackRefSpace`: raw memory for a new leaf). -/

structure FE where
  be : St
  br : BR.Tab

/-- give `num` consecutive slab blocks back: the roll-back loop of `getEmptyBlock` -/
def putSlabs (s : St) (addr : Nat) : Nat → St
  | 0 => s
  | j + 1 => putSlabs (genericPutBlock s addr).1 (addr + beSlabSize) j

/-- `removeBackRef` of the indices taken so far -/
def removeRefs (t : BR.Tab) : List BR.Idx → BR.Tab
  | [] => t
  | i :: rest => removeRefs ((BR.removeBackRef t i).getD t) rest

/-- the back-reference loop of `getEmptyBlock`: `some idxs` = all `num` indices obtained; `none` = one `newBackRef`
returned an invalid index, the ones taken before it have been removed again.  Also the number of raw answers consumed. -/
def takeRefs (t : BR.Tab) (rawsBr : List (Option Nat)) : Nat → List BR.Idx → BR.Tab × Option (List BR.Idx) × Nat
  | 0, acc => (t, some acc.reverse, 0)
  | j + 1, acc =>
    match BR.newBackRef t false rawsBr with
    | (t', some i, u) =>
      let (t'', r, u') := takeRefs t' (rawsBr.drop u) j (i :: acc)
      (t'', r, u + u')
    | (t', none, u) => (removeRefs t' acc, none, u)

inductive FeRes where
  /-- first block and the back references of the `num` blocks -/
  | slabs (addr : Nat) (idx : List BR.Idx)
  | large (addr : Nat) (idx : BR.Idx)
  | null
  deriving Repr

/-- `MemoryPool::getEmptyBlock` on a miss of the per-thread pool, default pool (user pools take no back references):
`getSlabBlock(num)`; null → null; then one `newBackRef` per block; an invalid index → remove the ones taken, put ALL `num`
blocks back, null. -/
def getEmptyBlock (f : FE) (userPool : Bool) (num : Nat) (rawsBe : List Ans) (rawsBr : List (Option Nat)) : FE × FeRes :=
  match genericGetBlock f.be num beSlabSize true rawsBe with
  | (be', .block a, _) =>
    if userPool then (⟨be', f.br⟩, .slabs a [])
    else
      match takeRefs f.br rawsBr num [] with
      | (br', some idxs, _) => (⟨be', br'⟩, .slabs a idxs)
      | (br', none, _) => (⟨putSlabs be' a num, br'⟩, .null)
  | (be', _, _) => (⟨be', f.br⟩, .null)

/-- `ExtMemoryPool::mallocLargeObject` on a miss of the large-object cache: the back reference first (invalid → null, the
back end is not touched); then `getLargeBlock`; null → `removeBackRef`, null. -/
def mallocLargeObject (f : FE) (allocationSize : Nat) (rawsBe : List Ans) (rawsBr : List (Option Nat)) : FE × FeRes :=
  match BR.newBackRef f.br true rawsBr with
  | (br', none, _) => (⟨f.be, br'⟩, .null)
  | (br', some i, _) =>
    match genericGetBlock f.be 1 allocationSize false rawsBe with
    | (be', .block a, _) => (⟨be', br'⟩, .large a i)
    | (be', _, _) => (⟨be', (BR.removeBackRef br' i).getD br'⟩, .null)

/-! ### `pool_create_v1` / `initMemoryManager`: the chain of acquisitions and its roll-back

`doInitialization` (default pool bootstrap), `internalMalloc(sizeof(MemoryPool))`, `MemoryPool::init` (`initTLS`: a
pthread key).  Each may fail; what was obtained before is released; the result is `NO_MEMORY`. -/

inductive PoolErr where
  | ok | invalidPolicy | unsupportedPolicy | noMemory
  deriving DecidableEq, Repr

/-- resources `pool_create_v1` holds when it returns: the `MemoryPool` object (an allocation of the default pool) and
the TLS key -/
structure CreateOut where
  err : PoolErr
  holdsObject : Bool
  holdsKey : Bool
  deriving DecidableEq, Repr

/-- `initOk`: `doInitialization` succeeds (or the library is initialised already); `mallocOk`: `internalMalloc` returns
non-null; `keyOk`: `pthread_key_create` succeeds -/
def poolCreateAcquire (initOk mallocOk keyOk : Bool) : CreateOut :=
  if !initOk then ⟨.noMemory, false, false⟩
  else if !mallocOk then ⟨.noMemory, false, false⟩
  else if !keyOk then ⟨.noMemory, false, false⟩      -- internalFree(memPool)
  else ⟨.ok, true, true⟩

/-! ### pools on the back-end model: reset and destroy -/

/-- `Backend::destroy()`: `while (regionList.head) { helper = head->next; noError &= freeRawMem(head, head->allocSz); head = helper; }`
— every region is offered to the raw-free callback, whatever the earlier answers were (`answers`: what the callback
reports, `true` = success, call order).  Returns `noError` and the raw-free calls made. -/
def destroyLoop : List BE.Region → List Bool → Bool × List C18.Ev
  | [], _ => (true, [])
  | r :: rest, answers =>
    let (ok, evs) := destroyLoop rest answers.tail
    (answers.headD true && ok, C18.Ev.rawFree r.base r.allocSz :: evs)

/-- `ExtMemoryPool::destroy()` of a user pool: `ret = tlsPointerKey.destroy(); if (rawFree) ret &= backend.destroy();` -/
def poolDestroy (s : St) (hasRawFree keyOk : Bool) (answers : List Bool) : Bool × List C18.Ev :=
  if hasRawFree then
    let (ok, evs) := destroyLoop s.regions answers
    (keyOk && ok, evs)
  else (keyOk, [])

/-- `MemoryPool::reset()` on the back end: `delayRegionsReleasing(true)`; `Backend::reset()`; `delayRegionsReleasing(false)`
(no raw memory is returned by a reset, with or without `keepAllMemory`) -/
def poolReset (s : St) : St :=
  let s1 := BE.reset ⟨{ s.g with delay := true }, s.regions⟩
  ⟨{ s1.g with delay := false }, s1.regions⟩

end TbbVerif.C18.Ladder
