/-
C20 — `SuspendPoint`: the suspend / resume hand-shake of one `suspend_point_type` (src/tbb/scheduler_common.h,
task.cpp, task_dispatcher.h/.cpp, waiters.h), as an interleaving system with one step per atomic access to
`m_stack_state` and `m_is_owner_recalled`, one step for the publication of the resume task (push into
`arena::my_resume_task_stream`), one for its removal, and silent steps for the things that are not atomic accesses
(callback start, the stack switch).  Executable, core Lean only.

One instance = one suspend point `SP` (= one stack).  Any number of threads; a thread is, with respect to `SP`,

  * ON THE STACK (`stk = some t`): it executes the code that lives on SP's stack.  It may enter
    `tbb::task::suspend` (`Op.suspend`: the callback receives the suspend point; the callback may call `resume`
    itself), then leave the stack (`Op.switch`), or leave it without a user callback:
      kind `user`   `task_dispatcher::suspend` → `internal_suspend` (post-resume action none), and also the
                    `register_waiter` leave inside `resume_task::execute` (the runtime then is the one that calls
                    `r1::resume(SP)`; for SP this is the same protocol);
      kind `recall` post-resume action `notify`: `recall_point()` or a worker at its outermost level executing a
                    resume task — on the new stack the thread calls `SP.recall_owner()`;
      kind `park`   post-resume action `cleanup`: a coroutine stack goes back to the arena's co-cache and is later
                    re-entered by a plain switch (`create_coroutine` pops it) — no resume task is involved;
  * the LEAVER (`lv = some t`): it has switched to another stack and runs `finilize_resume()` there:
      `left`    `prev.m_stack_state.exchange(suspended)`; if that returned `notified`:
      `ntf`     `r1::resume(prev)` → `try_notify_resume()`: `exchange(notified)`, and iff that returned `suspended`:
      `push`    push the resume task;                          then the post-resume action:
      `rcStore` `recall_owner()`: `m_stack_state.store(notified, relaxed)`
      `rcFlag`  `m_is_owner_recalled.store(true, release)`
      `cache`   `my_co_cache.push(dispatcher)`
  * a RESUMER: `Op.resume` = `r1::resume(SP)`: `exchange(notified)`; iff it returned `suspended` the thread becomes
    the pending pusher (`rs = some t`) and its next step pushes the resume task;
  * a TAKER (`tk = some t`): `Op.take` removed the resume task from the stream (or: it is the owner and read
    `m_is_owner_recalled == true` in `get_self_recall_task` / `internal_suspend`), `Op.reuse` popped the parked
    coroutine from the co-cache; its next step is the stack switch followed by `finilize_resume()`'s
    `m_stack_state.store(active, relaxed)` — the CONTINUATION starts here; if the thread is the owner of the
    dispatcher (`this == slot->my_default_task_dispatcher`) it then does `m_is_owner_recalled.store(false)` (`clr`).

API precondition (oneTBB specification of `task::resume`; the code checks nothing): `resume(sp)` is called exactly
once for each suspend point handed out by `suspend` — so at most once per suspension, and never without one.  The
model REJECTS a violating call (`misuse`, no access is made): `callable` is set when the callback receives the
suspend point and cleared by the first `resume` call.  Other rejected calls: `suspend`/`switch`/`taskBegin`/`taskEnd`
by a thread that is not on the stack, `suspend` inside the callback, `switch user` outside a callback,
`switch recall` on a coroutine stack (no owner), `switch park` on a thread's default stack.

The enclosing `wait_context`: `wc` = its reference count; `reserve` adds a covered task (`pending`), `taskBegin`
starts one on SP's stack (`covered`), `taskEnd` (only executable on the stack, outside `suspend`) releases its
reference, `waitCheck` is the waiting thread's test `wc == 0`.

Ghost history: per suspension ("round") the chain of values of `m_stack_state`, the number of `resume` calls and
of pushes by the resumer / by the leaver; completed rounds are appended to `done` when the continuation starts.
`bad` is set if a continuation starts while a thread is on the stack, or two threads would occupy one role.
-/
import TbbVerif.Core.Sched
import TbbVerif.Core.Proto

namespace TbbVerif.C20

inductive SS where
  | active | suspended | notified
  deriving Repr, DecidableEq

/-- numeric values of `suspend_point_type::stack_state` (checked against Generated/C20.lean) -/
def SS.enc : SS → Nat
  | .active => 0 | .suspended => 1 | .notified => 2

inductive Kind where
  | user | recall | park
  deriving Repr, DecidableEq

inductive StkPc where
  | run       -- executing on the stack, outside suspend
  | cb        -- inside the suspend callback
  | cbPush    -- the callback's own resume() saw `suspended`: about to push (unreachable, modelled for fidelity)
  | clr       -- owner returned to its default dispatcher: about to store m_is_owner_recalled = false
  deriving Repr, DecidableEq

inductive LvPc where
  | left | ntf | push | rcStore | rcFlag | cache
  deriving Repr, DecidableEq

inductive Via where
  | queue | recall | reuse
  deriving Repr, DecidableEq

inductive Op where
  | suspend
  | switch (k : Kind)
  | resume
  | take
  | reuse
  | reserve | taskBegin | taskEnd | waitCheck
  deriving Repr, DecidableEq

/-- A completed suspension. -/
structure Rec where
  kind  : Kind
  chain : List SS        -- values of m_stack_state from the start of the suspension to the continuation, oldest first
  calls : Nat            -- resume() calls accepted for it
  pushR : Nat            -- resume-task pushes by a resumer
  pushL : Nat            -- resume-task pushes by the leaver
  via   : Via            -- how the continuation got the stack
  by_   : Tid            -- thread that ran the continuation
  byOwner : Bool
  deriving Repr, DecidableEq

structure Core where
  -- the code's state
  ss       : SS := .active          -- m_stack_state
  recalled : Bool := false          -- m_is_owner_recalled
  queue    : Nat := 0               -- copies of SP's resume task in the arena's resume/critical stream
  cached   : Bool := false          -- the dispatcher is in arena::my_co_cache
  fresh    : Bool := false          -- a new coroutine that has not run yet
  owner    : Option Tid := none     -- thread whose arena slot has this dispatcher as default (none: coroutine)
  wc       : Nat := 0               -- wait_context reference count
  -- who is where
  stk   : Option Tid := none
  stkPc : StkPc := .run
  lv    : Option Tid := none
  lvPc  : LvPc := .left
  rs    : Option Tid := none
  tk    : Option Tid := none
  via   : Via := .queue
  kind  : Kind := .park
  -- API ghosts
  callable : Bool := false
  called   : Bool := false
  -- wait-context ghosts
  pending : Nat := 0
  covered : Nat := 0
  waitBad : Bool := false
  -- history
  rounds : Nat := 0
  rCalls : Nat := 0
  rPushR : Nat := 0
  rPushL : Nat := 0
  recalls : Nat := 0
  recallTakes : Nat := 0
  chain : List SS := [.active]
  done  : List Rec := []
  bad   : Bool := false
  deriving Repr, DecidableEq

/-- An access as it appears in the E-SHIM trace. -/
inductive Ev where
  | none                                  -- nothing happened (operation not enabled: the thread waits)
  | tau (what : String)                   -- a step that is not an atomic access
  | xchg (old new : Nat)                  -- m_stack_state.exchange(new) returned old
  | storeSS (new old : Nat)               -- m_stack_state.store(new), value overwritten = old
  | storeRc (new old : Nat)               -- m_is_owner_recalled.store(new)
  | push                                  -- resume task published
  | reject (why : String)                 -- API precondition violated: call dropped, no access
  deriving Repr, DecidableEq

inductive Outcome where
  | stay | pop | misuse
  deriving Repr, DecidableEq

structure Res where
  c  : Core
  o  : Outcome
  ev : Ev

/-- where the leaver goes after `finilize_resume()`: its post-resume action -/
def lvAfter (c : Core) : Core :=
  match c.kind with
  | .user => { c with lv := none }
  | .recall => { c with lvPc := .rcStore }
  | .park => { c with lvPc := .cache }

def bnat (b : Bool) : Nat := if b then 1 else 0

/-- `r1::resume(SP)` up to and including `try_notify_resume()` (the caller has passed the precondition check) -/
def doNotify (c : Core) : Core :=
  { c with ss := .notified, chain := c.chain ++ [.notified], callable := false, called := true, rCalls := c.rCalls + 1 }

def pushTask (c : Core) (byLeaver : Bool) : Core :=
  { c with queue := c.queue + 1,
           rPushR := c.rPushR + (if byLeaver then 0 else 1),
           rPushL := c.rPushL + (if byLeaver then 1 else 0) }

def newRound (c : Core) (k : Kind) : Core :=
  { c with rounds := c.rounds + 1, kind := k, chain := [c.ss], rCalls := 0, rPushR := 0, rPushL := 0,
           called := false, callable := false }

/-- steps of the thread that left the stack (`finilize_resume()` + post-resume action on the new stack) -/
def stepLv (c : Core) : Res :=
  match c.lvPc with
  | .left =>
      let c' := { c with ss := .suspended, chain := c.chain ++ [.suspended] }
      if c.ss = .notified then ⟨{ c' with lvPc := .ntf }, .stay, .xchg c.ss.enc 1⟩
      else ⟨lvAfter c', .stay, .xchg c.ss.enc 1⟩
  | .ntf =>
      -- r1::resume(prev) called by finilize_resume itself: no API check, it is the code's own call
      let c' := { c with ss := .notified, chain := c.chain ++ [.notified] }
      if c.ss = .suspended then ⟨{ c' with lvPc := .push }, .stay, .xchg c.ss.enc 2⟩
      else ⟨lvAfter c', .stay, .xchg c.ss.enc 2⟩
  | .push => ⟨lvAfter (pushTask c true), .stay, .push⟩
  | .rcStore => ⟨{ c with ss := .notified, chain := c.chain ++ [.notified], lvPc := .rcFlag }, .stay, .storeSS 2 c.ss.enc⟩
  | .rcFlag => ⟨{ c with recalled := true, recalls := c.recalls + 1, lv := none }, .stay, .storeRc 1 (bnat c.recalled)⟩
  | .cache => ⟨{ c with cached := true, lv := none }, .stay, .tau "cache"⟩

/-- the continuation: stack switch + `finilize_resume()`: `m_stack_state.store(active, relaxed)` -/
def stepTk (c : Core) (t : Tid) : Res :=
  let r : Rec := { kind := c.kind, chain := c.chain ++ [.active], calls := c.rCalls, pushR := c.rPushR, pushL := c.rPushL,
                   via := c.via, by_ := t, byOwner := c.owner = some t }
  ⟨{ c with ss := .active, stk := some t, stkPc := if c.owner = some t then .clr else .run, tk := none,
            bad := c.bad || c.stk.isSome, done := r :: c.done, chain := [.active] },
   .stay, .storeSS 0 c.ss.enc⟩

/-- `r1::resume(SP)` called by thread `t` (free, or on the stack outside the callback) -/
def opResume (c : Core) (t : Tid) : Res :=
  if !c.callable then ⟨c, .misuse, .reject "resume without a valid suspend point"⟩
  else
    let c' := doNotify c
    if c.ss = .suspended then ⟨{ c' with rs := some t, bad := c.bad || c.rs.isSome }, .pop, .xchg c.ss.enc 2⟩
    else ⟨c', .pop, .xchg c.ss.enc 2⟩

def opTake (c : Core) (t : Tid) : Res :=
  if 0 < c.queue then
    ⟨{ c with queue := c.queue - 1, tk := some t, via := .queue, bad := c.bad || c.tk.isSome }, .pop, .tau "take"⟩
  else if c.recalled ∧ c.owner = some t then
    ⟨{ c with tk := some t, via := .recall, recallTakes := c.recallTakes + 1, bad := c.bad || c.tk.isSome }, .pop, .tau "take-recall"⟩
  else ⟨c, .stay, .none⟩

def opReuse (c : Core) (t : Tid) : Res :=
  if c.cached ∨ c.fresh then
    ⟨{ c with cached := false, fresh := false, tk := some t, via := .reuse, bad := c.bad || c.tk.isSome }, .pop, .tau "reuse"⟩
  else ⟨c, .stay, .none⟩

def opReserve (c : Core) : Res := ⟨{ c with wc := c.wc + 1, pending := c.pending + 1 }, .pop, .tau "reserve"⟩

/-- is the code that lives on SP's stack currently suspended (between entering `suspend` and its continuation)? -/
def suspendedNow (c : Core) : Bool := c.stk.isNone || c.stkPc == .cb || c.stkPc == .cbPush

def opWaitCheck (c : Core) : Res :=
  ⟨{ c with waitBad := c.waitBad || (c.wc == 0 && 0 < c.covered && suspendedNow c) }, .pop,
   .tau (if c.wc = 0 then "wait-complete" else "wait-continue")⟩

/-- operations available to any thread that is not in the middle of one -/
def opAny (c : Core) (t : Tid) (op : Op) : Res :=
  match op with
  | .resume => opResume c t
  | .take => opTake c t
  | .reuse => opReuse c t
  | .reserve => opReserve c
  | .waitCheck => opWaitCheck c
  | _ => ⟨c, .misuse, .reject "the thread is not executing on this stack"⟩

/-- thread `t` is on the stack -/
def stepStk (c : Core) (t : Tid) (op : Option Op) : Res :=
  match c.stkPc with
  | .cbPush => ⟨{ (pushTask c false) with stkPc := .cb }, .stay, .push⟩
  | .clr => ⟨{ c with recalled := false, stkPc := .run }, .stay, .storeRc 0 (bnat c.recalled)⟩
  | .run =>
      match op with
      | none => ⟨c, .stay, .none⟩
      | some .suspend =>
          ⟨{ (newRound c .user) with stkPc := .cb, callable := true }, .pop, .tau "callback"⟩
      | some (.switch .user) => ⟨c, .misuse, .reject "switch user outside suspend"⟩
      | some (.switch .recall) =>
          if c.owner.isSome then
            ⟨{ (newRound c .recall) with stk := none, lv := some t, lvPc := .left, bad := c.bad || c.lv.isSome }, .pop, .tau "switch"⟩
          else ⟨c, .misuse, .reject "a coroutine stack has no owner to recall"⟩
      | some (.switch .park) =>
          if c.owner.isNone then
            ⟨{ (newRound c .park) with stk := none, lv := some t, lvPc := .left, bad := c.bad || c.lv.isSome }, .pop, .tau "switch"⟩
          else ⟨c, .misuse, .reject "a thread's default stack is never parked in the co-cache"⟩
      | some .taskBegin =>
          if 0 < c.pending then ⟨{ c with pending := c.pending - 1, covered := c.covered + 1 }, .pop, .tau "task-begin"⟩
          else ⟨c, .stay, .none⟩
      | some .taskEnd =>
          if 0 < c.covered then ⟨{ c with covered := c.covered - 1, wc := c.wc - 1 }, .pop, .tau "task-end"⟩
          else ⟨c, .misuse, .reject "no covered task is running"⟩
      | some op => opAny c t op
  | .cb =>
      match op with
      | none => ⟨c, .stay, .none⟩
      | some .resume =>
          if !c.callable then ⟨c, .misuse, .reject "resume without a valid suspend point"⟩
          else
            let c' := doNotify c
            if c.ss = .suspended then ⟨{ c' with stkPc := .cbPush }, .pop, .xchg c.ss.enc 2⟩
            else ⟨c', .pop, .xchg c.ss.enc 2⟩
      | some (.switch .user) =>
          ⟨{ c with stk := none, stkPc := .run, lv := some t, lvPc := .left, bad := c.bad || c.lv.isSome }, .pop, .tau "switch"⟩
      | some .reserve => opReserve c
      | some .waitCheck => opWaitCheck c
      | some _ => ⟨c, .misuse, .reject "not allowed inside the suspend callback"⟩

/-- One step of thread `t` whose next operation (if it is not in the middle of one) is `op`. -/
def next (c : Core) (t : Tid) (op : Option Op) : Res :=
  if c.lv = some t then stepLv c
  else if c.rs = some t then ⟨{ (pushTask c false) with rs := none }, .stay, .push⟩
  else if c.tk = some t then stepTk c t
  else if c.stk = some t then stepStk c t op
  else match op with
    | none => ⟨c, .stay, .none⟩
    | some op => opAny c t op

structure Th where
  ops : List Op := []
  misuse : Bool := false
  deriving Repr, DecidableEq

structure St where
  c : Core := {}
  ths : List Th := []
  deriving Repr, DecidableEq

def step (g : St) (t : Tid) : St :=
  match g.ths[t]? with
  | none => g
  | some th =>
    let r := next g.c t th.ops.head?
    match r.o with
    | .stay => { g with c := r.c }
    | .pop => { c := r.c, ths := g.ths.set t { th with ops := th.ops.tail } }
    | .misuse => { c := r.c, ths := g.ths.set t { ops := th.ops.tail, misuse := true } }

def evOf (g : St) (t : Tid) : Ev :=
  match g.ths[t]? with
  | none => .none
  | some th => (next g.c t th.ops.head?).ev

/-- initial state: `owner = some o` — the default dispatcher of thread `o`, which is executing on it;
`owner = none` — a freshly created coroutine that nobody has run yet. -/
def initCore (owner : Option Tid) : Core :=
  match owner with
  | some o => { owner := some o, stk := some o }
  | none => { fresh := true, rounds := 1 }

def sys (owner : Option Tid) (progs : List (List Op)) : Sys St :=
  { init := { c := initCore owner, ths := progs.map (fun p => { ops := p }) }, step := step }

/-! ## line-protocol driver: validates an observed E-SHIM trace of one suspend point, event by event -/

open Proto

structure DSt where
  g : St := {}
  fail : Option String := none
  n : Nat := 0           -- events validated
  deriving Repr

def showSS : SS → String
  | .active => "A" | .suspended => "S" | .notified => "N"

def showChain (l : List SS) : String := String.join (l.map showSS)

def showKind : Kind → String
  | .user => "user" | .recall => "recall" | .park => "park"

def showVia : Via → String
  | .queue => "queue" | .recall => "recall" | .reuse => "reuse"

def showEv : Ev → String
  | .none => "-"
  | .tau w => s!"tau {w}"
  | .xchg o n => s!"xchg {o} {n}"
  | .storeSS n o => s!"store ss {n} {o}"
  | .storeRc n o => s!"store rc {n} {o}"
  | .push => "push"
  | .reject w => s!"reject {w}"

def showRec (r : Rec) : String :=
  s!"{showKind r.kind}:{showChain r.chain}:{r.calls}:{r.pushR}:{r.pushL}:{showVia r.via}:{r.by_}:{showBool r.byOwner}"

def addOp (g : St) (t : Tid) (op : Op) : St :=
  match g.ths[t]? with
  | none => g
  | some th => { g with ths := g.ths.set t { th with ops := th.ops ++ [op] } }

def pendingOps (g : St) (t : Tid) : List Op :=
  match g.ths[t]? with
  | none => []
  | some th => th.ops

def misused (g : St) : Bool := g.ths.any (·.misuse)

/-- perform one model step of `t` and require that it produces exactly `want` -/
def expect (d : DSt) (t : Tid) (want : Ev) : DSt × String :=
  let ev := evOf d.g t
  let g' := step d.g t
  if ev = want ∧ !g'.c.bad ∧ !misused g' then ({ d with g := g', n := d.n + 1 }, s!"ok {showEv ev}")
  else
    let why := s!"MISMATCH thread {t}: implementation did [{showEv want}], model does [{showEv ev}] (bad={showBool g'.c.bad} misuse={showBool (misused g')})"
    ({ d with g := g', fail := some why }, why)

/-- do silent model steps: append `op` to t's program and step once, expecting a tau -/
def doTau (d : DSt) (t : Tid) (op : Op) (what : String) : DSt × String :=
  expect { d with g := addOp d.g t op } t (.tau what)

def parseKind : String → Option Kind
  | "user" => some .user | "recall" => some .recall | "park" => some .park | _ => none

/-- Protocol (one line in, one line out):
  reset <owner|-> <nthreads>
  cb <t>                      thread t entered tbb::task::suspend on this stack, the callback has the suspend point
  leave <t> <user|wait|recall|park>   t switches away from this stack (wait = register_waiter leave: suspend+switch user)
  resumecall <t>              t is about to call r1::resume(SP) (user-level call seen by the harness)
  xchg <t> <old> <new>        m_stack_state.exchange(new) by t returned old
  store <t> ss <new> <old>    m_stack_state.store(new) by t
  store <t> rc <new> <old>    m_is_owner_recalled.store(new) by t
  push <t>                    t published the resume task
  cont <t>                    harness saw the code after suspend() continue on thread t
  reserve <t> | begin <t> | end <t> | waitcheck <t> <0|1>     wait-context events
  end                         summary: bad, rounds, completed records
-/
def drive (d : DSt) (ws : List String) : DSt × String :=
  if d.fail.isSome ∧ ws.head? ≠ some "reset" ∧ ws ≠ ["end"] then (d, "skipped") else
  match ws with
  | ["reset", o, n] =>
      match nat? n with
      | some n =>
        let owner := nat? o
        ({ g := { c := initCore owner, ths := List.replicate n {} } }, "ok")
      | none => (d, "bad-op")
  | ["cb", t] =>
      match nat? t with
      | some t => doTau d t .suspend "callback"
      | none => (d, "bad-op")
  | ["leave", t, k] =>
      match nat? t, k with
      | some t, "wait" =>
          let (d1, o1) := doTau d t .suspend "callback"
          if d1.fail.isSome then (d1, o1) else doTau d1 t (.switch .user) "switch"
      | some t, k =>
          match parseKind k with
          | some k => doTau d t (.switch k) "switch"
          | none => (d, "bad-op")
      | _, _ => (d, "bad-op")
  | ["resumecall", t] =>
      match nat? t with
      | some t => ({ d with g := addOp d.g t .resume }, "ok")
      | none => (d, "bad-op")
  | ["xchg", t, o, n] =>
      match nat? t, nat? o, nat? n with
      | some t, some o, some n =>
          -- a notify exchange by a thread that is neither the leaver nor has a pending resume op is a call of
          -- r1::resume made by the runtime itself (resume_node::notify)
          let d := if n = 2 ∧ d.g.c.lv ≠ some t ∧ pendingOps d.g t = [] then { d with g := addOp d.g t .resume } else d
          let (d1, o1) := expect d t (.xchg o n)
          -- the co-cache push of a parked coroutine is not an access to the suspend point: advance over it
          if d1.fail.isNone ∧ d1.g.c.lv = some t ∧ d1.g.c.lvPc = .cache then
            let (d2, o2) := expect d1 t (.tau "cache")
            (d2, o1 ++ " ; " ++ o2)
          else (d1, o1)
      | _, _, _ => (d, "bad-op")
  | ["store", t, "ss", n, o] =>
      match nat? t, nat? n, nat? o with
      | some t, some n, some o =>
          if n = 0 ∧ d.g.c.tk ≠ some t then
            -- how did t get the stack?  resume task (stream or owner recall) or parked coroutine
            let (d1, o1) := if (opTake d.g.c t).o = .pop then doTau d t .take (if 0 < d.g.c.queue then "take" else "take-recall")
                            else doTau d t .reuse "reuse"
            if d1.fail.isSome then (d1, o1) else expect d1 t (.storeSS n o)
          else expect d t (.storeSS n o)
      | _, _, _ => (d, "bad-op")
  | ["store", t, "rc", n, o] =>
      match nat? t, nat? n, nat? o with
      | some t, some n, some o => expect d t (.storeRc n o)
      | _, _, _ => (d, "bad-op")
  | ["push", t] =>
      match nat? t with
      | some t => expect d t .push
      | none => (d, "bad-op")
  | ["cont", t] =>
      match nat? t with
      | some t =>
          if d.g.c.stk = some t ∧ (d.g.c.stkPc = .run ∨ d.g.c.stkPc = .clr) then (d, "ok cont")
          else
            let why := s!"MISMATCH continuation on thread {t} but the model has {repr d.g.c.stk} on the stack"
            ({ d with fail := some why }, why)
      | none => (d, "bad-op")
  | ["reserve", t] =>
      match nat? t with
      | some t => doTau d t .reserve "reserve"
      | none => (d, "bad-op")
  | ["begin", t] =>
      match nat? t with
      | some t => doTau d t .taskBegin "task-begin"
      | none => (d, "bad-op")
  | ["end", t] =>
      match nat? t with
      | some t => doTau d t .taskEnd "task-end"
      | none => (d, "bad-op")
  | ["waitcheck", t, r] =>
      match nat? t with
      | some t => doTau d t .waitCheck (if r = "1" then "wait-complete" else "wait-continue")
      | none => (d, "bad-op")
  | ["end"] =>
      let c := d.g.c
      let quiet := c.lv.isNone ∧ c.rs.isNone ∧ c.tk.isNone
      (d, s!"summary fail={showBool d.fail.isSome} bad={showBool c.bad} waitBad={showBool c.waitBad} misuse={showBool (misused d.g)} " ++
          s!"events={d.n} rounds={c.rounds} done={c.done.length} quiet={showBool quiet} ss={showSS c.ss} queue={c.queue} wc={c.wc} " ++
          s!"recs={" ".intercalate (c.done.reverse.map showRec)}")
  | _ => (d, "bad-op")

def driver : Proto.Driver := { σ := DSt, init := {}, step := drive }

end TbbVerif.C20
