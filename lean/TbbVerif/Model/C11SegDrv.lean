/-
C11 — segment-table protocol model: canonical event text and the line-protocol driver for the E-SHIM replay
(kept apart from Model/C11Seg.lean so that the proofs do not depend on the driver).
-/
import TbbVerif.Model.C11Seg

namespace TbbVerif.C11.Seg
open TbbVerif.C11 (segIndex segBase segSize Op)
open TbbVerif.Generated.C11

/-! ### events for the E-SHIM replay -/

def Val.show : Val → String
  | .null => "0"
  | .tag => "F"
  | .ptr a s => if s = 0 then s!"A{a}" else s!"A{a}-{s}"

def showTab (t : Nat) : String := if t = 0 then "E" else s!"L{t}"
def showOrd : Ord → String
  | .rlx => "rlx" | .acq => "acq" | .rel => "rel" | .sc => "sc"
def showB (b : Bool) : String := if b then "1" else "0"

/-- canonical text of the access `a` performed in shared state `sh` (same format as harness/c11/segshim.cpp) -/
def evText (sh : Sh) (a : Acc) : String :=
  let r := performR sh a
  match a with
  | .loadSize o => s!"load size {showOrd o} {r.n} 0 1"
  | .faddSize d => s!"fadd size sc {r.n} {r.n + d} 1"
  | .casSize e d => if r.ok then s!"cas size sc {e} {d} 1" else s!"cas size sc {e} {r.n} 0"
  | .loadFb => s!"load fb rlx {r.n} 0 1"
  | .casFb d => if r.ok then s!"cas fb sc 0 {d} 1" else s!"cas fb sc 0 {r.n} 0"
  | .loadTptr => s!"load tptr acq {showTab r.n} 0 1"
  | .casTptr d _ _ _ =>
      if r.ok then s!"cas tptr rel E {if d = 0 then "0" else showTab d} 1" else s!"cas tptr rel E {showTab r.n} 0"
  | .loadFailed => s!"load failed rlx {showB r.ok} 0 1"
  | .storeFailed => s!"store failed rlx 1 {showB sh.failed} 1"
  | .loadSlot tab k o => s!"load {showTab tab}.{k} {showOrd o} {r.v.show} 0 1"
  | .storeSlot tab k v => s!"store {showTab tab}.{k} rel {v.show} {r.v.show} 1"
  | .casSlot tab k v => if r.ok then s!"cas {showTab tab}.{k} sc 0 {v.show} 1" else s!"cas {showTab tab}.{k} sc 0 {r.v.show} 0"
  | .alloc n _ _ => if r.ok then s!"note alloc {r.n} {n}" else s!"note allocfail {r.n} {n}"
  | .free a => match sh.allocs[a]? with
      | some e => s!"note free {a} {e.n}"
      | none => s!"note free {a} ?"
  | .talloc => if r.ok then s!"note talloc {r.n} {pointersPerLongTable}" else s!"note tallocfail {r.n} {pointersPerLongTable}"
  | .tfree id => s!"note tfree {id} {pointersPerLongTable}"
  | .ctor idx p => match p with
      | .ptr a s => if r.ok then s!"note ctor {a} {idx - s}" else s!"note ctorfail {a} {idx - s}"
      | _ => "note ctor wild"

/-! ### line-protocol driver: stateful replay of an E-SHIM trace -/

def showRes : Res → String
  | .range s e => s!"r:{s}:{e}"
  | .none => "n"
  | .exc k => s!"x:{k}"

def showASt : ASt → String
  | .held => "H" | .pub => "L" | .freed => "D"

def finalText (sh : Sh) : String :=
  let n := nSlots sh.tptr
  let slots := ",".intercalate ((List.range n).map (fun k => (visible sh k).show))
  let allocs := if sh.allocs.isEmpty then "-" else ",".intercalate (sh.allocs.map (fun e => s!"{e.n}{showASt e.st}"))
  s!"final size={sh.size} fb={sh.fb} tptr={showTab sh.tptr} slots={slots} allocs={allocs}"

/-- constructed elements whose segment the current table no longer maps to the allocation they were constructed in -/
def lostCount (sh : Sh) : Nat :=
  (sh.cons.filter (fun (c : Nat × Nat × Nat) =>
    match visible sh (segIndex c.1) with
    | .ptr a _ => a != c.2.1
    | _ => true)).length

def flagsText (sh : Sh) : String :=
  s!"oob={showB (sh.oobE || sh.oobL)} wild={showB sh.wild} badTab={showB sh.badTab} cons={sh.cons.length} lost={lostCount sh} tfreed={sh.tfreed} ntab={sh.ntab}"

open Proto in
def driveSeg (s : St) (ws : List String) : St × String :=
  match ws with
  | ["reset"] => ({}, "ok")
  | ["fault", "alloc", k] => match nat? k with
      | some k => ({ s with sh := { s.sh with fAlloc := k :: s.sh.fAlloc } }, "ok")
      | none => (s, "bad-op")
  | ["fault", "table", k] => match nat? k with
      | some k => ({ s with sh := { s.sh with fTab := k :: s.sh.fTab } }, "ok")
      | none => (s, "bad-op")
  | ["fault", "ctor", k] => match nat? k with
      | some k => ({ s with sh := { s.sh with fCtor := k :: s.sh.fCtor } }, "ok")
      | none => (s, "bad-op")
  | "prog" :: ops => match TbbVerif.C11.parseOps ops with
      | some os => ({ s with ths := s.ths ++ [{ ops := os }] }, "ok")
      | none => (s, "bad-op")
  | ["s", t] => match nat? t with
      | some t => match s.ths[t]? with
          | none => (s, "bad-tid")
          | some th => match accOf th with
              | none => (s, "-")
              | some a => (step s t, evText s.sh a)
      | none => (s, "bad-op")
  | "x" :: t :: exp =>
      -- replay one implementation event of thread t: `ok` (model performs the same access), `ok+` (same access with a
      -- stronger memory order than the model's), `skip` (an implementation-side plain load the model does not have:
      -- tolerated, the model does not move) or `MISMATCH`
      match nat? t with
      | some t => match s.ths[t]? with
          | none => (s, "bad-tid")
          | some th =>
            let want := " ".intercalate exp
            let have_ := match accOf th with
              | none => "-"
              | some a => evText s.sh a
            if have_ = want then (step s t, "ok")
            else
              let hw := words have_
              let rank (o : String) : Nat :=
                if o = "rlx" then 0 else if o = "cns" then 1 else if o = "acq" then 2 else if o = "rel" then 2
                else if o = "acqrel" then 3 else if o = "sc" then 4 else 9
              let sameButOrder := hw.length = exp.length && exp.length ≥ 3 &&
                (hw.take 2 == exp.take 2) && (hw.drop 3 == exp.drop 3) &&
                rank (exp.getD 2 "") > rank (hw.getD 2 "") && rank (exp.getD 2 "") ≤ 4 &&
                !(exp.getD 2 "" = "acq" && hw.getD 2 "" = "rel") && !(exp.getD 2 "" = "rel" && hw.getD 2 "" = "acq")
              if sameButOrder then (step s t, "ok+ " ++ have_)
              else if exp.head? = some "load" then (s, "skip " ++ have_)
              else (s, "MISMATCH " ++ have_)
      | none => (s, "bad-op")
  | ["res", t] => match nat? t with
      | some t => match s.ths[t]? with
          | none => (s, "bad-tid")
          | some th => (s, s!"{th.ops.length} " ++ " ".intercalate (th.res.map showRes))
      | none => (s, "bad-op")
  | ["pcs"] =>
      -- where every thread is: `<pc>/<calls left>`; used to attribute an implementation-side deadlock
      (s, " ".intercalate (s.ths.map (fun th => s!"{reprStr th.pc}/{th.ops.length}")) ++ s!" failed={showB s.sh.failed} tptr={showTab s.sh.tptr}")
  | ["stuck"] =>
      -- per thread: F finished, S spinning (one or two of its own steps bring the whole state back), P can make progress
      (s, " ".intercalate ((List.range s.ths.length).map (fun t =>
        match s.ths[t]? with
        | some th =>
          if th.ops.isEmpty && th.pc == .idle then "F"
          else if decide (step s t = s) || decide (step (step s t) t = s) then "S" else "P"
        | none => "?")))
  | ["final"] => (s, finalText s.sh)
  | ["flags"] => (s, flagsText s.sh)
  | _ => (s, "bad-op")

def driverSeg : Proto.Driver := { σ := St, init := {}, step := driveSeg }

end TbbVerif.C11.Seg
