/-
C16 (second half) — mandatory concurrency accounting of one arena.

Code modelled: `arena::advertise_new_work<work_type>` (arena.h), `arena::out_of_work`, `arena::on_thread_leaving`
(the `out_of_work` call of a leaving external thread), `atomic_flag::test_and_set / try_clear_if / test` (arena.h),
`arena::request_workers` -> `threading_control_impl::adjust_demand` = `thread_request_serializer_proxy::
register_mandatory_request(mandatory_delta)` followed by `market::adjust_demand` (which runs `arena::update_request`
under the market mutex).

An interleaving system: any number of threads, each with a program of actions; ONE model step = one atomic access to
`my_mandatory_concurrency.my_state` / `my_pool_state.my_state`, one access to the fifo stream's population word, or one
of the two critical sections of `adjust_demand`.  `busy t` is the value `std::uintptr_t(&busy)` of thread `t`'s local.
`has_tasks()` (a multi-word snapshot of all slots and streams) is an oracle carried by the action; `has_enqueued_tasks()`
is the single population word `hasEnq`.

The decisions (when a delta is reported, its value, the override for worker-less arenas, the predicates given to
`try_clear_if`) are *generated* (`Generated.C16.adv*`, `oow*`, `arenaWorkerless`, `leaveCallsOow`).
-/
import TbbVerif.Core.Sched
import TbbVerif.Model.C16

namespace TbbVerif.C16.Mand
open TbbVerif.Generated.C16

inductive Flag where
  | unset
  | set
  | busy (t : Nat)
  deriving Repr, DecidableEq

structure MCfg where
  numSlots : Nat
  reserved : Nat
  maxWorkers : Nat          -- my_max_num_workers
  deriving Repr, DecidableEq

inductive Act where
  | enqueue                       -- stream push, then advertise_new_work<work_enqueued>
  | spawn                         -- advertise_new_work<work_spawned> / <wakeup> (the task is already in a slot)
  | oow (hasTasks : Bool)         -- out_of_work(); oracle = what has_tasks() returns inside try_clear_if
  | popFifo (nowEmpty : Bool)     -- a thread pops an enqueued task; oracle = the population word becomes 0
  | leave (hasTasks : Bool)       -- on_thread_leaving(ref_external): `if (!my_mandatory_concurrency.test()) out_of_work()`
  deriving Repr, DecidableEq

inductive Pc where
  | idle
  | push                            -- enqueue: the population bit is set
  | tasLoad (mand : Bool)           -- test_and_set: `state = my_state.load()`
  | tasCasU (mand : Bool)           -- test_and_set: `return my_state.compare_exchange_strong(UNSET, SET)`
  | tasCasB (mand : Bool) (seen : Flag)   -- test_and_set: loaded a busy value, `compare_exchange_strong(seen, SET)`
  | clrLoad (mand : Bool)           -- try_clear_if: `state = my_state.load()`
  | clrCas (mand : Bool)            -- try_clear_if: `compare_exchange_strong(SET, busy)`
  | clrPred (mand : Bool)           -- try_clear_if: `pred()`
  | clrFin (mand : Bool) (p : Bool) -- try_clear_if: `compare_exchange_strong(busy, p ? UNSET : SET)`
  | reqSer                          -- register_mandatory_request(mandatory_delta)
  | reqMkt                          -- market::adjust_demand(mandatory_delta, workers_delta)
  | testLoad                        -- on_thread_leaving: my_mandatory_concurrency.test()
  deriving Repr, DecidableEq

structure MTh where
  pc : Pc := .idle
  prog : List Act := []
  adv : Bool := false          -- the running operation is advertise_new_work (else out_of_work)
  enq : Bool := false          -- work_type == work_enqueued
  hasTasks : Bool := false     -- oracle of the running out_of_work
  mRes : Bool := false         -- is_mandatory_needed / disable_mandatory
  wRes : Bool := false         -- are_workers_needed / release_workers
  md : Int := 0                -- mandatory_delta handed to request_workers
  wd : Int := 0                -- workers_delta handed to request_workers
  deriving Repr, DecidableEq

/-- the shared words -/
structure MSh where
  mand : Flag := .unset        -- my_mandatory_concurrency
  pool : Flag := .unset        -- my_pool_state
  hasEnq : Bool := false       -- !my_fifo_task_stream.empty()
  arena : Arena                -- my_mandatory_requests, my_total_num_workers_requested, pm_client min/max
  marketMand : Int := 0        -- this arena's contribution to market::my_mandatory_num_requested
  proxyMand : Int := 0         -- ... to thread_request_serializer_proxy::my_num_mandatory_requests
  deriving Repr, DecidableEq

structure MSt where
  sh : MSh
  ths : List MTh
  deriving Repr, DecidableEq

def MSh.flag (sh : MSh) (mand : Bool) : Flag := if mand then sh.mand else sh.pool
def MSh.setFlag (sh : MSh) (mand : Bool) (f : Flag) : MSh := if mand then { sh with mand := f } else { sh with pool := f }

/-- the operation is over: compute the deltas as coded, go to `request_workers` or finish -/
def finishOp (cfg : MCfg) (th : MTh) : MTh :=
  let wl := arenaWorkerless cfg.maxWorkers
  if th.adv then
    if advReports th.mRes th.wRes then
      let wd0 := advWorkersDelta th.wRes cfg.maxWorkers
      { th with pc := .reqSer, md := advMandDelta th.mRes, wd := if advOverrideCond th.mRes wl then advOverrideVal else wd0 }
    else { th with pc := .idle }
  else
    if oowReports th.mRes th.wRes then
      let wd0 := oowWorkersDelta th.wRes cfg.maxWorkers
      { th with pc := .reqSer, md := oowMandDelta th.mRes, wd := if oowOverrideCond th.mRes wl then oowOverrideVal else wd0 }
    else { th with pc := .idle }

/-- a flag operation on the mandatory (`mand = true`) or pool flag returned `r`: continue with the next one -/
def flagDone (cfg : MCfg) (th : MTh) (mand : Bool) (r : Bool) : MTh :=
  if mand then
    let th1 := { th with mRes := r }
    if th.adv then { th1 with pc := .tasLoad false } else { th1 with pc := .clrLoad false }
  else finishOp cfg { th with wRes := r }

/-- first program counter of an action -/
def beginAct (_cfg : MCfg) (th : MTh) : MTh :=
  match th.prog with
  | [] => th
  | a :: rest =>
    let th0 : MTh := { th with prog := rest, mRes := false, wRes := false, md := 0, wd := 0 }
    match a with
    | .enqueue => { th0 with pc := .push, adv := true, enq := true }
    | .spawn => { th0 with pc := .tasLoad false, adv := true, enq := false }
    | .oow ht => { th0 with pc := .clrLoad true, adv := false, enq := false, hasTasks := ht }
    | .popFifo ne => { th0 with pc := .push, adv := false, enq := ne }       -- `enq` reused as the `nowEmpty` oracle
    | .leave ht => { th0 with pc := .testLoad, adv := false, enq := false, hasTasks := ht }

/-- one atomic step of thread `t` (its record `th` with `pc ≠ idle`) -/
def stepPc (cfg : MCfg) (t : Nat) (sh : MSh) (th : MTh) : MSh × MTh :=
  match th.pc with
  | .idle => (sh, th)
  | .push =>
    if th.adv then
      -- enqueue: population bit set; then `if (work_type == work_enqueued && my_num_slots > my_num_reserved_slots)`
      ({ sh with hasEnq := true },
       if advMandCond th.enq cfg.numSlots cfg.reserved then { th with pc := .tasLoad true } else { th with pc := .tasLoad false })
    else
      -- popFifo
      ((if th.enq then { sh with hasEnq := false } else sh), { th with pc := .idle })
  | .tasLoad m =>
    match sh.flag m with
    | .set => (sh, flagDone cfg th m false)
    | .unset => (sh, { th with pc := .tasCasU m })
    | .busy b => (sh, { th with pc := .tasCasB m (.busy b) })
  | .tasCasU m =>
    if sh.flag m = .unset then (sh.setFlag m .set, flagDone cfg th m true) else (sh, flagDone cfg th m false)
  | .tasCasB m seen =>
    if sh.flag m = seen then (sh.setFlag m .set, flagDone cfg th m false)       -- "we interrupted clear transaction"
    else if sh.flag m ≠ .unset then (sh, flagDone cfg th m false)               -- "we lost our epoch"
    else (sh, { th with pc := .tasCasU m })                                     -- "too late but still in the same epoch"
  | .clrLoad m =>
    if sh.flag m = .set then (sh, { th with pc := .clrCas m }) else (sh, flagDone cfg th m false)
  | .clrCas m =>
    if sh.flag m = .set then (sh.setFlag m (.busy t), { th with pc := .clrPred m }) else (sh, flagDone cfg th m false)
  | .clrPred m =>
    (sh, { th with pc := .clrFin m (if m then oowMandPred sh.hasEnq else oowPoolPred th.hasTasks) })
  | .clrFin m p =>
    if sh.flag m = .busy t then
      if p then (sh.setFlag m .unset, flagDone cfg th m true) else (sh.setFlag m .set, flagDone cfg th m false)
    else (sh, flagDone cfg th m false)
  | .reqSer => ({ sh with proxyMand := sh.proxyMand + th.md }, { th with pc := .reqMkt })
  | .reqMkt =>
    ({ sh with arena := (sh.arena.updateRequest th.md th.wd).1, marketMand := sh.marketMand + th.md }, { th with pc := .idle })
  | .testLoad =>
    if leaveCallsOow true (decide (sh.mand ≠ .unset)) then (sh, { th with pc := .clrLoad true }) else (sh, { th with pc := .idle })

/-- a step of thread `t`: an idle thread starts its next action and performs its first access -/
def stepTh (cfg : MCfg) (t : Nat) (sh : MSh) (th : MTh) : MSh × MTh :=
  stepPc cfg t sh (if th.pc = .idle then beginAct cfg th else th)

def MSt.step (cfg : MCfg) (s : MSt) (t : Tid) : MSt :=
  match s.ths[t]? with
  | none => s
  | some th =>
    let r := stepTh cfg t s.sh th
    { sh := r.1, ths := s.ths.set t r.2 }

def mandSys (cfg : MCfg) (progs : List (List Act)) : Sys MSt :=
  { init := { sh := { arena := { id := 0, maxNumWorkers := cfg.maxWorkers } }, ths := progs.map (fun p => { prog := p }) }
    step := MSt.step cfg }

/-- the pool-flag phase of an operation (the mandatory flag has been dealt with, `mRes` is final) -/
def poolPhase : Pc → Bool
  | .tasLoad false | .tasCasU false | .tasCasB false _ | .clrLoad false | .clrCas false | .clrPred false | .clrFin false _ => true
  | _ => false

/-- the mandatory delta the running operation is going to report, as decided by its mandatory-flag phase -/
def decided (th : MTh) : Int := if th.adv then advMandDelta th.mRes else oowMandDelta th.mRes

/-- mandatory deltas that are decided (the flag already changed) but have not reached the market yet -/
def inflightMkt (th : MTh) : Int := match th.pc with
  | .reqSer => th.md
  | .reqMkt => th.md
  | pc => if poolPhase pc then decided th else 0

/-- ... have not reached the serializer proxy yet -/
def inflightSer (th : MTh) : Int := match th.pc with
  | .reqSer => th.md
  | pc => if poolPhase pc then decided th else 0

def flagBit (f : Flag) : Int := if f = .unset then 0 else 1

def MSt.quiescent (s : MSt) : Prop := ∀ th ∈ s.ths, th.pc = .idle

end TbbVerif.C16.Mand
