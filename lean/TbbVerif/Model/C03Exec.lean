/-
C03 — `task_arena::execute`: how the exception of the delegated functor gets back to the calling thread.
Executable model (core Lean only; linked into drv_c03).

Code (src/tbb/arena.cpp `task_arena_impl::execute`, `delegated_task`; include/oneapi/tbb/task_arena.h `task_arena_function`,
`execute_impl`; the catch block of `task_dispatcher::local_wait_for_all`):

    same arena, or a slot was free (index1):   nested_arena_context scope(..); d();          -- DIRECT: the functor runs on the
                                                                                              -- caller, its exception simply propagates
    no slot:   wait_context wo(1); task_group_context exec_context(isolated); delegated_task dt(d, monitors, wo);
               a->enqueue_task(dt, exec_context, *td);
               do { prepare_wait; if (!wo.continue_execution()) break;
                    index2 = occupy_free_slot(); if (index2 != out_of_arena) { nested_arena_context scope; r1::wait(wo, exec_context); break; }
                    commit_wait } while (wo.continue_execution());
               auto exception = exec_context.my_exception.load(acquire);  if (exception) exception->throw_self();
               -- leaving the block (return or unwinding): ~delegated_task spins until m_completed, then ~exec_context destroys the
               -- tbb_exception_ptr

    delegated_task::execute:  try_call([&]{ m_delegate(); }).on_completion(restore execute data);  finalize();
    delegated_task::cancel:   finalize();
    delegated_task::finalize: m_wait_ctx.release(); m_monitor.notify(..); m_completed.store(true, release);

    dispatcher (whoever runs the task — a thread inside the arena, or the CALLER itself once it got a slot and sits in r1::wait):
        if (ctx cancelled) t->cancel() else t->execute();   catch (...) { if (ctx.cancel_group_execution()) ctx.my_exception.store(..) }
        and the loop goes on with the same task (now cancelled -> cancel() -> finalize()).

State = the code's words: `exec_context.my_cancellation_requested`, `.my_exception`, `wo`, `m_completed`, "dt is in the arena's queue",
the caller's position, the position of THE thread that took the task (one task object: one holder; the arbitration of the queue is C01's).
Any number of threads: the taker is an arbitrary `Tid` (0 = the caller, allowed only after it obtained a slot).

`Skel` = the skeleton facts regenerated from arena.cpp / task_dispatcher.h on every run (Generated/C03.lean); the model follows them where a
deviation has a modelled meaning, and `Skel.ok` is what the theorems assume.
-/
import TbbVerif.Model.C03

namespace TbbVerif.C03.Exec

open TbbVerif.C03 (ExcId Outcome)

/-- skeleton of `task_arena_impl::execute` / `delegated_task` / the dispatcher's catch block -/
structure Skel where
  /-- the rethrow is guarded by the loaded exception pointer only (`if (exception) exception->throw_self();`) -/
  rethrowAlways : Bool
  /-- `my_exception.load` comes after the wait loop, outside any other condition -/
  loadAfterLoop : Bool
  /-- `dt` is declared after `wo` and `exec_context`: `~delegated_task` (spin on `m_completed`) runs first on scope exit -/
  dtDeclaredLast : Bool
  /-- `~delegated_task` waits for `m_completed` -/
  dtorWaitsCompleted : Bool
  /-- positions of release / notify / completed.store in `finalize()` (expected `[0, 1, 2]`) -/
  finalizeOrder : List Nat
  /-- `cancel()` calls `finalize()`; `execute()` calls `finalize()` after the guarded call of the delegate -/
  cancelFinalizes : Bool
  executeFinalizes : Bool
  /-- catch block: the exception is stored only inside `if (cancel_group_execution())` -/
  storeOnlyWinner : Bool
  /-- `cancel_group_execution` decides the winner with an `exchange` -/
  cancelByExchange : Bool
  deriving Repr, DecidableEq

def Skel.ok (k : Skel) : Bool :=
  k.rethrowAlways && k.loadAfterLoop && k.dtDeclaredLast && k.dtorWaitsCompleted && (k.finalizeOrder == [0, 1, 2]) &&
  k.cancelFinalizes && k.executeFinalizes && k.storeOnlyWinner && k.cancelByExchange

def Skel.expected : Skel :=
  { rethrowAlways := true, loadAfterLoop := true, dtDeclaredLast := true, dtorWaitsCompleted := true, finalizeOrder := [0, 1, 2],
    cancelFinalizes := true, executeFinalizes := true, storeOnlyWinner := true, cancelByExchange := true }

/-- the caller (thread 0) -/
inductive CPc where
  | start
  | direct                          -- has a slot / same arena: about to call `d()` itself
  | dRunning                        -- inside the functor, on its own stack (no capture)
  | enq                             -- constructed wo(1), exec_context, dt; about to enqueue
  | waiting                         -- in the wait loop (without a slot: parked on the exit monitor; with a slot: inside r1::wait)
  | left                            -- saw wo == 0; next: load my_exception (acquire)
  | loaded (oe : Option ExcId)      -- next: leave the block (return or throw_self): ~delegated_task
  | dtorCtx (oe : Option ExcId)     -- dt destroyed; next: ~exec_context
  | leaving (oe : Option ExcId)     -- next: the call returns / the exception leaves `execute`
  | exited
  deriving DecidableEq, Repr, Inhabited

/-- the thread that took the delegated task -/
inductive RPc where
  | none
  | check                           -- dispatch loop: load the cancellation flag of exec_context
  | running                         -- inside delegated_task::execute -> m_delegate() -> the functor
  | caught (e : ExcId)              -- catch (...): relaxed load in cancel_group_execution
  | xchg (e : ExcId)                -- exchange(1)
  | store (e : ExcId)               -- winner: my_exception.store(release)
  | finRel                          -- finalize: m_wait_ctx.release()
  | finNotify                       -- finalize: m_monitor.notify
  | finDone                         -- finalize: m_completed.store(true)
  deriving DecidableEq, Repr, Inhabited

structure State where
  sk : Skel
  fn : Outcome                      -- what the functor does
  cpc : CPc
  runner : Option Tid               -- who took the task
  rp : RPc
  queued : Bool
  hasSlot : Bool                    -- the caller entered the arena (index2 != out_of_arena)
  cancelled : Bool                  -- exec_context.my_cancellation_requested
  exc : Option ExcId                -- exec_context.my_exception
  wo : Nat
  completed : Bool
  -- ghost
  deleg : Bool
  started : Nat
  ended : Nat
  outs : List (Tid × ExcId)         -- exceptions that left `execute`, with the thread on which they did
  returned : Nat
  dtLive : Bool
  dtDestroyed : Nat
  excAlloc : Nat
  excFreed : Nat
  touchedDead : Nat                 -- accesses of dt / wo by the runner after the caller destroyed them
  deriving Repr

inductive Act where
  | caller (choice : Nat)
  | take (t : Tid)
  | run (t : Tid)
  deriving DecidableEq, Repr, Inhabited

def init (sk : Skel) (fn : Outcome) : State :=
  { sk := sk, fn := fn, cpc := .start, runner := none, rp := .none, queued := false, hasSlot := false, cancelled := false, exc := none,
    wo := 0, completed := false, deleg := false, started := 0, ended := 0, outs := [], returned := 0, dtLive := false, dtDestroyed := 0,
    excAlloc := 0, excFreed := 0, touchedDead := 0 }

/-- what leaves the call for a loaded exception pointer -/
def thrownOut (s : State) (oe : Option ExcId) : Option ExcId :=
  if s.sk.rethrowAlways then oe else (if s.hasSlot then oe else none)

def stepCaller (s : State) (choice : Nat) : State :=
  match s.cpc with
  | .start => if choice = 0 then { s with cpc := .direct } else { s with cpc := .enq, deleg := true, wo := 1, dtLive := true }
  | .direct => { s with cpc := .dRunning, started := s.started + 1, runner := some 0 }
  | .dRunning =>
    match s.fn with
    | .ok => { s with cpc := .exited, ended := s.ended + 1, returned := s.returned + 1 }
    | .throw e => { s with cpc := .exited, ended := s.ended + 1, outs := (0, e) :: s.outs }
  | .enq => { s with cpc := .waiting, queued := true }
  | .waiting =>
    if s.runner = some 0 ∧ s.rp ≠ .none then s                                          -- (thread 0 is inside the task: see `run 0`)
    else if choice = 0 then (if s.wo = 0 then s else { s with hasSlot := true })        -- occupy_free_slot succeeded
    else if s.wo = 0 then { s with cpc := .left }                                        -- wo.continue_execution() == false
    else s
  | .left => { s with cpc := .loaded s.exc }
  | .loaded oe =>
    if s.sk.dtorWaitsCompleted && !s.completed then s                                    -- spin_wait_until_eq(m_completed, true)
    else { s with cpc := .dtorCtx oe, dtLive := false, dtDestroyed := s.dtDestroyed + 1 }
  | .dtorCtx oe => { s with cpc := .leaving oe, excFreed := s.excFreed + (if s.exc.isSome then 1 else 0), exc := none }
  | .leaving oe =>
    match thrownOut s oe with
    | some e => { s with cpc := .exited, outs := (0, e) :: s.outs }
    | none => { s with cpc := .exited, returned := s.returned + 1 }
  | .exited => s

def stepTake (s : State) (t : Tid) : State :=
  if s.queued ∧ (t ≠ 0 ∨ (s.cpc = .waiting ∧ s.hasSlot)) then { s with queued := false, runner := some t, rp := .check } else s

def touch (s : State) : State := if s.dtLive then s else { s with touchedDead := s.touchedDead + 1 }

def stepRun (s : State) (t : Tid) : State :=
  if s.runner ≠ some t ∨ !s.deleg then s else
  match s.rp with
  | .none => s
  | .check => if s.cancelled then { s with rp := .finRel } else { s with rp := .running, started := s.started + 1 }
  | .running =>
    match s.fn with
    | .ok => { s with rp := .finRel, ended := s.ended + 1 }
    | .throw e => { s with rp := .caught e, ended := s.ended + 1 }
  | .caught e => if s.cancelled then { s with rp := .check } else { s with rp := .xchg e }
  | .xchg e =>
    if s.cancelled then { s with rp := .check }
    else if s.sk.storeOnlyWinner then { s with cancelled := true, rp := .store e } else { s with cancelled := true, rp := .check }
  | .store e => { s with exc := some e, excAlloc := s.excAlloc + 1, rp := .check }
  | .finRel => { touch s with rp := .finNotify, wo := s.wo - 1 }
  | .finNotify => { touch s with rp := .finDone }
  | .finDone => { touch s with rp := .none, completed := true }

def step (s : State) : Act → State
  | .caller c => stepCaller s c
  | .take t => stepTake s t
  | .run t => stepRun s t

def runFrom (s : State) (acts : List Act) : State := acts.foldl step s

def run (sk : Skel) (fn : Outcome) (acts : List Act) : State := runFrom (init sk fn) acts

/-! ## line driver (validate mode): the check feeds the action sequence derived from the implementation's event log -/

open TbbVerif.Proto TbbVerif.C03

def showOE : Option ExcId → String
  | some e => toString e
  | none => "-"

def showCPc : CPc → String
  | .start => "start" | .direct => "direct" | .dRunning => "drunning" | .enq => "enq" | .waiting => "waiting" | .left => "left"
  | .loaded oe => s!"loaded {showOE oe}" | .dtorCtx oe => s!"dtorctx {showOE oe}" | .leaving oe => s!"leaving {showOE oe}" | .exited => "exited"

def showRPc : RPc → String
  | .none => "none" | .check => "check" | .running => "running" | .caught e => s!"caught {e}" | .xchg e => s!"xchg {e}"
  | .store e => s!"store {e}" | .finRel => "finrel" | .finNotify => "finnotify" | .finDone => "findone"

/-- what a step did, as seen from outside (`stutter` = the action was not enabled) -/
def describe (s : State) (a : Act) (s' : State) : String :=
  match a with
  | .caller _ =>
    match s.cpc, s'.cpc with
    | .start, .direct => "direct"
    | .start, .enq => "delegate"
    | .direct, .dRunning => "fbegin 0"
    | .dRunning, .exited => (match s'.outs.head? with
      | some (_, e) => if s'.outs.length > s.outs.length then s!"fend throw {e} out 0 {e}" else "fend ok ret"
      | none => "fend ok ret")
    | .enq, .waiting => "enqueue"
    | .waiting, .waiting => if s'.hasSlot && !s.hasSlot then "slot" else "stutter"
    | .waiting, .left => "leave"
    | .left, .loaded oe => s!"excload {showOE oe}"
    | .loaded _, .dtorCtx _ => "dtordt"
    | .loaded _, .loaded _ => "stutter"
    | .dtorCtx _, .leaving _ => s!"dtorctx {s'.excFreed}"
    | .leaving _, .exited => (match s'.outs.head? with
      | some (_, e) => if s'.outs.length > s.outs.length then s!"out 0 {e}" else "ret"
      | none => "ret")
    | _, _ => "stutter"
  | .take t => if s'.runner = some t ∧ s.queued ∧ !s'.queued then s!"take {t}" else "stutter"
  | .run _ =>
    match s.rp, s'.rp with
    | .check, .running => "check exec"
    | .check, .finRel => "check cancel"
    | .running, .finRel => "fend ok"
    | .running, .caught e => s!"fend throw {e}"
    | .caught _, .xchg _ => "cload 0"
    | .caught _, .check => "cload 1"
    | .xchg _, .store _ => "xchg 0"
    | .xchg _, .check => if s.cancelled then "xchg 1" else "xchg 0 nostore"
    | .store e, .check => s!"store {e}"
    | .finRel, .finNotify => s!"release {s'.wo}"
    | .finNotify, .finDone => "notify"
    | .finDone, .none => "completed"
    | _, _ => "stutter"

def showState (s : State) : String :=
  s!"cpc {showCPc s.cpc} rp {showRPc s.rp} started {s.started} ended {s.ended} outs {s.outs.length} returned {s.returned} dt {s.dtDestroyed} exc {s.excAlloc}/{s.excFreed} touched {s.touchedDead}"

def skelOfNats (ws : List Nat) : Skel :=
  match ws with
  | [a, b, c, d, f0, f1, f2, g, h, i, j] =>
    { rethrowAlways := a = 1, loadAfterLoop := b = 1, dtDeclaredLast := c = 1, dtorWaitsCompleted := d = 1, finalizeOrder := [f0, f1, f2],
      cancelFinalizes := g = 1, executeFinalizes := h = 1, storeOnlyWinner := i = 1, cancelByExchange := j = 1 }
  | _ => Skel.expected

def drvStep (st : Option State) (ws : List String) : Option State × String :=
  match ws with
  | "init" :: fn :: rest =>
    match parseOutcome fn, nats? rest with
    | some o, some ns => (some (init (skelOfNats ns) o), "init")
    | _, _ => (st, "bad-op")
  | _ =>
    match st with
    | none => (st, "bad-op")
    | some s =>
      let act : Option Act := match ws with
        | ["c", c] => (nat? c).map Act.caller
        | ["take", t] => (nat? t).map Act.take
        | ["run", t] => (nat? t).map Act.run
        | _ => none
      match act, ws with
      | some a, _ => let s' := step s a; (some s', describe s a s')
      | none, ["state"] => (st, showState s)
      | none, _ => (st, "bad-op")

def driver : Proto.Driver := { σ := Option State, init := none, step := drvStep }

end TbbVerif.C03.Exec
