/-
C11 — the segment-table protocol of concurrent_vector at atomic-access granularity (executable, core Lean only).

Code modelled (one model step per atomic access / allocator call / element construction):
  include/oneapi/tbb/detail/_segment_table.h   extend_table_if_necessary (both branches), internal_subscript<true>,
                                               enable_segment, assign_first_block_if_necessary, capacity()
  include/oneapi/tbb/concurrent_vector.h       allocate_long_table, create_segment (first-block election, owner
                                               allocation, waiters, failure tagging), internal_emplace_back,
                                               internal_grow, internal_loop_construct, internal_grow_by_delta,
                                               internal_grow_to_at_least (CAS-max loop, the wait for segments), size()

State = the code's own state words: my_size, my_first_block, my_segment_table (0 = the embedded table, k>0 = the k-th
allocated long table), my_embedded_table[3], the installed long table[64], my_segment_table_allocation_failed; plus ghost
ledgers (allocations, constructions, hand-out log).  A step is split into
   `accOf t`      the access the thread performs next (depends on its locals only),
   `perform`      the generic memory semantics of that access on the shared words,
   `cont`         the thread's local continuation given the value the access returned,
so that the event printed for the E-SHIM replay and the state transition cannot drift apart.
Decision guards are the ones regenerated from the source text (Generated/C11.lean).
-/
import TbbVerif.Model.C11

namespace TbbVerif.C11.Seg
open TbbVerif.C11 (segIndex segBase segSize Op)
open TbbVerif.Generated.C11

/-- value of a segment slot: `nullptr`, `segment_allocation_failure_tag`, or a pointer into allocation `a` shifted down
by `sh` elements (`new_segment - segment_base(k)`; `sh = 0` for the first block). -/
inductive Val where
  | null
  | tag
  | ptr (a sh : Nat)
  deriving DecidableEq, Repr, Inhabited

inductive ASt where
  | held | pub | freed
  deriving DecidableEq, Repr

/-- ledger entry of one successful element-storage allocation -/
structure AInfo where
  n : Nat            -- number of elements
  first : Bool       -- allocated by the first-block branch of create_segment
  seg : Nat          -- segment index it was allocated for (0 for the first block)
  st : ASt
  deriving DecidableEq, Repr

inductive Res where
  | range (s e : Nat)   -- the call returned an iterator to `s` and constructed `[s, e)`
  | none                -- returned without claiming anything
  | exc (k : Nat)       -- left by exception: 1 = bad_alloc, 2 = element constructor
  deriving DecidableEq, Repr

/-- who called `extend_table_if_necessary` -/
inductive XR where
  | sub | grow | fb
  deriving DecidableEq, Repr

/-- who called `enable_segment` -/
inductive ER where
  | sub | grow
  deriving DecidableEq, Repr

inductive Pc where
  | idle
  | pAfbLoad | pAfbCas
  | sTab | sSlot | enFinal | construct
  | xWait | xGet | xAlloc | xFailStore | xCopy | xCas | xFree | xFlag | xReload
  | kFb | kZero | kSpin | kAllocFb | kTagCas | kTagStore | kCasZero | kFill | kMirror | kFreeFb
  | kAllocSeg | kTagSeg | kStoreSeg
  | gAfbLoad | gAfbCas | gTab | gFb | gLast1 | gLast2 | rTab | rSlot
  | tCas | wTab0 | wSpinTab | wTab | wSlot | zTab | zSlot | zSize
  deriving DecidableEq, Repr

/-- thread-local state: remaining calls, program counter, and the locals of the C++ functions on the call stack.
Locals that are pure functions of other locals (seg_index, the arguments of extend_table_if_necessary and
create_segment) are not stored but recomputed (`Th.cseg`, `Th.cidx`, `Th.etab`, `Th.xs`, `Th.xe`, `Th.segEnd`). -/
structure Th where
  ops : List Op
  pc : Pc := .idle
  start : Nat := 0       -- claimed range [start, stop)
  stop : Nat := 0
  idx : Nat := 0         -- index passed to internal_subscript (in a grow loop: everything in [start, idx) is constructed)
  old : Nat := 0         -- grow_to_at_least: old_size
  inGrow : Bool := false -- inside internal_grow (else internal_emplace_back)
  tab : Nat := 0         -- internal_subscript: table
  gtab : Nat := 0        -- internal_grow: table
  ctab : Nat := 0        -- create_segment: table (by value, updated by extend_table_if_necessary)
  x : Nat := 0           -- extend_table_if_necessary: table&
  fbl : Nat := 0         -- create_segment: first_block
  i : Nat := 0           -- loop counter of the innermost running loop
  newSeg : Nat := 0      -- create_segment: new_segment (allocation id)
  newTab : Nat := 0      -- allocate_long_table result (0 = nullptr)
  c0 : Val := .null      -- long-table entries copied from the embedded table
  c1 : Val := .null
  c2 : Val := .null
  segv : Val := .null    -- internal_subscript: segment
  extRet : XR := .sub
  enRet : ER := .sub
  wtab : Nat := 0        -- get_table() in the wait loop of grow_to_at_least / capacity()
  cap : Nat := 0         -- capacity()
  res : List Res := []
  deriving DecidableEq, Repr

/-- grow_to_at_least(n): the `n` of the running call -/
def Th.target (t : Th) : Nat :=
  match t.ops with
  | .growTo n :: _ => n
  | _ => 0

/-- internal_grow: `seg_index = segment_index_of(end_idx - 1)`; grow_to_at_least: `end_segment` -/
def Th.segEnd (t : Th) : Nat := segIndex (t.stop - 1)
def Th.wEnd (t : Th) : Nat := segIndex (t.target - 1)
/-- enable_segment / create_segment arguments -/
def Th.etab (t : Th) : Nat := match t.enRet with | .sub => t.tab | .grow => t.gtab
def Th.cseg (t : Th) : Nat := match t.enRet with | .sub => segIndex t.idx | .grow => t.segEnd
def Th.cidx (t : Th) : Nat := match t.enRet with | .sub => t.idx | .grow => segBase t.segEnd
/-- extend_table_if_necessary arguments -/
def Th.xs (t : Th) : Nat := match t.extRet with | .sub => t.idx | .grow => t.start | .fb => 0
def Th.xe (t : Th) : Nat := match t.extRet with | .sub => t.idx + 1 | .grow => t.stop | .fb => segSize t.fbl

/-- the shared words and the ghost ledgers -/
structure Sh where
  size : Nat := 0
  fb : Nat := 0
  tptr : Nat := 0
  failed : Bool := false
  emb : List Val := [.null, .null, .null]
  long : List Val := []
  ntab : Nat := 0                 -- long tables allocated so far
  tfreed : Nat := 0               -- long tables destroyed by CAS losers
  allocCalls : Nat := 0
  tabCalls : Nat := 0
  ctorCalls : Nat := 0
  fAlloc : List Nat := []         -- fault plan: these element-storage allocator calls throw
  fTab : List Nat := []           --   these long-table allocator calls throw
  fCtor : List Nat := []          --   these element constructions throw
  allocs : List AInfo := []       -- ghost: ledger of successful allocations (id = position)
  cons : List (Nat × Nat × Nat) := []   -- ghost: constructed (index, allocation id, offset inside the allocation)
  log : List (Nat × Nat) := []    -- ghost: ranges in hand-out order
  oobE : Bool := false            -- ghost: an embedded-table slot >= pointers_per_embedded_table was touched
  oobL : Bool := false            -- ghost: a long-table slot >= pointers_per_long_table was touched
  wild : Bool := false            -- ghost: an element was constructed through a null / failure-tag pointer
  badTab : Bool := false          -- ghost: my_segment_table was set to nullptr
  deriving DecidableEq, Repr

structure St where
  sh : Sh := {}
  ths : List Th := []
  deriving DecidableEq, Repr

/-! ### memory semantics -/

inductive Ord where
  | rlx | acq | rel | sc
  deriving DecidableEq, Repr

inductive Acc where
  | loadSize (o : Ord)
  | faddSize (d : Nat)
  | casSize (e d : Nat)
  | loadFb
  | casFb (d : Nat)
  | loadTptr
  | casTptr (d : Nat) (c0 c1 c2 : Val)
  | loadFailed
  | storeFailed
  | loadSlot (tab k : Nat) (o : Ord)
  | storeSlot (tab k : Nat) (v : Val)
  | casSlot (tab k : Nat) (v : Val)
  | alloc (n : Nat) (first : Bool) (seg : Nat)
  | free (a : Nat)
  | talloc
  | tfree (id : Nat)
  | ctor (idx : Nat) (p : Val)
  deriving DecidableEq, Repr

/-- what an access returned -/
structure R where
  n : Nat := 0
  v : Val := .null
  ok : Bool := true
  deriving DecidableEq, Repr

def nSlots (tab : Nat) : Nat := if tab = 0 then pointersPerEmbeddedTable else pointersPerLongTable

def slot (sh : Sh) (tab k : Nat) : Val :=
  if tab = 0 then sh.emb.getD k .null else sh.long.getD k .null

/-- write position `k` of a list, extending it with `d` if it is shorter (so a write always takes effect; writes outside
the real table are flagged by `touch`) -/
def setPad {α : Type} (d : α) : List α → Nat → α → List α
  | [], 0, v => [v]
  | [], k + 1, v => d :: setPad d [] k v
  | _ :: l, 0, v => v :: l
  | a :: l, k + 1, v => a :: setPad d l k v

def setSlot (sh : Sh) (tab k : Nat) (v : Val) : Sh :=
  if tab = 0 then { sh with emb := setPad .null sh.emb k v } else { sh with long := setPad .null sh.long k v }

def touch (sh : Sh) (tab k : Nat) : Sh :=
  if k < nSlots tab then sh else if tab = 0 then { sh with oobE := true } else { sh with oobL := true }

def publish (l : List AInfo) (v : Val) : List AInfo :=
  match v with
  | .ptr a _ => match l[a]? with
      | some e => l.set a { e with st := .pub }
      | none => l
  | _ => l

def pubS (sh : Sh) (v : Val) : Sh := { sh with allocs := publish sh.allocs v }

/-- the value an access returns -/
def performR (sh : Sh) : Acc → R
  | .loadSize _ => { n := sh.size }
  | .faddSize _ => { n := sh.size }
  | .casSize e d => if sh.size = e then { n := d } else { n := sh.size, ok := false }
  | .loadFb => { n := sh.fb }
  | .casFb d => if sh.fb = 0 then { n := d } else { n := sh.fb, ok := false }
  | .loadTptr => { n := sh.tptr }
  | .casTptr d _ _ _ => if sh.tptr = 0 then { n := d } else { n := sh.tptr, ok := false }
  | .loadFailed => { ok := sh.failed }
  | .storeFailed => {}
  | .loadSlot tab k _ => { v := slot sh tab k }
  | .storeSlot tab k _ => { v := slot sh tab k }
  | .casSlot tab k v => if slot sh tab k = .null then { v := v } else { v := slot sh tab k, ok := false }
  | .alloc _ _ _ =>
      if (sh.allocCalls + 1) ∈ sh.fAlloc then { n := sh.allocCalls + 1, ok := false } else { n := sh.allocs.length }
  | .free a => { n := a }
  | .talloc => if (sh.tabCalls + 1) ∈ sh.fTab then { n := sh.tabCalls + 1, ok := false } else { n := sh.ntab + 1 }
  | .tfree _ => {}
  | .ctor _ _ => if (sh.ctorCalls + 1) ∈ sh.fCtor then { ok := false } else {}

/-- the effect of an access on the shared words and the ghost ledgers -/
def performS (sh : Sh) : Acc → Sh
  | .loadSize _ => sh
  | .faddSize d => { sh with size := sh.size + d, log := sh.log ++ [(sh.size, sh.size + d)] }
  | .casSize e d => if sh.size = e then { sh with size := d, log := sh.log ++ [(e, d)] } else sh
  | .loadFb => sh
  | .casFb d => if sh.fb = 0 then { sh with fb := d } else sh
  | .loadTptr => sh
  | .casTptr d c0 c1 c2 =>
      if sh.tptr = 0 then
        if d = 0 then { sh with badTab := true }
        else { sh with tptr := d, long := [c0, c1, c2] }
      else sh
  | .loadFailed => sh
  | .storeFailed => { sh with failed := true }
  | .loadSlot tab k _ => touch sh tab k
  | .storeSlot tab k v => pubS (setSlot (touch sh tab k) tab k v) v
  | .casSlot tab k v =>
      if slot sh tab k = .null then pubS (setSlot (touch sh tab k) tab k v) v
      else touch sh tab k
  | .alloc n first seg =>
      if (sh.allocCalls + 1) ∈ sh.fAlloc then { sh with allocCalls := sh.allocCalls + 1 }
      else { sh with allocCalls := sh.allocCalls + 1, allocs := sh.allocs ++ [{ n := n, first := first, seg := seg, st := .held }] }
  | .free a =>
      { sh with allocs := match sh.allocs[a]? with
                          | some e => sh.allocs.set a { e with st := .freed }
                          | none => sh.allocs }
  | .talloc =>
      if (sh.tabCalls + 1) ∈ sh.fTab then { sh with tabCalls := sh.tabCalls + 1 }
      else { sh with tabCalls := sh.tabCalls + 1, ntab := sh.ntab + 1 }
  | .tfree _ => { sh with tfreed := sh.tfreed + 1 }
  | .ctor idx p =>
      if (sh.ctorCalls + 1) ∈ sh.fCtor then { sh with ctorCalls := sh.ctorCalls + 1 }
      else match p with
        | .ptr a s => { sh with ctorCalls := sh.ctorCalls + 1, cons := sh.cons ++ [(idx, a, idx - s)] }
        | _ => { sh with ctorCalls := sh.ctorCalls + 1, wild := true }

def perform (sh : Sh) (a : Acc) : Sh × R := (performS sh a, performR sh a)

/-! ### control flow (no shared access) -/

def opDone (t : Th) (r : Res) : Th := { t with ops := t.ops.tail, pc := .idle, res := t.res ++ [r] }

def leaveCreate (t : Th) : Th := { t with pc := .enFinal }

def mirrorStart (t : Th) : Th :=
  if csMirror 1 t.fbl then { t with pc := .kMirror, i := 1 } else leaveCreate t

def fillStart (t : Th) : Th :=
  if csFill 1 t.fbl then { t with pc := .kFill, i := 1 } else mirrorStart t

def leaveExtend (t : Th) : Th :=
  match t.extRet with
  | .sub => { t with tab := t.x, pc := .sSlot }
  | .grow => { t with gtab := t.x, pc := .gFb }
  | .fb => fillStart { t with ctab := t.x }

/-- `extend_table_if_necessary(table, start_index, end_index)` up to its first access -/
def enterExtend (t : Th) (x : Nat) (ret : XR) : Th :=
  let t := { t with x := x, extRet := ret }
  if x = 0 && xNeed t.xe then
    if xSelf t.xs then
      if altWait (segBase 0) t.xs then { t with pc := .xWait, i := 0 } else { t with pc := .xGet }
    else { t with pc := .xFlag }
  else leaveExtend t

def enterEnable (t : Th) (ret : ER) : Th :=
  let t := { t with enRet := ret }
  { t with ctab := t.etab, pc := .kFb }

/-- internal_subscript has the segment pointer: the failure check, then back to the caller -/
def subDone (t : Th) (v : Val) : Th :=
  if v = .tag then opDone t (.exc 1) else { t with segv := v, pc := .construct }

/-- internal_loop_construct starts at `start_idx` (`idx = start` since `growStart`) -/
def loopStart (t : Th) : Th :=
  if t.start < t.stop then { t with pc := .sTab } else { t with pc := .rTab }

def growStart (t : Th) (s e : Nat) : Th :=
  { t with start := s, stop := e, idx := s, inGrow := true, pc := .gAfbLoad }

def waitStart (t : Th) : Th :=
  if gtalLong t.wEnd then { t with pc := .wTab0 } else { t with pc := .wTab, i := 0 }

/-- after the CAS-max loop of grow_to_at_least left `old` in the local -/
def afterCasLoop (t : Th) (old n : Nat) : Th :=
  if gtalGuard old n then growStart { t with old := old } old n else waitStart { t with old := old }

/-! ### the access a thread performs next, and its continuation -/

def ptrOf (t : Th) : Val := .ptr t.newSeg 0

def accOf (t : Th) : Option Acc :=
  match t.pc with
  | .idle => match t.ops with
      | [] => none
      | .pushBack :: _ => some (.faddSize 1)
      | .growBy d :: _ => if d = 0 then some .loadTptr else some (.faddSize d)
      | .growTo _ :: _ => some (.loadSize .rlx)
  | .pAfbLoad => some .loadFb
  | .pAfbCas => some (.casFb defaultFirstBlockSize)
  | .sTab => some .loadTptr
  | .sSlot => some (.loadSlot t.tab (segIndex t.idx) .acq)
  | .enFinal => some (.loadSlot t.etab t.cseg .acq)
  | .construct => some (.ctor t.idx t.segv)
  | .xWait => some (.loadSlot 0 t.i .acq)
  | .xGet => some .loadTptr
  | .xAlloc => some .talloc
  | .xFailStore => some .storeFailed
  | .xCopy => some (.loadSlot 0 t.i .rlx)
  | .xCas => some (.casTptr t.newTab t.c0 t.c1 t.c2)
  | .xFree => some (.tfree t.newTab)
  | .xFlag => some .loadFailed
  | .xReload => some .loadTptr
  | .kFb => some .loadFb
  | .kZero => some (.loadSlot t.ctab 0 .acq)
  | .kSpin => some (.loadSlot t.ctab t.cseg .acq)
  | .kAllocFb => some (.alloc (segSize t.fbl) true 0)
  | .kTagCas => some (.casSlot t.ctab 0 .tag)
  | .kTagStore => some (.storeSlot t.ctab t.i .tag)
  | .kCasZero => some (.casSlot t.ctab 0 (ptrOf t))
  | .kFill => some (.storeSlot t.ctab t.i (ptrOf t))
  | .kMirror => some (.storeSlot 0 t.i (ptrOf t))
  | .kFreeFb => some (.free t.newSeg)
  | .kAllocSeg => some (.alloc (segSize t.cseg) false t.cseg)
  | .kTagSeg => some (.storeSlot t.ctab t.cseg .tag)
  | .kStoreSeg => some (.storeSlot t.ctab t.cseg (.ptr t.newSeg (segBase t.cseg)))
  | .gAfbLoad => some .loadFb
  | .gAfbCas => some (.casFb (t.segEnd + 1))
  | .gTab => some .loadTptr
  | .gFb => some .loadFb
  | .gLast1 => some (.loadSlot t.gtab t.segEnd .rlx)
  | .gLast2 => some (.loadSlot t.gtab t.segEnd .rlx)
  | .rTab => some .loadTptr
  | .rSlot => some (.loadSlot t.tab (segIndex t.start) .acq)
  | .tCas => some (.casSize t.old t.target)
  | .wTab0 => some .loadTptr
  | .wSpinTab => some .loadTptr
  | .wTab => some .loadTptr
  | .wSlot => some (.loadSlot t.wtab t.i .rlx)
  | .zTab => some .loadTptr
  | .zSlot => some (.loadSlot t.wtab t.i .rlx)
  | .zSize => some (.loadSize .acq)

/-- `capacity()` scan: first access -/
def zStart (t : Th) (tab : Nat) : Th := { t with wtab := tab, i := 0, pc := .zSlot }

def cont (t : Th) (r : R) : Th :=
  match t.pc with
  | .idle => match t.ops with
      | [] => t
      | .pushBack :: _ => { t with start := r.n, stop := r.n + 1, idx := r.n, inGrow := false, pc := .pAfbLoad }
      | .growBy d :: _ => if d = 0 then zStart t r.n else growStart t r.n (r.n + d)
      | .growTo n :: _ =>
          if n = 0 then opDone { t with old := r.n } .none
          else if r.n < n then { t with old := r.n, pc := .tCas }
          else afterCasLoop t r.n n
  | .pAfbLoad => if r.n = 0 then { t with pc := .pAfbCas } else { t with pc := .sTab }
  | .pAfbCas => { t with pc := .sTab }
  | .sTab => enterExtend { t with tab := r.n } r.n .sub
  | .sSlot => if r.v = .null then enterEnable t .sub else subDone t r.v
  | .enFinal => match t.enRet with
      | .sub => subDone t r.v
      | .grow => loopStart t
  | .construct =>
      if r.ok then
        if t.inGrow then (if t.idx + 1 < t.stop then { t with idx := t.idx + 1, pc := .sTab } else { t with idx := t.idx + 1, pc := .rTab })
        else opDone t (.range t.start t.stop)
      else opDone t (.exc 2)
  | .xWait =>
      if r.v = .null then t
      else if altWait (segBase (t.i + 1)) t.xs then { t with i := t.i + 1 } else { t with pc := .xGet }
  | .xGet => if r.n ≠ 0 then { t with newTab := 0, pc := .xCas } else { t with pc := .xAlloc }
  | .xAlloc => if r.ok then { t with newTab := r.n, i := 0, pc := .xCopy } else { t with pc := .xFailStore }
  | .xFailStore => opDone t (.exc 1)
  | .xCopy =>
      if t.i + 1 < pointersPerEmbeddedTable then
        { t with c0 := if t.i = 0 then r.v else t.c0, c1 := if t.i = 1 then r.v else t.c1,
                 c2 := if 2 ≤ t.i then r.v else t.c2, i := t.i + 1 }
      else
        { t with c0 := if t.i = 0 then r.v else t.c0, c1 := if t.i = 1 then r.v else t.c1,
                 c2 := if 2 ≤ t.i then r.v else t.c2, pc := .xCas }
  | .xCas =>
      if r.ok then leaveExtend { t with x := r.n }
      else if t.newTab ≠ 0 then { t with x := r.n, pc := .xFree } else leaveExtend { t with x := r.n }
  | .xFree => leaveExtend t
  | .xFlag => if r.ok then opDone t (.exc 1) else { t with pc := .xReload }
  | .xReload => if r.n = 0 then { t with x := r.n, pc := .xFlag } else leaveExtend { t with x := r.n }
  | .kFb =>
      let t := { t with fbl := r.n }
      if csFirst t.cseg r.n then { t with pc := .kZero }
      else if csOwner t.cidx (segBase t.cseg) then { t with pc := .kAllocSeg } else { t with pc := .kSpin }
  | .kZero => if r.v ≠ .null then { t with pc := .kSpin } else { t with pc := .kAllocFb }
  | .kSpin => if r.v = .null then t else leaveCreate t
  | .kAllocFb => if r.ok then { t with newSeg := r.n, pc := .kCasZero } else { t with pc := .kTagCas }
  | .kTagCas =>
      if r.ok then
        (if 1 < csTagEnd (decide (t.ctab = 0)) t.fbl then { t with pc := .kTagStore, i := 1 } else opDone t (.exc 1))
      else opDone t (.exc 1)
  | .kTagStore =>
      if t.i + 1 < csTagEnd (decide (t.ctab = 0)) t.fbl then { t with i := t.i + 1 } else opDone t (.exc 1)
  | .kCasZero => if r.ok then enterExtend t t.ctab .fb else { t with pc := .kFreeFb }
  | .kFill => if csFill (t.i + 1) t.fbl then { t with i := t.i + 1 } else mirrorStart t
  | .kMirror => if csMirror (t.i + 1) t.fbl then { t with i := t.i + 1 } else leaveCreate t
  | .kFreeFb => { t with pc := .kSpin }
  | .kAllocSeg => if r.ok then { t with newSeg := r.n, pc := .kStoreSeg } else { t with pc := .kTagSeg }
  | .kTagSeg => opDone t (.exc 1)
  | .kStoreSeg => leaveCreate t
  | .gAfbLoad => if r.n = 0 then { t with pc := .gAfbCas } else { t with pc := .gTab }
  | .gAfbCas => { t with pc := .gTab }
  | .gTab => enterExtend { t with gtab := r.n } r.n .grow
  | .gFb => if growEager t.segEnd r.n then { t with pc := .gLast1 } else loopStart t
  | .gLast1 =>
      if r.v = .null then (if growOwns (segBase t.segEnd) t.start t.stop then { t with pc := .gLast2 } else loopStart t)
      else loopStart t
  | .gLast2 => enterEnable t .grow
  | .rTab => { t with tab := r.n, pc := .rSlot }
  | .rSlot => opDone t (.range t.start t.stop)
  | .tCas =>
      if r.ok then afterCasLoop t t.old t.target
      else if r.n < t.target then { t with old := r.n } else afterCasLoop t r.n t.target
  | .wTab0 => if r.n = 0 then { t with pc := .wSpinTab } else { t with pc := .wTab, i := 0 }
  | .wSpinTab => if r.n = 0 then t else { t with pc := .wTab, i := 0 }
  | .wTab => { t with wtab := r.n, pc := .wSlot }
  | .wSlot =>
      if r.v = .null then { t with pc := .wTab }
      else if t.i + 1 ≤ t.wEnd then { t with i := t.i + 1, pc := .wTab } else { t with pc := .zTab }
  | .zTab => zStart t r.n
  | .zSlot =>
      if r.v = .null || r.v = .tag then { t with cap := segBase t.i, pc := .zSize }
      else if t.i + 1 < nSlots t.wtab then { t with i := t.i + 1 } else { t with cap := segBase (nSlots t.wtab), pc := .zSize }
  | .zSize => opDone { t with cap := min r.n t.cap } .none

def stepTh (sh : Sh) (t : Th) : Sh × Th :=
  match accOf t with
  | none => (sh, t)
  | some a => (performS sh a, cont t (performR sh a))

def step (s : St) (tid : Tid) : St :=
  match s.ths[tid]? with
  | none => s
  | some t => let (sh', t') := stepTh s.sh t; { sh := sh', ths := s.ths.set tid t' }

/-- N threads, any programs, any fault plan -/
def sysF (progs : List (List Op)) (fa ft fc : List Nat) : Sys St :=
  { init := { sh := { fAlloc := fa, fTab := ft, fCtor := fc }, ths := progs.map (fun p => { ops := p }) }, step := step }

/-- the failure-free system -/
def sys (progs : List (List Op)) : Sys St := sysF progs [] [] []

/-- the segment pointer the current table holds for segment `k` -/
def visible (sh : Sh) (k : Nat) : Val := slot sh sh.tptr k

def finished (s : St) : Prop := ∀ t ∈ s.ths, t.ops = [] ∧ t.pc = .idle

end TbbVerif.C11.Seg
