/-
C10 — refined concurrent_hash_map model `HMapR`: the lock usage of the map with the real `spin_rw_mutex` protocol
(executable, core Lean only).

(One more kind of step exists: the *call* of a lock operation, which only records in the thread's own slot which operation
it is about to perform; it touches nothing another thread can see.)

`HMap` (Model/C10.lean) treats a bucket / element mutex as its specification state (`Lock`: the writer, the readers) and a
lock operation as one step.  `HMapR` removes that abstraction: every bucket and every element carries the state word of a
`spin_rw_mutex` together with the per-thread protocol state of C08's word-level model (`C08.St`: `word`, per thread `pc`,
local `sv`, `phase`), and **one step of `HMapR` is one atomic access of the real code**: an access to a lock word (the
load / CAS / fetch_or / fetch_add / fetch_sub / fetch_and of `lock`, `try_lock`, `lock_shared`, `try_lock_shared`,
`unlock`, `unlock_shared`, `upgrade`, `downgrade`, executed by `C08.step` itself — the C08 model is *instantiated*, not
re-written), or one of the other accesses `HMap` already has (my_mask, node_list flag, my_size, my_table, delete_node).

Which lock operation the code issues where (concurrent_hash_map.h):
  bucket_accessor::acquire   node_list flagged -> `try_lock` (pc `lockTry`); success: re-check the flag (`HMap.lockTry`);
                             failure, or not flagged -> `lock` / `lock_shared` (pc `lockBlk`; `lock` for exclude)
  rehash_bucket / lookup<insert> / internal_erase      `upgrade` (pcs `rhUpg`, `upg`, `eUpg`): in place, or
                             `unlock_shared` + `lock` and the `false` return (pcs `rhRelock`, `relock`, `eRelock`: re-search)
  lookup                     `downgrade` (pc `dng`); element lock `try_lock` / `try_lock_shared` while the bucket lock is held
                             (pc `elemTry`), retried, or given up: bucket `unlock*`, then restart with a fresh mask
  internal_erase             element `lock` after the unlinking and the bucket release (pc `eLock`), `unlock` (pc `eRel`)
  exclude                    bucket `lock`; element `upgrade` (pc `xUpg`, `xRelock`), `unlock` / `unlock_shared`
  ~bucket_accessor, accessor release                  `unlock` / `unlock_shared`

The specification-level lock state of `HMap` (`blk`, `elk`) is kept as a GHOST: the step that takes effect on a word
(the successful CAS of a writer acquisition, the `fetch_add` of a reader acquisition that saw no writer, the `fetch_sub` /
`fetch_and` of a release, the final `fetch_sub` of an in-place upgrade, the `fetch_add` of a downgrade) also performs the
corresponding `HMap` step(s); all other word accesses (loads, failed CASes, setting WRITER_PENDING, the transient reader
increment and its undo, the upgrade CAS and its wait loop) leave the `HMap` state alone.  Proofs/C10/R*.lean prove that the
ghost is exact (`Coupled`), so every `HMap` theorem holds for `HMapR` runs.
-/
import TbbVerif.Model.C10
import TbbVerif.Model.C08

namespace TbbVerif.C10R

open TbbVerif.C10

/-- a lock of the table: the mutex of bucket `i`, or the mutex of element `n` -/
inductive LId where
  | b (i : Nat)
  | e (n : Node)
  deriving Repr, DecidableEq, Inhabited

/-- per-thread control state that `HMap` does not have -/
structure RTh where
  /-- the lock on which an operation of this thread is in progress (between its first and its last word access) -/
  cur : Option LId := none
  /-- bucket_accessor::acquire: `try_acquire` failed while the bucket was still flagged; the thread is inside the blocking
  `acquire(mutex, writer)` although its `HMap` image still sits at `lockTry` (it catches up when the lock is granted) -/
  lag : Bool := false
  deriving Repr, DecidableEq, Inhabited

structure RSt where
  a : St := {}
  bw : Nat → C08.St
  ew : Node → C08.St
  rt : List RTh := []

/-- a `spin_rw_mutex` nobody has touched, as seen by `n` threads -/
def idleLock (n : Nat) : C08.St := { ths := List.replicate n { ops := [] } }

def getL (s : RSt) : LId → C08.St
  | .b i => s.bw i
  | .e n => s.ew n

def setL (s : RSt) (L : LId) (c : C08.St) : RSt :=
  match L with
  | .b i => { s with bw := upd s.bw i c }
  | .e n => { s with ew := updN s.ew n c }

/-- `bucket_accessor( this, h & m, writer )`: only `exclude` asks for a writer -/
def wantW (t : Th) : Bool := t.stk.isEmpty && t.op.k == .exclude

def relOp (w : Bool) : C08.Op := if w then .unlock else .unlockShared

/-- The lock operation the thread starts with its next access (when none is in progress), read off its `HMap` pc.
`alt` matters only at `elemTry`: 0 = (re)try the element lock, otherwise give up (release the bucket, restart). -/
def request (t : Th) (r : RTh) (alt : Nat) : Option (LId × C08.Op) :=
  match t.pc with
  | .idle =>
      match t.ops with
      | op :: _ =>
          if op.k == .release then
            match t.acc with
            | some (n, w) => some (.e n, relOp w)
            | none => none
          else none
      | [] => none
  | .lockTry => some (.b t.tgt, if r.lag then (if wantW t then .lock else .lockShared) else .tryLock)
  | .lockBlk => some (.b t.tgt, if wantW t then .lock else .lockShared)
  | .rhUpg =>
      match t.stk with
      | (b, _) :: _ => some (.b b, .upgrade)
      | [] => none
  | .upg | .eUpg =>
      match t.stk with
      | [(b, _)] => some (.b b, .upgrade)
      | _ => none
  | .rhRel =>
      match t.stk with
      | (b, w) :: _ => some (.b b, relOp w)
      | [] => none
  | .relB _ =>
      match t.stk with
      | [(b, w)] => some (.b b, relOp w)
      | _ => none
  | .dng =>
      match t.stk with
      | [(b, _)] => some (.b b, .downgrade)
      | _ => none
  | .elemTry =>
      match t.n, t.stk with
      | some n, [(b, w)] =>
          if alt = 0 || (t.ret && t.op.k == .ins) then some (.e n, if t.op.acc = 2 then .tryLock else .tryLockShared)
          else some (.b b, relOp w)
      | _, _ => none
  | .eLock => t.n.map (fun n => (.e n, .lock))
  | .eRel => t.n.map (fun n => (.e n, .unlock))
  | .xUpg => t.n.map (fun n => (.e n, .upgrade))
  | .xRelAcc =>
      match t.acc with
      | some (n, w) => some (.e n, relOp w)
      | none => none
  | _ => none

/-- pcs of `HMap` whose step is a lock operation (no other shared access happens there) -/
def isLockPc (t : Th) : Bool :=
  match t.pc with
  | .idle =>
      match t.ops with
      | op :: _ => op.k == .release && t.acc.isSome
      | [] => false
  | .lockTry | .lockBlk | .rhUpg | .rhRelock | .rhRel | .upg | .relock | .dng | .elemTry | .relB _ | .eUpg | .eRelock
  | .eLock | .eRel | .xUpg | .xRelock | .xRelAcc => true
  | _ => false

/-- the call: the thread's slot of the lock's C08 machine receives the operation -/
def issue (c : C08.St) (tid : Tid) (op : C08.Op) : C08.St :=
  match c.ths[tid]? with
  | some th => { c with ths := c.ths.set tid { th with ops := [op], results := [] } }
  | none => c

/-- what a word access did to what the thread holds on that lock (difference of the C08 phases) -/
inductive Tr where
  | none | acq | rel | upg | dng
  deriving Repr, DecidableEq, Inhabited

def trOf (ph ph' : C08.Phase) : Tr :=
  match ph, ph' with
  | .idle, .holdW | .idle, .holdR => .acq
  | .holdR, .idle | .holdW, .idle => .rel
  | .upgReady, .holdW => .upg
  | .holdW, .holdR => .dng
  | _, _ => .none

/-- alternative of the `HMap` step that the effect corresponds to: a release inside `upgrade()` is the contended upgrade
(`alt = 1`: the lock is dropped, the code will re-search), a bucket release at `elemTry` is the give-up -/
def altOf (pc : Pc) (tr : Tr) : Nat :=
  match tr, pc with
  | .rel, .upg | .rel, .rhUpg | .rel, .eUpg | .rel, .xUpg | .rel, .elemTry => 1
  | _, _ => 0

def isTry (op : C08.Op) : Bool := op == .tryLock || op == .tryLockShared

/-- The `HMap` steps (thread `tid`) that one word access amounts to, and the new value of `lag`.
`th`, `th'`: the thread's C08 slot on that lock before / after the access. -/
def effect (sh : Sh) (tid : Tid) (t : Th) (r : RTh) (th th' : C08.Th) : List Act × Bool :=
  let tr := trOf th.phase th'.phase
  if tr != .none then
    ((if r.lag then [({ tid := tid, alt := 1 } : Act)] else []) ++ [{ tid := tid, alt := altOf t.pc tr }], false)
  else if th'.ops.isEmpty && (th.ops.head?.map isTry).getD false && t.pc == .lockTry then
    -- bucket_accessor::acquire: try_acquire returned false
    if (sh.bkt t.tgt).isFlagged then ([], true) else ([{ tid := tid, alt := 1 }], false)
  else ([], r.lag)

/-- one access of thread `tid` to the word of lock `L` (its operation there is in progress) -/
def lockAccess (hash : Nat → Nat) (s : RSt) (tid : Tid) (t : Th) (r : RTh) (L : LId) : RSt :=
  let c := getL s L
  match c.ths[tid]? with
  | none => s
  | some th =>
    let c' := C08.step c tid
    match c'.ths[tid]? with
    | none => s
    | some th' =>
      let (acts, lag') := effect s.a.sh tid t r th th'
      let s1 := setL s L c'
      { s1 with a := runFrom hash s.a acts,
                rt := s.rt.set tid { cur := if th'.ops.isEmpty then none else some L, lag := lag' } }

/-- One step of thread `x.tid`: an atomic access (to a lock word: `lockAccess`; to another shared word: the `HMap` step), or
the call of a lock operation (`issue`: purely local, the operation's first access is the thread's next step). -/
def rstep (hash : Nat → Nat) (s : RSt) (x : Act) : RSt :=
  match s.a.ths[x.tid]?, s.rt[x.tid]? with
  | some t, some r =>
    match r.cur with
    | some L => lockAccess hash s x.tid t r L
    | none =>
      match request t r x.alt with
      | some (L, op) => { setL s L (issue (getL s L) x.tid op) with rt := s.rt.set x.tid { r with cur := some L } }
      | none =>
        if isLockPc t then s         -- unreachable (Proofs/C10/R*): a lock pc without a request
        else { s with a := step hash s.a { tid := x.tid, alt := 0 } }
  | _, _ => s

def rinit (progs : List (List Op)) : RSt :=
  { a := initSt progs, bw := fun _ => idleLock progs.length, ew := fun _ => idleLock progs.length,
    rt := progs.map (fun _ => {}) }

def rrunFrom (hash : Nat → Nat) (s : RSt) (sched : List Act) : RSt := sched.foldl (rstep hash) s

def rrun (hash : Nat → Nat) (progs : List (List Op)) (sched : List Act) : RSt := rrunFrom hash (rinit progs) sched

/-! ## The `HMap` schedule a refined schedule amounts to -/

/-- the `HMap` steps that the next access of thread `tid` to the word of a lock in state `c` amounts to -/
def accActs (sh : Sh) (tid : Tid) (t : Th) (r : RTh) (c : C08.St) : List Act :=
  match c.ths[tid]? with
  | none => []
  | some th =>
    match (C08.step c tid).ths[tid]? with
    | none => []
    | some th' => (effect sh tid t r th th').1

/-- the `HMap` steps performed by `rstep hash s x` -/
def actsOf (s : RSt) (x : Act) : List Act :=
  match s.a.ths[x.tid]?, s.rt[x.tid]? with
  | some t, some r =>
    match r.cur with
    | some L => accActs s.a.sh x.tid t r (getL s L)
    | none =>
      match request t r x.alt with
      | some _ => []
      | none => if isLockPc t then [] else [{ tid := x.tid, alt := 0 }]
  | _, _ => []

def absSchedFrom (hash : Nat → Nat) : RSt → List Act → List Act
  | _, [] => []
  | s, x :: xs => actsOf s x ++ absSchedFrom hash (rstep hash s x) xs

def absSched (hash : Nat → Nat) (progs : List (List Op)) (sched : List Act) : List Act :=
  absSchedFrom hash (rinit progs) sched

/-! ## Waiting (for the lock-order theorem) -/

/-- the thread's next access is an iteration of a wait loop that cannot succeed on the current word: the blocking
`lock()` sees BUSY, `lock_shared()` sees WRITER or WRITER_PENDING, the in-place `upgrade` waits for the other readers -/
def spinning (c : C08.St) (tid : Tid) : Bool :=
  match c.ths[tid]? with
  | none => false
  | some th =>
    match th.ops with
    | .lock :: _ => th.pc == .start && C08.busy c.word
    | .lockShared :: _ => th.pc == .start && (c.word.w || c.word.p)
    | .upgrade :: _ => (th.pc == .upgSpin && c.word.r != 1) || (th.pc == .upgSlowLock && C08.busy c.word)
    | _ => false

/-- thread `tid` is blocked: it is inside a lock operation whose next access is a futile wait iteration -/
def waitingOn (s : RSt) (tid : Tid) : Option LId :=
  match s.rt[tid]? with
  | some r =>
    match r.cur with
    | some L => if spinning (getL s L) tid then some L else none
    | none => none
  | none => none

end TbbVerif.C10R
