/-
C19 — enumerable_thread_specific / combinable: STORAGE of the thread-local elements and initialiser faults
(executable model, core Lean only).

`local()` = `table_lookup(exists)`:  probe the table (found → return the slot's pointer, `exists = true`), otherwise
`create_local()`:  `my_locals.grow_by(1)` (the concurrent_vector hands out the next index; the segment allocation may throw),
`my_construct_callback->construct(lref.value())` (default / exemplar / functor / args constructor: may throw),
`lref.value_committed()` (`is_built = true`), then back in `table_lookup`: `++my_count`, possibly a new root array, and the
slot claim `s.claim(k); s.ptr = found`.  One model step = one whole `local()` call of a thread (operation-level model, like
`Life`): the phases of one `create_local` touch only the element `grow_by(1)` handed to this thread — indices handed out by
concurrent growers are pairwise disjoint and elements never move (C11: `grow_ranges_disjoint`, `element_address_stable`,
instantiated below in Props) — and the thread's own slot, so interleaving them with other threads' phases commutes; the
probing / growing / claiming inside the table is the access-level model `Ets` (Model/C19.lean), abstracted here to its proven
specification (`ets_one_element_per_thread`: a thread's key is found iff the thread has claimed a slot, and the slot holds
its pointer).  The E-SHIM harness runs the real interleavings and the results are compared with this model.

The outcome of the k-th `create_local()` call (in the order of their `grow_by`) is an ORACLE `fault k`.
What the code does on a fault (read off enumerable_thread_specific.h, replayed on the real container by
harness/c19/store.cpp): the exception leaves `table_lookup` before `++my_count` and before the claim, so the thread gets NO
slot; but `grow_by(1)` has already appended a default-constructed `ets_element` (`is_built = false`) to `my_locals`, and
nothing removes it: `size()`, iterators, `range()`, `combine`, `combine_each` and `flattened2d` walk `my_locals` without
looking at `is_built`.  `~ets_element` runs the value's destructor only if `is_built`.
-/
import TbbVerif.Core.Sched
import TbbVerif.Core.Proto

namespace TbbVerif.C19.Store

inductive Fault where
  | none
  | initThrows      -- the initialiser (constructor / functor / exemplar copy) throws
  | allocThrows     -- the segment allocation inside `my_locals.grow_by(1)` throws
  deriving Repr, DecidableEq

/-- one `padded_element` of `my_locals` -/
structure Elem where
  owner : Tid                 -- thread whose `grow_by(1)` appended it
  alloc : Bool := true        -- its segment was allocated (false: the allocation threw — the index is a hole)
  built : Bool := false       -- `is_built`
  cons  : Bool := false       -- ghost: a value object was constructed in `my_space` (and not destroyed)
  deriving Repr, DecidableEq

inductive Ret where
  | elem (idx : Nat) (ex : Bool)   -- `local(exists)` returned element `idx` of my_locals with `exists = ex`
  | exc (attempt : Nat)            -- the exception of `create_local` call number `attempt` propagated out of `local()`
  deriving Repr, DecidableEq

structure Th where
  todo   : Nat
  slot   : Option Nat := none     -- what the thread's table slot (and TLS cache) points to
  rets   : List Ret := []         -- newest first
  calls  : Nat := 0               -- ghost: initialiser invocations made by this thread
  ifail  : Nat := 0               -- ghost: `local()` calls of this thread that ended with the initialiser's exception
  firsts : Nat := 0               -- ghost: `local()` calls of this thread that returned `exists = false`
  deriving Repr, DecidableEq

/-- statement order of `create_local` as regenerated from the header -/
structure Skel where
  commitAfterConstruct : Bool    -- `value_committed()` (is_built = true) only after `construct` returned
  claimAfterCreate     : Bool    -- the slot is claimed / the pointer published only after `create_local` returned
  deriving Repr, DecidableEq

def Skel.expected : Skel := { commitAfterConstruct := true, claimAfterCreate := true }
def Skel.ok (k : Skel) : Bool := k.commitAfterConstruct && k.claimAfterCreate

structure St where
  locals   : List Elem := []
  count    : Nat := 0
  ths      : List Th := []
  attempts : Nat := 0            -- `create_local` calls begun so far
  bad      : Bool := false       -- ghost: an index outside my_locals was touched
  deriving Repr, DecidableEq

def Th.ret (t : Th) (r : Ret) : Th := { t with todo := t.todo - 1, rets := r :: t.rets }

/-- One `local()` call of thread `t`. -/
def step (k : Skel) (fault : Nat → Fault) (s : St) (t : Tid) : St :=
  match s.ths[t]? with
  | none => s
  | some th =>
    if th.todo = 0 then s
    else match th.slot with
      | some e => { s with ths := s.ths.set t (th.ret (.elem e true)) }
      | none =>
        let a := s.attempts
        let idx := s.locals.length
        match fault a with
        | .allocThrows =>
            -- grow_by(1): the size is taken, the segment allocation throws: a hole; nothing else happened
            { s with attempts := a + 1, locals := s.locals ++ [{ owner := t, alloc := false }],
                     ths := s.ths.set t (th.ret (.exc a)) }
        | .initThrows =>
            -- the element is appended (is_built = false unless committed early), the initialiser throws
            { s with attempts := a + 1,
                     locals := s.locals ++ [{ owner := t, built := !k.commitAfterConstruct }],
                     count := if k.claimAfterCreate then s.count else s.count + 1,
                     ths := s.ths.set t (Th.ret { th with calls := th.calls + 1, ifail := th.ifail + 1,
                                                          slot := (if k.claimAfterCreate then none else some idx) } (.exc a)) }
        | .none =>
            { s with attempts := a + 1, locals := s.locals ++ [{ owner := t, built := true, cons := true }],
                     count := s.count + 1,
                     ths := s.ths.set t (Th.ret { th with calls := th.calls + 1, firsts := th.firsts + 1, slot := some idx } (.elem idx false)) }

def init (todo : List Nat) : St := { ths := todo.map (fun n => { todo := n }) }

def sys (k : Skel) (fault : Nat → Fault) (todo : List Nat) : Sys St := { init := init todo, step := step k fault }

/-! ### what the traversals see -/

/-- `size()` / `begin()..end()` / `range()` / `combine_each` / `combine`: the indices of `my_locals` below the first hole
(concurrent_vector::size() stops at the first segment whose allocation failed), built or not -/
def visible (s : St) : List Elem := s.locals.takeWhile (·.alloc)

/-- the value destructors run by `clear()` / `~enumerable_thread_specific`: `~ets_element` looks at `is_built` -/
def destroyed (s : St) : List Elem := s.locals.filter (fun e => e.alloc && e.built)

def failedInits (s : St) : Nat := (s.ths.map (fun th => (th.rets.filter (fun r => match r with | .exc _ => true | _ => false)).length)).sum

/-! ### flattened2d over an ETS of containers: the segmented iterator

`outer[i]` = the inner container of element `i` (a list of item ids).  A position is (outer index, inner index);
`begin` is the first position of the first non-empty inner container, `next` steps inside the inner container and then
skips to the next non-empty one (`advance_me`), `end` is (outer.length, 0). -/
def skipEmpty (outer : List (List Nat)) : Nat → Nat → Nat
  | 0, o => o
  | fuel + 1, o =>
    match outer[o]? with
    | some [] => skipEmpty outer fuel (o + 1)
    | _ => o

def segBegin (outer : List (List Nat)) : Nat × Nat := (skipEmpty outer outer.length 0, 0)

def segNext (outer : List (List Nat)) (p : Nat × Nat) : Nat × Nat :=
  match outer[p.1]? with
  | some inner => if p.2 + 1 < inner.length then (p.1, p.2 + 1) else (skipEmpty outer outer.length (p.1 + 1), 0)
  | none => p

def segDeref (outer : List (List Nat)) (p : Nat × Nat) : Option Nat := (outer[p.1]?).bind (fun inner => inner[p.2]?)

/-- the items visited from position `p` on, at most `fuel` of them -/
def segWalk (outer : List (List Nat)) : Nat → Nat × Nat → List Nat
  | 0, _ => []
  | fuel + 1, p =>
    match segDeref outer p with
    | some x => x :: segWalk outer fuel (segNext outer p)
    | none => []

/-! ### line-protocol driver (phase-level replay of harness/c19/store.cpp) -/
open Proto

structure DSt where
  k : Skel
  faults : List (Nat × Nat) := []     -- (attempt, 1 = initThrows | 2 = allocThrows)
  st : St := {}

def DSt.fault (d : DSt) : Nat → Fault := fun a =>
  match d.faults.lookup a with
  | some 1 => .initThrows
  | some 2 => .allocThrows
  | _ => .none

def showRet : Ret → String
  | .elem i ex => s!"e{i}:{showBool ex}"
  | .exc a => s!"x{a}"

/-- `threads n0 n1 …`; `fault <attempt> <1|2>`; `s <tid>` one `local()` call, prints `<todo> <outcomes oldest first>`;
`state` prints `<size()> | <owner:alloc:built of every element of my_locals> | <count> | <#destructors at clear>`;
`flat l0,l1;…` walks the segmented iterator over the given inner containers. -/
def drive (d : DSt) (ws : List String) : DSt × String :=
  match ws with
  | "threads" :: ns => match nats? ns with
      | some ns => ({ d with st := init ns, faults := [] }, "ok")
      | none => (d, "bad-op")
  | ["fault", a, kd] => match nat? a, nat? kd with
      | some a, some kd => ({ d with faults := (a, kd) :: d.faults }, "ok")
      | _, _ => (d, "bad-op")
  | ["s", t] => match nat? t with
      | some t => match d.st.ths[t]? with
        | some _ =>
          let st' := step d.k d.fault d.st t
          match st'.ths[t]? with
          | some th => ({ d with st := st' }, s!"{th.todo} {" ".intercalate (th.rets.reverse.map showRet)}")
          | none => (d, "bad-tid")
        | none => (d, "bad-tid")
      | none => (d, "bad-op")
  | ["state"] =>
      let s := d.st
      let es := s.locals.map (fun e => s!"{e.owner}:{showBool e.alloc}:{showBool e.built}")
      (d, s!"{(visible s).length} | {" ".intercalate es} | {s.count} | {(destroyed s).length}")
  | ["flat", spec] =>
      let outer : List (List Nat) := (spec.splitOn ";").map (fun seg => (seg.splitOn ",").filterMap (·.toNat?))
      (d, showNats (segWalk outer ((outer.map (·.length)).sum + 1) (segBegin outer)))
  | _ => (d, "bad-op")

def driverWith (k : Skel) : Proto.Driver := { σ := DSt, init := { k := k }, step := drive }

end TbbVerif.C19.Store
