/-
C14 (a) — the reservation protocol between reserving receivers and their senders.
Executable model (core Lean only; linked into drv_c14).

Code: include/oneapi/tbb/detail/_flow_graph_cache_impl.h `reservable_predecessor_cache` (ONE reservation per cache:
`try_reserve` walks the predecessors and remembers `reserved_src`; `try_release` / `try_consume` act on it),
include/oneapi/tbb/flow_graph.h `limiter_node::forward_task` (any number of concurrent invocations: forward tasks,
the decrementer, `register_predecessor`, the re-spawn logic) and `input_node::apply_body_bypass` /
`try_reserve_apply_body` (any number of concurrent put tasks plus an external reserving successor).

Granularity: one step = one mutex-protected section of the code (the cache's `my_mutex` sections, the limiter's
`my_mutex` sections, one call of a sender's `try_reserve` / `try_release` / `try_consume`, one
`my_successors.try_put_task`).  An interleaving of threads is a sequence of such steps; the schedule is a list
of `Op`s.  The structural facts of the code that the theorems depend on (is `reserved_src` tested before
reserving; is the failure path's `try_release` guarded by the local `reserved` flag; does the success path consume;
are `try_release`/`try_consume` tolerant of "nothing reserved") are regenerated from the source text into
`Generated/C14Res.lean` on every run; the step functions are defined over them.

Part 1  `St` / `stepAtt`   limiter_node + reservable_predecessor_cache + N forward attempts + reservable senders
Part 2  `ISt` / `istep`    input_node + N put tasks + one external reserving/pulling successor
Part 3  drivers            `c14res` / `c14inp`: scripted nested executions (an operation is suspended inside a
                           call-out and other operations run to completion inside that window) used by the
                           correspondence with the real node classes (harness/c14/res.cpp)
-/
import TbbVerif.Core.Sched
import TbbVerif.Core.Proto
import TbbVerif.Generated.C14Res

namespace TbbVerif.C14.Res
open TbbVerif.Generated.C14Res

def upd {α : Type} (f : Nat → α) (n : Nat) (v : α) : Nat → α := fun i => if i = n then v else f i

/-- The structural facts of `reservable_predecessor_cache` and `limiter_node::forward_task` that the step function is
defined over.  `genFlags` is what the source text says NOW (regenerated on every run). -/
structure Flags where
  /-- `try_reserve_impl` returns false when `reserved_src` is already set -/
  reserveChecksSrc : Bool
  /-- `forward_task` sets its local `reserved = true` after a successful `try_reserve` -/
  limSetsReserved : Bool
  /-- the failure section calls `my_predecessors.try_release()` at all -/
  limFailReleases : Bool
  /-- … only `if (reserved)` -/
  limFailGuarded : Bool
  /-- the success section calls `my_predecessors.try_consume()` -/
  limSuccessConsumes : Bool
  /-- `try_release` / `try_consume` return false instead of dereferencing a null `reserved_src` -/
  releaseNullTolerant : Bool
  consumeNullTolerant : Bool
  /-- the translator recognised the statement skeleton of the three functions -/
  known : Bool
deriving Repr, DecidableEq, Inhabited

/-- the shape of the code under which the reservation theorems hold (null tolerance is irrelevant then) -/
def Flags.ok (F : Flags) : Bool :=
  F.reserveChecksSrc && F.limSetsReserved && F.limFailReleases && F.limFailGuarded && F.limSuccessConsumes && F.known

def genFlags : Flags :=
  { reserveChecksSrc := reserveChecksSrc, limSetsReserved := limSetsReserved, limFailReleases := limFailReleases,
    limFailGuarded := limFailGuarded, limSuccessConsumes := limSuccessConsumes,
    releaseNullTolerant := releaseNullTolerant, consumeNullTolerant := consumeNullTolerant,
    known := skeletonKnown }

/-- The facts of `input_node::try_reserve_apply_body` / `apply_body_bypass`. -/
structure IFlags where
  /-- `try_reserve_apply_body` returns false when `my_reserved` -/
  reserveChecksReserved : Bool
  /-- the body is invoked only when there is no cached item -/
  bodyOnlyWhenEmpty : Bool
  /-- `apply_body_bypass` returns when `try_reserve_apply_body` failed -/
  applyReturnsOnFail : Bool
  applyConsumesOnAccept : Bool
  applyReleasesOnReject : Bool
  known : Bool
deriving Repr, DecidableEq, Inhabited

def IFlags.ok (F : IFlags) : Bool :=
  F.reserveChecksReserved && F.bodyOnlyWhenEmpty && F.applyReturnsOnFail && F.applyConsumesOnAccept && F.applyReleasesOnReject && F.known

def genIFlags : IFlags :=
  { reserveChecksReserved := inReserveChecksReserved, bodyOnlyWhenEmpty := inBodyOnlyWhenEmpty,
    applyReturnsOnFail := inApplyReturnsOnFail, applyConsumesOnAccept := inApplyConsumesOnAccept,
    applyReleasesOnReject := inApplyReleasesOnReject, known := skeletonKnown }

/-! ## Part 1: limiter_node::forward_task over reservable_predecessor_cache -/

/-- A reservable sender (queue_node, buffer_node, input_node's cached item, …) as seen by its reserving successor:
`try_reserve` hands out the front item and blocks it, `try_release` gives it back, `try_consume` removes it. -/
structure RS where
  items : List Nat := []
  reserved : Bool := false
  /-- `register_successor(*pred, *owner)` was the last edge operation (the edge is in push mode) -/
  pushMode : Bool := false
  /-- ghost: the forward attempt whose `try_reserve` succeeded -/
  owner : Option Nat := none
deriving Repr, DecidableEq, Inhabited

/-- Program counter of one invocation of `limiter_node::forward_task`. -/
inductive Pc where
  /-- not started (pending task / call not yet made) -/
  | idle
  /-- `++my_tries` done; about to enter `try_reserve_impl`'s first locked section -/
  | entered
  /-- popped `p`, `reserved_src = p`; about to call `p->try_reserve(v)` -/
  | asking (p : Nat)
  /-- `p->try_reserve` failed; about to re-register `p` as a sender in push mode and clear `reserved_src` -/
  | refused (p : Nat)
  /-- `p->try_reserve` returned `v`; about to `add(*pred)` and return true -/
  | gotIt (p v : Nat)
  /-- `try_reserve` returned true (`reserved = true`); about to call `my_successors.try_put_task(v)` -/
  | holding (p v : Nat)
  /-- the successors answered; about to run the final `my_mutex` section (success / failure) -/
  | offered (p v : Nat) (acc : Bool)
  /-- `try_reserve` returned false; about to run the failure section -/
  | noRes
  | done
deriving Repr, DecidableEq, Inhabited

/-- what an attempt at this pc has delivered but not yet consumed -/
def Pc.infl : Pc → List (Nat × Nat)
  | .offered p v true => [(p, v)]
  | _ => []

structure Att where
  pc : Pc := .idle
  /-- the local `bool reserved` of `forward_task` -/
  flag : Bool := false
deriving Repr, DecidableEq, Inhabited

inductive Ev where
  | res (a p : Nat) (v : Option Nat)
  | rel (a p : Nat)
  | con (a p : Nat)
  | regsucc (a p : Nat)
  | offer (a v : Nat) (acc : Bool)
deriving Repr, DecidableEq, Inhabited

structure St where
  threshold : Nat
  count : Nat := 0
  tries : Nat := 0
  futureDec : Nat := 0
  /-- `!my_successors.empty()` -/
  hasSucc : Bool := true
  /-- `my_predecessors.my_q` -/
  q : List Nat := []
  /-- `my_predecessors.reserved_src` -/
  rsrc : Option Nat := none
  snd : Nat → RS := fun _ => {}
  att : Nat → Att := fun _ => {}
  /-- pending `forward_task_bypass` tasks (spawned or returned by the final sections / `register_predecessor`) -/
  pending : Nat := 0
  /-- ghost: the attempt that set `reserved_src` -/
  holder : Option Nat := none
  /-- ghost: (sender, value) accepted by the successors from a forward attempt, newest first -/
  delivered : List (Nat × Nat) := []
  /-- ghost: (sender, value) removed from its sender by `try_consume`, newest first -/
  consumed : List (Nat × Nat) := []
  /-- ghost: everything that ever entered sender `p`, oldest first -/
  arrived : Nat → List Nat := fun _ => []
  /-- ghost: a release / consume was performed by an attempt that does not own the reservation, or on a sender
  that holds no reservation -/
  stolen : Bool := false
  /-- a null `reserved_src` was dereferenced -/
  crashed : Bool := false
  ev : List Ev := []

namespace St

/-- `check_conditions()` -/
def check (s : St) : Bool := decide (s.count + s.tries < s.threshold) && !s.q.isEmpty && s.hasSucc

def setPc (s : St) (a : Nat) (pc : Pc) : St := { s with att := upd s.att a { s.att a with pc := pc } }

/-- `reservable_predecessor_cache::try_release` called by attempt `a` -/
def cacheRelease (F : Flags) (s : St) (a : Nat) : St :=
  match s.rsrc with
  | none => if F.releaseNullTolerant then s else { s with crashed := true }
  | some p =>
    let S := s.snd p
    { s with snd := upd s.snd p { S with reserved := false, owner := none }, rsrc := none, holder := none,
             stolen := s.stolen || (s.holder != some a) || !S.reserved, ev := .rel a p :: s.ev }

/-- `reservable_predecessor_cache::try_consume` called by attempt `a` -/
def cacheConsume (F : Flags) (s : St) (a : Nat) : St :=
  match s.rsrc with
  | none => if F.consumeNullTolerant then s else { s with crashed := true }
  | some p =>
    let S := s.snd p
    { s with snd := upd s.snd p { S with reserved := false, owner := none, items := S.items.tail }, rsrc := none, holder := none,
             consumed := (match S.items with | v :: _ => (p, v) :: s.consumed | [] => s.consumed),
             stolen := s.stolen || (s.holder != some a) || !S.reserved, ev := .con a p :: s.ev }

/-- the counter update of a successful put (`++my_count` and the `my_future_decrement` pay-back) -/
def bump (s : St) : St :=
  let c := s.count + 1
  if s.futureDec = 0 then { s with count := c }
  else if c > s.futureDec then { s with count := c - s.futureDec, futureDec := 0 }
  else { s with count := 0, futureDec := s.futureDec - c }

/-- a finishing section ends with `if (check_conditions()) <create / spawn a forward task>` -/
def respawn (s : St) : St := if s.check then { s with pending := s.pending + 1 } else s

/-- One atomic step of forward attempt `a`; `acc` is the successors' answer (used at `holding` only). -/
def stepAtt (F : Flags) (s : St) (a : Nat) (acc : Bool) : St :=
  let A := s.att a
  match A.pc with
  | .idle =>
    if s.check then { s with tries := s.tries + 1, att := upd s.att a { pc := .entered, flag := false } }
    else s.setPc a .done
  | .entered =>
    if (F.reserveChecksSrc && s.rsrc.isSome) then s.setPc a .noRes
    else match s.q with
      | [] => s.setPc a .noRes
      | p :: ps => { s with q := ps, rsrc := some p, holder := some a, att := upd s.att a { A with pc := .asking p } }
  | .asking p =>
    let S := s.snd p
    if S.reserved then { (s.setPc a (.refused p)) with ev := .res a p none :: s.ev }
    else match S.items with
      | [] => { (s.setPc a (.refused p)) with ev := .res a p none :: s.ev }
      | v :: _ => { s with snd := upd s.snd p { S with reserved := true, owner := some a },
                           att := upd s.att a { A with pc := .gotIt p v }, ev := .res a p (some v) :: s.ev }
  | .refused p =>
    { s with snd := upd s.snd p { s.snd p with pushMode := true }, rsrc := none, holder := none,
             att := upd s.att a { A with pc := .entered }, ev := .regsucc a p :: s.ev }
  | .gotIt p v =>
    { s with q := s.q ++ [p], att := upd s.att a { pc := .holding p v, flag := F.limSetsReserved } }
  | .holding p v =>
    { s with delivered := if acc then (p, v) :: s.delivered else s.delivered,
             att := upd s.att a { A with pc := .offered p v acc }, ev := .offer a v acc :: s.ev }
  | .offered _ _ true =>
    let s1 := { s.bump with tries := s.tries - 1 }
    let s2 := if F.limSuccessConsumes then s1.cacheConsume F a else s1
    (s2.respawn).setPc a .done
  | .offered _ _ false =>
    let s1 := { s with tries := s.tries - 1 }
    let s2 := if F.limFailReleases && (!F.limFailGuarded || A.flag) then s1.cacheRelease F a else s1
    (s2.respawn).setPc a .done
  | .noRes =>
    let s1 := { s with tries := s.tries - 1 }
    let s2 := if F.limFailReleases && (!F.limFailGuarded || A.flag) then s1.cacheRelease F a else s1
    (s2.respawn).setPc a .done
  | .done => s

end St

/-- The schedule alphabet: any thread may, at any time, let any forward attempt take its next step, deliver an item to
a sender, flip an edge to pull mode, or move the limiter's counters through the push path / the decrementer. -/
inductive Op where
  | step (a : Nat) (acc : Bool)
  /-- an item arrives in sender `p` -/
  | senderPut (p v : Nat)
  /-- `limiter_node::register_predecessor(p)` (the edge p → limiter goes to pull mode) -/
  | regPred (p : Nat)
  /-- `decrement_counter(1)`'s locked section (the `forward_task()` call that follows is an attempt) -/
  | dec
  /-- first locked section of `try_put_task_impl` (push path) -/
  | putBegin
  /-- last locked section of `try_put_task_impl` -/
  | putEnd (acc : Bool)
  /-- `register_successor` / `remove_successor` of the limiter -/
  | setSucc (b : Bool)
deriving Repr, DecidableEq, Inhabited

namespace St

def step (F : Flags) (s : St) : Op → St
  | .step a acc => s.stepAtt F a acc
  | .senderPut p v =>
    { s with snd := upd s.snd p { s.snd p with items := (s.snd p).items ++ [v] }, arrived := upd s.arrived p (s.arrived p ++ [v]) }
  | .regPred p =>
    let s1 := { s with q := s.q ++ [p], snd := upd s.snd p { s.snd p with pushMode := false } }
    if decide (s1.count + s1.tries < s1.threshold) && s1.hasSucc then { s1 with pending := s1.pending + 1 } else s1
  | .dec =>
    let d := if s.threshold < 1 then s.threshold else 1
    if d > s.count then { s with count := 0, futureDec := if s.tries > 0 then s.futureDec + (d - s.count) else s.futureDec }
    else { s with count := s.count - d }
  | .putBegin => if s.count + s.tries ≥ s.threshold then s else { s with tries := s.tries + 1 }
  | .putEnd acc =>
    if acc then { s.bump with tries := s.tries - 1 } else ({ s with tries := s.tries - 1 } : St).respawn
  | .setSucc b => { s with hasSucc := b }

def init (threshold : Nat) : St := { threshold := threshold }

def sys (F : Flags) (threshold : Nat) : List Op → St := fun ops => ops.foldl (step F) (init threshold)

/-- the pc of the attempt that holds `reserved_src` (`idle` if nobody does) -/
def hpc (s : St) : Pc :=
  match s.holder with
  | some a => (s.att a).pc
  | none => .idle

/-- the attempt currently between its successful `try_put_task` and its final section, if any -/
def inflight (s : St) : List (Nat × Nat) := s.hpc.infl

end St

/-- does an attempt at this pc hold `reserved_src`? -/
def Pc.holdsSrc : Pc → Option Nat
  | .asking p | .refused p | .gotIt p _ | .holding p _ | .offered p _ _ => some p
  | _ => none

/-- does an attempt at this pc hold a reservation in sender `p` (value `v`)? -/
def Pc.holdsRes : Pc → Option (Nat × Nat)
  | .gotIt p v | .holding p v | .offered p v _ => some (p, v)
  | _ => none

/-! ## Part 2: input_node::apply_body_bypass with N put tasks and one external reserving / pulling successor -/

inductive Who where
  | task (a : Nat)
  | ext
deriving Repr, DecidableEq, Inhabited

inductive IPc where
  | idle
  /-- `try_reserve_apply_body` returned `v`; about to call `my_successors.try_put_task(v)` -/
  | got (v : Nat)
  /-- the successors answered; about to `try_consume` / `try_release` -/
  | offered (v : Nat) (acc : Bool)
  | done
deriving Repr, DecidableEq, Inhabited

/-- what a put task at this pc has delivered but not yet consumed -/
def IPc.infl : IPc → List Nat
  | .offered v true => [v]
  | _ => []

/-- does a put task at this pc hold `my_reserved`, and for which value -/
def IPc.val : IPc → Option Nat
  | .got v | .offered v _ => some v
  | _ => none

structure ISt where
  first : Nat
  stop : Nat
  next : Nat
  active : Bool := false
  reserved : Bool := false
  hasItem : Bool := false
  item : Nat := 0
  hasSucc : Bool := true
  task : Nat → IPc := fun _ => .idle
  pending : Nat := 0
  /-- ghost: who holds `my_reserved` -/
  holder : Option Who := none
  /-- ghost: ids the body produced, newest first -/
  gen : List Nat := []
  /-- ghost: number of body invocations (including the final one that calls `flow_control::stop`) -/
  bodyCalls : Nat := 0
  /-- ghost: ids accepted by the successors from a put task, newest first -/
  delivered : List Nat := []
  /-- ghost: ids removed from the cache (`try_consume` by a put task: `true`; `try_get` / `try_consume` by the external
  successor: `false`), newest first -/
  taken : List (Bool × Nat) := []
  stolen : Bool := false
  ev : List String := []

inductive IOp where
  | step (a : Nat) (acc : Bool)
  | activate
  /-- external successor: `try_get` -/
  | xGet
  | xReserve
  | xRelease
  | xConsume
  | setSucc (b : Bool)
deriving Repr, DecidableEq, Inhabited

namespace ISt

/-- `spawn_put()` at the end of `try_release` / `try_consume` / `activate` (when there is a successor) -/
def respawn (s : ISt) : ISt := if s.hasSucc then { s with pending := s.pending + 1 } else s

/-- `input_node::try_release` called by `w` -/
def release (s : ISt) (w : Who) : ISt :=
  ({ s with reserved := false, holder := none,
            stolen := s.stolen || (s.holder != some w) || !(s.reserved && s.hasItem) } : ISt).respawn

/-- `input_node::try_consume` called by `w` -/
def consume (s : ISt) (w : Who) : ISt :=
  ({ s with reserved := false, hasItem := false, holder := none,
            taken := if s.hasItem then (w != .ext, s.item) :: s.taken else s.taken,
            stolen := s.stolen || (s.holder != some w) || !(s.reserved && s.hasItem) } : ISt).respawn

def setTask (s : ISt) (a : Nat) (pc : IPc) : ISt := { s with task := upd s.task a pc }

def stepTask (F : IFlags) (s : ISt) (a : Nat) (acc : Bool) : ISt :=
  match s.task a with
  | .idle =>
    -- try_reserve_apply_body (one `my_mutex` section)
    if F.reserveChecksReserved && s.reserved then
      if F.applyReturnsOnFail then s.setTask a .done else s.setTask a (.got s.item)
    else
      let s1 : ISt :=
        if F.bodyOnlyWhenEmpty && s.hasItem then s
        else if s.next < s.stop then
          { s with item := s.next, next := s.next + 1, hasItem := true, gen := s.next :: s.gen, bodyCalls := s.bodyCalls + 1,
                   ev := s!"G{s.next}" :: s.ev }
        else { s with hasItem := false, bodyCalls := s.bodyCalls + 1, ev := "Gstop" :: s.ev }
      if s1.hasItem then ({ s1 with reserved := true, holder := some (.task a) } : ISt).setTask a (.got s1.item)
      else if F.applyReturnsOnFail then s1.setTask a .done else s1.setTask a (.got s1.item)
  | .got v =>
    { s with delivered := if acc then v :: s.delivered else s.delivered, task := upd s.task a (.offered v acc),
             ev := s!"O{a}:{v}:{if acc then "a" else "r"}" :: s.ev }
  | .offered _ true =>
    (if F.applyConsumesOnAccept then s.consume (.task a) else s).setTask a .done
  | .offered _ false =>
    (if F.applyReleasesOnReject then s.release (.task a) else s).setTask a .done
  | .done => s

def step (F : IFlags) (s : ISt) : IOp → ISt
  | .step a acc => s.stepTask F a acc
  | .activate => ({ s with active := true } : ISt).respawn
  | .xGet =>
    if s.reserved then s
    else if s.hasItem then { s with hasItem := false, taken := (false, s.item) :: s.taken }
    else if s.active then { s with pending := s.pending + 1 } else s
  | .xReserve =>
    if s.reserved then s
    else if s.hasItem then { s with reserved := true, holder := some .ext }
    else s
  | .xRelease => if s.holder = some .ext then s.release .ext else s
  | .xConsume => if s.holder = some .ext then s.consume .ext else s
  | .setSucc b => { s with hasSucc := b }

def init (first stop : Nat) : ISt := { first := first, stop := stop, next := first }

def sys (F : IFlags) (first stop : Nat) : List IOp → ISt := fun ops => ops.foldl (step F) (init first stop)

/-- the pc of the put task that holds `my_reserved` (`idle` if none does) -/
def htask (s : ISt) : IPc :=
  match s.holder with
  | some (.task a) => s.task a
  | _ => .idle

def inflight (s : ISt) : List Nat := s.htask.infl

end ISt

/-! ## Part 3: scripted nested executions (correspondence with harness/c14/res.cpp)

The harness runs the REAL `limiter_node<int>` (with its real `reservable_predecessor_cache` and `broadcast_cache`)
between scripted senders and a scripted successor, single-threaded; a *hook* armed on a sender's `try_reserve` or on
the successor's `try_put_task` suspends the running operation inside that call-out, the following script lines run
nested inside the window, `resume` continues the suspended operation.  The same script drives `stepAtt` here: a
suspended operation is an attempt parked at `asking p` / `holding p v`. -/

structure DS where
  st : St := St.init 0
  going : Bool := false
  nsnd : Nat := 0
  nextOp : Nat := 0
  /-- suspended attempts, innermost first -/
  stack : List Nat := []
  hooksRes : List Nat := []
  answers : List Bool := []

namespace DS

def FUEL : Nat := 400

/-- run attempt `a` until it is done or a hook suspends it; `skip` = the first step is taken without consulting hooks -/
def runAtt : Nat → DS → Nat → Bool → DS
  | 0, d, _, _ => d
  | fuel + 1, d, a, skip =>
    match (d.st.att a).pc with
    | .done => d
    | .asking p =>
      if !skip && d.hooksRes.contains p then { d with hooksRes := d.hooksRes.erase p, stack := a :: d.stack }
      else runAtt fuel { d with st := d.st.stepAtt genFlags a true } a false
    | .holding _ _ =>
      -- (no hook here: `my_successors.try_put_task` runs under the successor cache's lock, which every other operation
      -- of the limiter needs for `check_conditions()`, so nothing can run nested inside that call)
      let acc := d.answers.head?.getD true
      runAtt fuel { d with st := d.st.stepAtt genFlags a acc, answers := d.answers.tail } a false
    | _ => runAtt fuel { d with st := d.st.stepAtt genFlags a true } a false

def showIds (l : List Nat) : String := if l.isEmpty then "-" else ",".intercalate (l.map toString)

def showEv : Ev → String
  | .res a p (some v) => s!"res{a}:{p}:{v}"
  | .res a p none => s!"res{a}:{p}:-"
  | .rel a p => s!"rel{a}:{p}"
  | .con a p => s!"con{a}:{p}"
  | .regsucc a p => s!"rs{a}:{p}"
  | .offer a v acc => s!"put{a}:{v}:{if acc then "a" else "r"}"

def render (d : DS) (res : String) : String :=
  let s := d.st
  let ev := if s.ev.isEmpty then "-" else " ".intercalate (s.ev.reverse.map showEv)
  let snds := (List.range d.nsnd).map (fun p =>
    let S := s.snd p
    s!"{p}:{showIds S.items}{if S.reserved then "*" else ""}{if S.pushMode then "^" else ""}")
  let r := match s.rsrc with | some p => toString p | none => "-"
  s!"{res} | {ev} | pend={s.pending} susp={showIds d.stack} | c={s.count} t={s.tries} f={s.futureDec} q={showIds s.q} r={r} | {" ; ".intercalate snds}"

def bad (d : DS) : DS × String := (d, "bad-op")

/-- start a forward attempt as operation number `d.nextOp` -/
def startAtt (d : DS) : DS :=
  let a := d.nextOp
  runAtt FUEL { d with nextOp := a + 1 } a false

def stepLine (d0 : DS) (ws : List String) : DS × String :=
  let d := { d0 with st := { d0.st with ev := [] } }
  let fin (x : DS) (res : String) : DS × String := (x, render x res)
  let status (x : DS) (before : Nat) : String := if x.stack.length > before then "susp" else "done"
  match ws with
  | ["lim", t] =>
    match t.toNat? with
    | some th => if d.going || th > 1000 then bad d else ({ d with st := St.init th }, "ok")
    | none => bad d
  | ["snd", i] =>
    match i.toNat? with
    | some p => if d.going || p != d.nsnd || p > 50 then bad d else ({ d with nsnd := p + 1 }, "ok")
    | none => bad d
  | ["go"] => if d.going then bad d else fin { d with going := true } "ok"
  | ["sput", p, v] =>
    match p.toNat?, v.toNat? with
    | some p, some v =>
      if !d.going || p >= d.nsnd || v > 1000000 then bad d else fin { d with st := d.st.step genFlags (.senderPut p v) } "ok"
    | _, _ => bad d
  | ["regpred", p] =>
    match p.toNat? with
    | some p => if !d.going || p >= d.nsnd then bad d else fin { d with st := d.st.step genFlags (.regPred p) } "ok"
    | none => bad d
  | ["ans", w] =>
    if !d.going || !(w = "a" || w = "r") then bad d else fin { d with answers := d.answers ++ [decide (w = "a")] } "ok"
  | ["hook", "res", p] =>
    match p.toNat? with
    | some p => if !d.going || p >= d.nsnd then bad d else fin { d with hooksRes := d.hooksRes ++ [p] } "ok"
    | none => bad d
  | ["dec"] =>
    if !d.going then bad d
    else
      let n := d.stack.length
      let x := startAtt { d with st := d.st.step genFlags .dec }
      fin x (status x n)
  | ["run"] =>
    if !d.going || d.st.pending = 0 then bad d
    else
      let n := d.stack.length
      let x := startAtt { d with st := { d.st with pending := d.st.pending - 1 } }
      fin x (status x n)
  | ["put", v] =>
    match v.toNat? with
    | some _ =>
      if !d.going then bad d
      else
        let s1 := d.st.step genFlags .putBegin
        if s1.tries = d.st.tries then fin d "0"
        else
          let acc := d.answers.head?.getD true
          fin { d with st := s1.step genFlags (.putEnd acc), answers := d.answers.tail } (if acc then "1" else "0")
    | none => bad d
  | ["resume"] =>
    match d.stack with
    | [] => bad d
    | a :: rest =>
      let n := rest.length
      let x := runAtt FUEL { d with stack := rest } a true
      fin x (status x n)
  | _ => bad d

def driver : Proto.Driver := { σ := DS, init := {}, step := stepLine }

end DS

/-- `c14inp`: the real `input_node<int>` with a scripted successor (hook = suspend inside `try_put_task`) and an
external pulling / reserving successor. -/
structure IDS where
  st : ISt := ISt.init 0 0
  going : Bool := false
  nextOp : Nat := 0
  stack : List Nat := []
  hooksPut : Nat := 0
  answers : List Bool := []

namespace IDS

def runTask : Nat → IDS → Nat → Bool → IDS
  | 0, d, _, _ => d
  | fuel + 1, d, a, skip =>
    match d.st.task a with
    | .done => d
    | .got _ =>
      if !skip && d.hooksPut > 0 then { d with hooksPut := d.hooksPut - 1, stack := a :: d.stack }
      else
        let acc := d.answers.head?.getD true
        runTask fuel { d with st := d.st.stepTask genIFlags a acc, answers := d.answers.tail } a false
    | _ => runTask fuel { d with st := d.st.stepTask genIFlags a true } a false

def render (d : IDS) (res : String) : String :=
  let s := d.st
  let ev := if s.ev.isEmpty then "-" else " ".intercalate s.ev.reverse
  s!"{res} | {ev} | pend={s.pending} susp={DS.showIds d.stack} | a={Proto.showBool s.active} r={Proto.showBool s.reserved} h={Proto.showBool s.hasItem} i={if s.hasItem then s.item else 0}"

def stepLine (d0 : IDS) (ws : List String) : IDS × String :=
  let d := { d0 with st := { d0.st with ev := [] } }
  let fin (x : IDS) (res : String) : IDS × String := (x, render x res)
  let status (x : IDS) (before : Nat) : String := if x.stack.length > before then "susp" else "done"
  let bad : IDS × String := (d, "bad-op")
  match ws with
  | ["inp", a, b] =>
    match a.toNat?, b.toNat? with
    | some a, some b => if d.going || a > 100000 || b > 100000 then bad else ({ d with st := ISt.init a b }, "ok")
    | _, _ => bad
  | ["go"] => if d.going then bad else fin { d with going := true } "ok"
  | ["act"] => if !d.going || !d.stack.isEmpty then bad else fin { d with st := d.st.step genIFlags .activate } "ok"
  | ["ans", w] =>
    if !d.going || !(w = "a" || w = "r") then bad else fin { d with answers := d.answers ++ [decide (w = "a")] } "ok"
  | ["hook", "put"] => if !d.going then bad else fin { d with hooksPut := d.hooksPut + 1 } "ok"
  | ["run"] =>
    if !d.going || d.st.pending = 0 then bad
    else
      let n := d.stack.length
      let a := d.nextOp
      let x := runTask DS.FUEL { d with nextOp := a + 1, st := { d.st with pending := d.st.pending - 1 } } a false
      fin x (status x n)
  | ["resume"] =>
    match d.stack with
    | [] => bad
    | a :: rest =>
      let n := rest.length
      let x := runTask DS.FUEL { d with stack := rest } a true
      fin x (status x n)
  | ["xget"] =>
    if !d.going then bad
    else
      let s1 := d.st.step genIFlags .xGet
      let got := !d.st.reserved && d.st.hasItem
      fin { d with st := { s1 with ev := (if got then s!"T{d.st.item}" else "T-") :: s1.ev } } (if got then "1" else "0")
  | ["xres"] =>
    if !d.going || d.st.holder = some .ext then bad
    else
      let s1 := d.st.step genIFlags .xReserve
      let got := !d.st.reserved && d.st.hasItem
      fin { d with st := { s1 with ev := (if got then s!"R{d.st.item}" else "R-") :: s1.ev } } (if got then "1" else "0")
  | ["xrel"] => if !d.going || d.st.holder != some .ext then bad else fin { d with st := d.st.step genIFlags .xRelease } "ok"
  | ["xcon"] => if !d.going || d.st.holder != some .ext then bad else fin { d with st := d.st.step genIFlags .xConsume } "ok"
  | _ => bad

def driver : Proto.Driver := { σ := IDS, init := {}, step := stepLine }

end IDS

end TbbVerif.C14.Res
