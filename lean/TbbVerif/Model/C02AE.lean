/-
C02 — "an enqueued task is eventually executed": the demand bookkeeping behind `arena::enqueue_task`
(src/tbb/arena.cpp, arena.h): `advertise_new_work<work_enqueued>` (fence; `my_mandatory_concurrency.test_and_set()` when
`my_num_slots > my_num_reserved_slots`; `my_pool_state.test_and_set()`; `request_workers(mandatory_delta, workers_delta,
wakeup_threads = true)`), `arena::out_of_work` (`try_clear_if(!has_enqueued_tasks())`
on the mandatory flag, `try_clear_if(!has_tasks())` on the pool flag, `request_workers` with the negative deltas),
`threading_control_impl::adjust_demand` = `thread_request_serializer_proxy::register_mandatory_request`
(`my_num_mandatory_requests.fetch_add`, enable / disable of mandatory concurrency under the writer lock when the counter
crosses 0 <-> 1 and the soft limit is 0) followed by `market::adjust_demand` (under the market mutex:
`arena::update_request`: `my_mandatory_requests += mandatory_delta`, `my_total_num_workers_requested += workers_delta`,
min / max workers of the client).

The two three-state flags ARE instances of the `Flag` model (Model/C02.lean) at the granularity of their atomic accesses:
`fm` = `my_mandatory_concurrency` with work = tasks in `my_fifo_task_stream`, `fp` = `my_pool_state` with work = all
tasks (`has_tasks()`); thread `i` owns publisher / cleaner / consumer `i` of both.  One model step = one atomic access of
a flag, or one serialised section (the proxy's `fetch_add`, its enable / disable check under the writer lock, the
market's critical section, the notification of the waiting-threads monitor — whose own protocol is the `Monitor` model).
Spawned work is not part of this model (the property excludes it): the pool flag's predicate `!has_tasks()` is modelled as
"the fifo stream is empty", i.e. the arena holds no other tasks — with other tasks present `out_of_work` keeps the pool
flag set, which only adds demand.  Arenas whose slots are ALL reserved for external threads (`my_num_slots == my_num_reserved_slots`, e.g. task_arena(2, 2))
never use mandatory concurrency and are not modelled (the theorem is about the others).
-/
import TbbVerif.Model.C02

namespace TbbVerif.C02.AE

inductive Op where
  | enq      -- arena::enqueue_task
  | oow      -- arena::out_of_work (a thread that found nothing and leaves / an external thread leaving)
  | takeF    -- a task of the fifo stream is taken (to be executed)
  deriving Repr, DecidableEq

inductive Pc where
  | idle
  | ePush      -- my_fifo_task_stream.push: set_one_bit(population)
  | eFence     -- atomic_fence_seq_cst()
  | eMand      -- my_mandatory_concurrency.test_and_set()
  | ePool      -- my_pool_state.test_and_set()
  | oMand      -- my_mandatory_concurrency.try_clear_if([] { return !has_enqueued_tasks(); })
  | oPool      -- my_pool_state.try_clear_if([] { return !has_tasks(); })
  | reqProxy   -- register_mandatory_request: my_num_mandatory_requests.fetch_add(mandatory_delta)
  | reqEnable  -- enable_/disable_mandatory_concurrency: the re-check under the writer lock
  | reqMarket  -- market::adjust_demand: update_request under the market mutex
  | reqNotify  -- wakeup_threads: get_waiting_threads_monitor().notify(ctx == arena)
  | tTake
  deriving Repr, DecidableEq

structure Thr where
  ops   : List Op := []
  pc    : Pc := .idle
  md    : Int := 0          -- mandatory_delta of the pending request_workers
  wd    : Int := 0          -- workers_delta
  wv    : Int := 0          -- are_workers_needed / release_workers (as +1 / -1) of the operation in progress
  wake  : Bool := false     -- wakeup_threads
  prev  : Int := 0          -- value returned by my_num_mandatory_requests.fetch_add
  deriving Repr, DecidableEq

structure St where
  fm       : Flag.St := {}      -- my_mandatory_concurrency; fm.work = tasks in my_fifo_task_stream
  fp       : Flag.St := {}      -- my_pool_state; fp.work = all tasks in the arena
  W        : Nat := 1           -- my_max_num_workers
  soft0    : Nat := 0           -- the soft limit the application configured (max_allowed_parallelism - 1)
  mandReq  : Int := 0           -- arena::my_mandatory_requests
  totalReq : Int := 0           -- arena::my_total_num_workers_requested
  minW     : Int := 0           -- pm_client::my_min_workers
  maxW     : Int := 0           -- pm_client::my_max_workers
  numMand  : Int := 0           -- thread_request_serializer_proxy::my_num_mandatory_requests
  enabled  : Bool := false      -- my_is_mandatory_concurrency_enabled
  soft     : Nat := 0           -- thread_request_serializer::my_soft_limit
  wakeups  : Nat := 0           -- notifications of the waiting-threads monitor issued for this arena
  wvApplied : Int := 0          -- ghost: net number of `are_workers_needed` / `release_workers` results applied by the market
  thr      : List Thr := []
  deriving Repr, DecidableEq

def St.setT (s : St) (i : Nat) (th : Thr) : St := { s with thr := s.thr.set i th }

def Op.startPc : Op → Pc
  | .enq => .ePush | .oow => .oMand | .takeF => .tTake

/-- the operation is over -/
def Thr.done (th : Thr) : Thr := { th with ops := th.ops.tail, pc := .idle, md := 0, wd := 0, wv := 0, wake := false }

def pubLeft (f : Flag.St) (i : Nat) : Nat := match f.pubs[i]? with | some p => p.left | none => 0
def clLeft (f : Flag.St) (i : Nat) : Nat := match f.cls[i]? with | some c => c.left | none => 0

/-- one access of publisher `i` of flag `f` -/
def pubStep (f : Flag.St) (i : Nat) : Flag.St := match f.pubs[i]? with | some p => Flag.stepP f i p | none => f
def clStep (f : Flag.St) (i : Nat) : Flag.St := match f.cls[i]? with | some c => Flag.stepC f i c | none => f
def conStep (f : Flag.St) (i : Nat) : Flag.St := match f.cons[i]? with | some l => Flag.stepT f i l | none => f

def clampI (x lo hi : Int) : Int := if x < lo then lo else if hi < x then hi else x

/-- `workers_delta` of advertise_new_work / out_of_work: `are_workers_needed ? my_max_num_workers : 0` (negated in
out_of_work), and `= ±1` "to keep arena invariants consistent" when the mandatory flag changed in a worker-less arena.
With `md, wv ∈ {0, 1}` (resp. `{-1, 0}`) this is the code's `if (is_mandatory_needed && is_arena_workerless())
workers_delta = 1` on top of `wv * W` (`AE.workersDelta_code` in Proofs/C02/AEInv.lean). -/
def workersDelta (W : Nat) (md wv : Int) : Int := (W : Int) * wv + (if W = 0 then md else 0)

/-- `if (call) request_workers(md, wd, wake)`; `adjust_demand` touches the proxy only for `md ≠ 0` -/
def Thr.request (th : Thr) (call : Bool) (md wd : Int) (wake : Bool) : Thr :=
  if call then { th with md := md, wd := wd, wake := wake, pc := if md ≠ 0 then .reqProxy else .reqMarket }
  else th.done

def stepT (s : St) (i : Nat) (th : Thr) : St :=
  match th.pc with
  | .idle =>
      match th.ops with
      | [] => s
      | o :: _ => s.setT i { th with pc := o.startPc }
  -- ---------------------------------------------------------------- enqueue_task
  -- (`md` / `wv` record every change of the flags' request counters made by the thread's accesses: the results of
  --  test_and_set — true iff the counter went up — and of try_clear_if)
  | .ePush =>
      let fm := pubStep s.fm i; let fp := pubStep s.fp i
      { s with fm := fm, fp := fp }.setT i
        { th with md := th.md + ((fm.req : Int) - s.fm.req), wv := th.wv + ((fp.req : Int) - s.fp.req), pc := .eFence }
  | .eFence =>
      let fm := pubStep s.fm i; let fp := pubStep s.fp i
      { s with fm := fm, fp := fp }.setT i
        { th with md := th.md + ((fm.req : Int) - s.fm.req), wv := th.wv + ((fp.req : Int) - s.fp.req), pc := .eMand }
  | .eMand =>
      let f := pubStep s.fm i                      -- is_mandatory_needed = my_mandatory_concurrency.test_and_set()
      { s with fm := f }.setT i
        { th with md := th.md + ((f.req : Int) - s.fm.req), pc := if pubLeft f i < pubLeft s.fm i then .ePool else .eMand }
  | .ePool =>
      let f := pubStep s.fp i                      -- are_workers_needed = my_pool_state.test_and_set()
      let wv := th.wv + ((f.req : Int) - s.fp.req)
      if pubLeft f i < pubLeft s.fp i then
        { s with fp := f }.setT i ({ th with wv := wv }.request (decide (th.md ≠ 0 ∨ wv ≠ 0)) th.md (workersDelta s.W th.md wv) true)
      else { s with fp := f }.setT i { th with wv := wv }
  -- ---------------------------------------------------------------- out_of_work
  | .oMand =>
      let f := clStep s.fm i                       -- disable_mandatory = my_mandatory_concurrency.try_clear_if(...)
      { s with fm := f }.setT i
        { th with md := th.md - ((f.rel : Int) - s.fm.rel), pc := if clLeft f i < clLeft s.fm i then .oPool else .oMand }
  | .oPool =>
      let f := clStep s.fp i                       -- release_workers = my_pool_state.try_clear_if(...)
      let wv := th.wv - ((f.rel : Int) - s.fp.rel)
      if clLeft f i < clLeft s.fp i then
        { s with fp := f }.setT i ({ th with wv := wv }.request (decide (th.md ≠ 0 ∨ wv ≠ 0)) th.md (workersDelta s.W th.md wv) false)
      else { s with fp := f }.setT i { th with wv := wv }
  -- ---------------------------------------------------------------- threading_control_impl::adjust_demand
  | .reqProxy =>
      let prev := s.numMand
      let cross := (th.md > 0 ∧ prev = 0) ∨ (th.md < 0 ∧ prev = 1)
      { s with numMand := s.numMand + th.md }.setT i { th with prev := prev, pc := if cross then .reqEnable else .reqMarket }
  | .reqEnable =>
      if th.md > 0 then
        if s.numMand > 0 ∧ s.enabled = false ∧ s.soft = 0 then
          { s with enabled := true, soft := 1 }.setT i { th with pc := .reqMarket }
        else s.setT i { th with pc := .reqMarket }
      else
        if s.numMand ≤ 0 ∧ s.enabled = true ∧ s.soft ≠ 0 then
          { s with enabled := false, soft := 0 }.setT i { th with pc := .reqMarket }
        else s.setT i { th with pc := .reqMarket }
  | .reqMarket =>
      let mr := s.mandReq + th.md
      let tr := s.totalReq + th.wd
      let mn : Int := if mr > 0 then 1 else 0
      let mx := clampI tr 0 (if mn > 0 ∧ s.W = 0 then 1 else s.W)
      { s with mandReq := mr, totalReq := tr, minW := mn, maxW := mx, wvApplied := s.wvApplied + th.wv }.setT i
        (if th.wake then { th with pc := .reqNotify } else th.done)
  | .reqNotify => { s with wakeups := s.wakeups + 1 }.setT i th.done
  -- ---------------------------------------------------------------- a task is taken
  | .tTake =>
      if s.fm.work = 0 then s.setT i th.done
      else { s with fm := conStep s.fm i, fp := conStep s.fp i }.setT i th.done

def step (s : St) (t : Tid) : St :=
  match s.thr[t]? with
  | some th => stepT s t th
  | none => s

def cnt (p : List Op) (f : Op → Bool) : Nat := (p.filter f).length

def init (W soft0 : Nat) (progs : List (List Op)) : St :=
  { W := W, soft0 := soft0, soft := soft0, thr := progs.map fun p => { ops := p },
    fm := Flag.init (progs.map fun p => cnt p (· == .enq)) (progs.map fun p => cnt p (· == .oow))
            (progs.map fun p => cnt p (· == .takeF)),
    fp := Flag.init (progs.map fun p => cnt p (· == .enq)) (progs.map fun p => cnt p (· == .oow))
            (progs.map fun p => cnt p (· == .takeF)) }

/-- `W` = `my_max_num_workers`, `soft0` = the configured soft limit, one program per thread -/
def sys (W soft0 : Nat) (progs : List (List Op)) : Sys St := { init := init W soft0 progs, step := step }

/-- an enqueue between making its task visible and its return from `advertise_new_work` -/
def Thr.enqInFlight (th : Thr) : Bool :=
  match th.ops with
  | .enq :: _ => th.pc != .idle && th.pc != .ePush
  | _ => false

/-! ### trace replay: the access a step performs -/

def evPub (tag : String) (f : Flag.St) (i : Nat) : String :=
  match f.pubs[i]? with
  | some p => match (Flag.evP f p).splitOn " " with | k :: _ :: rest => " ".intercalate (k :: (tag) :: rest) | _ => "-"
  | none => "-"

def evCl (tag : String) (f : Flag.St) (i : Nat) : String :=
  match f.cls[i]? with
  | some c =>
      if c.left ≠ 0 ∧ c.pc = .pred then s!"pred {tag} {if f.work = 0 then 0 else 1}" else
      match (Flag.evC f i c).splitOn " " with | k :: _ :: rest => " ".intercalate (k :: (tag) :: rest) | _ => "-"
  | none => "-"

def ev (s : St) (t : Tid) : String :=
  match s.thr[t]? with
  | none => "-"
  | some th =>
    match th.pc with
    | .idle => match th.ops with | [] => "-" | o :: _ => s!"begin {repr o}"
    | .ePush => "push fifo"
    | .eFence => "fence"
    | .eMand => evPub "mand" s.fm t
    | .ePool => evPub "pool" s.fp t
    | .oMand => evCl "mand" s.fm t
    | .oPool => evCl "pool" s.fp t
    | .reqProxy => s!"fadd nummand {s.numMand} {s.numMand + th.md}"
    | .reqEnable => "wlock proxy"
    | .reqMarket => "lock market"
    | .reqNotify => "notify"
    | .tTake => "take"

open Proto

def parseOp (w : String) : Option Op :=
  if w == "enq" then some .enq else if w == "oow" then some .oow else if w == "takeF" then some .takeF else none

structure DSt where
  W : Nat := 1
  soft0 : Nat := 0
  progs : List (List Op) := []
  st : St := {}

/-- `init <W> <soft0>` / `T <op>*` / `s <tid>` / `state` prints
`fm.flag fm.work fp.flag fp.work mandReq totalReq minW maxW numMand enabled soft wakeups` / `left` -/
def drive (d : DSt) (ws : List String) : DSt × String :=
  match ws with
  | ["init", w, s0] =>
      match nat? w, nat? s0 with
      | some w, some s0 => ({ W := w, soft0 := s0, st := init w s0 [] }, "ok")
      | _, _ => (d, "bad-op")
  | "T" :: ops =>
      match ops.mapM parseOp with
      | some os => let ps := d.progs ++ [os]; ({ d with progs := ps, st := init d.W d.soft0 ps }, "ok")
      | none => (d, "bad-op")
  | ["s", t] =>
      match nat? t with
      | some t => if t < d.st.thr.length then ({ d with st := step d.st t }, ev d.st t) else (d, "bad-tid")
      | none => (d, "bad-op")
  | ["state"] =>
      let s := d.st
      (d, s!"{if s.fm.flag > 1 then 2 else s.fm.flag} {s.fm.work} {if s.fp.flag > 1 then 2 else s.fp.flag} {s.fp.work} {s.mandReq} {s.totalReq} {s.minW} {s.maxW} {s.numMand} {showBool s.enabled} {s.soft} {s.wakeups}")
  | ["left"] => (d, toString ((d.st.thr.filter (fun th => !th.ops.isEmpty)).length))
  | _ => (d, "bad-op")

def driver : Proto.Driver := { σ := DSt, init := {}, step := drive }

end TbbVerif.C02.AE
