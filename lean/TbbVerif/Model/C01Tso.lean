/-
C01 / DequeTso — the last-task arbitration of the work-stealing deque under x86-TSO store buffers.

`arena_slot::get_task` (owner:  `T = --tail`  then  `head.load(acquire) > T ?`) against `arena_slot::steal_task`
(thief, under the pool lock:  `H = ++head`  then  `H > tail.load(acquire) ?`) is a Dekker pattern: each side writes its
own bound and then reads the other's.  The SC model (`Model/C01.lean`, `Deque`) cannot see the store→load reordering that
a store buffer allows, so this file adds a TSO semantics for exactly that window:

  ONE owner executing one `get_task` + ONE thief executing one `steal_task` on a published pool that holds ONE task
  (`head = 0`, `tail = 1`, cell 0 = the task).  This is the 1×1 last-task instance, not the N-thief deque.

Every thread has a FIFO store buffer: plain (relaxed / release) stores are appended, loads read the newest own entry or
memory, a seq_cst read-modify-write is executed on memory after draining the own buffer (x86 `lock` prefix), a seq_cst
fence drains.  Schedule actions: 0 = owner instruction, 1 = thief instruction, 2 = flush the oldest entry of the owner's
buffer, 3 = same for the thief.  Which of the two bound updates is an RMW / is followed by a fence is the table
`Orders`, regenerated from the memory orders the real code executes (E-SHIM trace, `Generated/C01.lean`).
-/
import TbbVerif.Core.Sched
import TbbVerif.Core.Proto
import Std.Data.HashSet

namespace TbbVerif.C01.DequeTso

/-- What the code does at the two Dekker sites (regenerated from the observed trace). -/
structure Orders where
  decRmw   : Bool   -- owner: `T = --tail` is ONE seq_cst read-modify-write (else: a load and a plain store)
  decFence : Bool   -- owner: a seq_cst fence between the update of `tail` and the load of `head`
  incRmw   : Bool   -- thief: `H = ++head` is ONE seq_cst read-modify-write (else: a load and a plain store)
  incFence : Bool   -- thief: a seq_cst fence between the update of `head` and the load of `tail`
  deriving Repr, DecidableEq

/-- a store→load barrier exists on both Dekker sides (x86: a `lock`-prefixed RMW is a full barrier) -/
def fencesOK (o : Orders) : Bool := (o.decRmw || o.decFence) && (o.incRmw || o.incFence)

inductive Var where
  | head | tail | lock
  deriving Repr, DecidableEq, Hashable

/-- `lock` = the word `arena_slot::task_pool`: 0 = EmptyTaskPool, 1 = LockedTaskPool, 2 = published pointer -/
structure Mem where
  head : Nat := 0
  tail : Nat := 1
  lock : Nat := 2
  deriving Repr, DecidableEq, Hashable

def Mem.get (m : Mem) : Var → Nat
  | .head => m.head | .tail => m.tail | .lock => m.lock

def Mem.put (m : Mem) (v : Var) (x : Nat) : Mem :=
  match v with
  | .head => { m with head := x } | .tail => { m with tail := x } | .lock => { m with lock := x }

abbrev Buf := List (Var × Nat)

def applyAll (b : Buf) (m : Mem) : Mem := b.foldl (fun m e => m.put e.1 e.2) m

/-- a load: newest own buffered store to `v`, else memory -/
def rd (b : Buf) (m : Mem) (v : Var) : Nat :=
  match b.reverse.find? (fun e => e.1 == v) with
  | some e => e.2
  | none => m.get v

/-- owner: the accesses of `get_task` (after the dispatcher's `is_task_pool_published()` guard) -/
inductive OPc where
  | guard     -- is_task_pool_published(): task_pool.load
  | t0        -- T0 = tail.load(relaxed)
  | dec       -- T = --tail            (RMW, or the load half when `decRmw = false`)
  | decSt     -- … the plain store half (only when `decRmw = false`)
  | fence     -- optional seq_cst fence
  | head      -- head.load(acquire) > T ?
  | acqLoad   -- acquire_task_pool: task_pool.load != LockedTaskPool
  | acqCas    -- … CAS(task_pool_ptr → LockedTaskPool)
  | h0        -- H0 = head.load(relaxed) under the lock
  | rTail     -- reset_task_pool_and_leave: tail.store(0)
  | rHead     -- … head.store(0)
  | rLeave    -- … task_pool.store(EmptyTaskPool, release)
  | rel       -- release_task_pool: task_pool.store(task_pool_ptr, release)
  | done
  deriving Repr, DecidableEq, Hashable

/-- thief: the accesses of `steal_task` -/
inductive TPc where
  | start     -- lock_task_pool: task_pool.load
  | cas       -- … CAS(pool → LockedTaskPool)
  | head      -- H0 = head.load(relaxed)
  | inc       -- H = ++head             (RMW, or the load half when `incRmw = false`)
  | incSt     -- … the plain store half
  | fence     -- optional seq_cst fence
  | tail      -- H > tail.load(acquire) ?
  | rollback  -- head.store(H0, relaxed)
  | unlock    -- unlock_task_pool: task_pool.store(pool, release)
  | done
  deriving Repr, DecidableEq, Hashable

structure St where
  mem  : Mem := {}
  bufO : Buf := []
  bufT : Buf := []
  opc  : OPc := .guard
  tpc  : TPc := .start
  oT   : Nat := 0           -- owner's T
  oTake : Bool := false     -- owner: take the task after the reset (the H0 == T case)
  tH0  : Nat := 0
  tH   : Nat := 0
  oGot : Bool := false      -- get_task returned the task
  tGot : Bool := false      -- steal_task returned the task
  deriving Repr, DecidableEq, Hashable

instance : Inhabited St := ⟨{}⟩

/-- a seq_cst RMW by the thread with buffer `b`: drain, then read-modify-write memory -/
def rmw (b : Buf) (m : Mem) (v : Var) (f : Nat → Nat) : Mem × Nat :=
  let m1 := applyAll b m
  (m1.put v (f (m1.get v)), m1.get v)

def stepO (o : Orders) (s : St) : St :=
  match s.opc with
  | .guard => if rd s.bufO s.mem .lock = 0 then { s with opc := .done } else { s with opc := .t0 }
  | .t0 => { s with opc := .dec }
  | .dec =>
      if o.decRmw then
        let (m, old) := rmw s.bufO s.mem .tail (· - 1)
        { s with mem := m, bufO := [], oT := old - 1, opc := .fence }
      else { s with oT := rd s.bufO s.mem .tail - 1, opc := .decSt }
  | .decSt => { s with bufO := s.bufO ++ [(.tail, s.oT)], opc := .fence }
  | .fence => if o.decFence then { s with mem := applyAll s.bufO s.mem, bufO := [], opc := .head } else { s with opc := .head }
  | .head =>
      if rd s.bufO s.mem .head > s.oT then { s with opc := .acqLoad }
      else { s with oGot := true, opc := .done }          -- get_task_impl(T): the task at cell T
  | .acqLoad => if rd s.bufO s.mem .lock = 1 then s else { s with opc := .acqCas }
  | .acqCas =>
      let m1 := applyAll s.bufO s.mem
      if m1.lock = 2 then { s with mem := { m1 with lock := 1 }, bufO := [], opc := .h0 }
      else { s with mem := m1, bufO := [], opc := .acqLoad }
  | .h0 =>
      let h := rd s.bufO s.mem .head
      if h > s.oT then { s with oTake := false, opc := .rTail }
      else if h = s.oT then { s with oTake := true, opc := .rTail }
      else { s with opc := .rel }
  | .rTail => { s with bufO := s.bufO ++ [(.tail, 0)], opc := .rHead }
  | .rHead => { s with bufO := s.bufO ++ [(.head, 0)], opc := .rLeave }
  | .rLeave => { s with bufO := s.bufO ++ [(.lock, 0)], oGot := s.oTake, opc := .done }
  | .rel => { s with bufO := s.bufO ++ [(.lock, 2)], oGot := true, opc := .done }
  | .done => s

def stepT (o : Orders) (s : St) : St :=
  match s.tpc with
  | .start =>
      let w := rd s.bufT s.mem .lock
      if w = 0 then { s with tpc := .done } else if w = 1 then s else { s with tpc := .cas }
  | .cas =>
      let m1 := applyAll s.bufT s.mem
      if m1.lock = 2 then { s with mem := { m1 with lock := 1 }, bufT := [], tpc := .head }
      else { s with mem := m1, bufT := [], tpc := .start }
  | .head => { s with tH0 := rd s.bufT s.mem .head, tpc := .inc }
  | .inc =>
      if o.incRmw then
        let (m, old) := rmw s.bufT s.mem .head (· + 1)
        { s with mem := m, bufT := [], tH := old + 1, tpc := .fence }
      else { s with tH := rd s.bufT s.mem .head + 1, tpc := .incSt }
  | .incSt => { s with bufT := s.bufT ++ [(.head, s.tH)], tpc := .fence }
  | .fence => if o.incFence then { s with mem := applyAll s.bufT s.mem, bufT := [], tpc := .tail } else { s with tpc := .tail }
  | .tail =>
      if s.tH > rd s.bufT s.mem .tail then { s with tpc := .rollback }
      else { s with tGot := true, tpc := .unlock }          -- victim_pool[H-1]: the task at cell 0
  | .rollback => { s with bufT := s.bufT ++ [(.head, s.tH0)], tpc := .unlock }
  | .unlock => { s with bufT := s.bufT ++ [(.lock, 2)], tpc := .done }
  | .done => s

def flushO (s : St) : St :=
  match s.bufO with | e :: b => { s with mem := s.mem.put e.1 e.2, bufO := b } | [] => s
def flushT (s : St) : St :=
  match s.bufT with | e :: b => { s with mem := s.mem.put e.1 e.2, bufT := b } | [] => s

def step (o : Orders) (s : St) (a : Tid) : St :=
  match a with
  | 0 => stepO o s
  | 1 => stepT o s
  | 2 => flushO s
  | 3 => flushT s
  | _ => s

def sys (o : Orders) : Sys St := { init := {}, step := step o }

/-- the property fails: both calls returned the one task -/
def double (s : St) : Bool := s.oGot && s.tGot

/-- the property fails the other way: both calls have returned and nobody got the task (it is lost: the pool was
reset / `head` passed it) -/
def lostTask (s : St) : Bool := s.opc == .done && s.tpc == .done && !s.oGot && !s.tGot

def bad (s : St) : Bool := double s || lostTask s

/-- breadth-first search for a schedule reaching `bad` (failing-input search of the check) -/
def exploreLoop (o : Orders) : Nat → Array (St × List Nat) → Nat → Std.HashSet St → Option (List Nat) × Nat
  | 0, _, _, seen => (none, seen.size)
  | fuel + 1, queue, qi, seen =>
    if h : qi < queue.size then
      let (s, path) := queue[qi]
      if bad s then (some path.reverse, seen.size) else
      let (queue, seen) := [0, 1, 2, 3].foldl (fun (acc : Array (St × List Nat) × Std.HashSet St) a =>
        let s' := step o s a
        if acc.2.contains s' then acc else (acc.1.push (s', a :: path), acc.2.insert s')) (queue, seen)
      exploreLoop o fuel queue (qi + 1) seen
    else (none, seen.size)

def explore (o : Orders) (fuel : Nat := 200000) : Option (List Nat) × Nat :=
  exploreLoop o fuel #[({}, [])] 0 ((Std.HashSet.emptyWithCapacity 1024).insert {})

section Driver
open Proto

def parseOrders (ws : List String) : Option Orders :=
  match ws.mapM nat? with
  | some [a, b, c, d] => some ⟨a != 0, b != 0, c != 0, d != 0⟩
  | _ => none

/-- `explore a b c d` — search; `run a b c d | sched…` — execute one schedule -/
def driveTso (_ : Unit) (ws : List String) : Unit × String :=
  match ws with
  | "explore" :: fl =>
      match parseOrders fl with
      | some o =>
          match explore o with
          | (some p, n) => ((), s!"bad {showNats p} | fencesOK={showBool (fencesOK o)} states={n}")
          | (none, n) => ((), s!"none {n} | fencesOK={showBool (fencesOK o)}")
      | none => ((), "bad-op")
  | "run" :: a :: b :: c :: d :: "|" :: sched =>
      match parseOrders [a, b, c, d], nats? sched with
      | some o, some sc =>
          let s := (sys o).run sc
          ((), s!"{if double s then "double" else if lostTask s then "lost" else "ok"} oGot={showBool s.oGot} tGot={showBool s.tGot} head={s.mem.head} tail={s.mem.tail} lock={s.mem.lock}")
      | _, _ => ((), "bad-op")
  | _ => ((), "bad-op")

def driverTso : Proto.Driver := { σ := Unit, init := (), step := driveTso }

end Driver

end TbbVerif.C01.DequeTso
