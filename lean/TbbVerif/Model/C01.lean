/-
C01 — protocol models at atomic-access granularity (executable, core Lean only).

One model step = one atomic access of the code *plus the non-atomic code that follows it up to the next
atomic access of the same thread* (this is exactly what one scheduling slice of E-SHIM executes).

`Deque`   : src/tbb/arena_slot.h/.cpp — one owner (tid 0) + N thieves (tid k+1) on one arena slot.
`Proxy`   : src/tbb/mailbox.h task_proxy::extract_task — pool side (tid 0) vs mailbox side (tid 1).
`Mailbox` : src/tbb/mailbox.h mail_outbox::push / internal_pop — one consumer (tid 0) + N pushers.
`Stream`  : src/tbb/task_stream.h — lanes (d1::mutex + deque) + population bitmap, N threads.
`Vertex`  : include/oneapi/tbb/detail/_task.h wait_context + reference_vertex (per-thread vertices, parent = root).
`Fold`    : include/oneapi/tbb/partitioner.h node / tree_node / wait_node / fold_tree.
-/
import TbbVerif.Core.Sched
import TbbVerif.Core.Proto

namespace TbbVerif.C01

/-- An access as it appears in the E-SHIM trace. `a`/`b` follow harness/shim/verif_sched.h:
load: a = value read; store: a = value written; xchg/fetch_*: a = old, b = new; cas: a = expected,
b = desired (ok) or observed (failed). -/
structure Ev where
  var : String
  kind : String
  a : Int
  b : Int := 0
  ok : Bool := true
  deriving Repr, DecidableEq

/-! ## Deque (arena_slot) -/
namespace Deque

structure Item where
  id : Nat
  iso : Nat := 0          -- isolation tag of the task (0 = no_isolation)
  skipT : Bool := false   -- oracle: a thief skips it because of the proxy constraints in steal_task
  dead : Bool := false    -- oracle: it is a proxy whose task was already taken through the mailbox (owner frees it)
  deriving Repr, DecidableEq

/-- one element of the array `task_pool_ptr[]` -/
inductive Cell where
  | junk                  -- never written since the array was allocated
  | hole                  -- nullptr
  | item (x : Item)
  deriving Repr, DecidableEq

/-- the word `arena_slot::task_pool` -/
inductive LW where
  | empty                 -- EmptyTaskPool
  | locked                -- LockedTaskPool
  | pub (g : Nat)         -- pointer to the g-th array allocated by the owner
  deriving Repr, DecidableEq

def LW.enc : LW → Int
  | .empty => 0
  | .locked => 1
  | .pub g => 2 + g

inductive OOp where
  | spawn (x : Item)
  | get (iso : Nat)
  deriving Repr, DecidableEq

/-- which caller of acquire_task_pool / release_task_pool -/
inductive Ctx where
  | grow | get
  deriving Repr, DecidableEq

/-- program counters of the owner = the next atomic access it will perform -/
inductive OPc where
  | start
  -- spawn / prepare_task_pool
  | spStore               -- commit_spawned_tasks: tail.store(T+1, release)
  | spPubLoad             -- is_task_pool_published(): task_pool.load
  | spPub                 -- publish_task_pool(): task_pool.store(task_pool_ptr, release)
  | acqPub (c : Ctx)      -- acquire_task_pool: is_task_pool_published()
  | acqLoad (c : Ctx)     -- acquire_task_pool loop: task_pool.load != LockedTaskPool
  | acqCas (c : Ctx)      -- … CAS(task_pool_ptr → LockedTaskPool)
  | grHead                -- prepare_task_pool: H = head.load
  | grTail                -- fill_with_canary_pattern(T1, tail): the argument conversion loads `tail`
  | crHead                -- commit_relocated_tasks: head.store(0)
  | crTail                -- … tail.store(T1, release)
  | relLoad (c : Ctx)     -- release_task_pool: task_pool.load != EmptyTaskPool
  | relStore (c : Ctx)    -- … task_pool.store(task_pool_ptr, release)
  -- get_task
  | gT0                   -- T0 = tail.load
  | gDec                  -- T = --tail
  | gHead                 -- head.load(acquire) > T ?
  | gH0                   -- H0 = head.load (under the lock)
  | rTail (insp : Bool)   -- reset_task_pool_and_leave: tail.store(0)   (insp: the H0 == T case, inspect afterwards)
  | rHead (insp : Bool)   -- … head.store(0)
  | rLeave (insp : Bool)  -- … task_pool.store(EmptyTaskPool)
  | pHead                 -- tasks_omitted ∧ pool empty: head.store(H0)
  | pTail                 -- … tail.store(T0)
  | pPub                  -- … publish_task_pool()
  | hTail                 -- tasks_omitted ∧ ¬ pool empty: tail.store(T0, release) after punching the hole
  deriving Repr, DecidableEq

structure Owner where
  ops : List OOp := []
  pc : OPc := .start
  T0 : Int := 0
  T : Int := 0
  H0 : Int := -1
  T1 : Nat := 0             -- prepare_task_pool: number of relocated tasks
  res : Option Item := none
  omitted : Bool := false   -- tasks_omitted
  poolEmpty : Bool := false -- task_pool_empty
  gen : Nat := 0            -- id of the current array `task_pool_ptr` (0 = none allocated yet)
  out : List (Option Item) := []   -- results of completed get ops, newest first
  freed : List Item := []   -- dead proxies freed by get_task_impl, newest first
  deriving Repr, DecidableEq

inductive TPc where
  | start                 -- lock_task_pool: task_pool.load
  | cas                   -- … CAS(victim_task_pool → LockedTaskPool)
  | head                  -- H = H0 = head.load
  | inc                   -- H = ++head
  | tail                  -- tail.load(acquire) < H ?
  | rollback              -- head.store(H0, relaxed)        (stealing attempt failed)
  | restore               -- head.store(H0, release)        (tasks_omitted, after punching the hole)
  | unlock                -- unlock_task_pool: task_pool.store(victim_task_pool, release)
  deriving Repr, DecidableEq

structure Thief where
  ops : List Nat := []      -- remaining steal_task calls (isolation argument of each)
  pc : TPc := .start
  H : Int := 0
  H0 : Int := 0
  g : Nat := 0              -- the array pointer read from the lock word
  omitted : Bool := false
  res : Option Item := none
  out : List (Option Item) := []
  deriving Repr, DecidableEq

structure Cfg where
  minSize : Nat := 64       -- arena_slot::min_task_pool_size
  granule : Nat := 16       -- max_nfs_size / sizeof(d1::task*)
  deriving Repr, DecidableEq

structure St where
  cfg : Cfg := {}
  head : Int := 0
  tail : Int := 0
  lw : LW := .empty
  pool : List Cell := []    -- the current array; its length is my_task_pool_size
  bad : Bool := false       -- ghost: a junk cell was read / a lock-protocol assertion of the code failed
  spawned : List Item := [] -- ghost: items whose spawn was committed (tail.store), newest first
  own : Owner := {}
  ths : List Thief := []
  deriving Repr, DecidableEq

def cellAt (p : List Cell) (i : Int) : Cell := if i < 0 then .junk else p.getD i.toNat .junk

def setCell (p : List Cell) (i : Int) (c : Cell) : List Cell := if i < 0 then p else p.set i.toNat c

/-- allocate_task_pool(n): capacity rounded up to whole cache lines -/
def roundUp (cfg : Cfg) (n : Nat) : Nat := ((n + cfg.granule - 1) / cfg.granule) * cfg.granule

/-- the non-null cells of `[H, T)` (what prepare_task_pool relocates); junk cells are reported -/
def liveCells (p : List Cell) (H T : Int) : List Cell × Bool :=
  let w := (p.drop H.toNat).take (T.toNat - H.toNat)
  (w.filter (fun c => match c with | .item _ => true | _ => false), w.any (· == .junk))

def ownerOmit (iso : Nat) (x : Item) : Bool := iso != 0 && iso != x.iso
def thiefTakes (iso : Nat) (x : Item) : Bool := (iso == 0 || iso == x.iso) && !x.skipT

/-- finish the current owner op -/
def Owner.fin (o : Owner) (r : Option (Option Item)) : Owner :=
  { o with ops := o.ops.tail, pc := .start, res := none, omitted := false, poolEmpty := false, H0 := -1,
           out := match r with | some v => v :: o.out | none => o.out }

/-- get_task after the loop: the `tasks_omitted` epilogue -/
def ownerPost (s : St) : St :=
  let o := s.own
  if o.omitted then
    if o.poolEmpty then
      let h0 := if o.res.isSome then o.H0 + 1 else o.H0
      if h0 < o.T0 then { s with own := { o with H0 := h0, pc := .pHead } }
      else { s with own := o.fin (some o.res) }
    else
      { s with pool := setCell s.pool o.T .hole, own := { o with pc := .hTail } }
  else { s with own := o.fin (some o.res) }

/-- `while (!result && !task_pool_empty)` -/
def ownerLoop (s : St) : St :=
  if s.own.poolEmpty then ownerPost s else { s with own := { s.own with pc := .gDec } }

/-- get_task_impl(T) and the bookkeeping that follows it inside the loop -/
def ownerInspect (s : St) (iso : Nat) : St :=
  let o := s.own
  match cellAt s.pool o.T with
  | .junk => ownerLoop { s with bad := true }
  | .hole => ownerLoop { s with own := if o.omitted then o else { o with T0 := o.T } }
  | .item x =>
    if ownerOmit iso x then ownerLoop { s with own := { o with omitted := true } }
    else if x.dead then
      if o.omitted then ownerLoop { s with pool := setCell s.pool o.T .hole, own := { o with freed := x :: o.freed } }
      else ownerLoop { s with own := { o with freed := x :: o.freed, T0 := o.T } }
    else ownerPost { s with own := { o with res := some x } }

def ev (var kind : String) (a : Int) (b : Int := 0) (ok : Bool := true) : Option Ev := some ⟨var, kind, a, b, ok⟩

/-- continuation after acquire_task_pool -/
def afterAcquire (c : Ctx) : OPc := match c with | .grow => .grHead | .get => .gH0

/-- place the spawned task at `T` (`task_pool_ptr[T] = &t`) and go on to commit_spawned_tasks -/
def placeSpawn (s : St) (x : Item) (T : Int) : St :=
  { s with pool := setCell s.pool T (.item x), own := { s.own with T := T, pc := .spStore } }

/-- prepare_task_pool between `H = head.load` and commit_relocated_tasks: count, maybe allocate, compact -/
def relocate (s : St) (H : Int) : St :=
  let o := s.own
  let (live, junk) := liveCells s.pool H o.T
  let newSize := 1 + live.length
  let cap := s.pool.length
  if newSize > cap - s.cfg.minSize / 4 then
    let n := roundUp s.cfg (if newSize < 2 * cap then 2 * cap else newSize)
    { s with pool := live ++ List.replicate (n - live.length) .junk, bad := s.bad || junk,
             own := { o with T1 := live.length, gen := o.gen + 1, pc := .crHead } }
  else
    { s with pool := live ++ s.pool.drop live.length, bad := s.bad || junk,
             own := { o with T1 := live.length, pc := .grTail } }

def stepOwner (s : St) : St × Option Ev :=
  let o := s.own
  match o.ops with
  | [] => (s, none)
  | op :: _ =>
  match o.pc, op with
  -- ---- spawn ----
  | .start, .spawn x =>
      -- prepare_task_pool(1): T = tail.load(relaxed)
      let T := s.tail
      if T + 1 ≤ s.pool.length then (placeSpawn s x T, ev "tail" "load" T)
      else if s.pool.length = 0 then
        let s1 := { s with pool := List.replicate (roundUp s.cfg s.cfg.minSize) .junk, own := { o with gen := o.gen + 1 } }
        (placeSpawn s1 x 0, ev "tail" "load" T)
      else ({ s with own := { o with T := T, pc := .acqPub .grow } }, ev "tail" "load" T)
  | .spStore, .spawn x =>
      ({ s with tail := o.T + 1, spawned := x :: s.spawned, own := { o with pc := .spPubLoad } }, ev "tail" "store" (o.T + 1))
  | .spPubLoad, .spawn _ =>
      if s.lw = .empty then ({ s with own := { o with pc := .spPub } }, ev "pool" "load" s.lw.enc)
      else ({ s with own := o.fin none }, ev "pool" "load" s.lw.enc)
  | .spPub, .spawn _ =>
      ({ s with lw := .pub o.gen, own := o.fin none }, ev "pool" "store" (LW.pub o.gen).enc)
  -- ---- acquire_task_pool ----
  | .acqPub c, _ =>
      if s.lw = .empty then ({ s with own := { o with pc := afterAcquire c } }, ev "pool" "load" s.lw.enc)
      else ({ s with own := { o with pc := .acqLoad c } }, ev "pool" "load" s.lw.enc)
  | .acqLoad c, _ =>
      if s.lw = .locked then (s, ev "pool" "load" s.lw.enc)
      else ({ s with own := { o with pc := .acqCas c } }, ev "pool" "load" s.lw.enc)
  | .acqCas c, _ =>
      if s.lw = .pub o.gen then
        ({ s with lw := .locked, own := { o with pc := afterAcquire c } }, ev "pool" "cas" (LW.pub o.gen).enc LW.locked.enc true)
      else ({ s with own := { o with pc := .acqLoad c } }, ev "pool" "cas" (LW.pub o.gen).enc s.lw.enc false)
  -- ---- prepare_task_pool under the lock ----
  | .grHead, .spawn _ => (relocate s s.head, ev "head" "load" s.head)
  | .grTail, .spawn _ => ({ s with own := { o with pc := .crHead } }, ev "tail" "load" s.tail)
  | .crHead, .spawn _ => ({ s with head := 0, own := { o with pc := .crTail } }, ev "head" "store" 0)
  | .crTail, .spawn _ => ({ s with tail := o.T1, own := { o with pc := .relLoad .grow } }, ev "tail" "store" o.T1)
  -- ---- release_task_pool ----
  | .relLoad c, op =>
      if s.lw = .empty then
        match c, op with
        | .grow, .spawn x => (placeSpawn s x o.T1, ev "pool" "load" s.lw.enc)
        | .get, .get iso => (ownerInspect s iso, ev "pool" "load" s.lw.enc)
        | _, _ => ({ s with bad := true, own := o.fin none }, ev "pool" "load" s.lw.enc)
      else ({ s with own := { o with pc := .relStore c } }, ev "pool" "load" s.lw.enc)
  | .relStore c, op =>
      let s1 := { s with lw := .pub o.gen, bad := s.bad || s.lw != .locked }
      match c, op with
      | .grow, .spawn x => (placeSpawn s1 x o.T1, ev "pool" "store" (LW.pub o.gen).enc)
      | .get, .get iso => (ownerInspect s1 iso, ev "pool" "store" (LW.pub o.gen).enc)
      | _, _ => ({ s1 with bad := true, own := o.fin none }, ev "pool" "store" (LW.pub o.gen).enc)
  -- ---- get_task ----
  | .start, .get _ =>
      -- the dispatcher's guard `slot.is_task_pool_published() && get_task(...)`
      if s.lw = .empty then ({ s with own := o.fin (some none) }, ev "pool" "load" s.lw.enc)
      else ({ s with own := { o with pc := .gT0 } }, ev "pool" "load" s.lw.enc)
  | .gT0, .get _ =>
      ({ s with own := { o with T0 := s.tail, T := s.tail, H0 := -1, pc := .gDec } }, ev "tail" "load" s.tail)
  | .gDec, .get _ =>
      ({ s with tail := s.tail - 1, own := { o with T := s.tail - 1, pc := .gHead } }, ev "tail" "fsub" s.tail (s.tail - 1))
  | .gHead, .get iso =>
      if s.head > o.T then ({ s with own := { o with pc := .acqPub .get } }, ev "head" "load" s.head)
      else (ownerInspect s iso, ev "head" "load" s.head)
  | .gH0, .get _ =>
      let H0 := s.head
      if H0 > o.T then ({ s with own := { o with H0 := H0, pc := .rTail false } }, ev "head" "load" H0)
      else if H0 = o.T then ({ s with own := { o with H0 := H0, pc := .rTail true } }, ev "head" "load" H0)
      else ({ s with own := { o with H0 := H0, pc := .relLoad .get } }, ev "head" "load" H0)
  | .rTail i, .get _ => ({ s with tail := 0, own := { o with pc := .rHead i } }, ev "tail" "store" 0)
  | .rHead i, .get _ => ({ s with head := 0, own := { o with pc := .rLeave i } }, ev "head" "store" 0)
  | .rLeave i, .get iso =>
      let s1 := { s with lw := .empty, own := { o with poolEmpty := true } }
      if i then (ownerInspect s1 iso, ev "pool" "store" 0) else (ownerPost s1, ev "pool" "store" 0)
  | .pHead, .get _ => ({ s with head := o.H0, own := { o with pc := .pTail } }, ev "head" "store" o.H0)
  | .pTail, .get _ => ({ s with tail := o.T0, own := { o with pc := .pPub } }, ev "tail" "store" o.T0)
  | .pPub, .get _ => ({ s with lw := .pub o.gen, own := o.fin (some o.res) }, ev "pool" "store" (LW.pub o.gen).enc)
  | .hTail, .get _ => ({ s with tail := o.T0, own := o.fin (some o.res) }, ev "tail" "store" o.T0)
  -- pcs that do not belong to the current operation: unreachable
  | _, _ => ({ s with bad := true, own := o.fin none }, none)

def Thief.fin (t : Thief) : Thief :=
  { t with ops := t.ops.tail, pc := .start, out := t.res :: t.out, res := none, omitted := false }

def stepThief (s : St) (k : Nat) (t : Thief) : St × Option Ev :=
  let put (s : St) (t' : Thief) : St := { s with ths := s.ths.set k t' }
  match t.ops with
  | [] => (s, none)
  | iso :: _ =>
  match t.pc with
  | .start =>
      match s.lw with
      | .empty => (put s { t with res := none }.fin, ev "pool" "load" s.lw.enc)
      | .locked => (s, ev "pool" "load" s.lw.enc)
      | .pub g => (put s { t with g := g, pc := .cas }, ev "pool" "load" s.lw.enc)
  | .cas =>
      if s.lw = .pub t.g then
        (put { s with lw := .locked } { t with pc := .head, res := none, omitted := false },
         ev "pool" "cas" (LW.pub t.g).enc LW.locked.enc true)
      else (put s { t with pc := .start }, ev "pool" "cas" (LW.pub t.g).enc s.lw.enc false)
  | .head => (put s { t with H := s.head, H0 := s.head, pc := .inc }, ev "head" "load" s.head)
  | .inc => (put { s with head := s.head + 1 } { t with H := s.head + 1, pc := .tail }, ev "head" "fadd" s.head (s.head + 1))
  | .tail =>
      let e := ev "tail" "load" s.tail
      if t.H > s.tail then (put s { t with pc := .rollback }, e)
      else
        match cellAt s.pool (t.H - 1) with
        | .junk => (put { s with bad := true } { t with pc := .inc }, e)
        | .hole => (put s (if t.omitted then { t with pc := .inc } else { t with H0 := t.H, pc := .inc }), e)
        | .item x =>
          if thiefTakes iso x then
            if t.omitted then (put { s with pool := setCell s.pool (t.H - 1) .hole } { t with res := some x, pc := .restore }, e)
            else (put s { t with res := some x, pc := .unlock }, e)
          else (put s { t with omitted := true, pc := .inc }, e)
  | .rollback => (put { s with head := t.H0 } { t with pc := .unlock }, ev "head" "store" t.H0)
  | .restore => (put { s with head := t.H0 } { t with pc := .unlock }, ev "head" "store" t.H0)
  | .unlock =>
      (put { s with lw := .pub t.g, bad := s.bad || s.lw != .locked } t.fin, ev "pool" "store" (LW.pub t.g).enc)

def stepEv (s : St) (tid : Tid) : St × Option Ev :=
  match tid with
  | 0 => stepOwner s
  | k + 1 =>
    match s.ths[k]? with
    | none => (s, none)
    | some t => stepThief s k t

def step (s : St) (tid : Tid) : St := (stepEv s tid).1

def init (cfg : Cfg) (oprog : List OOp) (tprogs : List (List Nat)) : St :=
  { cfg := cfg, own := { ops := oprog }, ths := tprogs.map (fun p => { ops := p }) }

def sys (cfg : Cfg) (oprog : List OOp) (tprogs : List (List Nat)) : Sys St :=
  { init := init cfg oprog tprogs, step := step }

/-- the tasks between `head` and `tail` (holes dropped) -/
def resident (s : St) : List Item :=
  ((s.pool.drop s.head.toNat).take (s.tail.toNat - s.head.toNat)).filterMap
    (fun c => match c with | .item x => some x | _ => none)

/-- everything handed out so far: results of get_task, dead proxies freed by the owner, results of steal_task -/
def returned (s : St) : List Item :=
  s.own.out.filterMap id ++ s.own.freed ++ (s.ths.map (fun t => t.out.filterMap id)).flatten

end Deque

/-! ## Proxy (task_proxy::extract_task) -/
namespace Proxy

/-- `task_and_tag` values: 3 = task pointer | pool_bit | mailbox_bit (shared), 1 = pool_bit, 2 = mailbox_bit -/
inductive Pc where
  | load | cas | done
  deriving Repr, DecidableEq

structure Side where
  bit : Nat                 -- from_bit: 1 = pool side, 2 = mailbox side
  pc : Pc := .load
  tat : Nat := 0            -- the local `tat`
  got : Bool := false       -- extract_task returned the task
  freed : Bool := false     -- this side deleted the proxy
  deriving Repr, DecidableEq

structure St where
  tat : Nat := 3
  sides : List Side := [{ bit := 1 }, { bit := 2 }]
  bad : Bool := false       -- ghost: an access to the proxy after it was freed, or the code's assertion failed
  deriving Repr, DecidableEq

def stepSide (tat : Nat) (x : Side) : Nat × Side × Option Ev :=
  match x.pc with
  | .load =>
      if tat = x.bit then (tat, { x with tat := tat, pc := .done, freed := true }, Deque.ev "tat" "load" tat)
      else (tat, { x with tat := tat, pc := .cas }, Deque.ev "tat" "load" tat)
  | .cas =>
      let cleaner := 3 - x.bit
      if tat = x.tat then (cleaner, { x with pc := .done, got := true }, Deque.ev "tat" "cas" x.tat cleaner true)
      else (tat, { x with pc := .done, freed := true }, Deque.ev "tat" "cas" x.tat tat false)
  | .done => (tat, x, none)

def stepEv (s : St) (tid : Tid) : St × Option Ev :=
  match s.sides[tid]? with
  | none => (s, none)
  | some x =>
    let (tat, x', e) := stepSide s.tat x
    let freedByOther := (s.sides.zipIdx.any (fun (y, i) => i != tid && y.freed))
    ({ tat := tat, sides := s.sides.set tid x', bad := s.bad || (e.isSome && freedByOther) }, e)

def step (s : St) (tid : Tid) : St := (stepEv s tid).1

def sys : Sys St := { init := {}, step := step }

def taken (s : St) : Nat := s.sides.countP (·.got)
def freedN (s : St) : Nat := s.sides.countP (·.freed)
def allDone (s : St) : Bool := s.sides.all (·.pc == .done)

end Proxy

/-! ## Mailbox (mail_outbox) -/
namespace Mailbox

/-- the address of a link field: `&my_first` or `&p->next_in_mailbox` -/
inductive Link where
  | first
  | next (p : Nat)
  deriving Repr, DecidableEq

def Link.enc : Link → Int
  | .first => 0
  | .next p => p + 1

def encP : Option Nat → Int
  | none => 0
  | some p => p + 1

inductive CPc where
  | start                 -- curr = my_first.load(acquire)
  | walk                  -- isolation loop: curr = curr->next_in_mailbox.load(acquire)
  | second                -- second = curr->next_in_mailbox.load(acquire)
  | storeSecond           -- prev_ptr->store(second)
  | storeNull             -- prev_ptr->store(nullptr)
  | cas                   -- my_last.compare_exchange_strong(&curr->next_in_mailbox, prev_ptr)
  | spin                  -- while (!(second = curr->next_in_mailbox.load(acquire))) pause
  | storeLate             -- prev_ptr->store(second)
  deriving Repr, DecidableEq

structure Cons where
  ops : List Nat := []      -- remaining internal_pop calls (isolation argument of each)
  pc : CPc := .start
  curr : Nat := 0
  prev : Link := .first
  second : Nat := 0
  out : List (Option Nat) := []    -- results, newest first
  deriving Repr, DecidableEq

inductive PPc where
  | start                 -- t->next_in_mailbox.store(nullptr)   (a fresh proxy: allocates its id)
  | xchg                  -- link = my_last.exchange(&t->next_in_mailbox)
  | link                  -- link->store(t, release)
  deriving Repr, DecidableEq

structure Pusher where
  ops : List Nat := []      -- remaining pushes (isolation tag of each pushed proxy)
  pc : PPc := .start
  p : Nat := 0
  link : Link := .first
  deriving Repr, DecidableEq

structure St where
  first : Option Nat := none
  last : Link := .first
  nexts : List (Option Nat) := []   -- next_in_mailbox of proxy i
  isos : List Nat := []             -- isolation tag of proxy i
  cons : Cons := {}
  pushers : List Pusher := []
  order : List Nat := []            -- ghost: proxies in the order of their exchange on my_last, oldest first
  deriving Repr, DecidableEq

def getLink (s : St) : Link → Option Nat
  | .first => s.first
  | .next p => (s.nexts.getD p none)

def setLink (s : St) (l : Link) (v : Option Nat) : St :=
  match l with
  | .first => { s with first := v }
  | .next p => { s with nexts := s.nexts.set p v }

def linkVar : Link → String
  | .first => "first"
  | .next p => s!"next{p}"

def Cons.fin (c : Cons) (r : Option Nat) : Cons :=
  { c with ops := c.ops.tail, pc := .start, out := r :: c.out }

def stepCons (s : St) : St × Option Ev :=
  let c := s.cons
  match c.ops with
  | [] => (s, none)
  | iso :: _ =>
  let isoOf (p : Nat) : Nat := s.isos.getD p 0
  -- after `curr` is known: either keep walking (isolation mismatch) or look for the second item
  let arrive (s : St) (c : Cons) (curr : Nat) (prev : Link) : St :=
    if iso != 0 && isoOf curr != iso then { s with cons := { c with curr := curr, prev := prev, pc := .walk } }
    else { s with cons := { c with curr := curr, prev := prev, pc := .second } }
  match c.pc with
  | .start =>
      match s.first with
      | none => ({ s with cons := c.fin none }, Deque.ev "first" "load" 0)
      | some p => (arrive s c p .first, Deque.ev "first" "load" (encP (some p)))
  | .walk =>
      match getLink s (.next c.curr) with
      | none => ({ s with cons := c.fin none }, Deque.ev (linkVar (.next c.curr)) "load" 0)
      | some p => (arrive s c p (.next c.curr), Deque.ev (linkVar (.next c.curr)) "load" (encP (some p)))
  | .second =>
      match getLink s (.next c.curr) with
      | some q => ({ s with cons := { c with second := q, pc := .storeSecond } }, Deque.ev (linkVar (.next c.curr)) "load" (encP (some q)))
      | none => ({ s with cons := { c with pc := .storeNull } }, Deque.ev (linkVar (.next c.curr)) "load" 0)
  | .storeSecond =>
      ({ setLink s c.prev (some c.second) with cons := c.fin (some c.curr) }, Deque.ev (linkVar c.prev) "store" (encP (some c.second)))
  | .storeNull =>
      ({ setLink s c.prev none with cons := { c with pc := .cas } }, Deque.ev (linkVar c.prev) "store" 0)
  | .cas =>
      if s.last = .next c.curr then
        ({ s with last := c.prev, cons := c.fin (some c.curr) }, Deque.ev "last" "cas" (Link.next c.curr).enc c.prev.enc true)
      else ({ s with cons := { c with pc := .spin } }, Deque.ev "last" "cas" (Link.next c.curr).enc s.last.enc false)
  | .spin =>
      match getLink s (.next c.curr) with
      | some q => ({ s with cons := { c with second := q, pc := .storeLate } }, Deque.ev (linkVar (.next c.curr)) "load" (encP (some q)))
      | none => (s, Deque.ev (linkVar (.next c.curr)) "load" 0)
  | .storeLate =>
      ({ setLink s c.prev (some c.second) with cons := c.fin (some c.curr) }, Deque.ev (linkVar c.prev) "store" (encP (some c.second)))

def stepPusher (s : St) (k : Nat) (u : Pusher) : St × Option Ev :=
  let put (s : St) (u' : Pusher) : St := { s with pushers := s.pushers.set k u' }
  match u.ops with
  | [] => (s, none)
  | iso :: _ =>
  match u.pc with
  | .start =>
      let p := s.nexts.length
      (put { s with nexts := s.nexts ++ [none], isos := s.isos ++ [iso] } { u with p := p, pc := .xchg }, Deque.ev (linkVar (.next p)) "store" 0)
  | .xchg =>
      (put { s with last := .next u.p, order := s.order ++ [u.p] } { u with link := s.last, pc := .link },
       Deque.ev "last" "xchg" s.last.enc (Link.next u.p).enc)
  | .link =>
      (put (setLink s u.link (some u.p)) { u with ops := u.ops.tail, pc := .start }, Deque.ev (linkVar u.link) "store" (encP (some u.p)))

def stepEv (s : St) (tid : Tid) : St × Option Ev :=
  match tid with
  | 0 => stepCons s
  | k + 1 =>
    match s.pushers[k]? with
    | none => (s, none)
    | some u => stepPusher s k u

def step (s : St) (tid : Tid) : St := (stepEv s tid).1

def init (cprog : List Nat) (pprogs : List (List Nat)) : St :=
  { cons := { ops := cprog }, pushers := pprogs.map (fun p => { ops := p }) }

def sys (cprog : List Nat) (pprogs : List (List Nat)) : Sys St := { init := init cprog pprogs, step := step }

def popped (s : St) : List Nat := (s.cons.out.filterMap id).reverse

end Mailbox

/-! ## Stream (task_stream) -/
namespace Stream

structure Lane where
  flag : Bool := false              -- d1::mutex::my_flag
  q : List (Option Nat) := []       -- my_queue (front first); none = entry nulled by look_specific
  deriving Repr, DecidableEq

inductive Op where
  | push (id iso lane : Nat)        -- push(task, subsequent_lane_selector(hint)) with hint = lane - 1
  | pop (hint : Nat)                -- pop(subsequent_lane_selector(hint))  (front accessor)
  | popSpecific (last iso : Nat)    -- pop_specific(last_used_lane, isolation)
  deriving Repr, DecidableEq

inductive Pc where
  | start
  | flagLoad              -- try_lock: my_flag.load(relaxed)
  | flagXchg              -- … my_flag.exchange(true)
  | setBit                -- push: population.fetch_or(bit)   (after push_back)
  | clearBit              -- pop / pop_specific: population.fetch_and(~bit)   (queue became empty)
  | unlock                -- my_flag.exchange(false)
  | popBit                -- try_pop / pop_specific: is_bit_set(population.load(), lane)
  | again                 -- pop_specific loop condition: !empty()
  deriving Repr, DecidableEq

structure Th where
  ops : List Op := []
  pc : Pc := .start
  lane : Nat := 0
  res : Option Nat := none
  out : List (Option Nat) := []     -- results of pop / pop_specific, newest first
  deriving Repr, DecidableEq

structure St where
  n : Nat := 2                      -- number of lanes (a power of two)
  pop : List Bool := []             -- population bits
  lanes : List Lane := []
  isos : List (Nat × Nat) := []     -- (task id, isolation tag) of pushed tasks
  ths : List Th := []
  pushed : List Nat := []           -- ghost: ids in push_back order (newest first)
  bad : Bool := false               -- ghost: unlock of a mutex that is not held
  deriving Repr, DecidableEq

def popEnc (p : List Bool) : Int := (p.zipIdx.foldl (fun (acc : Nat) (b, i) => if b then acc + 2 ^ i else acc) 0 : Nat)

def Th.fin (t : Th) (r : Option (Option Nat)) : Th :=
  { t with ops := t.ops.tail, pc := .start, res := none,
           out := match r with | some v => v :: t.out | none => t.out }

def isoOf (s : St) (id : Nat) : Nat := (s.isos.lookup id).getD 0

/-- look_specific: search from the back for a task with the given isolation; pop it if it is the last element,
otherwise null its entry -/
def lookSpecific (s : St) (q : List (Option Nat)) (iso : Nat) : List (Option Nat) × Option Nat :=
  let r := q.reverse
  match r.findIdx? (fun e => match e with | some id => isoOf s id == iso | none => false) with
  | none => (q, none)
  | some i =>
    let res := (r.getD i none)
    if i = 0 then (q.dropLast, res) else ((r.set i none).reverse, res)

def popAny (s : St) : Bool := s.pop.any id

def stepTh (s : St) (k : Nat) (t : Th) : St × Option Ev :=
  let put (s : St) (t' : Th) : St := { s with ths := s.ths.set k t' }
  let fv (i : Nat) := s!"flag{i}"
  let prevLane (l : Nat) : Nat := (l + s.n - 1) % s.n
  let nextLane (l : Nat) : Nat := (l + 1) % s.n
  -- try_lock, first half: my_flag.load(relaxed); `fail` = what the thread does when the mutex is busy
  let loadFlag (l : Nat) (fail : Th) : St × Option Ev :=
    let f := (s.lanes.getD l {}).flag
    (put s (if f then fail else { t with lane := l, pc := .flagXchg }), Deque.ev (fv l) "load" (if f then 1 else 0))
  let lane := s.lanes.getD t.lane {}
  let setLane (s : St) (l : Lane) : St := { s with lanes := s.lanes.set t.lane l }
  let bitEv (nw : List Bool) (kind : String) := Deque.ev "pop" kind (popEnc s.pop) (popEnc nw)
  match t.ops with
  | [] => (s, none)
  | op :: _ =>
  match t.pc, op with
  -- ---- push: do lane = next_lane() while (!try_push(lane)) ----
  | .start, .push _ _ h => loadFlag (nextLane h) { t with lane := nextLane (nextLane h), pc := .flagLoad }
  | .flagLoad, .push _ _ _ => loadFlag t.lane { t with lane := nextLane t.lane, pc := .flagLoad }
  | .flagXchg, .push id iso _ =>
      if lane.flag then (put s { t with lane := nextLane t.lane, pc := .flagLoad }, Deque.ev (fv t.lane) "xchg" 1 1)
      else (put { setLane s { flag := true, q := lane.q ++ [some id] } with pushed := id :: s.pushed, isos := (id, iso) :: s.isos }
              { t with pc := .setBit }, Deque.ev (fv t.lane) "xchg" 0 1)
  | .setBit, .push _ _ _ =>
      let nw := s.pop.set t.lane true
      (put { s with pop := nw } { t with pc := .unlock }, bitEv nw "for")
  | .unlock, .push _ _ _ =>
      (put { setLane s { lane with flag := false } with bad := s.bad || !lane.flag } (t.fin none), Deque.ev (fv t.lane) "xchg" (if lane.flag then 1 else 0) 0)
  -- ---- pop: for (; !empty() && !popped; pause) popped = try_pop(next_lane()) ----
  | .start, .pop h =>
      if popAny s then (put s { t with lane := nextLane h, pc := .popBit }, Deque.ev "pop" "load" (popEnc s.pop))
      else (put s (t.fin (some none)), Deque.ev "pop" "load" (popEnc s.pop))
  | .again, .pop _ =>
      if t.res.isSome then (put s (t.fin (some t.res)), Deque.ev "pop" "load" (popEnc s.pop))
      else if popAny s then (put s { t with lane := nextLane t.lane, pc := .popBit }, Deque.ev "pop" "load" (popEnc s.pop))
      else (put s (t.fin (some none)), Deque.ev "pop" "load" (popEnc s.pop))
  | .popBit, .pop _ =>
      (put s { t with pc := if s.pop.getD t.lane false then .flagLoad else .again }, Deque.ev "pop" "load" (popEnc s.pop))
  | .flagLoad, .pop _ => loadFlag t.lane { t with pc := .again }
  | .flagXchg, .pop _ =>
      if lane.flag then (put s { t with pc := .again }, Deque.ev (fv t.lane) "xchg" 1 1)
      else
        match lane.q with
        | [] => (put (setLane s { lane with flag := true }) { t with pc := .unlock }, Deque.ev (fv t.lane) "xchg" 0 1)
        | x :: q' =>
          (put (setLane s { flag := true, q := q' }) { t with res := x, pc := if q'.isEmpty then .clearBit else .unlock },
           Deque.ev (fv t.lane) "xchg" 0 1)
  | .clearBit, .pop _ =>
      let nw := s.pop.set t.lane false
      (put { s with pop := nw } { t with pc := .unlock }, bitEv nw "fand")
  | .unlock, .pop _ =>
      (put { setLane s { lane with flag := false } with bad := s.bad || !lane.flag } { t with pc := .again },
       Deque.ev (fv t.lane) "xchg" (if lane.flag then 1 else 0) 0)
  -- ---- pop_specific ----
  | .start, .popSpecific last _ =>
      let l := last % s.n
      (put s (if s.pop.getD l false then { t with lane := l, pc := .flagLoad } else { t with lane := prevLane l, pc := .again }),
       Deque.ev "pop" "load" (popEnc s.pop))
  | .popBit, .popSpecific _ _ =>
      (put s (if s.pop.getD t.lane false then { t with pc := .flagLoad } else { t with lane := prevLane t.lane, pc := .again }),
       Deque.ev "pop" "load" (popEnc s.pop))
  | .flagLoad, .popSpecific _ _ => loadFlag t.lane { t with lane := prevLane t.lane, pc := .again }
  | .flagXchg, .popSpecific _ iso =>
      if lane.flag then (put s { t with lane := prevLane t.lane, pc := .again }, Deque.ev (fv t.lane) "xchg" 1 1)
      else if lane.q.isEmpty then (put (setLane s { lane with flag := true }) { t with pc := .unlock }, Deque.ev (fv t.lane) "xchg" 0 1)
      else
        let (q', r) := lookSpecific s lane.q iso
        (put (setLane s { flag := true, q := q' }) { t with res := r, pc := if q'.isEmpty then .clearBit else .unlock },
         Deque.ev (fv t.lane) "xchg" 0 1)
  | .clearBit, .popSpecific _ _ =>
      let nw := s.pop.set t.lane false
      (put { s with pop := nw } { t with pc := .unlock }, bitEv nw "fand")
  | .unlock, .popSpecific _ _ =>
      let s1 := { setLane s { lane with flag := false } with bad := s.bad || !lane.flag }
      let e := Deque.ev (fv t.lane) "xchg" (if lane.flag then 1 else 0) 0
      if t.res.isSome then (put s1 (t.fin (some t.res)), e)
      else (put s1 { t with lane := prevLane t.lane, pc := .again }, e)
  | .again, .popSpecific last _ =>
      if popAny s && t.lane != last then (put s { t with pc := .popBit }, Deque.ev "pop" "load" (popEnc s.pop))
      else (put s (t.fin (some none)), Deque.ev "pop" "load" (popEnc s.pop))
  | _, _ => ({ s with bad := true, ths := s.ths.set k (t.fin none) }, none)

def stepEv (s : St) (tid : Tid) : St × Option Ev :=
  match s.ths[tid]? with
  | none => (s, none)
  | some t => stepTh s tid t

def step (s : St) (tid : Tid) : St := (stepEv s tid).1

def init (n : Nat) (progs : List (List Op)) : St :=
  { n := n, pop := List.replicate n false, lanes := List.replicate n {}, ths := progs.map (fun p => { ops := p }) }

def sys (n : Nat) (progs : List (List Op)) : Sys St := { init := init n progs, step := step }

/-- the non-null entries of all lanes -/
def inLanes (s : St) : List Nat := (s.lanes.map (fun l => l.q.filterMap id)).flatten

def poppedAll (s : St) : List Nat := (s.ths.map (fun t => t.out.filterMap id)).flatten

end Stream

/-! ## Vertex (wait_context + per-thread reference_vertex) -/
namespace Vertex

inductive Op where
  | run                   -- task_group::run: reserve() on the calling thread's vertex, then publish a unit
  | take (k : Nat)        -- start executing the k-th published unit (taken from a pool / mailbox / stream: other models)
  | finish                -- the executed unit completes: release() on the vertex it was created with
  | wait                  -- wait: spin until the root counter reads 0
  deriving Repr, DecidableEq

inductive Pc where
  | start
  | resRoot               -- reference_vertex::reserve saw 0: my_parent->reserve()  (root fetch_add)
  | relRoot               -- reference_vertex::release reached 0: parent->release() (root fetch_sub, notify on 0)
  | wTake                 -- wait loop: the counter was non-zero, look for a unit to execute (marker access)
  | wFin                  -- wait loop: the unit taken inside the wait completes (vertex fetch_sub)
  | wRel                  -- wait loop: … and its vertex reached 0 (root fetch_sub)
  deriving Repr, DecidableEq

structure Th where
  ops : List Op := []
  pc : Pc := .start
  held : List Nat := []     -- vertices of the units this thread is executing (innermost first)
  misuse : Bool := false    -- a `run` outside the reserve discipline / a `finish` without a unit was dropped
  waits : Nat := 0          -- number of completed waits
  deriving Repr, DecidableEq

structure St where
  root : Nat := 0           -- wait_context::m_ref_count of the group
  vs : List Nat := []       -- reference_vertex::m_ref_count of thread i's vertex
  pending : List Nat := []  -- published, not yet taken units (the vertex each was created with)
  ths : List Th := []
  bad : Bool := false       -- ghost: a counter went below zero
  notified : Nat := 0       -- ghost: calls of r1::notify_waiters
  deriving Repr, DecidableEq

def rv (i : Nat) : String := s!"v{i}"

def stepTh (s : St) (k : Nat) (t : Th) : St × Option Ev :=
  let put (s : St) (t' : Th) : St := { s with ths := s.ths.set k t' }
  let next (t : Th) : Th := { t with ops := t.ops.tail, pc := .start }
  match t.ops with
  | [] => (s, none)
  | op :: _ =>
  match t.pc, op with
  | .start, .run =>
      -- reserve discipline: the main thread (tid 0), or a thread that is executing a unit of the group
      if k != 0 && t.held.isEmpty then (put s { next t with misuse := true }, none)
      else
        let v := s.vs.getD k 0
        let s1 := { s with vs := s.vs.set k (v + 1) }
        if v = 0 then (put s1 { t with pc := .resRoot }, Deque.ev (rv k) "fadd" v (v + 1))
        else (put { s1 with pending := s1.pending ++ [k] } (next t), Deque.ev (rv k) "fadd" v (v + 1))
  | .resRoot, .run =>
      (put { s with root := s.root + 1, pending := s.pending ++ [k] } (next t), Deque.ev "root" "fadd" s.root (s.root + 1))
  | .start, .take i =>
      -- taking a unit out of a pool / mailbox / stream is an atomic access of another model; here: one marker access
      match s.pending[i]? with
      | none => (put s (next t), Deque.ev "take" "load" 0)
      | some v => (put { s with pending := s.pending.eraseIdx i } { next t with held := v :: t.held }, Deque.ev "take" "load" 0)
  | .start, .finish =>
      match t.held with
      | [] => (put s { next t with misuse := true }, none)
      | v :: rest =>
        let c := s.vs.getD v 0
        let s1 := { s with vs := s.vs.set v (c - 1), bad := s.bad || c = 0 }
        if c - 1 = 0 then (put s1 { t with held := rest, pc := .relRoot }, Deque.ev (rv v) "fsub" c (c - 1 : Int))
        else (put s1 { next t with held := rest }, Deque.ev (rv v) "fsub" c (c - 1 : Int))
  | .relRoot, .finish =>
      (put { s with root := s.root - 1, bad := s.bad || s.root = 0, notified := if s.root - 1 = 0 then s.notified + 1 else s.notified }
         (next t), Deque.ev "root" "fadd" s.root (s.root - 1 : Int))
  -- wait: `while (continue_execution()) { execute a unit of the group if one is available, else pause }`
  | .start, .wait =>
      if s.root = 0 then (put s { next t with waits := t.waits + 1 }, Deque.ev "root" "load" 0)
      else (put s { t with pc := .wTake }, Deque.ev "root" "load" s.root)
  | .wTake, .wait =>
      match s.pending with
      | [] => (put s { t with pc := .start }, Deque.ev "take" "load" 0)
      | v :: rest => (put { s with pending := rest } { t with held := v :: t.held, pc := .wFin }, Deque.ev "take" "load" 0)
  | .wFin, .wait =>
      match t.held with
      | [] => ({ s with bad := true, ths := s.ths.set k { t with pc := .start } }, none)
      | v :: rest =>
        let c := s.vs.getD v 0
        let s1 := { s with vs := s.vs.set v (c - 1), bad := s.bad || c = 0 }
        (put s1 { t with held := rest, pc := if c - 1 = 0 then .wRel else .start }, Deque.ev (rv v) "fsub" c (c - 1 : Int))
  | .wRel, .wait =>
      (put { s with root := s.root - 1, bad := s.bad || s.root = 0, notified := if s.root - 1 = 0 then s.notified + 1 else s.notified }
         { t with pc := .start }, Deque.ev "root" "fadd" s.root (s.root - 1 : Int))
  | _, _ => ({ s with bad := true, ths := s.ths.set k (next t) }, none)

def stepEv (s : St) (tid : Tid) : St × Option Ev :=
  match s.ths[tid]? with
  | none => (s, none)
  | some t => stepTh s tid t

def step (s : St) (tid : Tid) : St := (stepEv s tid).1

def init (progs : List (List Op)) : St :=
  { vs := List.replicate progs.length 0, ths := progs.map (fun p => { ops := p }) }

def sys (progs : List (List Op)) : Sys St := { init := init progs, step := step }

end Vertex

/-! ## Fold (algorithm join tree, fold_tree) -/
namespace Fold

/-- Node 0 is the `wait_node` (my_parent = nullptr, m_ref_count = 1, m_wait{1}); node j > 0 is a `tree_node`
whose parent `par[j]` has a smaller index.  `leaf[i]` is the node the i-th finished task passes to fold_tree. -/
structure Tree where
  par : List Nat            -- par[0] is unused
  leaf : List Nat
  deriving Repr, DecidableEq

inductive Pc where
  | dec (n : Nat)           -- about to execute `--n->m_ref_count`
  | rel                     -- about to execute m_wait.release()  (fetch_add(-1) on the wait_context)
  | done
  deriving Repr, DecidableEq

structure St where
  tree : Tree := ⟨[], []⟩
  refs : List Int := []     -- node::m_ref_count
  wait : Int := 1           -- wait_node::m_wait.m_ref_count
  pcs : List Pc := []       -- one folder per leaf
  freed : List Bool := []   -- tree_node deleted (self->m_allocator.delete_object)
  started : List Bool := [] -- ghost: leaf i has performed its first decrement
  released : Nat := 0       -- ghost: number of m_wait.release() calls
  notified : Nat := 0       -- ghost: notify_waiters calls (counter reached 0)
  bad : Bool := false       -- ghost: access to a deleted node / a counter found ≤ 0 before the decrement
  deriving Repr, DecidableEq

/-- number of children (tree nodes and leaves) of node j -/
def nChildren (t : Tree) (j : Nat) : Nat :=
  ((List.range t.par.length).countP (fun c => c != 0 && t.par.getD c 0 == j)) + t.leaf.countP (· == j)

/-- well-formed: parents have smaller indices, leaves point to existing nodes, the wait node has exactly one
child, and every tree node has at least one child (the code creates them with ref_count 2) -/
def Tree.wf (t : Tree) : Bool :=
  t.par.length > 0 &&
  (List.range t.par.length).all (fun i => i == 0 || t.par.getD i 0 < i) &&
  t.leaf.all (· < t.par.length) &&
  nChildren t 0 == 1 &&
  (List.range t.par.length).all (fun j => j == 0 || nChildren t j > 0)

def init (t : Tree) : St :=
  { tree := t, refs := (List.range t.par.length).map (fun j => (nChildren t j : Int)),
    pcs := t.leaf.map .dec, freed := List.replicate t.par.length false, started := t.leaf.map (fun _ => false) }

def rn (i : Nat) : String := s!"ref{i}"

def stepEv (s : St) (tid : Tid) : St × Option Ev :=
  match s.pcs[tid]? with
  | none => (s, none)
  | some .done => (s, none)
  | some (.dec n) =>
      let c := s.refs.getD n 0
      let s1 := { s with refs := s.refs.set n (c - 1), bad := s.bad || s.freed.getD n true || c ≤ 0,
                         started := s.started.set tid true }
      let e := Deque.ev (rn n) "fsub" c (c - 1)
      if c - 1 > 0 then ({ s1 with pcs := s1.pcs.set tid .done }, e)
      else if n = 0 then ({ s1 with pcs := s1.pcs.set tid .rel }, e)
      else ({ s1 with freed := s1.freed.set n true, pcs := s1.pcs.set tid (.dec (s.tree.par.getD n 0)) }, e)
  | some .rel =>
      ({ s with wait := s.wait - 1, released := s.released + 1, notified := if s.wait - 1 = 0 then s.notified + 1 else s.notified,
                pcs := s.pcs.set tid .done }, Deque.ev "wait" "fadd" s.wait (s.wait - 1))

def step (s : St) (tid : Tid) : St := (stepEv s tid).1

def sys (t : Tree) : Sys St := { init := init t, step := step }

end Fold

/-! ## line-protocol drivers (trace replay): `s <tid>` performs the thread's next atomic access and prints
`<var> <kind> <a> <b> <ok> | <ops left> | <result of the operation completed by this access, or ->` -/
section Drivers
open Proto

def showEv : Option Ev → String
  | none => "-"
  | some e => s!"{e.var} {e.kind} {e.a} {e.b} {showBool e.ok}"

def showOptNat : Option Nat → String
  | none => "none"
  | some v => toString v

def splitColon (w : String) : List String := w.splitOn ":"

def parseItem (w : String) : Option Deque.Item :=
  match (splitColon w).mapM nat? with
  | some [id, iso, sk, dd] => some { id := id, iso := iso, skipT := sk != 0, dead := dd != 0 }
  | some [id, iso] => some { id := id, iso := iso }
  | some [id] => some { id := id }
  | _ => none

def parseOOp (w : String) : Option Deque.OOp :=
  if w.startsWith "s" then (parseItem (w.drop 1).toString).map .spawn
  else if w.startsWith "g" then (nat? (w.drop 1).toString).map .get
  else none

def showItems (l : List Deque.Item) : String := ",".intercalate (l.map (fun x => toString x.id))

def driveDeque (st : Deque.St) (ws : List String) : Deque.St × String :=
  match ws with
  | ["reset"] => ({}, "ok")
  | ["cfg", a, b] =>
      match nat? a, nat? b with
      | some a, some b => ({ st with cfg := { minSize := a, granule := b } }, "ok")
      | _, _ => (st, "bad-op")
  | "owner" :: ops =>
      match ops.mapM parseOOp with
      | some os => ({ st with own := { st.own with ops := st.own.ops ++ os } }, "ok")
      | none => (st, "bad-op")
  | "thief" :: ops =>
      match ops.mapM nat? with
      | some os => ({ st with ths := st.ths ++ [{ ops := os }] }, "ok")
      | none => (st, "bad-op")
  | ["s", t] =>
      match nat? t with
      | none => (st, "bad-op")
      | some 0 =>
        let (st', e) := Deque.stepEv st 0
        let r := if st'.own.out.length > st.own.out.length then
                   match st'.own.out.head? with | some (some x) => s!"r {x.id}" | _ => "r none"
                 else "-"
        (st', s!"{showEv e} | {st'.own.ops.length} | {r}")
      | some (k + 1) =>
        match st.ths[k]? with
        | none => (st, "bad-tid")
        | some t0 =>
          let (st', e) := Deque.stepEv st (k + 1)
          match st'.ths[k]? with
          | none => (st, "bad-tid")
          | some t1 =>
            let r := if t1.out.length > t0.out.length then
                       match t1.out.head? with | some (some x) => s!"r {x.id}" | _ => "r none"
                     else "-"
            (st', s!"{showEv e} | {t1.ops.length} | {r}")
  | ["dump"] =>
      -- white-box content of the array between `head` and `tail` (compared with task_pool_ptr[head..tail) of the real slot)
      let w := (st.pool.drop st.head.toNat).take (st.tail.toNat - st.head.toNat)
      let cs := w.map (fun c => match c with | .junk => "?" | .hole => "_" | .item x => toString x.id)
      (st, s!"{st.head} {st.tail} {" ".intercalate cs}".trimRight)
  | ["state"] =>
      (st, s!"{st.head} {st.tail} {st.lw.enc} {showBool st.bad} {st.pool.length} | {showItems (Deque.resident st)} | {showItems (Deque.returned st)} | {showItems st.spawned} | {showItems st.own.freed}")
  | _ => (st, "bad-op")

def driveProxy (st : Proxy.St) (ws : List String) : Proxy.St × String :=
  match ws with
  | ["reset"] => ({}, "ok")
  | ["s", t] =>
      match nat? t with
      | none => (st, "bad-op")
      | some t =>
        let (st', e) := Proxy.stepEv st t
        match st'.sides[t]? with
        | none => (st, "bad-tid")
        | some x => (st', s!"{showEv e} | {if x.pc == .done then 0 else 1} | {if x.pc == .done then (if x.got then "r task" else "r none") else "-"}")
  | ["state"] => (st, s!"{st.tat} {Proxy.taken st} {Proxy.freedN st} {showBool st.bad}")
  | _ => (st, "bad-op")

def driveMailbox (st : Mailbox.St) (ws : List String) : Mailbox.St × String :=
  match ws with
  | ["reset"] => ({}, "ok")
  | "cons" :: ops =>
      match ops.mapM nat? with
      | some os => ({ st with cons := { st.cons with ops := st.cons.ops ++ os } }, "ok")
      | none => (st, "bad-op")
  | "pusher" :: ops =>
      match ops.mapM nat? with
      | some os => ({ st with pushers := st.pushers ++ [{ ops := os }] }, "ok")
      | none => (st, "bad-op")
  | ["s", t] =>
      match nat? t with
      | none => (st, "bad-op")
      | some 0 =>
        let (st', e) := Mailbox.stepEv st 0
        let r := if st'.cons.out.length > st.cons.out.length then
                   match st'.cons.out.head? with | some (some x) => s!"r {x}" | _ => "r none"
                 else "-"
        (st', s!"{showEv e} | {st'.cons.ops.length} | {r}")
      | some (k + 1) =>
        let (st', e) := Mailbox.stepEv st (k + 1)
        match st'.pushers[k]? with
        | none => (st, "bad-tid")
        | some u => (st', s!"{showEv e} | {u.ops.length} | -")
  | ["state"] => (st, s!"{Mailbox.encP st.first} {st.last.enc} | {showNats st.order} | {showNats (Mailbox.popped st)}")
  | _ => (st, "bad-op")

def parseSOp (w : String) : Option Stream.Op :=
  let args := (splitColon (w.drop 1).toString).mapM nat?
  if w.startsWith "u" then match args with | some [id, iso, h] => some (.push id iso h) | _ => none
  else if w.startsWith "o" then match args with | some [h] => some (.pop h) | _ => none
  else if w.startsWith "p" then match args with | some [l, iso] => some (.popSpecific l iso) | _ => none
  else none

def driveStream (st : Stream.St) (ws : List String) : Stream.St × String :=
  match ws with
  | ["reset"] => (Stream.init 2 [], "ok")
  | ["n", n] =>
      match nat? n with
      | some n => ({ Stream.init n [] with ths := st.ths }, "ok")
      | none => (st, "bad-op")
  | "prog" :: ops =>
      match ops.mapM parseSOp with
      | some os => ({ st with ths := st.ths ++ [{ ops := os }] }, "ok")
      | none => (st, "bad-op")
  | ["s", t] =>
      match nat? t with
      | none => (st, "bad-op")
      | some t =>
        match st.ths[t]? with
        | none => (st, "bad-tid")
        | some t0 =>
          let (st', e) := Stream.stepEv st t
          match st'.ths[t]? with
          | none => (st, "bad-tid")
          | some t1 =>
            let r := if t1.out.length > t0.out.length then
                       match t1.out.head? with | some (some x) => s!"r {x}" | _ => "r none"
                     else "-"
            (st', s!"{showEv e} | {t1.ops.length} | {r}")
  | ["state"] => (st, s!"{Stream.popEnc st.pop} {showBool st.bad} | {showNats st.pushed.reverse} | {showNats (Stream.poppedAll st)} | {showNats (Stream.inLanes st)}")
  | _ => (st, "bad-op")

def parseVOp (w : String) : Option Vertex.Op :=
  if w == "r" then some .run else if w == "f" then some .finish else if w == "w" then some .wait
  else if w.startsWith "t" then (nat? (w.drop 1).toString).map .take else none

def driveVertex (st : Vertex.St) (ws : List String) : Vertex.St × String :=
  match ws with
  | ["reset"] => ({}, "ok")
  | "prog" :: ops =>
      match ops.mapM parseVOp with
      | some os => ({ st with ths := st.ths ++ [{ ops := os }], vs := st.vs ++ [0] }, "ok")
      | none => (st, "bad-op")
  | ["s", t] =>
      match nat? t with
      | none => (st, "bad-op")
      | some t =>
        -- ops dropped by the discipline are silent: skip them (they do not touch shared state)
        let rec go (st : Vertex.St) (fuel : Nat) : Vertex.St × Option Ev :=
          match fuel with
          | 0 => (st, none)
          | fuel + 1 =>
            let (st', e) := Vertex.stepEv st t
            match e with
            | some _ => (st', e)
            | none => if st' == st then (st', none) else go st' fuel
        let (st1, e) := go st 1000
        let rec skip (st : Vertex.St) (fuel : Nat) : Vertex.St :=
          match fuel with
          | 0 => st
          | fuel + 1 =>
            let (st', e') := Vertex.stepEv st t
            if e'.isNone && st' != st then skip st' fuel else st
        let st' := skip st1 1000
        match st'.ths[t]? with
        | none => (st, "bad-tid")
        | some x => (st', s!"{showEv e} | {x.ops.length} | {x.waits} {showBool x.misuse}")
  | ["state"] => (st, s!"{st.root} {showBool st.bad} {st.notified} | {showNats st.vs} | {showNats st.pending}")
  | _ => (st, "bad-op")

def driveFold (st : Fold.St) (ws : List String) : Fold.St × String :=
  match ws with
  | ["reset"] => ({}, "ok")
  | "tree" :: rest =>
      let par := rest.takeWhile (· != "|")
      let leaf := (rest.dropWhile (· != "|")).drop 1
      match par.mapM nat?, leaf.mapM nat? with
      | some p, some l =>
        let t : Fold.Tree := ⟨p, l⟩
        if t.wf then (Fold.init t, "ok") else (st, "bad-tree")
      | _, _ => (st, "bad-op")
  | ["s", t] =>
      match nat? t with
      | none => (st, "bad-op")
      | some t =>
        let (st', e) := Fold.stepEv st t
        match st'.pcs[t]? with
        | none => (st, "bad-tid")
        | some pc => (st', s!"{showEv e} | {if pc == .done then 0 else 1} | -")
  | ["state"] => (st, s!"{st.wait} {st.released} {st.notified} {showBool st.bad} | {" ".intercalate (st.refs.map toString)}")
  | _ => (st, "bad-op")

def driverDeque : Proto.Driver := { σ := Deque.St, init := {}, step := driveDeque }
def driverProxy : Proto.Driver := { σ := Proxy.St, init := {}, step := driveProxy }
def driverMailbox : Proto.Driver := { σ := Mailbox.St, init := {}, step := driveMailbox }
def driverStream : Proto.Driver := { σ := Stream.St, init := Stream.init 2 [], step := driveStream }
def driverVertex : Proto.Driver := { σ := Vertex.St, init := {}, step := driveVertex }
def driverFold : Proto.Driver := { σ := Fold.St, init := {}, step := driveFold }

end Drivers

end TbbVerif.C01
-- (end of Model/C01.lean)
