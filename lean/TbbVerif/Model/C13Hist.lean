/-
C13 — concurrent histories of the aggregator model, the sequential specification and `Linearizable`
(core Lean only; linked into drv_c13).

`history s sched` is what the callers of push / try_pop observe when the access-level model `Agg` (Model/C13.lean,
Part 2) runs the schedule `sched` from `s`: an invocation event when a thread enters a call (its first access,
`op->status.load`, is the step out of `idle`) and a response event with the call's result when it leaves it (the
step out of `rdStatus`, the last access of the call; or — as coded — the unwinding of the handler when a pop's
element assignment throws).  Nothing else of the state is visible.

`trace s sched` is the same sequence with the *linearization points* inserted: at the step in which a handler
grabs the pending list (`pending_operations.exchange(nullptr)`) the operations of that batch are linearized, all
at that instant, in the order `batchLin heap batch` (Model/C13.lean).  So the linearization order of a history
is the batch order, and inside a batch the order computed by `batchLin`.
-/
import TbbVerif.Model.C13

namespace TbbVerif.C13

/-- what a caller does / observes -/
inductive HEv where
  | inv (t : Tid) (op : Op)        -- thread `t` calls push / try_pop
  | resp (t : Tid) (r : Res)       -- the call of thread `t` returns (or throws) with result `r`
deriving Repr, DecidableEq, Inhabited

/-- a history event, or the linearization point of an operation of thread `t` with the result it will return -/
inductive TEv where
  | ev (e : HEv)
  | lin (t : Tid) (op : Op) (r : Res)
deriving Repr, DecidableEq, Inhabited

/-- where a thread is w.r.t. its current call -/
inductive Phase where
  | out                                  -- between calls
  | invoked (op : Op)                    -- called, not linearized yet
  | linearized (op : Op) (r : Res)       -- linearized with result `r`, not returned yet
deriving Repr, DecidableEq, Inhabited

def updPh (ph : Tid → Phase) (t : Tid) (x : Phase) : Tid → Phase := fun u => if u = t then x else ph u

/-- Per thread, a trace must read `inv · lin · resp · inv · lin · resp …` (the last call possibly incomplete):
every linearization point lies between the invocation and the response of its operation, every completed
operation has exactly one, it carries the operation that was invoked and the result that is returned. -/
def wfStep (ph : Tid → Phase) : TEv → Option (Tid → Phase)
  | .ev (.inv t op) =>
    match ph t with
    | .out => some (updPh ph t (.invoked op))
    | _ => none
  | .lin t op r =>
    match ph t with
    | .invoked op' => if op' = op then some (updPh ph t (.linearized op r)) else none
    | _ => none
  | .ev (.resp t r) =>
    match ph t with
    | .linearized _ r' => if r' = r then some (updPh ph t .out) else none
    | _ => none

def wfRun (ph : Tid → Phase) : List TEv → Option (Tid → Phase)
  | [] => some ph
  | e :: es => (wfStep ph e).bind (fun ph' => wfRun ph' es)

/-- the history inside a trace -/
def proj (T : List TEv) : List HEv := T.filterMap (fun e => match e with | .ev h => some h | .lin _ _ _ => none)

/-- the linearization inside a trace: operations with their results, in the order of their linearization points -/
def marks (T : List TEv) : List (Op × Res) := T.filterMap (fun e => match e with | .lin _ op r => some (op, r) | .ev _ => none)

/-- the linearization with the owners of the operations -/
def marksT (T : List TEv) : List (Tid × Op × Res) :=
  T.filterMap (fun e => match e with | .lin t op r => some (t, op, r) | .ev _ => none)

/-- **Linearizability** of a history `H` w.r.t. the sequential priority-queue specification `specStep`
(Model/C13.lean: contents are a multiset; a push inserts; a failed push does nothing; try_pop returns an element
with no strictly higher-priority element in the contents — ties in any order — and removes it; try_pop fails
iff the contents are empty) started with contents `init`: linearization points can be inserted into `H` such
that every point lies between the invocation and the response of its operation, every completed operation has
one and returns the result chosen there, and the operations in the order of their points are a legal
sequential execution of the specification. -/
def Linearizable (init : List Elem) (H : List HEv) : Prop :=
  ∃ T : List TEv, proj T = H ∧ (wfRun (fun _ => .out) T).isSome ∧ (specRun init (marks T)).isSome

/-! ### the history and the trace of a run of `Agg` -/

/-- the pop whose element assignment throws inside `handle_operations` at this step of handler `t` (as coded) -/
def unwindsAt (s : St) (t : Tid) : Option Tid :=
  match (s.ths t).pc, (s.ths t).rem with
  | .p1Load, u :: _ => if popThrows (s.ths u).op && shortcut s.heap && !guarded then some u else none
  | .p2Load, u :: _ => if popThrows (s.ths u).op && !(isEmpty2 s.heap) && !guarded then some u else none
  | _, _ => none

/-- the history events of one step -/
def histEv (s : St) (t : Tid) : List HEv :=
  match (s.ths t).pc with
  | .idle =>
    match (s.ths t).todo with
    | [] => []
    | (o, _) :: _ => [.inv t o]
  | .rdStatus => [.resp t (resultOfCall (s.ths t))]
  | _ =>
    match unwindsAt s t with
    | some u => [.resp t (.exc (decide (u = t)))]
    | none => []

def history (s : St) : List Tid → List HEv
  | [] => []
  | t :: ts => histEv s t ++ history (aggStep s t) ts

/-- the batch a handler takes with `pending_operations.exchange(nullptr)`: the pending list, top first, every
node with its owner's current operation -/
def batchOf (s : St) : List (Op × Nat) := s.plist.map (fun u => ((s.ths u).op, u))

/-- the trace events of one step: the history events, and at the grab the linearization points of the batch -/
def traceEv (s : St) (t : Tid) : List TEv :=
  match (s.ths t).pc with
  | .grab => (batchLin s.heap (batchOf s)).map (fun e => .lin e.idx e.op e.res)
  | _ => (histEv s t).map .ev

def trace (s : St) : List Tid → List TEv
  | [] => []
  | t :: ts => traceEv s t ++ trace (aggStep s t) ts

/-- the state after running schedule `sched` from `s` (`(Agg todo h0).runFrom s sched`) -/
def runAgg (s : St) (sched : List Tid) : St := sched.foldl aggStep s

/-! ### completed operations of a history -/

def updOpen (o : Tid → Option Op) (t : Tid) (x : Option Op) : Tid → Option Op := fun u => if u = t then x else o u

/-- the completed operations (operation, result) of a history, in the order of their responses -/
def completedFrom (o : Tid → Option Op) : List HEv → List (Tid × Op × Res)
  | [] => []
  | .inv t op :: es => completedFrom (updOpen o t (some op)) es
  | .resp t r :: es =>
    match o t with
    | some op => (t, op, r) :: completedFrom (updOpen o t none) es
    | none => completedFrom o es

def completed (H : List HEv) : List (Tid × Op × Res) := completedFrom (fun _ => none) H

/-! ### line protocol: the model-produced linearization of a run (E-SHIM tie) -/

def showOp : Op → String
  | .push x thr => (if thr then "t" else "p") ++ (if x.key = x.id then s!"{x.id}" else s!"{x.key}:{x.id}")
  | .pop thr => if thr then "x" else "o"

def showTEv : TEv → String
  | .ev (.inv t op) => s!"inv {t} {showOp op}"
  | .ev (.resp t r) => s!"resp {t} {showRes r}"
  | .lin t op r => s!"lin {t} {showOp op} {showRes r}"

/-- driver state of `c13agg` -/
structure DAgg where
  s : St := {}
  n : Nat := 0        -- number of threads declared
  tr : List TEv := [] -- the trace so far, newest first
  h0 : List Elem := []  -- initial contents

def initHeap (xs : List Elem) : Heap := xs.foldl (fun h x => (handleOps h [.push x false]).heap) ⟨[], 0⟩

open Proto in
def driveAgg (d : DAgg) (ws : List String) : DAgg × String :=
  match ws with
  | "init" :: xs =>
    match parseElems xs with
    | some xs => let h := initHeap xs; ({ d with s := { d.s with heap := h, mySize := h.data.length }, h0 := h.data }, showHeap h)
    | none => (d, "bad-op")
  | "thread" :: os =>
    match os.mapM parseOpAt with
    | some ops =>
      let t := d.n
      ({ d with s := d.s.modTh t (fun x => { x with todo := ops }), n := d.n + 1 }, s!"thread {t}")
    | none => (d, "bad-op")
  | ["s", t] =>
    match nat? t with
    | some t => if t < d.n then ({ d with s := aggStep d.s t, tr := (traceEv d.s t).reverse ++ d.tr }, describe d.s t) else (d, "bad-op")
    | none => (d, "bad-op")
  | ["results"] =>
    (d, " | ".intercalate ((List.range d.n).map (fun t => " ".intercalate ((d.s.ths t).results.map showRes))))
  | ["final"] => (d, showHeap d.s.heap)
  | ["trace"] => (d, " ; ".intercalate (d.tr.reverse.map showTEv))
  | ["lincheck"] =>
    -- the model's own verdict on its trace: well-formed linearization points + legal for the sequential spec
    let T := d.tr.reverse
    let wf := (wfRun (fun _ => .out) T).isSome
    (d, s!"wf={Proto.showBool wf} legal={Proto.showBool (specRun d.h0 (marks T)).isSome}")
  | ["pcs"] => (d, " ".intercalate ((List.range d.n).map (fun t => reprStr (d.s.ths t).pc)))
  | _ => (d, "bad-op")

def driverAgg : Proto.Driver := { σ := DAgg, init := {}, step := driveAgg }



end TbbVerif.C13
