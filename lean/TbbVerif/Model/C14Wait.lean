/-
C14 (b) — what `graph::wait_for_all` waits for: the graph's wait-context vertex and the per-thread reference
vertices hanging off it, with the references taken by `graph_task`s (created by threads inside the graph's arena:
through the thread's `reference_vertex`; created by foreign threads, e.g. through an `async_node` gateway: directly
on the graph's vertex) and by `reserve_wait` / `release_wait` (the gateway's references).
Executable model (core Lean only; linked into drv_c14).

Code: include/oneapi/tbb/detail/_task.h (`wait_context::reserve/release/continue_execution`, `wait_context_vertex`,
`reference_vertex::reserve/release`), detail/_flow_graph_impl.h (`graph_task::graph_task`: picks the thread's
reference vertex or the graph's vertex, `reserve()`; `graph_task::finalize`: `release()`; `graph::wait_for_all`),
flow_graph.h (`graph::reserve_wait/release_wait`, `async_node::receiver_gateway_impl`).

Granularity: ONE STEP PER ATOMIC READ-MODIFY-WRITE.  `reference_vertex::reserve` is two accesses (`fetch_add` on the
child's counter, and, if it was 0, `fetch_add` on the parent's), `release` likewise; between the two the other
threads run.  Any number of threads; a schedule is a list of `WOp`s.
-/
import TbbVerif.Core.Sched
import TbbVerif.Core.Proto
import TbbVerif.Generated.C14Wait

namespace TbbVerif.C14.Wait
open TbbVerif.Generated.C14Wait

def upd {α : Type} (f : Nat → α) (n : Nat) (v : α) : Nat → α := fun i => if i = n then v else f i

/-- The facts of the code the step function is defined over (regenerated from the source on every run). -/
structure WFlags where
  /-- `reference_vertex::reserve` reserves the parent iff the counter was 0 before the `fetch_add` -/
  refReserveOnZero : Bool
  /-- `reference_vertex::release` releases the parent iff the counter is 0 after the `fetch_sub` -/
  refReleaseOnZero : Bool
  /-- `graph_task`'s constructor reserves its reference vertex; `finalize` releases the same vertex -/
  taskCtorReserves : Bool
  taskFinalizeReleases : Bool
  /-- `graph::reserve_wait` / `release_wait` reserve / release the graph's vertex; the gateway forwards to them -/
  reserveWaitReserves : Bool
  releaseWaitReleases : Bool
  /-- `wait_context::continue_execution()` is `m_ref_count > 0` -/
  waitWhilePositive : Bool
  known : Bool
deriving Repr, DecidableEq, Inhabited

def WFlags.ok (F : WFlags) : Bool :=
  F.refReserveOnZero && F.refReleaseOnZero && F.taskCtorReserves && F.taskFinalizeReleases && F.reserveWaitReserves &&
    F.releaseWaitReleases && F.waitWhilePositive && F.known

def genWFlags : WFlags :=
  { refReserveOnZero := refReserveOnZero, refReleaseOnZero := refReleaseOnZero, taskCtorReserves := taskCtorReserves,
    taskFinalizeReleases := taskFinalizeReleases, reserveWaitReserves := reserveWaitReserves,
    releaseWaitReleases := releaseWaitReleases, waitWhilePositive := waitWhilePositive, known := skeletonKnown }

structure WT where
  /-- `graph::my_wait_context_vertex.m_wait.m_ref_count` (unsigned in the code; `Int` so that a surplus release shows) -/
  root : Int := 0
  /-- `m_ref_count` of thread `u`'s `reference_vertex` for this graph -/
  child : Nat → Nat := fun _ => 0
  /-- thread `u` is between the `fetch_add` on its own vertex (which found 0) and `my_parent->reserve()` -/
  pr : Nat → Bool := fun _ => false
  /-- `parent->release()` calls that are still to be made (a `fetch_sub` brought a child counter to 0) -/
  pendRel : Nat := 0
  /-- ghost: outstanding `reserve_wait` calls (gateways, users) -/
  resv : Nat := 0
  /-- ghost: live graph tasks that reference the graph's vertex directly (created outside the arena) -/
  tasksRoot : Nat := 0
  /-- ghost: live graph tasks that reference thread `u`'s vertex (including one whose constructor is running) -/
  tasksChild : Nat → Nat := fun _ => 0
  /-- ghost: the threads whose vertex currently holds a reference on the root -/
  liveSet : List Nat := []
  /-- ghost: `wait_for_all` returned (saw `continue_execution() == false`) while a completed reservation or a fully
  constructed task was outstanding -/
  early : Bool := false

inductive WOp where
  /-- `graph::reserve_wait()` (also `gateway.reserve_wait()`) -/
  | reserveWait
  | releaseWait
  /-- `graph_task` constructed by a thread outside the graph's arena (`my_reference_vertex = &graph vertex`) -/
  | mkForeign
  /-- `finalize` of such a task -/
  | finRoot
  /-- `graph_task` constructed by arena thread `u`: the `fetch_add` on `u`'s vertex -/
  | mkArena (u : Nat)
  /-- … and the `my_parent->reserve()` that follows when the counter was 0 -/
  | parentReserve (u : Nat)
  /-- `finalize` of a task that references thread `u`'s vertex (by any thread): the `fetch_sub` -/
  | finChild (u : Nat)
  /-- … and a pending `parent->release()` -/
  | parentRelease
  /-- `wait_for_all`'s test `continue_execution()` -/
  | waitTest
deriving Repr, DecidableEq, Inhabited

namespace WT

/-- completed reservations and fully constructed live tasks: what `wait_for_all` must not return over -/
def outstanding (s : WT) : Prop :=
  0 < s.resv ∨ 0 < s.tasksRoot ∨ ∃ u, s.pr u = false ∧ 0 < s.tasksChild u

def step (F : WFlags) (s : WT) : WOp → WT
  | .reserveWait => if F.reserveWaitReserves then { s with root := s.root + 1, resv := s.resv + 1 } else { s with resv := s.resv + 1 }
  | .releaseWait =>
    if s.resv = 0 then s
    else if F.releaseWaitReleases then { s with root := s.root - 1, resv := s.resv - 1 } else { s with resv := s.resv - 1 }
  | .mkForeign => if F.taskCtorReserves then { s with root := s.root + 1, tasksRoot := s.tasksRoot + 1 } else { s with tasksRoot := s.tasksRoot + 1 }
  | .finRoot =>
    if s.tasksRoot = 0 then s
    else if F.taskFinalizeReleases then { s with root := s.root - 1, tasksRoot := s.tasksRoot - 1 } else { s with tasksRoot := s.tasksRoot - 1 }
  | .mkArena u =>
    if s.pr u then s     -- a thread is sequential: it finishes `reserve` before it constructs another task
    else if !F.taskCtorReserves then { s with tasksChild := upd s.tasksChild u (s.tasksChild u + 1) }
    else
      let s1 := { s with child := upd s.child u (s.child u + 1), tasksChild := upd s.tasksChild u (s.tasksChild u + 1) }
      if decide (s.child u = 0) == F.refReserveOnZero then { s1 with pr := upd s.pr u true } else s1
  | .parentReserve u =>
    if s.pr u then { s with root := s.root + 1, pr := upd s.pr u false, liveSet := u :: s.liveSet } else s
  | .finChild u =>
    -- only a fully constructed task can be executed and finalized
    if s.pr u || s.tasksChild u = 0 then s
    else if !F.taskFinalizeReleases then { s with tasksChild := upd s.tasksChild u (s.tasksChild u - 1) }
    else
      let s1 := { s with child := upd s.child u (s.child u - 1), tasksChild := upd s.tasksChild u (s.tasksChild u - 1) }
      if decide (s.child u - 1 = 0) == F.refReleaseOnZero then { s1 with pendRel := s.pendRel + 1, liveSet := s.liveSet.erase u } else s1
  | .parentRelease => if s.pendRel = 0 then s else { s with root := s.root - 1, pendRel := s.pendRel - 1 }
  | .waitTest =>
    let cont := if F.waitWhilePositive then decide (s.root > 0) else decide (s.root > 1)
    if cont then s
    else { s with early := s.early || decide (0 < s.resv ∨ 0 < s.tasksRoot) || s.liveSet.any (fun u => !s.pr u && decide (0 < s.tasksChild u)) }

def sys (F : WFlags) : List WOp → WT := fun ops => ops.foldl (step F) {}

end WT

/-! ### `c14wt`: replay of an E-SHIM trace of the real `wait_context_vertex` / `reference_vertex` classes

One line per atomic access the real code made: `<op> [<u>] <value read>`; the model takes the same step and answers with
the value it reads there and the resulting counters; the harness output is compared line by line. -/
structure WDrv where
  st : WT := {}
  n : Nat := 0

namespace WDrv

def render (d : WDrv) (res : String) : String :=
  let ch := (List.range d.n).map (fun u => s!"{d.st.child u}{if d.st.pr u then "+" else ""}")
  s!"{res} | root={d.st.root} pend={d.st.pendRel} | {" ".intercalate ch}"

def stepLine (d : WDrv) (ws : List String) : WDrv × String :=
  let F := genWFlags
  match ws with
  | ["threads", k] =>
    match k.toNat? with
    | some k => if k > 64 then (d, "bad-op") else ({ d with n := k }, "ok")
    | none => (d, "bad-op")
  | ["W"] => let s := d.st.step F .reserveWait; ({ d with st := s }, render { d with st := s } s!"{d.st.root}")
  | ["X"] =>
    if d.st.resv = 0 then (d, "bad-op") else let s := d.st.step F .releaseWait; ({ d with st := s }, render { d with st := s } s!"{d.st.root}")
  | ["F"] => let s := d.st.step F .mkForeign; ({ d with st := s }, render { d with st := s } s!"{d.st.root}")
  | ["G"] =>
    if d.st.tasksRoot = 0 then (d, "bad-op") else let s := d.st.step F .finRoot; ({ d with st := s }, render { d with st := s } s!"{d.st.root}")
  | [op, u] =>
    match u.toNat? with
    | some u =>
      if u >= d.n then (d, "bad-op")
      else if op = "R" then
        if d.st.pr u then (d, "bad-op") else let s := d.st.step F (.mkArena u); ({ d with st := s }, render { d with st := s } s!"{d.st.child u}")
      else if op = "P" then
        if !d.st.pr u then (d, "bad-op") else let s := d.st.step F (.parentReserve u); ({ d with st := s }, render { d with st := s } s!"{d.st.root}")
      else if op = "L" then
        if d.st.pr u || d.st.tasksChild u = 0 then (d, "bad-op")
        else let s := d.st.step F (.finChild u); ({ d with st := s }, render { d with st := s } s!"{d.st.child u}")
      else (d, "bad-op")
    | none => (d, "bad-op")
  | ["Q"] =>
    if d.st.pendRel = 0 then (d, "bad-op") else let s := d.st.step F .parentRelease; ({ d with st := s }, render { d with st := s } s!"{d.st.root}")
  | ["T"] =>
    let s := d.st.step F .waitTest
    ({ d with st := s }, render { d with st := s } (if s.early && !d.st.early then "early" else if d.st.root > 0 then "cont" else "ret"))
  | _ => (d, "bad-op")

def driver : Proto.Driver := { σ := WDrv, init := {}, step := stepLine }

end WDrv

end TbbVerif.C14.Wait
