/-
C10 — concurrent_hash_map model `HMap` (executable, core Lean only).

Code modelled: include/oneapi/tbb/concurrent_hash_map.h
  hash_map_base: segment_index_of / segment_base / segment_size, enable_segment, check_mask_race,
  check_rehashing_collision, insert_new_node (size increment, load-factor rule, growth election);
  concurrent_hash_map: bucket_accessor::acquire (lazy recursive rehash), rehash_bucket, lookup (insert / emplace / find /
  count), internal_erase, exclude (erase by accessor), accessor release.

Abstraction (DESIGN.md §3 C10, "partial: locks by appeal to C08"): bucket and element mutexes are `spin_rw_mutex`;
their protocol is proved in C08, here a lock is its C08-proved specification state (`Lock`: the writer, the readers) and
each lock operation is one step with its specified effect: blocking acquisition is enabled only when compatible, an
in-place upgrade only for the sole reader, a failed upgrade is a release step followed by a blocking writer
acquisition (the code re-searches after it), try-acquisitions may fail.  The code executed under a lock between two
accesses to other shared words (my_mask, my_size, my_table, another lock) is one atomic step of the model.

One model step = one of the following accesses of the real code (the labels `Lab` are what the E-SHIM harness
derives from the atomic-access trace): load/store of my_mask, the acquire-load of a bucket's node_list in
bucket_accessor::acquire and in check_rehashing_collision, a completed lock operation on a bucket or element mutex
(acquire / upgrade / downgrade / release), ++my_size (with the linking of the node), --my_size (with the
unlinking), load/CAS/store of my_table[k], destruction of a node.

`my_mask` is kept as its level: `my_mask = 2^lvl - 1` (the code only ever stores `sz - 1` for a power of two `sz`;
the value is compared with the trace on every access).  Bucket of hash `h` at level `l` is `h % 2^l` (`= h & (2^l-1)`).
-/
import TbbVerif.Core.Sched
import TbbVerif.Core.Proto
import TbbVerif.Generated.C10

namespace TbbVerif.C10

/-! ## Code-shaped index arithmetic (tied to the real static helpers by E-PURE, to the level form by Props) -/

/-- `segment_index_of(index) = log2(index | 1)` -/
def segIndexOf (i : Nat) : Nat := Nat.log2 (i ||| 1)

/-- `segment_base(k) = (segment_index_type(1) << k & ~segment_index_type(1))` (64-bit) -/
def segBase (k : Nat) : Nat := (1 <<< k) &&& (2 ^ 64 - 2)

/-- `segment_size(k) = size_type(1) << k` ("fake value for k == 0": segment 0 holds the 2 embedded buckets) -/
def segSize (k : Nat) : Nat := 1 <<< k

/-- number of buckets really held by segment `k` -/
def segCap (k : Nat) : Nat := if k = 0 then Generated.C10.embeddedBuckets else segSize k

/-- `get_bucket(h)`: (segment, offset inside the segment) -/
def bucketAddr (i : Nat) : Nat × Nat := (segIndexOf i, i - segBase (segIndexOf i))

/-- which bucket array `get_bucket(i)` points into and at which offset: 0 = the embedded array, 1 = the single
allocation that backs segments `embedded_block .. first_block-1` (enable_segment stores `ptr - segment_base(embedded_block)
+ segment_base(i)` for them), `k - first_block + 2` = the allocation of segment `k ≥ first_block`. -/
def allocOf (i : Nat) : Nat × Nat :=
  if i < Generated.C10.embeddedBuckets then (0, i)
  else if segIndexOf i < Generated.C10.firstBlock then (1, i - Generated.C10.embeddedBuckets)
  else (segIndexOf i - Generated.C10.firstBlock + 2, i - segBase (segIndexOf i))

/-- number of buckets in allocation `a` -/
def allocSize (a : Nat) : Nat :=
  if a = 0 then Generated.C10.embeddedBuckets
  else if a = 1 then segSize Generated.C10.firstBlock - Generated.C10.embeddedBuckets
  else segSize (a + Generated.C10.firstBlock - 2)

/-- rehash_bucket: `mask = (1 << log2(hash)) - 1`; parent bucket `hash & mask` -/
def parentCode (b : Nat) : Nat := b &&& ((1 <<< Nat.log2 b) - 1)

/-- rehash_bucket: `mask = (mask << 1) | 1`; a node moves iff `(node_hash & mask) == hash` -/
def movesCode (b nodeHash : Nat) : Bool := (nodeHash &&& ((((1 <<< Nat.log2 b) - 1) <<< 1) ||| 1)) == b

/-- the loop of check_rehashing_collision: `for (++m_old; !(h & m_old); m_old <<= 1);` (`bit` = the running `m_old`) -/
def nextBitCode (h : Nat) : Nat → Nat → Nat
  | bit, 0 => bit
  | bit, f + 1 => if h &&& bit ≠ 0 then bit else nextBitCode h (bit <<< 1) f

/-- check_rehashing_collision(h, m_old, m) over mask values; `flagged b` = rehash_required(bucket b) -/
def chkCollCode (flagged : Nat → Bool) (h mOld m : Nat) : Bool :=
  if (h &&& mOld) ≠ (h &&& m) then
    let bit := nextBitCode h (mOld + 1) 64
    let mo := (bit <<< 1) - 1
    !flagged (h &&& mo)
  else false

/-- mask published by enable_segment(k) -/
def lvlAfterEnable (k : Nat) : Nat := if k < Generated.C10.firstBlock then Generated.C10.firstBlock else k + 1

/-! ## Level-shaped arithmetic used by the machine -/

/-- parent of bucket `b` (its index with the top bit cleared) -/
def parentOf (b : Nat) : Nat := b % 2 ^ Nat.log2 b

/-- does a node with hash `nh` move from `parentOf c` into the new bucket `c`? -/
def movesTo (c nh : Nat) : Bool := nh % 2 ^ (Nat.log2 c + 1) == c

/-- least level `l > mo` at which the bucket of `h` differs from its bucket at level `mo` (fuel bounds the search) -/
def nextLvl (h : Nat) : Nat → Nat → Nat
  | mo, 0 => mo + 1
  | mo, f + 1 => if h % 2 ^ (mo + 1) ≠ h % 2 ^ mo then mo + 1 else nextLvl h (mo + 1) f

/-! ## State -/

structure Node where
  id : Nat
  key : Nat
  val : Nat
  deriving Repr, DecidableEq, Inhabited

inductive Bucket where
  | flagged                       -- node_list == rehash_req_flag
  | pending (owner : Tid)         -- flag cleared by `owner` (who write-locks the bucket); keys not yet moved from the parent
  | chain (c : List Node)
  deriving Repr, DecidableEq, Inhabited

def Bucket.isChain : Bucket → Bool
  | .chain _ => true
  | _ => false

def Bucket.isFlagged : Bucket → Bool
  | .flagged => true
  | _ => false

def Bucket.nodes : Bucket → List Node
  | .chain c => c
  | _ => []

/-- a `spin_rw_mutex` as specified by C08: at most one writer, readers only without a writer -/
structure Lock where
  w : Option Tid := none
  r : List Tid := []
  deriving Repr, DecidableEq, Inhabited

def Lock.isFree (l : Lock) : Bool := l.w.isNone && l.r.isEmpty
def Lock.canRead (l : Lock) : Bool := l.w.isNone
def Lock.soleReader (l : Lock) (t : Tid) : Bool := l.w.isNone && l.r == [t]

inductive Seg where
  | none | allocating | enabled
  deriving Repr, DecidableEq, Inhabited

inductive OpK where
  | ins | find | count | erase | exclude | release
  deriving Repr, DecidableEq, Inhabited

/-- `acc`: 0 no accessor, 1 const_accessor, 2 accessor (ins / find only) -/
structure Op where
  k : OpK
  key : Nat := 0
  val : Nat := 0
  acc : Nat := 0
  deriving Repr, DecidableEq, Inhabited

/-- where a thread continues after releasing its bucket lock -/
inductive After where
  | fin | restart | eLock | xUpg
  deriving Repr, DecidableEq, Inhabited

inductive Pc where
  | idle
  | rdMask                 -- m = my_mask.load()
  | peek                   -- bucket_accessor::acquire: node_list.load(acquire) of the target bucket
  | lockTry                -- flag seen: try_acquire(mutex, write = true)
  | mark                   -- rehash_bucket: node_list.store(empty_rehashed_flag) ("mark rehashed")
  | lockBlk                -- acquire(mutex, writer)
  | rhUpg                  -- rehash_bucket: b_old.upgrade_to_writer()
  | rhRelock               -- … its slow path: writer re-acquisition, then `goto restart`
  | rhRel                  -- ~b_old: release the parent bucket
  | upg                    -- lookup<insert>: b.upgrade_to_writer()
  | relock                 -- … slow path: writer re-acquisition, re-search
  | dng                    -- b.downgrade_to_reader() (the key appeared during the upgrade)
  | chk1                   -- check_mask_race: my_mask.load()
  | chk2                   -- check_rehashing_collision: node_list.load() of the next bucket on the hash's path
  | link                   -- insert_new_node: ++my_size, add_to_bucket
  | elect1                 -- my_table[new_seg].load()
  | elect2                 -- my_table[new_seg].compare_exchange_strong(nullptr, is_allocating)
  | elemTry                -- result->try_acquire(n->mutex, write) (or giving up: b.release(), restart)
  | relB (a : After)       -- release of the operation's bucket lock
  | alloc                  -- enable_segment: my_table[k].store(ptr)
  | pubMask                -- enable_segment: my_mask.store(sz - 1)
  | eUpg                   -- internal_erase: b.upgrade_to_writer()
  | eRelock                -- … slow path
  | unlink                 -- remove from the chain, --my_size
  | eLock                  -- item_locker(erase_node->mutex, write = true)
  | eRel                   -- release of the element lock before deletion
  | free                   -- delete_node
  | xUpg                   -- exclude: item_accessor.upgrade_to_writer()
  | xRelock                -- … slow path
  | xRelAcc                -- exclude, node already gone: item_accessor.release()
  deriving Repr, DecidableEq, Inhabited

/-- ghost: one entry per operation at its linearization point -/
structure HEv where
  tid : Tid
  k : OpK
  key : Nat
  ok : Bool
  node : Option Node         -- the node inserted / found / erased (for `exclude`: the accessor's node)
  deriving Repr, DecidableEq, Inhabited

structure Th where
  ops : List Op := []
  pc : Pc := .idle
  h : Nat := 0                          -- hash of the operation's key
  m : Nat := 0                          -- level of the mask snapshot `m`
  mo : Nat := 0                         -- check_mask_race: level of `m_old`
  stk : List (Nat × Bool) := []         -- bucket locks held, innermost first: (bucket, as writer)
  saw : Bool := false
  n : Option Node := none               -- node found / linked / to be erased
  grow : Nat := 0                       -- grow_segment
  acc : Option (Node × Bool) := none    -- accessor held: (node, as writer)
  ret : Bool := false
  rs : Bool := false                    -- internal_erase: contended upgrade, `goto search` after the mask check
  results : List (Bool × Nat) := []     -- newest first
  misuse : Bool := false
  deriving Repr, DecidableEq, Inhabited

structure Sh where
  lvl : Nat := Generated.C10.embeddedBlock           -- my_mask = 2^lvl - 1
  size : Nat := 0
  seg : Nat → Seg := fun k => if k = 0 then .enabled else .none
  bkt : Nat → Bucket := fun b => if b < Generated.C10.embeddedBuckets then .chain [] else .flagged
  blk : Nat → Lock := fun _ => {}
  elk : Node → Lock := fun _ => {}                 -- element mutexes (a node is identified by its (id, key, value))
  freed : Node → Bool := fun _ => false
  unlinker : Node → Option Tid := fun _ => none    -- ghost: who unlinked the node
  nextId : Nat := 0
  hist : List HEv := []                             -- ghost, newest first

structure St where
  sh : Sh := {}
  ths : List Th := []

inductive Lab where
  | none | blocked
  | ldmask (v : Nat) | stmask (v : Nat)
  | ldl (b : Nat) (flagged : Bool) | stl (b : Nat)
  | bl (b : Nat) (w : Bool) | bup (b : Nat) | bdn (b : Nat) | bur (b : Nat) | buw (b : Nat)
  | szinc (v : Nat) | szdec (v : Nat)
  | ldt (k : Nat) (nonnull : Bool) | tcas (k : Nat) (ok : Bool) | tst (k : Nat)
  | el (n : Nat) (w : Bool) | eup (n : Nat) | eur (n : Nat) | euw (n : Nat)
  | free (n : Nat)
  deriving Repr, DecidableEq, Inhabited

/-! ## Helpers -/

def upd {α : Type} (f : Nat → α) (i : Nat) (v : α) : Nat → α := fun j => if j = i then v else f j
def updN {α : Type} (f : Node → α) (i : Node) (v : α) : Node → α := fun j => if j = i then v else f j

def Sh.setB (sh : Sh) (b : Nat) (v : Bucket) : Sh := { sh with bkt := upd sh.bkt b v }
def Sh.setBL (sh : Sh) (b : Nat) (l : Lock) : Sh := { sh with blk := upd sh.blk b l }
def Sh.setEL (sh : Sh) (n : Node) (l : Lock) : Sh := { sh with elk := updN sh.elk n l }
def Sh.chainOf (sh : Sh) (b : Nat) : List Node := (sh.bkt b).nodes
def Sh.log (sh : Sh) (e : HEv) : Sh := { sh with hist := e :: sh.hist }

def Lock.addR (l : Lock) (t : Tid) : Lock := { l with r := t :: l.r }
def Lock.delR (l : Lock) (t : Tid) : Lock := { l with r := l.r.erase t }
def Lock.setW (_ : Lock) (t : Tid) : Lock := { w := some t, r := [] }
def Lock.clrW (l : Lock) : Lock := { l with w := none }

/-- the operation in progress -/
def Th.op (t : Th) : Op := t.ops.head!

/-- bucket the thread is acquiring: the operation's bucket `h & m`, or the parent of the bucket it is rehashing -/
def Th.tgt (t : Th) : Nat :=
  match t.stk with
  | [] => t.h % 2 ^ t.m
  | (c, _) :: _ => parentOf c

def Th.finish (t : Th) (v : Nat := 0) : Th :=
  { t with ops := t.ops.tail, pc := .idle, stk := [], n := none, grow := 0, rs := false,
           results := (t.ret, v) :: t.results }

def Th.drop (t : Th) : Th := { t with ops := t.ops.tail, misuse := true }

/-- value reported with the result: the mapped value behind the accessor the operation returns -/
def Th.resVal (t : Th) : Nat :=
  if t.op.acc = 0 then 0 else match t.acc with | some (n, _) => n.val | none => 0

def findKey (c : List Node) (k : Nat) : Option Node := c.find? (fun n => n.key == k)

abbrev Out := Sh × Th × Lab

/-- where a lookup continues once the node is known and the bucket is held: element lock, or done -/
def afterNode (t : Th) : Th :=
  if t.op.acc = 0 then { t with pc := .relB .fin } else { t with pc := .elemTry }

/-- ghost linearization entry of the current op -/
def Th.ev (t : Th) (tid : Tid) (ok : Bool) (n : Option Node) : HEv :=
  { tid := tid, k := t.op.k, key := (match t.op.k, t.acc with | .exclude, some (a, _) => a.key | _, _ => t.op.key), ok := ok, node := n }

/-- The bucket on top of `stk` has just been acquired and is rehashed: run the code that follows under its lock up to
the next access to another shared word.  Either the move of `rehash_bucket` (when a pending child is below it on the
stack) or the search of the operation. -/
def afterAcq (hash : Nat → Nat) (sh : Sh) (tid : Tid) (t : Th) : Sh × Th :=
  match t.stk with
  | [] => (sh, t)
  | (b, w) :: (c, _) :: _ =>
      let src := sh.chainOf b
      let mv := src.filter (fun n => movesTo c (hash n.key))
      if mv.isEmpty then (sh.setB c (.chain []), { t with pc := .rhRel })
      else if w then
        ((sh.setB b (.chain (src.filter (fun n => !movesTo c (hash n.key))))).setB c (.chain mv.reverse), { t with pc := .rhRel })
      else (sh, { t with pc := .rhUpg })
  | [(b, w)] =>
      let c := sh.chainOf b
      match t.op.k with
      | .ins =>
          match findKey c t.op.key with
          | some n =>
              let t := { t with n := some n, ret := false }
              if t.op.acc = 0 then (sh.log (t.ev tid false (some n)), { t with pc := .relB .fin })
              else (sh, { t with pc := .elemTry })
          | none => if w then (sh, { t with pc := .chk1 }) else (sh, { t with pc := .upg })
      | .find =>
          match findKey c t.op.key with
          | some n => (sh, { t with n := some n, ret := true, pc := .elemTry })
          | none => (sh, { t with pc := .chk1 })
      | .count =>
          match findKey c t.op.key with
          | some n => (sh.log (t.ev tid true (some n)), { t with ret := true, pc := .relB .fin })
          | none => (sh, { t with pc := .chk1 })
      | .erase =>
          match findKey c t.op.key with
          | some n => (sh, { t with n := some n, pc := if w then .unlink else .eUpg })
          | none => (sh, { t with pc := .chk1 })
      | .exclude =>
          match t.n with
          | some n => if n ∈ c then (sh, { t with pc := .unlink }) else (sh, { t with pc := .chk1 })
          | none => (sh, { t with pc := .chk1 })
      | .release => (sh, { t with pc := .relB .fin })      -- unreachable: release takes no bucket lock

/-- check_mask_race returned false: the search result stands. -/
def chkPass (sh : Sh) (tid : Tid) (t : Th) : Sh × Th :=
  match t.op.k with
  | .ins => (sh, { t with pc := .link })
  | .find => (sh.log (t.ev tid false none), { t with ret := false, pc := .relB .fin })
  | .count => (sh.log (t.ev tid false none), { t with ret := false, pc := .relB .fin })
  | .erase =>
      if t.rs then
        match t.stk with
        | [(b, _)] =>
            match findKey (sh.chainOf b) t.op.key with
            | some n => (sh, { t with n := some n, rs := false, pc := .unlink })
            | none => (sh, { t with rs := false, pc := .chk1 })
        | _ => (sh, t)
      else (sh.log (t.ev tid false none), { t with ret := false, pc := .relB .fin })
  | .exclude => (sh.log (t.ev tid false t.n), { t with ret := false, pc := .xRelAcc })
  | .release => (sh, { t with pc := .relB .fin })          -- unreachable

def doRdMask (sh : Sh) (t : Th) : Out :=
  (sh, { t with m := sh.lvl, pc := .peek, stk := [] }, .ldmask (2 ^ sh.lvl - 1))

/-- insert_new_node done (and the election, if any): element lock or release -/
def afterLink (t : Th) : Th := afterNode t

def needsSlot (o : Op) : Bool :=
  match o.k with
  | .ins => o.acc != 0
  | .find => true
  | .erase => true
  | _ => false

/-! ## One step of thread `tid` (`alt` selects among the alternatives the lock abstraction leaves open) -/

def stepTh (hash : Nat → Nat) (sh : Sh) (tid : Tid) (t : Th) (alt : Nat) : Out :=
  match t.pc with
  | .idle =>
      match t.ops with
      | [] => (sh, t, .none)
      | op :: _ =>
        match op.k with
        | .release =>
            match t.acc with
            | none => (sh, t.drop, .none)
            | some (n, w) =>
                let l := sh.elk n
                let t' := ({ t with acc := none, ret := true } : Th).finish
                if w then (sh.setEL n l.clrW, t', .euw n.id) else (sh.setEL n (l.delR tid), t', .eur n.id)
        | .exclude =>
            match t.acc with
            | none => (sh, t.drop, .none)
            | some (n, _) => doRdMask sh { t with h := hash n.key, n := some n, ret := false, grow := 0, rs := false }
        | _ =>
            if needsSlot op && t.acc.isSome then (sh, t.drop, .none)
            else doRdMask sh { t with h := hash op.key, n := none, ret := false, grow := 0, rs := false }
  | .rdMask => doRdMask sh t
  | .peek =>
      let b := t.tgt
      let f := (sh.bkt b).isFlagged
      (sh, { t with saw := f, pc := if f then .lockTry else .lockBlk }, .ldl b f)
  | .lockTry =>
      let b := t.tgt
      if (sh.bkt b).isFlagged then
        -- nobody can hold the lock of a flagged bucket: the try succeeds; the flag is still set: rehash_bucket
        if (sh.blk b).isFree then
          (sh.setBL b ((sh.blk b).setW tid), { t with stk := (b, true) :: t.stk, pc := .mark }, .bl b true)
        else (sh, t, .blocked)
      else if alt = 0 then
        if (sh.blk b).isFree then
          let (sh', t') := afterAcq hash (sh.setBL b ((sh.blk b).setW tid)) tid { t with stk := (b, true) :: t.stk }
          (sh', t', .bl b true)
        else (sh, t, .blocked)
      else (sh, { t with pc := .lockBlk }, .none)
  | .mark =>
      match t.stk with
      | (b, _) :: _ => (sh.setB b (.pending tid), { t with pc := .peek }, .stl b)
      | [] => (sh, t, .none)
  | .lockBlk =>
      let b := t.tgt
      let wantW := t.stk.isEmpty && t.op.k == .exclude
      if wantW then
        if (sh.blk b).isFree then
          let (sh', t') := afterAcq hash (sh.setBL b ((sh.blk b).setW tid)) tid { t with stk := (b, true) :: t.stk }
          (sh', t', .bl b true)
        else (sh, t, .blocked)
      else
        if (sh.blk b).canRead then
          let (sh', t') := afterAcq hash (sh.setBL b ((sh.blk b).addR tid)) tid { t with stk := (b, false) :: t.stk }
          (sh', t', .bl b false)
        else (sh, t, .blocked)
  | .rhUpg =>
      match t.stk with
      | (b, _) :: rest =>
          if alt = 0 then
            if (sh.blk b).soleReader tid then
              let (sh', t') := afterAcq hash (sh.setBL b ((sh.blk b).setW tid)) tid { t with stk := (b, true) :: rest }
              (sh', t', .bup b)
            else (sh, t, .blocked)
          else (sh.setBL b ((sh.blk b).delR tid), { t with stk := rest, pc := .rhRelock }, .bur b)
      | [] => (sh, t, .none)
  | .rhRelock =>
      let b := t.tgt
      if (sh.blk b).isFree then
        let (sh', t') := afterAcq hash (sh.setBL b ((sh.blk b).setW tid)) tid { t with stk := (b, true) :: t.stk }
        (sh', t', .bl b true)
      else (sh, t, .blocked)
  | .rhRel =>
      match t.stk with
      | (b, w) :: rest =>
          let sh1 := if w then sh.setBL b (sh.blk b).clrW else sh.setBL b ((sh.blk b).delR tid)
          let (sh', t') := afterAcq hash sh1 tid { t with stk := rest }
          (sh', t', if w then .buw b else .bur b)
      | [] => (sh, t, .none)
  | .upg =>
      match t.stk with
      | [(b, _)] =>
          if alt = 0 then
            if (sh.blk b).soleReader tid then (sh.setBL b ((sh.blk b).setW tid), { t with stk := [(b, true)], pc := .chk1 }, .bup b)
            else (sh, t, .blocked)
          else (sh.setBL b ((sh.blk b).delR tid), { t with stk := [], pc := .relock }, .bur b)
      | _ => (sh, t, .none)
  | .relock =>
      let b := t.tgt
      if (sh.blk b).isFree then
        let sh' := sh.setBL b ((sh.blk b).setW tid)
        let t' := { t with stk := [(b, true)] }
        match findKey (sh.chainOf b) t.op.key with
        | some n => (sh', { t' with n := some n, pc := .dng }, .bl b true)
        | none => (sh', { t' with pc := .chk1 }, .bl b true)
      else (sh, t, .blocked)
  | .dng =>
      match t.stk with
      | [(b, _)] =>
          let sh' := sh.setBL b { w := none, r := [tid] }
          let t' := { t with stk := [(b, false)], ret := false }
          if t.op.acc = 0 then (sh'.log (t.ev tid false t.n), { t' with pc := .relB .fin }, .bdn b)
          else (sh', { t' with pc := .elemTry }, .bdn b)
      | _ => (sh, t, .none)
  | .chk1 =>
      let mn := sh.lvl
      if mn = t.m then
        let (sh', t') := chkPass sh tid t
        (sh', t', .ldmask (2 ^ mn - 1))
      else
        let t1 := { t with mo := t.m, m := mn }
        if t.h % 2 ^ t.m ≠ t.h % 2 ^ mn then (sh, { t1 with pc := .chk2 }, .ldmask (2 ^ mn - 1))
        else
          let (sh', t') := chkPass sh tid t1
          (sh', t', .ldmask (2 ^ mn - 1))
  | .chk2 =>
      let c := t.h % 2 ^ nextLvl t.h t.mo (t.m - t.mo)
      let f := (sh.bkt c).isFlagged
      if f then
        let (sh', t') := chkPass sh tid t
        (sh', t', .ldl c true)
      else (sh, { t with pc := .relB .restart }, .ldl c false)
  | .link =>
      match t.stk with
      | [(b, _)] =>
          let nd : Node := { id := sh.nextId, key := t.op.key, val := t.op.val }
          let t1 := { t with n := some nd, ret := true }
          let sh1 := ({ sh with size := sh.size + 1, nextId := sh.nextId + 1 }.setB b (.chain (nd :: sh.chainOf b))).log (t.ev tid true (some nd))
          if sh.size + 1 ≥ 2 ^ t.m - 1 then (sh1, { t1 with pc := .elect1 }, .szinc (sh.size + 1))
          else (sh1, afterLink t1, .szinc (sh.size + 1))
      | _ => (sh, t, .none)
  | .elect1 =>
      let k := t.m
      if sh.seg k = .none then (sh, { t with pc := .elect2 }, .ldt k false)
      else (sh, afterLink { t with grow := 0 }, .ldt k true)
  | .elect2 =>
      let k := t.m
      if sh.seg k = .none then ({ sh with seg := upd sh.seg k .allocating }, afterLink { t with grow := k }, .tcas k true)
      else (sh, afterLink { t with grow := 0 }, .tcas k false)
  | .elemTry =>
      match t.n, t.stk with
      | some n, [(b, w)] =>
          if alt = 0 then
            let l := sh.elk n
            let wantW := t.op.acc = 2
            let ok := if wantW then l.isFree else l.canRead
            if ok then
              let sh1 := sh.setEL n (if wantW then l.setW tid else l.addR tid)
              let sh2 := if t.ret && t.op.k == .ins then sh1 else sh1.log (t.ev tid t.ret (some n))
              (sh2, { t with acc := some (n, wantW), pc := .relB .fin }, .el n.id wantW)
            else (sh, t, .blocked)
          else if t.ret && t.op.k == .ins then
            -- "Can't acquire new item in locked bucket?": the element lock of a node this call has just linked is free
            (sh, t, .blocked)
          else
            -- the wait takes really long: b.release(), restart the operation with a fresh mask
            let sh1 := if w then sh.setBL b (sh.blk b).clrW else sh.setBL b ((sh.blk b).delR tid)
            (sh1, { t with stk := [], pc := .rdMask }, if w then .buw b else .bur b)
      | _, _ => (sh, t, .none)
  | .relB a =>
      match t.stk with
      | [(b, w)] =>
          let sh1 := if w then sh.setBL b (sh.blk b).clrW else sh.setBL b ((sh.blk b).delR tid)
          let lab := if w then Lab.buw b else Lab.bur b
          let t1 := { t with stk := [] }
          match a with
          | .fin =>
              if t.grow ≠ 0 then (sh1, { t1 with pc := .alloc }, lab)
              else (sh1, t1.finish t.resVal, lab)
          | .restart => (sh1, { t1 with pc := .peek, rs := false }, lab)
          | .eLock => (sh1, { t1 with pc := .eLock }, lab)
          | .xUpg =>
              match t.acc with
              | some (_, true) => (sh1, { t1 with pc := .eRel }, lab)
              | _ => (sh1, { t1 with pc := .xUpg }, lab)
      | _ => (sh, t, .none)
  | .alloc =>
      let k := t.grow
      let seg' := if k < Generated.C10.firstBlock then (fun j => if 1 ≤ j ∧ j < Generated.C10.firstBlock then Seg.enabled else sh.seg j) else upd sh.seg k .enabled
      ({ sh with seg := seg' }, { t with pc := .pubMask }, .tst k)
  | .pubMask =>
      let l := lvlAfterEnable t.grow
      ({ sh with lvl := l }, t.finish t.resVal, .stmask (2 ^ l - 1))
  | .eUpg =>
      match t.stk with
      | [(b, _)] =>
          if alt = 0 then
            if (sh.blk b).soleReader tid then (sh.setBL b ((sh.blk b).setW tid), { t with stk := [(b, true)], pc := .unlink }, .bup b)
            else (sh, t, .blocked)
          else (sh.setBL b ((sh.blk b).delR tid), { t with stk := [], pc := .eRelock }, .bur b)
      | _ => (sh, t, .none)
  | .eRelock =>
      let b := t.tgt
      if (sh.blk b).isFree then
        (sh.setBL b ((sh.blk b).setW tid), { t with stk := [(b, true)], rs := true, pc := .chk1 }, .bl b true)
      else (sh, t, .blocked)
  | .unlink =>
      match t.n, t.stk with
      | some n, [(b, _)] =>
          let sh1 := ({ sh with size := sh.size - 1, unlinker := updN sh.unlinker n (some tid) }.setB b (.chain ((sh.chainOf b).erase n))).log (t.ev tid true (some n))
          (sh1, { t with ret := true, pc := .relB (if t.op.k == .exclude then .xUpg else .eLock) }, .szdec (sh.size - 1))
      | _, _ => (sh, t, .none)
  | .eLock =>
      match t.n with
      | some n =>
          if (sh.elk n).isFree then (sh.setEL n ((sh.elk n).setW tid), { t with pc := .eRel }, .el n.id true)
          else (sh, t, .blocked)
      | none => (sh, t, .none)
  | .eRel =>
      match t.n with
      | some n => (sh.setEL n (sh.elk n).clrW, { t with acc := (if t.op.k == .exclude then none else t.acc), pc := .free }, .euw n.id)
      | none => (sh, t, .none)
  | .free =>
      match t.n with
      | some n => ({ sh with freed := updN sh.freed n true }, t.finish, .free n.id)
      | none => (sh, t, .none)
  | .xUpg =>
      match t.n with
      | some n =>
          if alt = 0 then
            if (sh.elk n).soleReader tid then (sh.setEL n ((sh.elk n).setW tid), { t with acc := some (n, true), pc := .eRel }, .eup n.id)
            else (sh, t, .blocked)
          else (sh.setEL n ((sh.elk n).delR tid), { t with acc := none, pc := .xRelock }, .eur n.id)
      | none => (sh, t, .none)
  | .xRelock =>
      match t.n with
      | some n =>
          if (sh.elk n).isFree then (sh.setEL n ((sh.elk n).setW tid), { t with acc := some (n, true), pc := .eRel }, .el n.id true)
          else (sh, t, .blocked)
      | none => (sh, t, .none)
  | .xRelAcc =>
      match t.acc with
      | some (n, w) =>
          let l := sh.elk n
          let sh1 := if w then sh.setEL n l.clrW else sh.setEL n (l.delR tid)
          (sh1, { t with acc := none, pc := .relB .fin }, if w then .euw n.id else .eur n.id)
      | none => (sh, t, .none)

/-- A scheduling decision: which thread moves, and which alternative it takes where the lock abstraction leaves a
choice (0: the lock operation succeeds in place / is attempted; ≠ 0: try fails, upgrade releases, waiter gives up). -/
structure Act where
  tid : Tid
  alt : Nat := 0
  deriving Repr, DecidableEq, Inhabited

def step (hash : Nat → Nat) (st : St) (a : Act) : St :=
  match st.ths[a.tid]? with
  | none => st
  | some t =>
    let (sh', t', _) := stepTh hash st.sh a.tid t a.alt
    { sh := sh', ths := st.ths.set a.tid t' }

def labOf (hash : Nat → Nat) (st : St) (a : Act) : Lab :=
  match st.ths[a.tid]? with
  | none => .none
  | some t => (stepTh hash st.sh a.tid t a.alt).2.2

def initSt (progs : List (List Op)) : St := { ths := progs.map (fun p => { ops := p }) }

def runFrom (hash : Nat → Nat) (st : St) (sched : List Act) : St := sched.foldl (step hash) st

def run (hash : Nat → Nat) (progs : List (List Op)) (sched : List Act) : St := runFrom hash (initSt progs) sched

/-! ## What the table contains (abstraction function) -/

/-- `homeAt bkt h j`: the bucket of hash `h` at the highest level `≤ j + 1` whose bucket is a chain. -/
def homeAt (bkt : Nat → Bucket) (h : Nat) : Nat → Nat
  | 0 => h % 2
  | j + 1 => if (bkt (h % 2 ^ (j + 2))).isChain then h % 2 ^ (j + 2) else homeAt bkt h j

/-- the bucket in which a key with hash `h` lives, if it is present -/
def Sh.home (sh : Sh) (h : Nat) : Nat := homeAt sh.bkt h (sh.lvl - 1)

/-- the sequential map the table represents -/
def Sh.present (hash : Nat → Nat) (sh : Sh) (k : Nat) : Option Node := findKey (sh.chainOf (sh.home (hash k))) k

/-! ## Sequential specification `Key → Option Node` and legality of a linearization -/

abbrev Spec := Nat → Option Node

/-- effect of one linearized operation on the sequential map, `none` if its result is not the sequential one -/
def specStep (s : Spec) (e : HEv) : Option Spec :=
  match e.k with
  | .ins =>
      match s e.key, e.ok, e.node with
      | none, true, some n => if n.key = e.key then some (upd s e.key (some n)) else none
      | some n', false, some n => if n' = n then some s else none
      | _, _, _ => none
  | .find | .count =>
      match s e.key, e.ok, e.node with
      | none, false, none => some s
      | some n', true, some n => if n' = n then some s else none
      | _, _, _ => none
  | .erase =>
      match s e.key, e.ok, e.node with
      | none, false, none => some s
      | some n', true, some n => if n' = n then some (upd s e.key none) else none
      | _, _, _ => none
  | .exclude =>
      match e.node with
      | some n =>
          if n.key = e.key then
            if s e.key = some n then (if e.ok then some (upd s e.key none) else none)
            else (if e.ok then none else some s)
          else none
      | none => none
  | .release => some s

def specRun (s : Spec) : List HEv → Option Spec
  | [] => some s
  | e :: es => match specStep s e with
    | some s' => specRun s' es
    | none => none


/-! ## Executable mirror of the inductive invariant of Proofs/C10/Inv.lean (bounded quantifiers), run on every state of
the replayed traces: a wrong invariant shows up here before anybody tries to prove it. -/

def Lock.wfB (l : Lock) : Bool := l.w.isNone || l.r.isEmpty

def holdsBB (sh : Sh) (tid : Tid) (f : Nat × Bool) : Bool :=
  if f.2 then (sh.blk f.1).w == some tid else (sh.blk f.1).r.contains tid

def aboveNCB (sh : Sh) (h b : Nat) : Bool :=
  (List.range (sh.lvl + 3)).all (fun l => !(b < h % 2 ^ l) || !(sh.bkt (h % 2 ^ l)).isChain)

def homeIsB (sh : Sh) (h b : Nat) : Bool :=
  (List.range (sh.lvl + 1)).any (fun l => b == h % 2 ^ l) && (sh.bkt b).isChain && aboveNCB sh h b

def linkedToB (h m c : Nat) : List (Nat × Bool) → Bool
  | [] => c == h % 2 ^ m
  | (d, _) :: _ => c == parentOf d

def rhStackB (sh : Sh) (tid : Tid) (h m : Nat) : List (Nat × Bool) → Bool
  | [] => true
  | (c, _) :: rest => sh.bkt c == .pending tid && 2 ≤ c && linkedToB h m c rest && rhStackB sh tid h m rest

def notFoundB (sh : Sh) (t : Th) (b : Nat) : Bool :=
  match t.op.k with
  | .exclude => match t.n with | some n => !(sh.chainOf b).contains n | none => true
  | _ => (findKey (sh.chainOf b) t.op.key).isNone

def foundB (sh : Sh) (t : Th) (b : Nat) : Bool :=
  match t.n with
  | some n => (sh.chainOf b).contains n && (t.op.k == .exclude || n.key == t.op.key)
  | none => false

def unlinkedB (sh : Sh) (tid : Tid) (t : Th) : Bool :=
  match t.n with
  | some n => sh.unlinker n == some tid && (List.range (2 ^ (sh.lvl + 1))).all (fun b => !(sh.chainOf b).contains n) && !sh.freed n
  | none => false

def opFrameB (sh : Sh) (t : Th) (b : Nat) : Bool :=
  (sh.bkt b).isChain && (List.range (sh.lvl + 1)).any (fun l => b == t.h % 2 ^ l)

def cAtB (sh : Sh) (tid : Tid) (t : Th) : Bool :=
  match t.pc, t.stk with
  | .idle, _ | .rdMask, _ | .alloc, _ | .pubMask, _ => t.stk.isEmpty
  | .peek, s | .lockTry, s => rhStackB sh tid t.h t.m s && s.all (·.2)
  | .lockBlk, s => rhStackB sh tid t.h t.m s && s.all (·.2) && !(sh.bkt t.tgt).isFlagged
  | .mark, (b, true) :: rest => sh.bkt b == .flagged && 2 ≤ b && linkedToB t.h t.m b rest && rhStackB sh tid t.h t.m rest
  | .rhUpg, (p, false) :: rest => !rest.isEmpty && (sh.bkt p).isChain && linkedToB t.h t.m p rest && rhStackB sh tid t.h t.m rest
  | .rhRelock, s => !s.isEmpty && rhStackB sh tid t.h t.m s && (sh.bkt t.tgt).isChain
  | .rhRel, (p, _) :: (c, true) :: rest => (sh.bkt p).isChain && (sh.bkt c).isChain && 2 ≤ c && p == parentOf c && linkedToB t.h t.m c rest && rhStackB sh tid t.h t.m rest
  | .upg, [(b, false)] => opFrameB sh t b && b == t.h % 2 ^ t.m && notFoundB sh t b
  | .relock, [] | .eRelock, [] => (sh.bkt (t.h % 2 ^ t.m)).isChain
  | .dng, [(b, true)] => opFrameB sh t b && foundB sh t b
  | .chk1, [(b, w)] => opFrameB sh t b && (b == t.h % 2 ^ t.m || (w && aboveNCB sh t.h b)) && (t.rs || notFoundB sh t b) && (!t.rs || (w && t.op.k == .erase)) && (t.op.k != .ins || w)
  | .chk2, [(b, w)] => opFrameB sh t b && (b == t.h % 2 ^ t.mo || (w && aboveNCB sh t.h b)) && t.mo < t.m && t.h % 2 ^ t.mo != t.h % 2 ^ t.m && (t.rs || notFoundB sh t b) && (!t.rs || (w && t.op.k == .erase)) && (t.op.k != .ins || w)
  | .link, [(b, true)] => opFrameB sh t b && notFoundB sh t b && aboveNCB sh t.h b
  | .elect1, [(b, true)] | .elect2, [(b, true)] => opFrameB sh t b && foundB sh t b
  | .elemTry, [(b, _)] => opFrameB sh t b && foundB sh t b
  | .relB a, [(b, _)] => opFrameB sh t b && (!(a == .eLock || a == .xUpg) || unlinkedB sh tid t)
  | .eUpg, [(b, false)] => opFrameB sh t b && b == t.h % 2 ^ t.m && foundB sh t b
  | .unlink, [(b, true)] => opFrameB sh t b && foundB sh t b
  | .eLock, [] | .xUpg, [] | .xRelock, [] => unlinkedB sh tid t
  | .eRel, [] => unlinkedB sh tid t && (match t.n with | some n => (sh.elk n).w == some tid | none => false)
  | .free, [] => unlinkedB sh tid t && (match t.n with | some n => (sh.elk n).isFree | none => false)
  | .xRelAcc, [(b, _)] => opFrameB sh t b
  | _, _ => false

def kAtB (t : Th) : Bool :=
  let accN (wantW : Option Bool) : Bool := match t.n, t.acc with
    | some n, some (a, w) => n == a && (match wantW with | some x => w == x | none => true)
    | _, _ => false
  match t.pc with
  | .idle => true
  | .upg | .relock | .dng | .link | .elect1 | .elect2 | .alloc | .pubMask => t.op.k == .ins
  | .eUpg | .eRelock | .eLock | .relB .eLock => t.op.k == .erase
  | .xRelock => t.op.k == .exclude && t.acc.isNone
  | .xUpg => t.op.k == .exclude && accN (some false)
  | .relB .xUpg | .xRelAcc => t.op.k == .exclude && accN none
  | .unlink => t.op.k == .erase || (t.op.k == .exclude && accN none)
  | .eRel => t.op.k == .erase || (t.op.k == .exclude && accN (some true))
  | .free => t.op.k == .erase || (t.op.k == .exclude && t.acc.isNone)
  | .elemTry => t.op.k == .find || (t.op.k == .ins && t.op.acc != 0)
  | .relB .fin => t.op.k != .release
  | _ => t.op.k != .release && (t.op.k != .exclude || accN none)

def growAtB (sh : Sh) (t : Th) : Bool :=
  t.m ≤ sh.lvl &&
  (t.grow == 0 || (t.grow == sh.lvl && sh.seg sh.lvl != .none && (t.pc == .elemTry || t.pc == .relB .fin || t.pc == .alloc || t.pc == .pubMask) && t.ret && t.op.k == .ins)) &&
  (t.pc != .alloc || t.grow != 0) &&
  (t.pc != .pubMask || (t.grow != 0 && (List.range (lvlAfterEnable t.grow)).all (fun k => k == 0 || sh.seg k != .none)))

def checkInv (hash : Nat → Nat) (st : St) : Option String :=
  let sh := st.sh
  let nb := 2 ^ (sh.lvl + 1)
  let bs := List.range nb
  let fails : List String :=
    (if 1 ≤ sh.lvl then [] else ["lvl_pos"]) ++
    (if (sh.bkt 0).isChain && (sh.bkt 1).isChain then [] else ["emb"]) ++
    (if (List.range (2 ^ sh.lvl)).all (fun i => sh.bkt (2 ^ sh.lvl + i) == .flagged) then [] else ["top"]) ++
    (if bs.all (fun b => b < 2 || !(sh.bkt b).isChain || (sh.bkt (parentOf b)).isChain) then [] else ["closed"]) ++
    (if bs.all (fun b => (sh.chainOf b).all (fun n => homeIsB sh (hash n.key) b)) then [] else ["home"]) ++
    (if bs.all (fun b => let ks := ((sh.chainOf b).map (·.key)).toArray.qsort (· < ·); (List.range (ks.size - 1)).all (fun i => ks[i]! != ks[i + 1]!)) then [] else ["nodup"]) ++
    (if bs.all (fun b => (sh.blk b).wfB) then [] else ["bwf"]) ++
    (if bs.all (fun b => match sh.bkt b with | .pending t => (sh.blk b).w == some t | _ => true) then [] else ["pend"]) ++
    (if bs.all (fun b => (sh.chainOf b).all (fun n => n.id < sh.nextId && (sh.elk n).wfB && !sh.freed n && sh.unlinker n == none)) then [] else ["fresh/ewf/linkedOk"]) ++
    (if (List.range sh.lvl).all (fun k => k == 0 || sh.seg k != .none) then [] else ["seg_lo"]) ++
    (if ((st.ths.filter (fun t => t.grow != 0)).length ≤ 1) then [] else ["grow1"]) ++
    ((st.ths.zipIdx).foldl (fun acc (t, tid) =>
      acc ++ (if cAtB sh tid t then [] else [s!"CAt t{tid} {repr t.pc}"])
          ++ (if kAtB t then [] else [s!"KAt t{tid} {repr t.pc}"])
          ++ (if t.stk.all (holdsBB sh tid) then [] else [s!"heldB t{tid}"])
          ++ (if (match t.acc with | some (n, w) => (if w then (sh.elk n).w == some tid else (sh.elk n).r.contains tid) && !sh.freed n && n.id < sh.nextId | none => true) then [] else [s!"heldE t{tid}"])
          ++ (if (match t.n with | some n => decide (n.id < sh.nextId) | none => true) then [] else [s!"nodeId t{tid}"])
          ++ (if t.pc == .idle || t.op.k == .exclude || t.h == hash t.op.key then [] else [s!"hOk t{tid}"])
          ++ (if !(needsSlot t.op) || t.pc == .idle || t.pc == .relB .fin || t.pc == .alloc || t.pc == .pubMask || t.acc.isNone then [] else [s!"accNone t{tid} {repr t.pc}"])
          ++ (if t.pc == .idle || t.op.k != .exclude || t.pc == .xRelock || t.pc == .free || t.pc == .relB .fin || t.pc == .eRel ||
                (match t.n with | some n => t.h == hash n.key | none => false) then [] else [s!"exH t{tid} {repr t.pc}"])
          ++ (if !t.rs || t.pc == .chk1 || t.pc == .chk2 || t.pc == .relB .restart then [] else [s!"rsOk t{tid} {repr t.pc}"])
          ++ (if growAtB sh t then [] else [s!"GrowAt t{tid} {repr t.pc}"])) [])
  if fails.isEmpty then none else some (" ".intercalate fails)

/-! ## Line-protocol driver: replay of the abstract event trace of the real code (E-SHIM), pure functions (E-PURE) -/

open Proto

def hashFn (mode par : Nat) (k : Nat) : Nat :=
  match mode with
  | 0 => k
  | 1 => par
  | 2 => (k <<< par) % 2 ^ 64
  | 3 => (k * par) % 2 ^ 64
  | 4 => (k % 2 ^ par) ||| (((k >>> par) <<< 20) % 2 ^ 64)
  | _ => k

structure DSt where
  st : St := {}
  mode : Nat := 0
  par : Nat := 0
  bound : Nat := 2          -- buckets/nodes below this index are materialised by `compact`
  saved : Option (St × Nat) := none
  chkInv : Bool := false    -- evaluate `checkInv` after every replayed event
  tolerated : Nat := 0      -- unmatched loads skipped

def parseOp (w : String) : Option Op :=
  match w.splitOn ":" with
  | [k] =>
      match k with
      | "x" => some { k := .exclude }
      | "r" => some { k := .release }
      | _ => none
  | [k, key, val] =>
      match nat? key, nat? val with
      | some key, some val =>
        match k with
        | "i" | "p" => some { k := .ins, key, val, acc := 0 }
        | "ir" | "pr" => some { k := .ins, key, val, acc := 1 }
        | "iw" | "pw" => some { k := .ins, key, val, acc := 2 }
        | "fr" => some { k := .find, key, acc := 1 }
        | "fw" => some { k := .find, key, acc := 2 }
        | "c" => some { k := .count, key }
        | "e" => some { k := .erase, key }
        | _ => none
      | _, _ => none
  | _ => none

def showLab : Lab → String
  | .none => "-" | .blocked => "blocked"
  | .ldmask v => s!"ldmask {v}" | .stmask v => s!"stmask {v}"
  | .ldl b f => s!"ldl {b} {showBool f}" | .stl b => s!"stl {b}"
  | .bl b w => s!"bl {b} {if w then "W" else "R"}" | .bup b => s!"bup {b}" | .bdn b => s!"bdn {b}"
  | .bur b => s!"bur {b}" | .buw b => s!"buw {b}"
  | .szinc v => s!"szinc {v}" | .szdec v => s!"szdec {v}"
  | .ldt k n => s!"ldt {k} {showBool n}" | .tcas k ok => s!"tcas {k} {showBool ok}" | .tst k => s!"tst {k}"
  | .el n w => s!"el {n} {if w then "W" else "R"}" | .eup n => s!"eup {n}" | .eur n => s!"eur {n}" | .euw n => s!"euw {n}"
  | .free n => s!"free {n}"

/-- materialise the function-valued state components below `bound` (extensionally the identity; keeps replay fast) -/
def compact (sh : Sh) (_bound : Nat) : Sh :=
  let nb := 2 ^ (sh.lvl + 1)
  let ab := (Array.range nb).map sh.bkt
  let al := (Array.range nb).map sh.blk
  let asg := (Array.range 64).map sh.seg
  { sh with
    bkt := fun i => if h : i < ab.size then ab[i] else .flagged
    blk := fun i => if h : i < al.size then al[i] else {}
    seg := fun i => if h : i < asg.size then asg[i] else .none }

/-- run thread 0 of a one-thread state to completion (sequential pre-population) -/
def runSeq (hash : Nat → Nat) (st : St) : Nat → St
  | 0 => st
  | f + 1 =>
    match st.ths[0]? with
    | some t => if t.ops.isEmpty && t.pc == .idle then st else runSeq hash (step hash st { tid := 0 }) f
    | none => st

def expectsLdl (t : Th) : Bool := t.pc == .peek || t.pc == .chk2
def expectsLdt (t : Th) : Bool := t.pc == .elect1
def expectsTst (t : Th) : Bool := t.pc == .alloc

def showChain (c : List Node) : String := ",".intercalate (c.map (fun n => toString n.id))

/-- compare a white-box snapshot of the real table with the model: mask, size, and the chain (node ids, in order) of
every bucket no thread of the model write-locks (a write-locked bucket is in the middle of a critical section). -/
def checkSnap (sh : Sh) (ws : List String) : String :=
  match ws with
  | mask :: size :: chains =>
      if nat? mask ≠ some (2 ^ sh.lvl - 1) then s!"MISMATCH snap mask impl={mask} model={2 ^ sh.lvl - 1}"
      else if nat? size ≠ some sh.size then s!"MISMATCH snap size impl={size} model={sh.size}"
      else
        let listed := chains.filterMap (fun w => match w.splitOn ":" with
          | [b, c] => (nat? b).map (fun b => (b, c))
          | _ => none)
        let bad := listed.filter (fun (b, c) =>
          (sh.blk b).w.isNone && !((sh.bkt b).isChain && showChain (sh.chainOf b) == c))
        let missing := (List.range (2 ^ sh.lvl)).filter (fun b =>
          (sh.blk b).w.isNone && !(sh.bkt b).isFlagged && !(listed.any (fun p => p.1 == b)))
        match bad, missing with
        | (b, c) :: _, _ => s!"MISMATCH snap bucket {b} impl=[{c}] model={if (sh.bkt b).isChain then "[" ++ showChain (sh.chainOf b) ++ "]" else "flagged"}"
        | [], b :: _ => s!"MISMATCH snap bucket {b} impl=flagged model=[{showChain (sh.chainOf b)}]"
        | [], [] => "ok"
  | _ => "bad-op"

def altFor (t : Th) (lab : List String) : Nat :=
  match t.pc, lab with
  | .rhUpg, "bur" :: _ => 1
  | .upg, "bur" :: _ => 1
  | .eUpg, "bur" :: _ => 1
  | .xUpg, "eur" :: _ => 1
  | .elemTry, "bur" :: _ => 1
  | .elemTry, "buw" :: _ => 1
  | _, _ => 0

def driveEv (d : DSt) (tid : Nat) (lab : List String) : DSt × String :=
  let hash := hashFn d.mode d.par
  match d.st.ths[tid]? with
  | none => (d, "bad-tid")
  | some t =>
    match lab with
    | "begin" :: k :: _ =>
        if t.pc != .idle then (d, s!"MISMATCH begin of {k} while the model thread is inside an operation")
        else (d, "ok")
    | ["end", r, v] =>
        if t.pc != .idle then (d, s!"MISMATCH end while the model thread is at {repr t.pc}")
        else match t.results with
          | (ok, val) :: _ =>
              if showBool ok == r && toString val == v then (d, "ok") else (d, s!"MISMATCH result impl={r},{v} model={showBool ok},{val}")
          | [] => (d, "MISMATCH end without a model result")
    | "snap" :: rest => (d, checkSnap d.st.sh rest)
    | k :: _ =>
        if (k == "ldl" && !expectsLdl t) || (k == "ldt" && !expectsLdt t) || (k == "tst" && !expectsTst t) then
          ({ d with tolerated := d.tolerated + 1 }, "skip")
        else
          -- a failed try_acquire(write) of a flagged-when-peeked bucket is silent in the trace: the reader acquisition
          -- that follows tells
          let (st0, t0) :=
            if t.pc == .lockTry && !(lab.take 1 == ["bl"] && lab.drop 2 == ["W"]) then
              let s := step hash d.st { tid := tid, alt := 1 }
              (s, s.ths[tid]?.getD t)
            else (d.st, t)
          let a : Act := { tid := tid, alt := altFor t0 lab }
          let got := showLab (labOf hash st0 a)
          let st1 := step hash st0 a
          let nid := st1.sh.nextId + 1
          let d1 := { d with st := st1, bound := max d.bound nid }
          let invFail := if d.chkInv then checkInv hash st1 else none
          if let some f := invFail then (d1, s!"MISMATCH invariant fails after `{" ".intercalate lab}`: {f}")
          else if got == " ".intercalate lab then (d1, "ok")
          else (d1, s!"MISMATCH impl={" ".intercalate lab} model={got} pc={repr t0.pc}")
    | [] => (d, "bad-op")

def showFinal (hash : Nat → Nat) (sh : Sh) : String :=
  let nodes := (List.range (2 ^ sh.lvl)).foldl (fun acc b => acc ++ sh.chainOf b) []
  let sorted := nodes.toArray.qsort (fun a b => a.key < b.key) |>.toList
  let wrong := sorted.filter (fun n => sh.present hash n.key != some n)
  let body := " ".intercalate (sorted.map (fun n => s!"{n.key}:{n.val}"))
  s!"final {sh.size}{if body.isEmpty then "" else " " ++ body}{if wrong.isEmpty then "" else " NOT-AT-HOME"}"

def drive (d : DSt) (ws : List String) : DSt × String :=
  let hash := hashFn d.mode d.par
  match ws with
  | ["reset"] => ({}, "ok")
  | ["inv", x] => ({ d with chkInv := x == "1" }, "ok")
  | ["invnow"] => (d, (checkInv hash d.st).getD "holds")
  | ["save"] => ({ d with saved := some (d.st, d.bound) }, "ok")
  | ["restore"] =>
      match d.saved with
      | some (st, b) => ({ d with st := st, bound := b, tolerated := 0 }, match (if d.chkInv then checkInv hash st else none) with | some f => s!"MISMATCH invariant fails after pre-population: {f}" | none => "ok")
      | none => (d, "bad-op")
  | "hash" :: md :: rest =>
      let mode := match md with | "id" => 0 | "const" => 1 | "shl" => 2 | "mul" => 3 | "fold" => 4 | _ => 0
      ({ d with mode := mode, par := (rest.head?.bind nat?).getD 0 }, "ok")
  | "pre" :: ks =>
      match nats? ks with
      | some ks =>
          -- each insert through an accessor, as the harness does; released before the next one
          let st1 : St := { sh := d.st.sh, ths := [{ ops := (ks.map (fun k => [({ k := .ins, key := k, val := k, acc := 2 } : Op), { k := .release }])).flatten }] }
          let st2 := runSeq hash st1 (ks.length * 200 + 200)
          let sh := compact st2.sh (st2.sh.nextId + 1)
          ({ d with st := { sh := sh, ths := [] }, bound := sh.nextId + 1 }, s!"ok {sh.size}")
      | none => (d, "bad-op")
  | "prog" :: ops =>
      match ops.mapM parseOp with
      | some os => ({ d with st := { d.st with ths := d.st.ths ++ [{ ops := os }] } }, "ok")
      | none => (d, "bad-op")
  | "ev" :: t :: lab =>
      match nat? t with
      | some t =>
          let (d1, o) := driveEv d t lab
          (if o == "ok" && (lab.head? == some "snap") then { d1 with st := { d1.st with sh := compact d1.st.sh d1.bound } } else d1, o)
      | none => (d, "bad-op")
  | ["final"] => (d, showFinal hash d.st.sh)
  | ["idle"] =>
      let busy := d.st.ths.filter (fun t => !(t.ops.isEmpty && t.pc == .idle))
      let held := (List.range (2 ^ d.st.sh.lvl)).filter (fun b => !(d.st.sh.blk b).isFree)
      (d, if busy.isEmpty && held.isEmpty then s!"ok tolerated={d.tolerated}" else s!"MISMATCH at the end of the trace {busy.length} model threads are inside an operation, {held.length} bucket locks held")
  -- E-PURE
  | ["seg", i] =>
      match nat? i with
      | some i => (d, s!"{segIndexOf i} {segBase (segIndexOf i)} {(bucketAddr i).2} {segSize (segIndexOf i)}")
      | none => (d, "bad-op")
  | ["addr", i] =>
      match nat? i with
      | some i => if i < 2 ^ 12 then (d, s!"{(allocOf i).1} {(allocOf i).2}") else (d, "bad-op")
      | none => (d, "bad-op")
  | ["par", b, h] =>
      match nat? b, nat? h with
      | some b, some h => (d, s!"{parentCode b} {parentOf b} {showBool (movesCode b h)} {showBool (movesTo b h)}")
      | _, _ => (d, "bad-op")
  | ["chk", h, lo, lm, c] =>
      -- check_rehashing_collision(h, 2^lo-1, 2^lm-1) when exactly bucket c is flagged / when no bucket is flagged;
      -- code-shaped and level-shaped answers
      match nat? h, nat? lo, nat? lm, nat? c with
      | some h, some lo, some lm, some c =>
          if lm > 12 || lo ≥ lm || c ≥ 2 ^ 12 then (d, "bad-op") else
          let code1 := chkCollCode (fun b => b == c) h (2 ^ lo - 1) (2 ^ lm - 1)
          let code0 := chkCollCode (fun _ => false) h (2 ^ lo - 1) (2 ^ lm - 1)
          let lv (fl : Nat → Bool) : Bool := h % 2 ^ lo != h % 2 ^ lm && !fl (h % 2 ^ nextLvl h lo (lm - lo))
          (d, s!"{showBool code1} {showBool code0} {showBool (lv (fun b => b == c))} {showBool (lv (fun _ => false))} {h % 2 ^ nextLvl h lo (lm - lo)}")
      | _, _, _, _ => (d, "bad-op")
  | ["grow", k] =>
      match nat? k with
      | some k =>
          if k < 1 || k > 14 || (k > 1 && k < Generated.C10.firstBlock) then (d, "bad-op")
          else (d, s!"{2 ^ lvlAfterEnable k - 1}")
      | none => (d, "bad-op")
  | _ => (d, "bad-op")

def driver : Proto.Driver := { σ := DSt, init := {}, step := drive }

end TbbVerif.C10
