/-
C18 — tbbmalloc argument / overflow guards and the pool ledger (executable model, core Lean only).

Every guard is the *generated* translation of the current source text (`Generated/C18.lean`): the calloc
multiplication check, `getFromLLOCache`'s allocation-size computation (`size+headers+alignment`, `alignToBin` of
both large-object cache bin structures, the `allocationSize < size` wrap-around test), the argument checks of
`scalable_posix_memalign` / `scalable_aligned_malloc` / `scalable_aligned_realloc`, `isPowerOfTwo[AtLeast]`.
This file composes them into the decision each entry point takes *before* any memory is requested, with
64-bit wrap-around arithmetic explicit, and defines the spec-level `PoolLedger`.
-/
import TbbVerif.Model.C17
import TbbVerif.Generated.C18

namespace TbbVerif.C18
open TbbVerif.Cint
open TbbVerif.Generated.C17
open TbbVerif.Generated.C18

/-- what an entry point decides before asking the back end for memory -/
inductive Outcome where
  | einval                      -- argument check failed (EINVAL)
  | reject                      -- overflow guard: returns null / ENOMEM without requesting memory
  | small (req : Nat)           -- slab allocation of `req` bytes
  | large (allocSize : Nat)     -- large object: the back end is asked for `allocSize` bytes
  deriving Repr, DecidableEq

/-- `MemoryPool::getFromLLOCache(tls, size, alignment)` up to the first request for memory -/
def lloOutcome (size alignment : Nat) : Outcome :=
  if lloReject size alignment then .reject else .large (lloAllocationSize size alignment)

/-- `internalMalloc` / `internalPoolMalloc` -/
def mallocOutcome (size : Nat) : Outcome :=
  let s := C17.normSize size
  if s ≥ minLargeObjectSize then lloOutcome s largeObjectAlignment else .small s

/-- `allocateAligned(size, alignment)` (alignment already known to be a power of two) -/
def alignedOutcome (size alignment : Nat) : Outcome :=
  match C17.alignedStrategy size alignment with
  | .small req _ => mallocOutcome req
  | .large al => lloOutcome size al

def callocOutcome (nobj size : Nat) : Outcome :=
  if callocReject nobj size then .reject else mallocOutcome (callocRequest nobj size)

def posixMemalignOutcome (alignment size : Nat) : Outcome :=
  if posixMemalignReject alignment size then .einval else alignedOutcome size alignment

def alignedMallocOutcome (size alignment : Nat) : Outcome :=
  if alignedMallocReject size alignment then .einval else alignedOutcome size alignment

/-- `scalable_aligned_realloc(nullptr, size, alignment)` -/
def alignedReallocNullOutcome (size alignment : Nat) : Outcome :=
  if alignedReallocReject size alignment then .einval else alignedOutcome size alignment

/-- the mathematical (unbounded) bin rounding of the large-object cache: arithmetic step `largeCacheStep` below
`maxLargeSize`, then `hugeStepFactor` bins per power of two -/
def binRound (t : Nat) : Nat :=
  if t < locMaxLargeSize then C17.alignUpN t largeCacheStep
  else C17.alignUpN t (2 ^ (Nat.log2 t - hugeStepFactorExp))

/-! ### PoolLedger: raw regions a pool owns, and the blocks it hands out -/

inductive Ev where
  | rawAlloc (start size : Nat)     -- the pool's raw callback returned [start, start+size)
  | rawFree (start size : Nat)      -- the pool gave [start, start+size) back
  | block (start size : Nat)        -- the pool handed [start, start+size) to the user
  deriving Repr, DecidableEq

abbrev Region := Nat × Nat

def Region.disjoint (a b : Region) : Prop := a.1 + a.2 ≤ b.1 ∨ b.1 + b.2 ≤ a.1
instance (a b : Region) : Decidable (Region.disjoint a b) := by unfold Region.disjoint; infer_instance

def Region.contains (r : Region) (s n : Nat) : Prop := r.1 ≤ s ∧ s + n ≤ r.1 + r.2
instance (r : Region) (s n : Nat) : Decidable (Region.contains r s n) := by unfold Region.contains; infer_instance

/-- one event against the set of regions currently owned; `none` = the trace violates the ledger -/
def ledgerStep (l : List Region) : Ev → Option (List Region)
  | .rawAlloc s n => if n > 0 ∧ l.all (fun r => decide (Region.disjoint r (s, n))) then some ((s, n) :: l) else none
  | .rawFree s n => if (s, n) ∈ l then some (l.erase (s, n)) else none
  | .block s n => if l.any (fun r => decide (Region.contains r s n)) then some l else none

def ledgerRun : List Region → List Ev → Option (List Region)
  | l, [] => some l
  | l, e :: es => match ledgerStep l e with
    | some l' => ledgerRun l' es
    | none => none

/-! ### line-protocol drivers -/

def showOutcome : Outcome → String
  | .einval => "einval"
  | .reject => "reject"
  | .small r => s!"small {r}"
  | .large a => s!"large {a}"

open Proto in
def drive (ws : List String) : String :=
  match ws with
  | ["calloc", n, s] => match nat? n, nat? s with
      | some n, some s => showOutcome (callocOutcome n s)
      | _, _ => "bad-op"
  | ["pm", a, s] => match nat? a, nat? s with
      | some a, some s => showOutcome (posixMemalignOutcome a s)
      | _, _ => "bad-op"
  | ["am", s, a] => match nat? s, nat? a with
      | some s, some a => showOutcome (alignedMallocOutcome s a)
      | _, _ => "bad-op"
  | ["ar", s, a] => match nat? s, nat? a with
      | some s, some a => showOutcome (alignedReallocNullOutcome s a)
      | _, _ => "bad-op"
  | ["m", s] => match nat? s with
      | some s => showOutcome (mallocOutcome s)
      | none => "bad-op"
  | ["al", s, k] => match nat? s, nat? k with
      | some s, some k => showOutcome (alignedOutcome s (2 ^ k))
      | _, _ => "bad-op"
  | ["llo", s, k] => match nat? s, nat? k with
      | some s, some k => showOutcome (lloOutcome s (2 ^ k))
      | _, _ => "bad-op"
  | ["atb", x] => match nat? x with
      | some x => s!"{locAlignToBin x}"
      | none => "bad-op"
  | _ => "bad-op"

def driver : Proto.Driver := Proto.pureDriver drive

/-- ledger validation: `a start size` (raw alloc) / `f start size` (raw free) / `b start size` (block);
output `ok <#regions>` or `violation`; `reset` starts a new pool -/
def driveLedger (st : Option (List Region)) (ws : List String) : Option (List Region) × String :=
  let go (e : Ev) : Option (List Region) × String :=
    match st with
    | none => (none, "violation")
    | some l => match ledgerStep l e with
      | some l' => (some l', s!"ok {l'.length}")
      | none => (none, "violation")
  match ws with
  | ["reset"] => (some [], "ok 0")
  | ["a", s, n] => match Proto.nat? s, Proto.nat? n with
      | some s, some n => go (.rawAlloc s n)
      | _, _ => (st, "bad-op")
  | ["f", s, n] => match Proto.nat? s, Proto.nat? n with
      | some s, some n => go (.rawFree s n)
      | _, _ => (st, "bad-op")
  | ["b", s, n] => match Proto.nat? s, Proto.nat? n with
      | some s, some n => go (.block s n)
      | _, _ => (st, "bad-op")
  | _ => (st, "bad-op")

def driverLedger : Proto.Driver := { σ := Option (List Region), init := some [], step := driveLedger }

end TbbVerif.C18
