/-
C20 — `Wait`: the waits that cover a suspended task.  Every stack (dispatcher) carries its frames, innermost first:
`task w` — the body of a task that holds one reference of the wait object `w` until it RETURNS (function_task of
task_group::run → the group's wait_context; a parallel_for chunk `start_for` → its wait_node; the delegated_task of
task_arena::execute → the delegate's wait_context), `wait w` — a frame that returns only when the count of `w` is zero
(task_group::wait, the algorithm's execute_and_wait, the delegate's wait).  Wait objects form the wait tree: a node holds
one reference of its parent from its creation until its own count has dropped to zero (`fold`).

A frame can be pushed or popped only by the thread that is attached to the stack (`att d = some t`); a suspended stack
(`att d = none`) keeps its frames.  A thread may attach to any stack nobody runs (the `Pool` model says when the code
does that); the OUTERMOST wait frame of a stack that belongs to a thread (`owner d = some o`: its frames below are the
thread's own call stack) may only be left by that thread — `recall_point` — which the model enforces iff the regenerated
guard flag is set.

`Cfg` (regenerated from the source): the reference is released after the body returned, for each of the three task kinds;
the recall-point guard.  Executable, core Lean only.
-/
import TbbVerif.Core.Sched

namespace TbbVerif.C20.Wait

inductive Frame where
  | task (w : Nat) | wait (w : Nat)
  deriving DecidableEq, Repr

structure Cfg where
  releaseAfterBody : Bool      -- function_task / start_for / delegated_task: the body runs, THEN finalize releases the reference
  recallGuard : Bool           -- local_wait_for_all / internal_suspend at the outermost level: recall_point, `this != default dispatcher`
  deriving DecidableEq, Repr

def asCoded : Cfg := ⟨true, true⟩

def upd {α : Type} (f : Nat → α) (i : Nat) (v : α) : Nat → α := fun j => if j = i then v else f j

structure St where
  cnt : Nat → Nat := fun _ => 0
  par : Nat → Option Nat := fun _ => none
  live : Nat → Bool := fun _ => false          -- the node still holds its reference of `par`
  pend : Nat → Nat := fun _ => 0               -- spawned tasks of `w` that have not started
  nw : Nat := 0
  frames : Nat → List Frame := fun _ => []
  att : Nat → Option Tid := fun _ => none
  owner : Nat → Option Tid := fun _ => none
  on : Tid → Option Nat := fun _ => none       -- the stack a thread is attached to
  nd : Nat := 0
  wrong : Bool := false                        -- an outermost wait of a thread's own stack was left by another thread

inductive Op where
  | newWait (p : Option Nat)      -- a wait_context (p = none) or a wait-tree node below `p` (takes a reference of p)
  | spawn (w : Nat)               -- reserve + spawn: a task that holds a reference of w
  | begin (w : Nat)               -- the thread's dispatch loop starts a pending task of w on its stack
  | finish                        -- the innermost task body returns: the frame is popped, finalize releases the reference
  | fold (w : Nat)                -- node w's count is zero: it releases its reference of the parent (fold_tree / wait_node)
  | enterWait (w : Nat)
  | exitWait                      -- the innermost wait frame returns (count zero)
  | detach                        -- the thread leaves its stack (suspension, or a resume task taken)
  | attach (d : Nat)              -- the thread continues a stack nobody runs (a new one if d = nd: coroutine)
  deriving DecidableEq, Repr

def step (cfg : Cfg) (s : St) (t : Tid) (op : Op) : St :=
  match op with
  | .newWait p =>
      match p with
      | none => { s with cnt := upd s.cnt s.nw 0, par := upd s.par s.nw none, live := upd s.live s.nw false, pend := upd s.pend s.nw 0, nw := s.nw + 1 }
      | some q =>
          if q < s.nw ∧ (s.par q = none ∨ s.live q = true) then
            { s with cnt := upd (upd s.cnt s.nw 0) q (s.cnt q + 1), par := upd s.par s.nw (some q), live := upd s.live s.nw true,
                     pend := upd s.pend s.nw 0, nw := s.nw + 1 }
          else s
  | .spawn w =>
      if w < s.nw ∧ (s.par w = none ∨ s.live w = true) then { s with cnt := upd s.cnt w (s.cnt w + 1), pend := upd s.pend w (s.pend w + 1) } else s
  | .begin w =>
      match s.on t with
      | some d =>
          if 0 < s.pend w ∧ w < s.nw then
            let s1 := { s with pend := upd s.pend w (s.pend w - 1), frames := upd s.frames d (.task w :: s.frames d) }
            -- a finalize that released the reference BEFORE the body ran would do it here
            if cfg.releaseAfterBody then s1 else { s1 with cnt := upd s1.cnt w (s1.cnt w - 1) }
          else s
      | none => s
  | .finish =>
      match s.on t with
      | some d =>
          match s.frames d with
          | .task w :: rest =>
              let s1 := { s with frames := upd s.frames d rest }
              if cfg.releaseAfterBody then { s1 with cnt := upd s1.cnt w (s1.cnt w - 1) } else s1
          | _ => s
      | none => s
  | .fold w =>
      match s.par w with
      | some p => if s.live w = true ∧ s.cnt w = 0 ∧ s.pend w = 0 then { s with live := upd s.live w false, cnt := upd s.cnt p (s.cnt p - 1) } else s
      | none => s
  | .enterWait w =>
      match s.on t with
      | some d => if w < s.nw then { s with frames := upd s.frames d (.wait w :: s.frames d) } else s
      | none => s
  | .exitWait =>
      match s.on t with
      | some d =>
          match s.frames d with
          | .wait w :: rest =>
              if s.cnt w = 0 then
                let foreign := rest.isEmpty && s.owner d != none && s.owner d != some t
                if foreign && cfg.recallGuard then s      -- recall_point: the thread has to leave this stack instead
                else { s with frames := upd s.frames d rest, wrong := s.wrong || foreign }
              else s
          | _ => s
      | none => s
  | .detach =>
      match s.on t with
      | some d => { s with on := upd s.on t none, att := upd s.att d none }
      | none => s
  | .attach d =>
      if s.on t = none ∧ d ≤ s.nd ∧ s.att d = none then
        { s with on := upd s.on t (some d), att := upd s.att d (some t), nd := if d = s.nd then s.nd + 1 else s.nd }
      else s

/-- threads `0 .. nt-1` start on their own stacks `0 .. nt-1` -/
def init (nt : Nat) : St :=
  { nd := nt, att := fun d => if d < nt then some d else none, owner := fun d => if d < nt then some d else none,
    on := fun t => if t < nt then some t else none }

def run (cfg : Cfg) (s : St) : List (Tid × Op) → St
  | [] => s
  | (t, op) :: rest => run cfg (step cfg s t op) rest

end TbbVerif.C20.Wait
