/-
C08 — mutex protocol models at atomic-access granularity (executable, core Lean only).

`RwWord`  : include/oneapi/tbb/spin_rw_mutex.h — one step of a thread = one atomic access to `m_state`.
            State word bits: WRITER = 1, WRITER_PENDING = 2, ONE_READER = 4 (generated constants are checked
            against these in Generated/C08.lean).
`Spin`    : include/oneapi/tbb/spin_mutex.h — `m_flag.exchange(true)` loop / `store(false)`.

The word is kept structured (`w p : Bool`, `r : Nat`) for the proofs and encoded (`enc`) wherever the code
compares whole words (CAS) and for trace replay.  Arithmetic on the word that would borrow across bit fields
(the code relies on invariants to exclude it) sets the ghost flag `bad`, and `no_corruption` proves it is never set.
-/
import TbbVerif.Core.Sched
import TbbVerif.Core.Proto

namespace TbbVerif.C08

/-! ## spin_rw_mutex -/

structure Word where
  w : Bool := false      -- WRITER
  p : Bool := false      -- WRITER_PENDING
  r : Nat := 0           -- number of ONE_READER units
  deriving Repr, DecidableEq

def Word.enc (s : Word) : Nat := (if s.w then 1 else 0) + (if s.p then 2 else 0) + 4 * s.r

def Word.dec (n : Nat) : Word := { w := n % 2 = 1, p := (n / 2) % 2 = 1, r := n / 4 }

inductive Op where
  | lock | tryLock | unlock | lockShared | tryLockShared | unlockShared | upgrade | downgrade
  deriving Repr, DecidableEq

/-- What a thread holds, as determined by the operations that completed (ghost). -/
inductive Phase where
  | idle       -- holds nothing
  | rt         -- reader transient: incremented the reader count under a writer, must undo
  | holdR      -- holds a shared lock
  | upgWait    -- upgrade: CAS set WRITER|PENDING, still counted as a reader, waiting for the others to leave
  | upgReady   -- upgrade: observed readers == ONE_READER, about to drop its own reader unit
  | holdW      -- holds the exclusive lock
  deriving Repr, DecidableEq

/-- Program counters inside one operation (names follow the code). -/
inductive Pc where
  | start                 -- about to issue the first access of the current op
  | lockCas               -- lock/try_lock: CAS(s, WRITER)
  | lockOr                -- lock: m_state |= WRITER_PENDING
  | sharedAdd             -- lock_shared/try_lock_shared: fetch_add(ONE_READER)
  | sharedUndo            -- … -= ONE_READER after seeing WRITER in the previous value
  | upgCas                -- upgrade: CAS(s, s | WRITER | WRITER_PENDING)
  | upgSpin               -- upgrade: load until readers == ONE_READER
  | upgFinish             -- upgrade: m_state -= ONE_READER + WRITER_PENDING
  | upgSlowRelease        -- upgrade slow path: unlock_shared()
  | upgSlowLock           -- upgrade slow path: lock() — first load
  deriving Repr, DecidableEq

structure Th where
  ops    : List Op            -- remaining operations (head = current)
  pc     : Pc := .start
  sv     : Nat := 0           -- the local `s` (encoded word)
  phase  : Phase := .idle
  slow   : Bool := false      -- inside upgrade()'s slow path (its final lock() returns false)
  results : List Nat := []    -- results of completed try_* / upgrade ops (1 = true), newest first
  misuse : Bool := false      -- an operation was called in a phase its precondition excludes
  deriving Repr, DecidableEq

structure St where
  word : Word := {}
  bad  : Bool := false        -- ghost: a borrow across bit fields happened (must never be set)
  ths  : List Th := []
  deriving Repr, DecidableEq

/-- An access as it appears in the E-SHIM trace: kind, value read/expected (`a`), value written (`b`), success. -/
structure Ev where
  kind : String
  a : Nat
  b : Nat
  ok : Bool
  deriving Repr, DecidableEq

def busy (s : Word) : Bool := s.w || s.r != 0

/-- finish the current op -/
def Th.done (t : Th) (ph : Phase) (res : Option Nat := none) : Th :=
  { t with ops := t.ops.tail, pc := .start, phase := ph, slow := false,
           results := match res with | some v => v :: t.results | none => t.results }

/-- API precondition of each operation (the real code asserts / has undefined behaviour otherwise; the
harness never issues such a call): which phase the calling thread must be in. -/
def Op.pre : Op → Phase
  | .lock | .tryLock | .lockShared | .tryLockShared => .idle
  | .unlock | .downgrade => .holdW
  | .unlockShared | .upgrade => .holdR

abbrev Out := Word × Bool × Th × Option Ev

/-- the three accesses of the `lock()` loop body; `back` = the pc of the loop head (`start`, or `upgSlowLock`
when `lock()` runs as the slow path of `upgrade`), `res` = the result reported when the lock is finally taken -/
def lockBody (s : Word) (t : Th) (back : Pc) (res : Option Nat) : Out :=
  if t.pc = back then
    -- load; !(s & BUSY) → CAS(s,WRITER) | !(s & PENDING) → |= PENDING | pause
    let t' := { t with sv := s.enc }
    let t'' := if !busy s then { t' with pc := .lockCas } else if !s.p then { t' with pc := .lockOr } else t'
    (s, false, t'', some ⟨"load", s.enc, 0, true⟩)
  else match t.pc with
  | .lockCas =>
      if s.enc = t.sv then
        ({ w := true, p := false, r := 0 }, false, t.done .holdW res, some ⟨"cas", t.sv, 1, true⟩)
      else (s, false, { t with pc := back, sv := s.enc }, some ⟨"cas", t.sv, s.enc, false⟩)
  | .lockOr =>
      ({ s with p := true }, false, { t with pc := back }, some ⟨"for", s.enc, ({ s with p := true } : Word).enc, true⟩)
  | _ => (s, false, t, none)

def stepLock (s : Word) (t : Th) : Out := lockBody s t .start none

-- try_lock()
def stepTryLock (s : Word) (t : Th) : Out :=
  match t.pc with
  | .start =>
      if !busy s then (s, false, { t with sv := s.enc, pc := .lockCas }, some ⟨"load", s.enc, 0, true⟩)
      else (s, false, t.done t.phase (some 0), some ⟨"load", s.enc, 0, true⟩)
  | .lockCas =>
      if s.enc = t.sv then
        ({ w := true, p := false, r := 0 }, false, t.done .holdW (some 1), some ⟨"cas", t.sv, 1, true⟩)
      else (s, false, t.done t.phase (some 0), some ⟨"cas", t.sv, s.enc, false⟩)
  | _ => (s, false, t, none)

-- unlock(): m_state &= READERS
def stepUnlock (s : Word) (t : Th) : Out :=
  match t.pc with
  | .start =>
      ({ s with w := false, p := false }, false, t.done .idle, some ⟨"fand", s.enc, ({ s with w := false, p := false } : Word).enc, true⟩)
  | _ => (s, false, t, none)

-- lock_shared() (`blocking = true`) / try_lock_shared()
def stepShared (blocking : Bool) (s : Word) (t : Th) : Out :=
  match t.pc with
  | .start =>
      if !(s.w || s.p) then (s, false, { t with sv := s.enc, pc := .sharedAdd }, some ⟨"load", s.enc, 0, true⟩)
      else if blocking then (s, false, { t with sv := s.enc }, some ⟨"load", s.enc, 0, true⟩)
      else (s, false, t.done t.phase (some 0), some ⟨"load", s.enc, 0, true⟩)
  | .sharedAdd =>
      let s' := { s with r := s.r + 1 }
      if !s.w then (s', false, t.done .holdR (if blocking then none else some 1), some ⟨"fadd", s.enc, s'.enc, true⟩)
      else (s', false, { t with pc := .sharedUndo, phase := .rt }, some ⟨"fadd", s.enc, s'.enc, true⟩)
  | .sharedUndo =>
      let s' := { s with r := s.r - 1 }
      if blocking then (s', s.r = 0, { t with pc := .start, phase := .idle }, some ⟨"fsub", s.enc, s'.enc, true⟩)
      else (s', s.r = 0, t.done .idle (some 0), some ⟨"fsub", s.enc, s'.enc, true⟩)
  | _ => (s, false, t, none)

-- unlock_shared()
def stepUnlockShared (s : Word) (t : Th) : Out :=
  match t.pc with
  | .start =>
      let s' := { s with r := s.r - 1 }
      (s', s.r = 0, t.done .idle, some ⟨"fsub", s.enc, s'.enc, true⟩)
  | _ => (s, false, t, none)

-- upgrade(): load; while (readers == ONE || !PENDING) { CAS(s, s|W|P) … }; slow: unlock_shared(); lock()
def stepUpgrade (s : Word) (t : Th) : Out :=
  match t.pc with
  | .start =>
      let t' := { t with sv := s.enc }
      if s.r = 1 || !s.p then (s, false, { t' with pc := .upgCas, slow := false }, some ⟨"load", s.enc, 0, true⟩)
      else (s, false, { t' with pc := .upgSlowRelease, slow := true }, some ⟨"load", s.enc, 0, true⟩)
  | .upgCas =>
      let d : Word := { (Word.dec t.sv) with w := true, p := true }
      if s.enc = t.sv then
        (d, false, { t with pc := .upgSpin, phase := .upgWait }, some ⟨"cas", t.sv, d.enc, true⟩)
      else
        let t' := { t with sv := s.enc }
        if s.r = 1 || !s.p then (s, false, t', some ⟨"cas", t.sv, s.enc, false⟩)
        else (s, false, { t' with pc := .upgSlowRelease, slow := true }, some ⟨"cas", t.sv, s.enc, false⟩)
  | .upgSpin =>
      if s.r = 1 then (s, false, { t with pc := .upgFinish, phase := .upgReady }, some ⟨"load", s.enc, 0, true⟩)
      else (s, false, t, some ⟨"load", s.enc, 0, true⟩)
  | .upgFinish =>
      let s' := { s with r := s.r - 1, p := false }
      (s', s.r = 0 || !s.p, t.done .holdW (some 1), some ⟨"fsub", s.enc, s'.enc, true⟩)
  | .upgSlowRelease =>
      let s' := { s with r := s.r - 1 }
      (s', s.r = 0, { t with pc := .upgSlowLock, phase := .idle }, some ⟨"fsub", s.enc, s'.enc, true⟩)
  | _ => lockBody s t .upgSlowLock (some 0)     -- lock() inlined; upgrade returns false at the end

-- downgrade(): m_state += ONE_READER - WRITER
def stepDowngrade (s : Word) (t : Th) : Out :=
  match t.pc with
  | .start =>
      let s' := { s with w := false, r := s.r + 1 }
      (s', !s.w, t.done .holdR, some ⟨"fadd", s.enc, s'.enc, true⟩)
  | _ => (s, false, t, none)

def stepOp (op : Op) (s : Word) (t : Th) : Out :=
  match op with
  | .lock => stepLock s t
  | .tryLock => stepTryLock s t
  | .unlock => stepUnlock s t
  | .lockShared => stepShared true s t
  | .tryLockShared => stepShared false s t
  | .unlockShared => stepUnlockShared s t
  | .upgrade => stepUpgrade s t
  | .downgrade => stepDowngrade s t

/-- One atomic access of thread `t` against word `s`.  Returns new word, bad flag, new thread state, event. -/
def stepTh (s : Word) (t : Th) : Out :=
  match t.ops with
  | [] => (s, false, t, none)
  | op :: _ =>
  if t.pc = .start ∧ t.phase ≠ op.pre then
    -- misuse of the API: rejected (the call is dropped and flagged), it never touches the word
    (s, false, { t with ops := t.ops.tail, misuse := true }, none)
  else stepOp op s t

def step (st : St) (tid : Tid) : St :=
  match st.ths[tid]? with
  | none => st
  | some t =>
    let (s', b, t', _) := stepTh st.word t
    { word := s', bad := st.bad || b, ths := st.ths.set tid t' }

def evOf (st : St) (tid : Tid) : Option Ev :=
  match st.ths[tid]? with
  | none => none
  | some t => (stepTh st.word t).2.2.2

def sys (progs : List (List Op)) : Sys St :=
  { init := { ths := progs.map (fun p => { ops := p }) }, step := step }

/-! ## spin_mutex -/

inductive SOp where
  | lock | tryLock | unlock
  deriving Repr, DecidableEq

structure STh where
  ops : List SOp
  holds : Bool := false
  results : List Nat := []
  deriving Repr, DecidableEq

structure SSt where
  flag : Bool := false
  ths : List STh := []
  deriving Repr, DecidableEq

def sstepTh (f : Bool) (t : STh) : Bool × STh × Option Ev :=
  match t.ops with
  | [] => (f, t, none)
  | .lock :: rest =>
      if f then (true, t, some ⟨"xchg", 1, 1, true⟩)        -- exchange(true) returned true: spin
      else (true, { t with ops := rest, holds := true }, some ⟨"xchg", 0, 1, true⟩)
  | .tryLock :: rest =>
      if f then (true, { t with ops := rest, results := 0 :: t.results }, some ⟨"xchg", 1, 1, true⟩)
      else (true, { t with ops := rest, holds := true, results := 1 :: t.results }, some ⟨"xchg", 0, 1, true⟩)
  | .unlock :: rest =>
      -- API precondition: only the holder unlocks (a misuse is dropped, it never touches the flag)
      if t.holds then (false, { t with ops := rest, holds := false }, some ⟨"store", 0, 0, true⟩)
      else (f, { t with ops := rest }, none)

def sstep (st : SSt) (tid : Tid) : SSt :=
  match st.ths[tid]? with
  | none => st
  | some t => let (f, t', _) := sstepTh st.flag t; { flag := f, ths := st.ths.set tid t' }

def ssys (progs : List (List SOp)) : Sys SSt :=
  { init := { ths := progs.map (fun p => { ops := p }) }, step := sstep }

/-! ## line-protocol drivers (trace replay) -/

open Proto

def parseOp : String → Option Op
  | "lock" => some .lock | "try_lock" => some .tryLock | "unlock" => some .unlock
  | "lock_shared" => some .lockShared | "try_lock_shared" => some .tryLockShared
  | "unlock_shared" => some .unlockShared | "upgrade" => some .upgrade | "downgrade" => some .downgrade
  | _ => none

def parseSOp : String → Option SOp
  | "lock" => some .lock | "try_lock" => some .tryLock | "unlock" => some .unlock
  | _ => none

def showEv : Option Ev → String
  | none => "-"
  | some e => s!"{e.kind} {e.a} {e.b} {showBool e.ok}"

/-- `prog <op>*` appends a thread; `s <tid>` = the thread performs its next atomic access: prints
`<kind> <a> <b> <ok> | <ops left> <results newest-first…>`; `state` prints the encoded word and bad flag. -/
def driveRw (st : St) (ws : List String) : St × String :=
  match ws with
  | "prog" :: ops =>
      match ops.mapM parseOp with
      | some os => ({ st with ths := st.ths ++ [{ ops := os }] }, "ok")
      | none => (st, "bad-op")
  | ["s", t] =>
      match nat? t with
      | some t =>
        let ev := evOf st t
        let st' := step st t
        match st'.ths[t]? with
        | some th => (st', s!"{showEv ev} | {th.ops.length} {showNats th.results}")
        | none => (st, "bad-tid")
      | none => (st, "bad-op")
  | ["state"] => (st, s!"{st.word.enc} {showBool st.bad}")
  | ["reset"] => ({}, "ok")
  | _ => (st, "bad-op")

def driveSpin (st : SSt) (ws : List String) : SSt × String :=
  match ws with
  | "prog" :: ops =>
      match ops.mapM parseSOp with
      | some os => ({ st with ths := st.ths ++ [{ ops := os }] }, "ok")
      | none => (st, "bad-op")
  | ["s", t] =>
      match nat? t with
      | some t =>
        match st.ths[t]? with
        | some th0 =>
          let ev := (sstepTh st.flag th0).2.2
          let st' := sstep st t
          match st'.ths[t]? with
          | some th => (st', s!"{showEv ev} | {th.ops.length} {showNats th.results}")
          | none => (st, "bad-tid")
        | none => (st, "bad-tid")
      | none => (st, "bad-op")
  | ["state"] => (st, s!"{if st.flag then 1 else 0} 0")
  | ["reset"] => ({}, "ok")
  | _ => (st, "bad-op")

def driverRw : Proto.Driver := { σ := St, init := {}, step := driveRw }
def driverSpin : Proto.Driver := { σ := SSt, init := {}, step := driveSpin }

end TbbVerif.C08
