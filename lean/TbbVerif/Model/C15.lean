/-
C15 — flow-graph buffering / ordering / joining / limiting nodes (executable models, core Lean only).

Code modelled (every state change of these nodes happens inside an aggregator handler
`handle_operations` or under the node's mutex, so one node operation = one atomic step of a
sequential machine `TbbVerif.Mach`; "all interleavings" = "all sequences of node operations"):

* include/oneapi/tbb/detail/_flow_graph_item_buffer_impl.h   `item_buffer`, `reservable_item_buffer`
* include/oneapi/tbb/flow_graph.h   buffer_node / queue_node / sequencer_node / priority_queue_node /
  limiter_node / overwrite_node / write_once_node / broadcast_node / split_node
* include/oneapi/tbb/detail/_flow_graph_join_impl.h   queueing / reserving / key_matching ports + front ends
* include/oneapi/tbb/detail/_flow_graph_indexer_impl.h

Items are `Nat`s.  Where the code has an `__TBB_ASSERT` precondition the totalised model returns
`none` / sets the sticky `ub` flag instead of defaulting silently.
-/
import TbbVerif.Core.Sched
import TbbVerif.Core.Proto
import TbbVerif.Generated.C15

namespace TbbVerif.C15

/-! ## `item_buffer` — the ring exactly as coded -/

/-- one array slot: `none` = `no_item`, `some (v,false)` = `has_item`, `some (v,true)` = `reserved_item` -/
abbrev Slot := Option (Nat × Bool)

structure ItemBuf where
  arr  : List Slot          -- my_array;  my_array_size = arr.length
  head : Nat                -- my_head
  tail : Nat                -- my_tail
  deriving Repr, DecidableEq

namespace ItemBuf

/-- `i & (my_array_size - 1)` -/
def idx (n i : Nat) : Nat := i &&& (n - 1)

/-- `element(i)` -/
def slot (b : ItemBuf) (i : Nat) : Slot := b.arr.getD (idx b.arr.length i) none

/-- `my_item_valid(i)` -/
def valid (b : ItemBuf) (i : Nat) : Bool :=
  decide (i < b.tail) && decide (b.head ≤ i) && (b.slot i).isSome

def setSlot (b : ItemBuf) (i : Nat) (s : Slot) : ItemBuf :=
  { b with arr := b.arr.set (idx b.arr.length i) s }

/-- `while (new_size < minimum_size) new_size *= 2` (fuel = minimum is always enough) -/
def doubleUntil : Nat → Nat → Nat → Nat
  | 0, n, _ => n
  | fuel + 1, n, m => if n < m then doubleUntil fuel (2 * n) m else n

def newSize (cur minimum : Nat) : Nat :=
  doubleUntil minimum (if cur = 0 then Generated.C15.initialBufferSize else 2 * cur) minimum

/-- body of the copy loop of `grow_my_array` for index `i` -/
def copyInto (b : ItemBuf) (ns : Nat) (a : List Slot) (i : Nat) : List Slot :=
  if b.valid i then a.set (idx ns i) (b.slot i) else a

/-- `grow_my_array(minimum_size)`: new array of `newSize` slots, all `no_item`; every valid slot of
`[head,tail)` is re-hashed to `i & (new_size-1)` with its state (has_item / reserved_item) -/
def grow (b : ItemBuf) (minimum : Nat) : ItemBuf :=
  let ns := newSize b.arr.length minimum
  { b with arr := (List.range' b.head (b.tail - b.head)).foldl (copyInto b ns) (List.replicate ns none) }

/-- the constructor: `my_array_size = 0; grow_my_array(initial_buffer_size)` -/
def empty : ItemBuf := grow { arr := [], head := 0, tail := 0 } Generated.C15.initialBufferSize

/-- `push_back` -/
def pushBack (b : ItemBuf) (v : Nat) : ItemBuf :=
  let b1 := if b.tail - b.head ≥ b.arr.length then b.grow (b.tail - b.head + 1) else b
  { (b1.setSlot b1.tail (some (v, false))) with tail := b1.tail + 1 }

/-- `pop_front` (`none` = returned false) -/
def popFront (b : ItemBuf) : Option (Nat × ItemBuf) :=
  if b.valid b.head then
    match b.slot b.head with
    | some (v, _) => some (v, { (b.setSlot b.head none) with head := b.head + 1 })
    | none => none
  else none

/-- `pop_back` -/
def popBack (b : ItemBuf) : Option (Nat × ItemBuf) :=
  if b.valid (b.tail - 1) then
    match b.slot (b.tail - 1) with
    | some (v, _) => some (v, { (b.setSlot (b.tail - 1) none) with tail := b.tail - 1 })
    | none => none
  else none

/-- `front()` / `back()` (asserted valid) -/
def front (b : ItemBuf) : Option Nat :=
  if b.valid b.head then (b.slot b.head).map (·.1) else none
def back (b : ItemBuf) : Option Nat :=
  if b.valid (b.tail - 1) then (b.slot (b.tail - 1)).map (·.1) else none

/-- `reserve_front` minus the `my_reserved` flag (kept by the node): `none` = returned false -/
def reserveFront (b : ItemBuf) : Option (Nat × ItemBuf) :=
  if b.valid b.head then
    match b.slot b.head with
    | some (v, _) => some (v, b.setSlot b.head (some (v, true)))
    | none => none
  else none

/-- `release_front`: `release_item(my_head)`; `none` = the asserted precondition is violated -/
def releaseFront (b : ItemBuf) : Option ItemBuf :=
  if b.valid b.head then
    match b.slot b.head with
    | some (v, true) => some (b.setSlot b.head (some (v, false)))
    | _ => none
  else none

/-- `consume_front` = `destroy_front`; `none` = asserted precondition violated. Returns the item. -/
def consumeFront (b : ItemBuf) : Option (Nat × ItemBuf) := b.popFront

/-- `sequencer_node::internal_push` on the buffer: `none` = FAILED because `tag < my_head`;
`some (b', placed)`: the (possibly grown, tail-extended) buffer and the result of `place_item` -/
def seqPush (b : ItemBuf) (tag v : Nat) : Option (ItemBuf × Bool) :=
  if tag < b.head then none
  else
    let newTail := if tag + 1 > b.tail then tag + 1 else b.tail
    let b1 := if newTail - b.head > b.arr.length then b.grow (newTail - b.head) else b
    let b2 := { b1 with tail := newTail }
    if b2.valid tag then some (b2, false)
    else some (b2.setSlot tag (some (v, false)), true)

/-- abstraction: the contents of `[head, tail)` as a list of slots (the finite map index ↦ slot) -/
def view (b : ItemBuf) : List Slot := (List.range' b.head (b.tail - b.head)).map b.slot

end ItemBuf

/-! ## buffer_node / queue_node / sequencer_node: `handle_operations` cases as atomic steps -/

inductive Kind where
  | buffer | queue | sequencer
  deriving Repr, DecidableEq

structure BufSt where
  buf      : ItemBuf := ItemBuf.empty
  reserved : Bool := false        -- my_reserved
  busy     : Bool := false        -- forwarder_busy
  ub       : Bool := false        -- an asserted precondition of item_buffer was violated (sticky)
  acc      : List Nat := []       -- ghost: accepted puts, in order
  out      : List Nat := []       -- ghost: items handed out (try_get / consumed reservation / accepted forward)
  deriving Repr, DecidableEq

inductive BufOp where
  | put (v : Nat)          -- put_item
  | get                    -- req_item
  | reserve                -- res_item
  | release                -- rel_res
  | consume                -- con_res
  | fwd (accept : Bool)    -- one `try_put_and_add_task` of try_fwd_task; `accept` = a successor took it
  deriving Repr, DecidableEq

inductive BufOut where
  | ok | rejected | none | ub
  | item (v : Nat)
  | offered (v : Nat) (accepted : Bool)
  deriving Repr, DecidableEq

/-- the item `try_put_and_add_task` would offer (`back()` for buffer_node, `front()` otherwise) -/
def BufSt.candidate (k : Kind) (s : BufSt) : Option Nat :=
  if s.reserved then none else
  match k with
  | .buffer => s.buf.back
  | _ => s.buf.front

/-- `f` is the sequencer body (item ↦ sequence number); ignored by the other kinds.
`mode` says how `buffer_node::internal_pop` treats a reservation (decided on every run by probing the
real node, `Generated.C15.bufferPopMode`): `0` = as in the pinned tree, `pop_back` without looking at
`my_reserved`; `1` = fails when the only item left is the reserved front; `≥ 2` = fails whenever reserved. -/
def bufStep (k : Kind) (mode : Nat) (f : Nat → Nat) (s : BufSt) (op : BufOp) : BufSt × BufOut :=
  if s.ub then (s, .ub) else
  match op with
  | .put v =>
    match k with
    | .sequencer =>
      match s.buf.seqPush (f v) v with
      | none => (s, .rejected)
      | some (b', true) => ({ s with buf := b', acc := s.acc ++ [v] }, .ok)
      | some (b', false) => ({ s with buf := b' }, .rejected)
    | _ => ({ s with buf := s.buf.pushBack v, acc := s.acc ++ [v] }, .ok)
  | .get =>
    match k with
    | .buffer =>          -- buffer_node::internal_pop: pop_back (mode 0: does NOT look at my_reserved)
      if s.reserved && (mode ≥ 2 || (mode == 1 && decide (s.buf.tail - s.buf.head ≤ 1))) then (s, .none) else
      match s.buf.popBack with
      | some (v, b') => ({ s with buf := b', out := s.out ++ [v] }, .item v)
      | none => (s, .none)
    | _ =>                -- queue_node::internal_pop
      if s.reserved then (s, .none) else
      match s.buf.popFront with
      | some (v, b') => ({ s with buf := b', out := s.out ++ [v] }, .item v)
      | none => (s, .none)
  | .reserve =>
    if s.reserved then (s, .none) else
    match s.buf.reserveFront with
    | some (v, b') => ({ s with buf := b', reserved := true }, .item v)
    | none => (s, .none)
  | .release =>
    if !s.reserved then (s, .none) else       -- misuse by the caller (asserted): rejected, nothing changes
    match s.buf.releaseFront with
    | some b' => ({ s with buf := b', reserved := false }, .ok)
    | none => ({ s with ub := true }, .ub)
  | .consume =>
    if !s.reserved then (s, .none) else
    match s.buf.consumeFront with
    | some (v, b') => ({ s with buf := b', reserved := false, out := s.out ++ [v] }, .ok)
    | none => ({ s with ub := true }, .ub)
  | .fwd a =>
    if s.reserved then ({ s with busy := false }, .none) else
    match k with
    | .buffer =>
      match s.buf.popBack with
      | some (v, b') => if a then ({ s with buf := b', out := s.out ++ [v] }, .offered v true) else (s, .offered v false)
      | none => ({ s with busy := false }, .none)
    | _ =>
      match s.buf.popFront with
      | some (v, b') => if a then ({ s with buf := b', out := s.out ++ [v] }, .offered v true) else (s, .offered v false)
      | none => ({ s with busy := false }, .none)

def bufMach (k : Kind) (mode : Nat) (f : Nat → Nat) : Mach BufSt BufOp BufOut :=
  { init := {}, step := bufStep k mode f }

/-! ## priority_queue_node: heap in `my_array[0, my_tail)` + `mark` -/

structure PrioSt where
  data : List Nat := []            -- my_array[0 .. my_tail)   (my_head = 0 always)
  mark : Nat := 0
  resv : Option Nat := none        -- my_reserved / reserved_item
  busy : Bool := false
  acc  : List Nat := []
  out  : List Nat := []
  deriving Repr, DecidableEq

namespace PrioSt

/-- `prio_use_tail()` with `compare = std::less` -/
def useTail (s : PrioSt) : Bool :=
  decide (s.mark < s.data.length) && decide (s.data.getD 0 0 < s.data.getD (s.data.length - 1) 0)

/-- `prio()` -/
def prio (s : PrioSt) : Nat :=
  if s.useTail then s.data.getD (s.data.length - 1) 0 else s.data.getD 0 0

/-- `reheap()` loop, `fuel` ≥ number of levels -/
def reheapLoop (mark : Nat) : Nat → List Nat → Nat → List Nat
  | 0, d, _ => d
  | fuel + 1, d, cur =>
    let child := 2 * cur + 1
    if child < mark then
      let target := if child + 1 < mark ∧ d.getD child 0 < d.getD (child + 1) 0 then child + 1 else child
      if d.getD target 0 < d.getD cur 0 then d
      else
        let d' := (d.set cur (d.getD target 0)).set target (d.getD cur 0)   -- swap_items
        reheapLoop mark fuel d' target
    else d

def reheap (d : List Nat) (mark : Nat) : List Nat := reheapLoop mark d.length d 0

/-- inner do-while of `heapify()`: push `x` up from the hole at `cur` -/
def siftUp (x : Nat) : Nat → List Nat → Nat → List Nat
  | 0, d, cur => d.set cur x
  | fuel + 1, d, cur =>
    let parent := (cur - 1) / 2
    if d.getD parent 0 < x then
      let d' := d.set cur (d.getD parent 0)                 -- move_item(cur, parent)
      if parent = 0 then d'.set 0 x else siftUp x fuel d' parent
    else d.set cur x

/-- `heapify()` outer loop -/
def heapifyLoop : Nat → List Nat → Nat → List Nat
  | 0, d, _ => d
  | fuel + 1, d, m =>
    if m < d.length then heapifyLoop fuel (siftUp (d.getD m 0) d.length d m) (m + 1) else d

/-- `order()`: `if (mark < my_tail) heapify();` -/
def order (s : PrioSt) : PrioSt :=
  if s.mark < s.data.length then
    let m0 := if s.mark = 0 then 1 else s.mark
    { s with data := heapifyLoop s.data.length s.data m0, mark := s.data.length }
  else s

/-- `prio_pop()` -/
def prioPop (s : PrioSt) : PrioSt :=
  if s.useTail then { s with data := s.data.dropLast }
  else
    let n := s.data.length
    let d1 := if n > 1 then (s.data.set 0 (s.data.getD (n - 1) 0)).dropLast else s.data.dropLast
    let mark' := if s.mark > n - 1 then s.mark - 1 else s.mark
    { s with data := if n - 1 > 1 then reheap d1 mark' else d1, mark := mark' }

end PrioSt

inductive PrioOp where
  | put (v : Nat) | get | reserve | release | consume
  | fwd (accept : Bool)
  | order                      -- `derived->order()` at the end of an aggregator batch
  deriving Repr, DecidableEq

def prioStep (s : PrioSt) (op : PrioOp) : PrioSt × BufOut :=
  match op with
  | .put v => ({ s with data := s.data ++ [v], acc := s.acc ++ [v] }, .ok)      -- prio_push
  | .get =>
    if s.resv.isSome || s.data.length == 0 then (s, .none)
    else let v := s.prio; ({ s.prioPop with out := s.out ++ [v] }, .item v)
  | .reserve =>
    if s.resv.isSome || s.data.length == 0 then (s, .none)
    else let v := s.prio; ({ s.prioPop with resv := some v }, .item v)
  | .release =>
    match s.resv with
    | some v => ({ s with data := s.data ++ [v], resv := none }, .ok)          -- prio_push(reserved_item)
    | none => (s, .none)
  | .consume =>
    match s.resv with
    | some v => ({ s with resv := none, out := s.out ++ [v] }, .ok)
    | none => (s, .none)
  | .fwd a =>
    if s.resv.isSome || s.data.length == 0 then ({ s with busy := false }, .none)
    else
      let v := s.prio
      if a then ({ s.prioPop with out := s.out ++ [v] }, .offered v true) else (s, .offered v false)
  | .order => (s.order, .ok)

def prioMach : Mach PrioSt PrioOp BufOut := { init := {}, step := prioStep }

/-! ## limiter_node: the three mutex-protected regions of a put, and `decrement_counter` -/

structure LimSt where
  threshold : Nat
  count  : Nat := 0        -- my_count
  tries  : Nat := 0        -- my_tries
  future : Nat := 0        -- my_future_decrement
  -- program counters of the in-flight puts / forward tasks (how many are where)
  pend : Nat := 0          -- admitted (++my_tries done), successor not asked yet
  accd : Nat := 0          -- successor accepted, completion region not yet run
  rejd : Nat := 0          -- successor rejected / reservation failed, completion region not yet run
  -- ghost
  outst : Int := 0         -- forwarded-to-a-successor minus applied (positive) decrements
  fwdN  : Nat := 0         -- messages accepted by a successor so far
  decReq : Nat := 0        -- sum of all positive decrement requests so far
  ub : Bool := false
  deriving Repr, DecidableEq

inductive LimOp where
  | begin (extra : Bool)   -- first locked region of try_put_task (extra = true) or of forward_task
                           -- (extra = `!my_predecessors.empty() && !my_successors.empty()`)
  | verdict (accept : Bool)  -- `my_successors.try_put_task` returned (or try_reserve failed: accept = false)
  | endOk                  -- locked region after an accepted put: ++count, pay future_decrement, --tries
  | endFail                -- locked region after a rejected put: --tries
  | dec (delta : Int)      -- decrement_counter(delta)
  deriving Repr, DecidableEq

inductive LimOut where
  | admitted | rejected | disabled | done
  deriving Repr, DecidableEq

def limStep (s : LimSt) (op : LimOp) : LimSt × LimOut :=
  match op with
  | .begin extra =>
    if s.count + s.tries < s.threshold ∧ extra then
      ({ s with tries := s.tries + 1, pend := s.pend + 1 }, .admitted)
    else (s, .rejected)
  | .verdict a =>
    if s.pend = 0 then (s, .disabled)
    else if a then ({ s with pend := s.pend - 1, accd := s.accd + 1, outst := s.outst + 1, fwdN := s.fwdN + 1 }, .done)
    else ({ s with pend := s.pend - 1, rejd := s.rejd + 1 }, .done)
  | .endOk =>
    if s.accd = 0 then (s, .disabled)
    else
      let c := s.count + 1
      let (c', f') := if s.future = 0 then (c, 0)
                      else if c > s.future then (c - s.future, 0) else (0, s.future - c)
      ({ s with accd := s.accd - 1, count := c', future := f', tries := s.tries - 1 }, .done)
  | .endFail =>
    if s.rejd = 0 then (s, .disabled)
    else ({ s with rejd := s.rejd - 1, tries := s.tries - 1 }, .done)
  | .dec delta0 =>
    let delta : Int := if delta0 > 0 ∧ delta0.toNat > s.threshold then (s.threshold : Int) else delta0
    let req := if delta0 > 0 then s.decReq + delta0.toNat else s.decReq
    if delta > 0 ∧ delta.toNat > s.count then
      if s.tries > 0 then
        ({ s with future := s.future + (delta.toNat - s.count), count := 0, outst := s.outst - delta, decReq := req }, .done)
      else
        ({ s with count := 0, outst := s.outst - s.count, decReq := req }, .done)
    else if delta < 0 ∧ s.count ≤ s.threshold ∧ (-delta).toNat > s.threshold - s.count then
      -- `size_t(-delta) > my_threshold - my_count`.  If my_count > my_threshold (possible: a saturating
      -- negative decrement followed by the `++my_count` of a put that was in flight) the unsigned
      -- difference wraps to ≥ 2^64 - (count - threshold), which no `long long` magnitude exceeds, so the
      -- branch is not taken.
      ({ s with count := s.threshold, decReq := req }, .done)
    else
      ({ s with count := (s.count - delta).toNat, outst := if delta > 0 then s.outst - delta else s.outst, decReq := req }, .done)

def limMach (threshold : Nat) : Mach LimSt LimOp LimOut :=
  { init := { threshold := threshold }, step := limStep }

/-! ## join_node, queueing policy -/

structure JqSt where
  ports : List (List Nat)          -- one FIFO (item_buffer) per queueing_port
  pwni  : Nat                      -- ports_with_no_items
  ub    : Bool := false            -- the counter would wrap below zero
  acc   : List (List Nat)          -- ghost: per port, accepted messages in order
  out   : List (List Nat) := []    -- ghost: tuples accepted by a successor / try_get, in order
  deriving Repr, DecidableEq

inductive JqOp where
  | put (port v : Nat)             -- queueing_port try__put_task
  | fwd (accept : Bool)            -- one iteration of do_fwrd_bypass (or try__get with accept = true)
  deriving Repr, DecidableEq

inductive JqOut where
  | ok (spawn : Bool)              -- put accepted; `spawn` = the port count reached 0 (forward task created)
  | badPort | none | ub
  | tuple (t : List Nat) (accepted : Bool)
  deriving Repr, DecidableEq

def jqInit (n : Nat) : JqSt :=
  { ports := List.replicate n [], pwni := n, acc := List.replicate n [] }

/-- `reset_ports`: for each port `destroy_front`, and `decrement_port_count` if it still has an item -/
def jqResetPorts : List (List Nat) → Nat → List (List Nat) × Nat
  | [], c => ([], c)
  | p :: ps, c =>
    let p' := p.tail
    let (ps', c') := jqResetPorts ps (if p'.isEmpty then c else c - 1)
    (p' :: ps', c')

/-- `join_helper<N>::get_items`: the fronts of all ports (fails if a port is empty) -/
def jqHeads : List (List Nat) → Option (List Nat)
  | [] => some []
  | p :: ps =>
    match p, jqHeads ps with
    | x :: _, some t => some (x :: t)
    | _, _ => none

def jqStep (s : JqSt) (op : JqOp) : JqSt × JqOut :=
  if s.ub then (s, .ub) else
  match op with
  | .put p v =>
    match s.ports[p]? with
    | none => (s, .badPort)
    | some q =>
      let ports' := s.ports.set p (q ++ [v])
      let acc' := s.acc.set p (s.acc.getD p [] ++ [v])
      if q.isEmpty then
        if s.pwni = 0 then ({ s with ub := true }, .ub)
        else ({ s with ports := ports', acc := acc', pwni := s.pwni - 1 }, .ok (s.pwni = 1))
      else ({ s with ports := ports', acc := acc' }, .ok false)
  | .fwd a =>
    if s.pwni ≠ 0 then (s, .none)
    else
      match jqHeads s.ports with                   -- join_helper::get_items (fails if a port is empty)
      | none => (s, .none)
      | some t =>
        if a then
          let (ports', c) := jqResetPorts s.ports s.ports.length     -- reset_port_count(); reset_ports()
          ({ s with ports := ports', pwni := c, out := s.out ++ [t] }, .tuple t true)
        else (s, .tuple t false)

def jqMach (n : Nat) : Mach JqSt JqOp JqOut := { init := jqInit n, step := jqStep }

/-! ## join_node, reserving policy: `try_to_make_tuple` = `join_helper<N>::reserve` + accepted/rejected -/

inductive JrEv where
  | reserve (port v : Nat) | release (port : Nat) | consume (port : Nat)
  deriving Repr, DecidableEq

structure JrSt where
  n     : Nat
  resv  : List Bool                -- per port: `reserved`
  out   : List (List Nat) := []    -- ghost: tuples consumed
  deriving Repr, DecidableEq

/-- reserve ports `k-1, …, 0` in that order (as `join_helper<k>::reserve`); `avail p` = what the port's
predecessor would hand out.  Returns events, the tuple (port 0 first) if all succeeded. -/
def jrReserve (avail : Nat → Option Nat) : Nat → List JrEv × Option (List Nat)
  | 0 => ([], some [])
  | k + 1 =>
    match avail k with
    | none => ([], none)
    | some v =>
      match jrReserve avail k with
      | (evs, some t) => (JrEv.reserve k v :: evs, some (t ++ [v]))
      | (evs, none) => (JrEv.reserve k v :: evs ++ [JrEv.release k], none)     -- release_my_reservation

/-- effect of a port event on the ports' `reserved` flags -/
def jrApply (r : List Bool) : JrEv → List Bool
  | .reserve p _ => r.set p true
  | .release p => r.set p false
  | .consume p => r.set p false

inductive JrOut where
  | none (evs : List JrEv)
  | tuple (t : List Nat) (accepted : Bool) (evs : List JrEv)
  deriving Repr, DecidableEq

/-- the port events of one `try_to_make_tuple` + successor verdict + `tuple_accepted` / `tuple_rejected` -/
def jrEvents (n : Nat) (avail : Nat → Option Nat) (accept : Bool) : List JrEv × Option (List Nat) :=
  match jrReserve avail n with
  | (evs, none) => (evs, none)
  | (evs, some t) =>
    if accept then (evs ++ (List.range n).reverse.map JrEv.consume, some t)      -- consume_reservations
    else (evs ++ (List.range n).map JrEv.release, some t)                         -- release_reservations

def jrStep (s : JrSt) (op : List (Option Nat) × Bool) : JrSt × JrOut :=
  let avail := fun p => (op.1.getD p none)
  match jrEvents s.n avail op.2 with
  | (evs, none) => ({ s with resv := evs.foldl jrApply s.resv }, .none evs)
  | (evs, some t) =>
    ({ s with resv := evs.foldl jrApply s.resv, out := if op.2 then s.out ++ [t] else s.out }, .tuple t op.2 evs)

def jrMach (n : Nat) : Mach JrSt (List (Option Nat) × Bool) JrOut :=
  { init := { n := n, resv := List.replicate n false }, step := jrStep }

/-! ## join_node, key_matching policy -/

abbrev Assoc := List (Nat × Nat)

def Assoc.find (a : Assoc) (k : Nat) : Option Nat := (a.find? (·.1 == k)).map (·.2)
def Assoc.del (a : Assoc) (k : Nat) : Assoc := a.filter (·.1 != k)
def Assoc.put (a : Assoc) (k v : Nat) : Assoc := (k, v) :: a.del k

structure JkSt where
  ports  : List Assoc              -- per port: hash_buffer key ↦ message
  counts : Assoc                   -- key ↦ number of ports holding the key
  outbuf : List (List Nat) := []   -- item_buffer<OutputTuple> of the front end
  acc    : List (List Nat)         -- ghost: per port, accepted messages
  out    : List (List Nat) := []   -- ghost: tuples taken by successors
  ub     : Bool := false
  deriving Repr, DecidableEq

inductive JkOp where
  | put (port v : Nat)
  | fwd (accept : Bool)
  deriving Repr, DecidableEq

def jkInit (n : Nat) : JkSt :=
  { ports := List.replicate n [], counts := [], acc := List.replicate n [] }

/-- `join_helper<N>::get_items` with `current_key = k`: the key's message of every port -/
def jkCollect (k : Nat) : List Assoc → Option (List Nat)
  | [] => some []
  | t :: ts =>
    match t.find k, jkCollect k ts with
    | some v, some r => some (v :: r)
    | _, _ => none

/-- `kf` = the key function (the same for every port here). -/
def jkStep (kf : Nat → Nat) (s : JkSt) (op : JkOp) : JkSt × JqOut :=
  if s.ub then (s, .ub) else
  match op with
  | .put p v =>
    match s.ports[p]? with
    | none => (s, .badPort)
    | some tbl =>
      let k := kf v
      match tbl.find k with
      | some _ =>      -- insert_with_key: duplicate key: the stored element is REPLACED, result FAILED
        ({ s with ports := s.ports.set p (tbl.put k v) }, .none)
      | none =>
        let ports1 := s.ports.set p (tbl.put k v)
        let acc' := s.acc.set p (s.acc.getD p [] ++ [v])
        let c := (s.counts.find k).getD 0 + 1                -- increment_key_count
        if c = s.ports.length then
          -- fill_output_buffer: delete the count, fetch the key's item from every port, retire them
          match jkCollect k ports1 with
          | some t =>
            ({ s with ports := ports1.map (·.del k), counts := s.counts.del k, acc := acc',
                      outbuf := s.outbuf ++ [t] }, .ok true)
          | none => ({ s with ub := true }, .ub)
        else ({ s with ports := ports1, counts := s.counts.put k c, acc := acc' }, .ok false)
  | .fwd a =>
    match s.outbuf with
    | [] => (s, .none)
    | t :: rest =>
      if a then ({ s with outbuf := rest, out := s.out ++ [t] }, .tuple t true) else (s, .tuple t false)

def jkMach (n : Nat) (kf : Nat → Nat) : Mach JkSt JkOp JqOut := { init := jkInit n, step := jkStep kf }

/-! ## overwrite_node / write_once_node -/

structure OwSt where
  buf   : Option Nat := none        -- my_buffer / my_buffer_is_valid
  succs : List Nat := []            -- successor ids in the broadcast cache (push edges)
  offers : List (Nat × Nat) := []   -- ghost: (successor, value) offers in order
  deriving Repr, DecidableEq

inductive OwOp where
  | put (v : Nat) (leave : List Nat)    -- try_put_task; `leave` = successors that reject AND switch the edge to pull
  | reg (r : Nat) (accept : Bool)       -- register_successor; `accept` = verdict of r.try_put(my_buffer) if one is made
  | rem (r : Nat)
  | get
  | clear
  deriving Repr, DecidableEq

inductive OwOut where
  | ok | rejected | none | retry
  | item (v : Nat)
  deriving Repr, DecidableEq

def owStep (once : Bool) (s : OwSt) (op : OwOp) : OwSt × OwOut :=
  match op with
  | .put v leave =>
    if once && s.buf.isSome then (s, .rejected)
    else ({ buf := some v, succs := s.succs.filter (fun r => !leave.contains r),
            offers := s.offers ++ s.succs.map (fun r => (r, v)) }, .ok)
  | .reg r a =>
    match s.buf with
    | some v =>
      if a then ({ s with succs := s.succs ++ [r], offers := s.offers ++ [(r, v)] }, .ok)
      else ({ s with offers := s.offers ++ [(r, v)] }, .retry)      -- register_predecessor_task spawned
    | none => ({ s with succs := s.succs ++ [r] }, .ok)
  | .rem r => ({ s with succs := s.succs.erase r }, .ok)
  | .get => match s.buf with | some v => (s, .item v) | none => (s, .none)
  | .clear => ({ s with buf := none }, .ok)

def owMach (once : Bool) : Mach OwSt OwOp OwOut := { init := {}, step := owStep once }

/-! ## broadcast_node, split_node, indexer_node (stateless apart from the successor lists) -/

/-- broadcast_node::try_put_task: offers `v` to every successor of the cache, in order. -/
def broadcastPut (succs : List Nat) (v : Nat) : List (Nat × Nat) := succs.map (fun r => (r, v))

/-- split_node::try_put_task = `emit_element<N>::emit_this`: element `i` goes to output port `i`
(emission order as coded: port N-1 … 0 is irrelevant to routing; we list port 0 first). -/
def splitPut (t : List Nat) : List (Nat × Nat) := (List.range t.length).zip t

/-- indexer_node port `p`: the message is wrapped as `tagged_msg(p, v)` and broadcast. -/
def indexerPut (succs : List Nat) (p v : Nat) : List (Nat × (Nat × Nat)) := succs.map (fun r => (r, (p, v)))

end TbbVerif.C15
