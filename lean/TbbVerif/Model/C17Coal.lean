/-
C17 — the guarded-size locking protocol of the back end at ATOMIC-ACCESS level (src/tbbmalloc/backend.cpp:
`GuardedSize::tryLock` / `unlock`, `FreeBlock::tryLockBlock`, the two halves of `Backend::doCoalesc`).

A free block `B` of size `s` is described by two words: `B.myL` and `R.leftL` (`R` = right neighbour); both hold `s`
while the block is free and untouched.  Whoever wants the block must turn BOTH into a locked value with
`GuardedSize::tryLock`:

    size_t sz = value.load(acquire);
    for (;;) { if (sz <= MAX_LOCKED_VAL) break;                       // somebody else has it: give up
               if (value.compare_exchange_strong(sz, state)) break; }  // on failure `sz` is reloaded
    return sz;

Three kinds of contender, any number of each, run concurrently:
  * getter      `tryLockBlock`                : `myL` -> LOCKED, then `R.leftL` -> LOCKED, roll `myL` back on failure;
  * coalRight   left half of `doCoalesc` (the thread frees `R`): `R.leftL` -> COAL, then `myL` -> COAL, roll back `leftL`;
  * coalLeft    right half of `doCoalesc` (the thread frees the block left of `B`): `myL` -> COAL, then `R.leftL` -> COAL,
                roll `myL` back.
The acquisition orders are opposite; there is no waiting, only try-locks with roll-back (and, in the real code, the
delayed-coalescing queue for the loser).  One model step = one atomic access (load, CAS, store) of one thread.
Winning is final here: a getter's block is in use afterwards, a coalescer's is merged away.
-/
import TbbVerif.Core.Sched
import TbbVerif.Generated.C17Backend

namespace TbbVerif.C17.Coal
open TbbVerif.Generated.C17Backend

inductive Kind where
  | getter | coalRight | coalLeft
  deriving DecidableEq, Repr

/-- which word a contender goes for first: `true` = `myL` -/
def Kind.firstIsMy : Kind → Bool
  | .getter => true | .coalRight => false | .coalLeft => true

/-- the value a contender writes -/
def Kind.mark : Kind → Nat
  | .getter => gsLocked | _ => gsCoalBlock

inductive Pc where
  | start
  /-- inside `tryLock` of the first word, `sz` = the value last seen -/
  | first (sz : Nat)
  /-- first word acquired (it held `v1`); about to load the second -/
  | mid (v1 : Nat)
  /-- inside `tryLock` of the second word -/
  | second (v1 sz : Nat)
  /-- second `tryLock` failed: the store that rolls the first word back to `v1` is pending -/
  | rollback (v1 : Nat)
  | won
  | lost
  deriving DecidableEq, Repr

structure Th where
  kind : Kind
  pc : Pc
  deriving DecidableEq, Repr

structure St where
  my : Nat
  lf : Nat
  ths : List Th
  deriving Repr

def St.word (s : St) (isMy : Bool) : Nat := if isMy then s.my else s.lf
def St.setWord (s : St) (isMy : Bool) (v : Nat) : St := if isMy then { s with my := v } else { s with lf := v }

/-- one atomic access of thread `t` -/
def step (s : St) (tid : Tid) : St :=
  match s.ths[tid]? with
  | none => s
  | some t =>
    let fm := t.kind.firstIsMy
    let upd (s : St) (pc : Pc) : St := { s with ths := s.ths.set tid { t with pc := pc } }
    match t.pc with
    | .start => upd s (.first (s.word fm))                                   -- value.load(acquire)
    | .first sz =>
      if sz ≤ gsMaxLockedVal then upd s .lost                                -- (local) somebody else has it
      else if s.word fm = sz then upd (s.setWord fm t.kind.mark) (.mid sz)   -- CAS succeeded
      else upd s (.first (s.word fm))                                        -- CAS failed: `sz` reloaded
    | .mid v1 => upd s (.second v1 (s.word (!fm)))                           -- load of the second word
    | .second v1 sz =>
      if sz ≤ gsMaxLockedVal then upd s (.rollback v1)
      else if s.word (!fm) = sz then upd (s.setWord (!fm) t.kind.mark) .won
      else upd s (.second v1 (s.word (!fm)))
    | .rollback v1 => upd (s.setWord fm v1) .lost                            -- unlock(v1): plain store
    | .won => s
    | .lost => s

/-- a free block of size `sz` and its contenders -/
def sys (sz : Nat) (kinds : List Kind) : Sys St :=
  { init := { my := sz, lf := sz, ths := kinds.map (fun k => ⟨k, .start⟩) }, step := step }

/-! ### who holds what (read off the program counters) -/

/-- the thread holds its FIRST word -/
def Pc.holdsFirst : Pc → Bool
  | .mid _ => true | .second _ _ => true | .rollback _ => true | .won => true | _ => false

def Pc.isWon : Pc → Bool
  | .won => true | _ => false

def Th.holdsMy (t : Th) : Bool := if t.kind.firstIsMy then t.pc.holdsFirst else t.pc.isWon
def Th.holdsLf (t : Th) : Bool := if t.kind.firstIsMy then t.pc.isWon else t.pc.holdsFirst

def St.winners (s : St) : Nat := s.ths.countP (fun t => t.pc.isWon)

end TbbVerif.C17.Coal
