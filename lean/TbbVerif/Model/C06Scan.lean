/-
C06 — parallel_scan as a TASK PROTOCOL (small-step; executable; core Lean only).

Code modelled: include/oneapi/tbb/parallel_scan.h
  start_scan::run / start_scan::execute (treat_as_stolen, leaf vs. split, *m_sum_slot = &m_body, finalize),
  finish_scan::execute (m_left_is_final reset, reverse_join into *m_sum_slot, m_return_slot, release_parent),
  sum_node (m_left_sum, m_left / m_right, m_left_is_final, m_body / m_incoming / m_stuff_last, ref_count;
            prepare_for_execution, execute #1 = reverse_join + create_child x2, execute #2 = finalize),
  final_sum::execute (final scan of its range, assign to m_stuff_last, release_parent).

State = the code's own state words.  The task tree is kept as an inductive tree (the `m_parent` pointers); a
`start_scan` task is `T.task`, a `finish_scan` together with the `sum_node` it owns (`m_result`) is `T.node`.
Nothing is ever removed from the tree: a finished task stays as `pc = finished`, an executed finish_scan as
`ph = kept` (sum_node handed to `m_return_slot`) or `ph = dropped` (`self_destroy`), so that pass 2 runs over the
same positions.  Bodies (`final_sum::m_body` objects and the user's body) are ids into a global heap of free-monoid
values (`Scan.Ctx`, shared with the big-step model); pointers (`m_body`, `m_left_sum`, `*m_sum_slot`, `m_incoming`,
`m_right_zombie`) are ids.

One model step = one serialised piece of one task's `execute`, performed by the thread that runs it:
  pass 1  `start st`  entry of start_scan::execute: `treat_as_stolen` (GENERATED guard) evaluated on `is_stolen(ed) = st`
                      (the schedule's choice: STEALING IS NONDETERMINISTIC AT EVERY TASK EXECUTION) and on what
                      `m_parent->m_result.m_left_sum` holds AT THAT MOMENT; a fresh `final_sum` is split off, `m_right_zombie` stored
          `split`     the non-leaf branch: new sum_node + finish_scan (ref_count 2) + right child, this task goes on as left child
          `body`      the leaf branch up to and including the body call (final scan / pre-scan / nothing)
          `finish`    `*m_sum_slot = &m_body; finalize`: the slot write and `--parent->ref_count` (a sibling can run in between)
          `fexec`     finish_scan::execute when its count reached 0
  pass 2  `exec2`     sum_node::execute, first invocation    `lfin` / `lend`  final_sum::execute (body call; assign + release)
          `exec2b`    sum_node::execute, second invocation (finalize)
  `top`   start_scan::run between / after the two `execute_and_wait`s
A schedule is a list of (position, action); any action that is not enabled is a no-op.  Tasks therefore run in ANY order
the dependencies (reference counts, `finish_scan` continuation, wait_context) allow, including a right child that runs
while a leaf body of its left sibling's subtree is still unfinished (re-entrant bodies).
-/
import TbbVerif.Model.C06

namespace TbbVerif.C06.SP
open Scan (Ctx Ev mid)

abbrev BodyId := Nat

/-- progress of one `start_scan` task -/
inductive Pc where
  | spawned (right : Bool)        -- allocated / returned as `next_task`, `execute` not entered (`right` = m_is_right_child)
  | ready (right tas : Bool)      -- `treat_as_stolen` evaluated
  | ran                           -- leaf branch: body call done
  | finished                      -- finalize done
  deriving Repr, DecidableEq, Inhabited

/-- phase of a finish_scan / sum_node pair -/
inductive Ph where
  | p1                                                          -- finish_scan waits for its two children
  | kept                                                        -- finish_scan ran, `m_return_slot = &m_result`
  | dropped                                                     -- finish_scan ran, `m_result.self_destroy`
  | prep (body : BodyId) (inc : Option BodyId) (stuff : Bool)   -- `prepare_for_execution` done, task spawned / returned
  | run2 (ref : Nat)                                            -- first `execute` done, `ref_count` = live children
  | gone                                                        -- second `execute`: finalize
  deriving Repr, DecidableEq, Inhabited

/-- a `final_sum` turned into a leaf task of pass 2 by `finish_construction` -/
inductive L2 where
  | none
  | ready (b lo hi : Nat) (stuff : Bool)
  | ran (b : Nat) (stuff : Bool)
  | gone
  deriving Repr, DecidableEq, Inhabited

structure Nd where
  lo : Nat
  hi : Nat
  /-- finish_scan::ref_count -/
  ref : Nat
  /-- finish_scan::m_right_zombie -/
  z : Option BodyId
  /-- finish_scan::m_sum_slot != nullptr -/
  ss : Bool
  /-- sum_node::m_left_sum -/
  ls : Option BodyId
  /-- sum_node::m_left_is_final -/
  lif : Bool
  ph : Ph
  /-- pass 2: the final_sum leaf tasks created for the left / right half when there is no kept child sum_node -/
  ll : L2
  rl : L2
  deriving Repr, DecidableEq, Inhabited

inductive T where
  | task (lo hi : Nat) (b : BodyId) (fin ss : Bool) (pc : Pc)
  | node (nd : Nd) (l r : T)
  deriving Repr, DecidableEq, Inhabited

inductive Act where
  | start (stolen : Bool)
  | split
  | body
  | finish
  | fexec
  | exec2
  | lfin (right : Bool)
  | lend (right : Bool)
  | exec2b
  | top
  deriving Repr, DecidableEq, Inhabited

structure Res where
  c : Ctx
  t : T
  /-- `--m_parent->ref_count` on the finish_scan above (pass 1) -/
  dec : Bool := false
  /-- `*m_sum_slot = &m_body` performed with this body -/
  sw : Option BodyId := none
  /-- `--m_parent->ref_count` on the sum_node above (pass 2) -/
  dec2 : Bool := false
  ok : Bool := true
  deriving Repr

def noop (c : Ctx) (t : T) : Res := { c := c, t := t, ok := false }

/-- `m_left` / `m_right` of the parent sum_node is non-null: the child finish_scan handed its sum_node over -/
def isKept : T → Bool
  | .node nd _ _ => match nd.ph with
      | .p1 => false
      | .dropped => false
      | _ => true
  | .task .. => false

def decRef (ref : Nat) (dec : Bool) : Nat := if dec then ref - 1 else ref

def decPh (ph : Ph) (dec2 : Bool) : Ph :=
  match ph, dec2 with
  | .run2 k, true => .run2 (k - 1)
  | ph, _ => ph

/-- `child->prepare_for_execution(body, incoming, stuff_last)` -/
def setPrep (t : T) (body : BodyId) (inc : Option BodyId) (stuff : Bool) : T :=
  match t with
  | .node nd l r => .node { nd with ph := .prep body inc stuff } l r
  | t => t

def b2n (b : Bool) : Nat := if b then 1 else 0

/-- one step of a `start_scan` task that is NOT a spawned right child (those need their parent's `m_left_sum`) -/
def stepTask (g : Nat) (c : Ctx) (a : Act) (lo hi b : Nat) (fin ss : Bool) (pc : Pc) : Res :=
  match a, pc with
  | .start st, .spawned false =>
      -- a task that is not a right child is never treated as stolen (`m_is_right_child && …`): otherwise it would store a
      -- zombie into the finish_scan it has just created / dereference the root's null `m_parent`
      let tas := Generated.C06.scanTreatAsStolen false st true
      { c := if tas then c.fail else c, t := .task lo hi b fin ss (.ready false false) }
  | .split, .ready right tas =>
      if Generated.C06.scanLeafCond right tas (decide (g < hi - lo)) false = false then
        -- `result = new sum_node(m_range, m_is_final, …)`, `new finish_scan(m_return_slot, m_sum_slot, *result, m_parent)`,
        -- right child split off (inherits m_body, m_sum_slot, m_is_final); this task: `m_sum_slot = &result->m_left_sum`
        { c := c,
          t := .node { lo := lo, hi := hi, ref := 2, z := none, ss := ss, ls := none, lif := fin, ph := .p1, ll := .none, rl := .none }
                 (.task lo (mid lo hi) b fin true (.spawned false)) (.task (mid lo hi) hi b fin ss (.spawned true)) }
      else noop c (.task lo hi b fin ss pc)
  | .body, .ready right tas =>
      if Generated.C06.scanLeafCond right tas (decide (g < hi - lo)) true = true then
        let m := Generated.C06.scanLeafMode fin ss
        { c := if m = 2 then c.finalScan b lo hi else if m = 1 then c.preScan b lo hi else c,
          t := .task lo hi b fin ss .ran }
      else noop c (.task lo hi b fin ss pc)
  | .finish, .ran =>
      { c := c, t := .task lo hi b fin ss .finished, dec := true,
        sw := if Generated.C06.scanLeafWritesSlot ss then some b else none }
  | _, _ => noop c (.task lo hi b fin ss pc)

/-- a final_sum leaf of pass 2 -/
def stepLeaf (c : Ctx) (fin' : Bool) (l : L2) : Option (Ctx × L2 × Bool) :=
  match fin', l with
  | true, .ready b lo hi stuff => some (c.finalScan b lo hi, .ran b stuff, false)
  | false, .ran b stuff => some (if stuff then c.assign 0 b else c, .gone, true)
  | _, _ => none

/-- actions of the finish_scan / sum_node pair itself -/
def stepNode (c : Ctx) (sv : Option BodyId) (a : Act) (nd : Nd) (l r : T) : Res :=
  match a with
  | .fexec =>
      if nd.ph = .p1 ∧ nd.ref = 0 then
        let c1 :=
          if Generated.C06.scanFinishJoins nd.z.isSome nd.ss then
            match sv, nd.ls with
            | some x, some y => if Generated.C06.scanFinishJoinRecvSlot then c.rjoin x y else c.rjoin y x
            | _, _ => c.fail
          else c
        { c := c1,
          t := .node { nd with lif := if Generated.C06.scanResetsLeftIsFinal (isKept l) then false else nd.lif,
                               ph := if Generated.C06.scanKeeps nd.z.isSome (isKept r) then .kept else .dropped } l r,
          dec := true }
      else noop c (.node nd l r)
  | .exec2 =>
      match nd.ph, nd.ls with
      | .prep body inc stuff, some ls =>
          let c0 := if Generated.C06.scanPass2Skeleton then c else c.fail
          let c1 := match inc with
            | some i => if Generated.C06.scanNodeJoinRecvLeftSum then c0.rjoin ls i else c0.rjoin i ls
            | none => c0
          -- the two children must not be given the same body
          let c2 := if !nd.lif && body == ls then c1.fail else c1
          let m := mid nd.lo nd.hi
          let rk := isKept r
          let lk := isKept l
          { c := c2,
            t := .node { nd with ph := .run2 (1 + b2n (!nd.lif)),
                                 rl := if rk then .none else .ready ls m nd.hi stuff,
                                 ll := if nd.lif || lk then .none else .ready body nd.lo m false }
                   (if !nd.lif && lk then setPrep l body inc false else l)
                   (if rk then setPrep r ls (some ls) stuff else r) }
      | .prep _ _ _, none => { c := c.fail, t := .node nd l r, ok := false }
      | _, _ => noop c (.node nd l r)
  | .lfin right =>
      match nd.ph with
      | .run2 _ =>
          match stepLeaf c true (if right then nd.rl else nd.ll) with
          | some (c', l', _) => { c := c', t := .node (if right then { nd with rl := l' } else { nd with ll := l' }) l r }
          | none => noop c (.node nd l r)
      | _ => noop c (.node nd l r)
  | .lend right =>
      match nd.ph with
      | .run2 k =>
          match stepLeaf c false (if right then nd.rl else nd.ll) with
          | some (c', l', _) =>
              { c := c', t := .node (if right then { nd with rl := l', ph := .run2 (k - 1) } else { nd with ll := l', ph := .run2 (k - 1) }) l r }
          | none => noop c (.node nd l r)
      | _ => noop c (.node nd l r)
  | .exec2b =>
      if nd.ph = .run2 0 then { c := c, t := .node { nd with ph := .gone } l r, dec2 := true } else noop c (.node nd l r)
  | _ => noop c (.node nd l r)

/-- `some …` iff the action is the entry of `execute` of the spawned (not yet entered) right child directly below the node -/
def startRight (p : List Bool) (a : Act) (r : T) : Option (Bool × Nat × Nat × Nat × Bool × Bool) :=
  match p, a, r with
  | [], .start st, .task lo hi b fin ss (.spawned true) => some (st, lo, hi, b, fin, ss)
  | _, _, _ => none

/-- one action `a` at position `p`; `sv` = what the slot `m_sum_slot` of this position points to currently holds -/
def stepAt (g : Nat) (c : Ctx) (sv : Option BodyId) (p : List Bool) (a : Act) (t : T) : Res :=
  match p, t with
  | [], .task lo hi b fin ss pc => stepTask g c a lo hi b fin ss pc
  | _ :: _, .task lo hi b fin ss pc => noop c (.task lo hi b fin ss pc)
  | [], .node nd l r => stepNode c sv a nd l r
  | false :: p, .node nd l r =>
      let res := stepAt g c nd.ls p a l
      { c := res.c,
        t := .node { nd with ls := if res.sw.isSome then res.sw else nd.ls, ref := decRef nd.ref res.dec, ph := decPh nd.ph res.dec2 } res.t r,
        ok := res.ok }
  | true :: p, .node nd l r =>
      match startRight p a r with
      | some (st, lo, hi, b, fin, ss) =>
          -- start_scan::execute of the spawned right child: the GENERATED guard on `is_stolen(ed)` and
          -- `&m_body.get() != m_parent->m_result.m_left_sum`; a really stolen task whose guard evaluation reads
          -- `m_left_sum` races with the thread that writes it (flagged)
          let neq := (some b != nd.ls)
          let tas := Generated.C06.scanTreatAsStolen true st neq
          let c0 := if st && Generated.C06.scanGuardReadsLeftSum true st neq then c.fail else c
          if tas then
            { c := (c0.alloc b).1,
              t := .node { nd with z := some (c0.alloc b).2 } l
                     (.task lo hi (c0.alloc b).2 (if Generated.C06.scanStolenClearsFinal then false else fin) ss (.ready true true)) }
          else { c := c0, t := .node nd l (.task lo hi b fin ss (.ready true false)) }
      | none =>
          let res := stepAt g c sv p a r
          { c := res.c, t := .node { nd with ref := decRef nd.ref res.dec, ph := decPh nd.ph res.dec2 } l res.t,
            sw := res.sw, ok := res.ok }

structure St where
  c : Ctx := {}
  tree : T := .task 0 0 0 false false .finished
  /-- wait_context of `run` -/
  wait : Nat := 0
  /-- 1 = first execute_and_wait, 2 = second, 3 = `run` returned -/
  phase : Nat := 3
  deriving Repr

/-- `start_scan::run` up to the first `execute_and_wait`: `temp_body` (object 1) split from the user's body (object 0),
`temp_body.reverse_join(body)`, the root task (final, no sum slot, not a right child) -/
def init (lo hi : Nat) : St :=
  let c0 : Ctx := { heap := [[]] }
  if lo < hi then
    let (c, t) := c0.alloc 0
    { c := c.rjoin t 0, tree := .task lo hi t true false (.spawned false), wait := 1, phase := 1 }
  else { c := c0 }

def step (g : Nat) (s : St) (pa : List Bool × Act) : St :=
  match pa.2 with
  | .top =>
      if s.wait = 0 ∧ s.phase = 1 then
        if isKept s.tree then
          -- `root->prepare_for_execution(temp_body, nullptr, &body); w_ctx.reserve(); execute_and_wait(*root, …)`
          { s with tree := setPrep s.tree 1 none true, wait := 1, phase := 2 }
        else { s with c := s.c.assign 0 1, phase := 3 }       -- `temp_body.assign_to(body)`
      else if s.wait = 0 ∧ s.phase = 2 then { s with phase := 3 }
      else s
  | a =>
      if s.phase = 3 then s
      else
        let res := stepAt g s.c none pa.1 a s.tree
        { s with c := res.c, tree := res.t, wait := decRef s.wait (res.dec || res.dec2) }

def run (g lo hi : Nat) (sched : List (List Bool × Act)) : St := sched.foldl (step g) (init lo hi)

def enabled (g : Nat) (s : St) (pa : List Bool × Act) : Bool :=
  match pa.2 with
  | .top => decide (s.wait = 0 ∧ (s.phase = 1 ∨ s.phase = 2))
  | a => s.phase != 3 && (stepAt g s.c none pa.1 a s.tree).ok

/-! ### a complete schedule (used for non-vacuity and by the driver's `auto` command): always the first enabled
action in tree order (`rightFirst` reverses the order of the children); `steal lo hi` decides `is_stolen` per right child -/

def candActs (steal : Bool) : List Act :=
  [.start steal, .split, .body, .finish, .fexec, .exec2, .lfin false, .lfin true, .lend false, .lend true, .exec2b]

def positions (rightFirst : Bool) : T → List Bool → List (List Bool)
  | .task .., p => [p]
  | .node _ l r, p =>
      if rightFirst then p :: (positions rightFirst r (p ++ [true]) ++ positions rightFirst l (p ++ [false]))
      else p :: (positions rightFirst l (p ++ [false]) ++ positions rightFirst r (p ++ [true]))

def pickAuto (g : Nat) (rightFirst : Bool) (stealAll : Bool) (s : St) : Option (List Bool × Act) :=
  if enabled g s ([], .top) then some ([], .top)
  else
    (positions rightFirst s.tree []).findSome? fun p =>
      (candActs stealAll).findSome? fun a => if enabled g s (p, a) then some (p, a) else none

def autoSched (g : Nat) (rightFirst stealAll : Bool) : Nat → St → List (List Bool × Act) → List (List Bool × Act)
  | 0, _, acc => acc.reverse
  | fuel + 1, s, acc =>
      match pickAuto g rightFirst stealAll s with
      | some pa => autoSched g rightFirst stealAll fuel (step g s pa) (pa :: acc)
      | none => acc.reverse

/-! ## line-protocol driver `c06sp`: an observed event log of the real parallel_scan is replayed as model transitions.
Observable steps (body calls, body splits, reverse_join, assign, range splits) must be enabled model steps emitting exactly
the observed event; the unobservable steps (slot write + finalize, finish_scan / sum_node executions without a join, `run`'s
glue) are placed lazily, only inside the subtree whose completion the observed event implies. -/
namespace Drv
open Proto

def sub : T → List Bool → Option T
  | t, [] => some t
  | .node _ l _, false :: p => sub l p
  | .node _ _ r, true :: p => sub r p
  | _, _ => none

def evMatch (e obs : Ev) : Bool :=
  match e, obs with
  | .fin b lo hi _, .fin b' lo' hi' _ => b == b' && lo == lo' && hi == hi'
  | a, b => a == b

def applyExpect (g : Nat) (s : St) (pa : List Bool × Act) (obs : Option Ev) : Option St :=
  if !enabled g s pa then none
  else
    let s' := step g s pa
    match obs, s'.c.log.drop s.c.log.length with
    | none, [] => some s'
    | some o, [e] => if evMatch e o then some s' else none
    | _, _ => none

/-- the unobservable actions that may be tried at a position (`all`: also silent body calls and unstolen starts) -/
def silentActs (all : Bool) : T → List Act
  | .task _ _ _ _ _ pc =>
      match pc with
      | .spawned false => [.start false]
      | .spawned true => if all then [.start false] else []
      | .ready _ _ => if all then [.body] else []
      | .ran => [.finish]
      | .finished => []
  | .node .. => [.fexec, .exec2, .exec2b, .lend false, .lend true]

/-- one sweep over the positions below `pre`: every enabled action that emits nothing is taken -/
def sweep (g : Nat) (all : Bool) (pre : List Bool) (s : St) : St × Bool :=
  match sub s.tree pre with
  | none => (s, false)
  | some t0 =>
      (positions false t0 pre).foldl (fun (acc : St × Bool) p =>
        match sub acc.1.tree p with
        | none => acc
        | some t =>
            (silentActs all t).foldl (fun (acc : St × Bool) a =>
              match applyExpect g acc.1 (p, a) none with
              | some s' => (s', true)
              | none => acc) acc) (s, false)

def closure (g : Nat) (all : Bool) (pre : List Bool) : Nat → St → St
  | 0, s => s
  | fuel + 1, s =>
      let (s1, ch1) := sweep g all pre s
      let (s2, ch2) := if pre.isEmpty then (match applyExpect g s1 ([], .top) none with | some s' => (s', true) | none => (s1, false)) else (s1, false)
      if ch1 || ch2 then closure g all pre fuel s2 else s2

def findTask : T → List Bool → Nat → Nat → Option (List Bool × Pc)
  | .task lo hi _ _ _ pc, p, a, b => if lo == a && hi == b then some (p, pc) else none
  | .node nd l r, p, a, b =>
      let m := mid nd.lo nd.hi
      if nd.lo == a && nd.hi == b then none
      else if b ≤ m then findTask l (p ++ [false]) a b
      else if m ≤ a then findTask r (p ++ [true]) a b
      else none

def leafReady (l : L2) (a b : Nat) : Bool :=
  match l with
  | .ready _ lo hi _ => lo == a && hi == b
  | _ => false

def findLeaf : T → List Bool → Nat → Nat → Option (List Bool × Bool)
  | .task .., _, _, _ => none
  | .node nd l r, p, a, b =>
      let m := mid nd.lo nd.hi
      if a == nd.lo && b == m && leafReady nd.ll a b then some (p, false)
      else if a == m && b == nd.hi && leafReady nd.rl a b then some (p, true)
      else if b ≤ m then findLeaf l (p ++ [false]) a b
      else if m ≤ a then findLeaf r (p ++ [true]) a b
      else none

structure DS where
  g : Nat := 1
  base : Nat := 0
  s : St := {}

def FUEL : Nat := 1000000

/-- a body call `b(range [lo,hi), tag)` -/
def bodyEvent (d : DS) (obs : Ev) (lo hi : Nat) : Option St :=
  let g := d.g
  let direct (s : St) : Option St :=
    match findTask s.tree [] lo hi with
    | some (p, .spawned false) => (applyExpect g s (p, .start false) none).bind fun s1 => applyExpect g s1 (p, .body) (some obs)
    | some (p, .spawned true) =>
        -- no body split was observed for this right child: its left sibling's subtree must be complete
        let s0 := closure g false (p.dropLast ++ [false]) FUEL s
        (applyExpect g s0 (p, .start false) none).bind fun s1 => applyExpect g s1 (p, .body) (some obs)
    | some (p, .ready _ _) => applyExpect g s (p, .body) (some obs)
    | _ => (findLeaf s.tree [] lo hi).bind fun (p, side) => applyExpect g s (p, .lfin side) (some obs)
  match direct d.s with
  | some s => some s
  | none => direct (closure g true [] FUEL d.s)

def nodeCands (q : Nd → Bool) (t : T) : List (List Bool) :=
  (positions false t []).filter fun p =>
    match sub t p with
    | some (.node nd _ _) => q nd
    | _ => false

def joinEvent (d : DS) (b a : Nat) : Option St :=
  let g := d.g
  let obs := Ev.rjoin b a
  let pass2 (s : St) : Option St :=
    (nodeCands (fun nd => match nd.ph with | .prep _ (some i) _ => i == a && nd.ls == some b | _ => false) s.tree).findSome? fun p =>
      applyExpect g s (p, .exec2) (some obs)
  let pass1 (s : St) : Option St :=
    (nodeCands (fun nd => nd.ph == .p1 && nd.z.isSome && nd.ss) s.tree).findSome? fun p =>
      applyExpect g (closure g false p FUEL s) (p, .fexec) (some obs)
  match pass2 d.s with
  | some s => some s
  | none =>
    match pass1 d.s with
    | some s => some s
    | none => pass2 (closure g true [] FUEL d.s)

def assignEvent (d : DS) (b a : Nat) : Option St :=
  let g := d.g
  let obs := Ev.assign b a
  let direct (s : St) : Option St :=
    match (nodeCands (fun nd => match nd.ph with | .run2 _ => true | _ => false) s.tree).findSome? fun p =>
        match applyExpect g s (p, .lend true) (some obs) with
        | some s' => some s'
        | none => applyExpect g s (p, .lend false) (some obs) with
    | some s' => some s'
    | none => applyExpect g s ([], .top) (some obs)
  match direct d.s with
  | some s => some s
  | none => direct (closure g true [] FUEL d.s)

def drive (d : DS) (ws : List String) : DS × String :=
  let fail (m : String) : DS × String := (d, "FAIL " ++ m)
  match ws with
  | ["init", g, lo, hi] =>
      match nat? g, nat? lo, nat? hi with
      | some g, some lo, some hi => ({ g := g, base := lo, s := init lo hi }, "ok")
      | _, _, _ => (d, "bad-op")
  | ["S", z, b, lo, hi, st] =>
      match nat? z, nat? b, nat? lo, nat? hi, nat? st with
      | some z, some b, some lo, some hi, some st =>
          match findTask d.s.tree [] lo hi with
          | some (p, .spawned true) =>
              match applyExpect d.g d.s (p, .start (st != 0)) (some (.split z b)) with
              | some s => ({ d with s := s }, "ok")
              | none => fail s!"right child [{lo},{hi}) split body {z} from {b} (is_stolen={st}): the model's guard does not (or from another body)"
          | _ => fail s!"no spawned right child with range [{lo},{hi}) for the observed body split {z} <- {b}"
      | _, _, _, _, _ => (d, "bad-op")
  | ["X", lo, m, hi] =>
      match nat? lo, nat? m, nat? hi with
      | some lo, some m, some hi =>
          if mid lo hi != m then fail s!"range [{lo},{hi}) split at {m}, model splits at {mid lo hi}"
          else
            let s0 := match findTask d.s.tree [] lo hi with
              | some (p, .spawned false) => (applyExpect d.g d.s (p, .start false) none).getD d.s
              | _ => d.s
            match findTask s0.tree [] lo hi with
            | some (p, .ready _ _) =>
                match applyExpect d.g s0 (p, .split) none with
                | some s => ({ d with s := s }, "ok")
                | none => fail s!"task [{lo},{hi}) splits but the model's leaf condition holds (unstolen right child / not divisible)"
            | _ => fail s!"no task with range [{lo},{hi}) that could split"
      | _, _, _ => (d, "bad-op")
  | ["P", b, lo, hi] =>
      match nat? b, nat? lo, nat? hi with
      | some b, some lo, some hi =>
          match bodyEvent d (.pre b lo hi) lo hi with
          | some s => ({ d with s := s }, "ok")
          | none => fail s!"pre-scan of [{lo},{hi}) on body {b} is not an enabled model step"
      | _, _, _ => (d, "bad-op")
  | ["F", b, lo, hi, okf, len] =>
      match nat? b, nat? lo, nat? hi, nat? okf, nat? len with
      | some b, some lo, some hi, some okf, some len =>
          match bodyEvent d (.fin b lo hi []) lo hi with
          | some s =>
              match s.c.log.getLast? with
              | some (.fin _ _ _ inc) =>
                  if (inc == rng d.base lo) == (okf != 0) && inc.length == len then ({ d with s := s }, "ok")
                  else ({ d with s := s }, s!"FAIL final scan of [{lo},{hi}): observed prefix ok={okf} len={len}, model prefix ok={showBool (inc == rng d.base lo)} len={inc.length}")
              | _ => ({ d with s := s }, "FAIL internal")
          | none => fail s!"final scan of [{lo},{hi}) on body {b} is not an enabled model step"
      | _, _, _, _, _ => (d, "bad-op")
  | ["J", b, a] =>
      match nat? b, nat? a with
      | some b, some a =>
          match joinEvent d b a with
          | some s => ({ d with s := s }, "ok")
          | none => fail s!"reverse_join {b} <- {a} is not an enabled model step (finish_scan with both children done, or sum_node::execute)"
      | _, _ => (d, "bad-op")
  | ["A", b, a] =>
      match nat? b, nat? a with
      | some b, some a =>
          match assignEvent d b a with
          | some s => ({ d with s := s }, "ok")
          | none => fail s!"assign {b} <- {a} is not an enabled model step"
      | _, _ => (d, "bad-op")
  | ["end"] =>
      let s := closure d.g true [] FUEL d.s
      ({ d with s := s }, s!"done phase={s.phase} wait={s.wait} err={showBool s.c.err} value={C06.Drv.showList (s.c.val 0)} events={s.c.log.length}")
  | ["auto", g, lo, hi, rf, st] =>
      match nat? g, nat? lo, nat? hi, nat? rf, nat? st with
      | some g, some lo, some hi, some rf, some st =>
          let s0 := init lo hi
          let s := (autoSched g (rf != 0) (st != 0) (64 * (hi - lo) + 64) s0 []).foldl (step g) s0
          (d, s!"phase={s.phase} err={showBool s.c.err} value={C06.Drv.showList (s.c.val 0)} log={";".intercalate (s.c.log.map (C06.Drv.showScanEv lo))}")
      | _, _, _, _, _ => (d, "bad-op")
  | _ => (d, "bad-op")

def driver : Proto.Driver := { σ := DS, init := {}, step := drive }

end Drv

end TbbVerif.C06.SP
