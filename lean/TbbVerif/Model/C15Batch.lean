/-
C15 (extension a) — the aggregator-based buffering nodes AS CODED, one aggregator batch at a time.

Code modelled (include/oneapi/tbb/flow_graph.h, pinned tree + fix commits):

* `buffer_node::handle_operations_impl` — the `while (op_list)` loop over one batch in LIST order (the list the
  aggregator hands over is the pending stack: REVERSED arrival order, the handler's own operation last), the
  `switch` over the eight op kinds `reg_succ, rem_succ, req_item, res_item, rel_res, con_res, put_item,
  try_fwd_task` with its per-case treatment of the local `try_forwarding` (regenerated: `Skel`), `derived->order()`,
  and the epilogue `if (try_forwarding && !forwarder_busy) { forwarder_busy = true; new forward_task_bypass }`;
* the per-kind handlers: `internal_push / internal_pop / internal_reserve / internal_consume / internal_release`
  are the atomic steps `bufStep` / `prioStep` of Model/C15.lean (about which the C15 invariants are proved);
* `internal_forward_task_impl`: the `my_reserved || !is_item_valid()` gate, `counter = my_successors.size()`, the loop
  `for (; counter > 0 && is_item_valid(); --counter) try_put_and_add_task(last_task)`, the verdict
  `last_task && !counter ? SUCCEEDED : (FAILED, forwarder_busy = false)`;
* `round_robin_cache::try_put_task`: the successors are asked in list order, the first acceptor ends the walk, a
  rejecting successor whose `register_predecessor` returns true is erased (the edge flips to pull mode);
* `forward_task()`: `do execute(try_fwd_task) while (status == SUCCEEDED)` — a forwarder is a client that submits
  `try_fwd_task` operations until one FAILS (ghost `live`);
* `sequencer_node::internal_push` with the regenerated `size_t` index expressions (`seqPush64`).

Successor behaviour is an oracle `ω : Nat → Verdict` indexed by the number of `try_put_task` calls made so far
(`tick`), so every accept / reject / reject-and-switch-to-pull pattern is covered.
-/
import TbbVerif.Model.C15

namespace TbbVerif.C15.Batch
open TbbVerif.C15

/-- what a successor answers to one `try_put_task`: a task (`accept`), `nullptr` and it stays in the cache
(`reject`: its `register_predecessor` returned false), or `nullptr` and the edge flips to pull mode (`rejectPull`) -/
inductive Verdict where
  | accept | reject | rejectPull
  deriving Repr, DecidableEq, Inhabited

/-- `buffer_node::op_type` -/
inductive NOp where
  | regSucc (r : Nat) | remSucc (r : Nat) | reqItem | resItem | relRes | conRes | putItem (v : Nat) | tryFwd
  deriving Repr, DecidableEq

/-- how one `case` of the switch treats the local `try_forwarding`:
`keep` (not mentioned), `setTrue` (`try_forwarding = true`), `assign` (`try_forwarding = handler(tmp)`),
`orAssign` (`try_forwarding |= handler(tmp)` or an equivalent `if (handler(tmp)) try_forwarding = true`) -/
inductive TfEff where
  | keep | setTrue | assign | orAssign
  deriving Repr, DecidableEq

/-- the regenerated skeleton of the switch (one entry per op kind) -/
structure Skel where
  regSucc : TfEff
  remSucc : TfEff
  reqItem : TfEff
  resItem : TfEff
  relRes  : TfEff
  conRes  : TfEff
  putItem : TfEff
  tryFwd  : TfEff
  deriving Repr, DecidableEq

def TfEff.apply (e : TfEff) (cur res : Bool) : Bool :=
  match e with
  | .keep => cur
  | .setTrue => true
  | .assign => res
  | .orAssign => cur || res

def Skel.eff (k : Skel) : NOp → TfEff
  | .regSucc _ => k.regSucc | .remSucc _ => k.remSucc | .reqItem => k.reqItem | .resItem => k.resItem
  | .relRes => k.relRes | .conRes => k.conRes | .putItem _ => k.putItem | .tryFwd => k.tryFwd

/-- the switch as it is in the pinned tree -/
def Skel.pinned : Skel :=
  { regSucc := .setTrue, remSucc := .keep, reqItem := .keep, resItem := .keep, relRes := .setTrue,
    conRes := .setTrue, putItem := .assign, tryFwd := .keep }

def TfEff.ofCode : Nat → TfEff
  | 0 => .keep | 1 => .setTrue | 2 => .assign | _ => .orAssign

/-- the switch as it is in $VERIF_REPO now (regenerated on every run from the source text) -/
def Skel.generated : Skel :=
  { regSucc := .ofCode Generated.C15.tfRegSucc, remSucc := .ofCode Generated.C15.tfRemSucc,
    reqItem := .ofCode Generated.C15.tfReqItem, resItem := .ofCode Generated.C15.tfResItem,
    relRes := .ofCode Generated.C15.tfRelRes, conRes := .ofCode Generated.C15.tfConRes,
    putItem := .ofCode Generated.C15.tfPutItem, tryFwd := .ofCode Generated.C15.tfTryFwd }

/-- every case that can make an item newly offerable asks for forwarding, and no case can withdraw a request
made by an earlier operation of the same batch -/
def Skel.ok (k : Skel) : Bool :=
  k.regSucc == .setTrue && k.relRes == .setTrue && k.conRes == .setTrue &&
  (k.putItem == .setTrue || k.putItem == .orAssign) &&
  k.remSucc != .assign && k.reqItem != .assign && k.resItem != .assign && k.tryFwd != .assign

/-- the same, for node kinds whose `internal_push` cannot fail (buffer, queue, priority queue): `assign` of a
result that is always `true` is as good as `setTrue` -/
def Skel.okTotalPush (k : Skel) : Bool :=
  k.regSucc == .setTrue && k.relRes == .setTrue && k.conRes == .setTrue &&
  (k.putItem == .setTrue || k.putItem == .orAssign || k.putItem == .assign) &&
  k.remSucc != .assign && k.reqItem != .assign && k.resItem != .assign && k.tryFwd != .assign

/-- the per-kind part of a node: the atomic handlers and the three hooks `handle_operations_impl` /
`internal_forward_task_impl` call on `derived` -/
structure Core (σ : Type) where
  step    : σ → BufOp → σ × BufOut     -- internal_push/pop/reserve/release/consume; `.fwd a` = one try_put_and_add_task
  blocked : σ → Bool                   -- `my_reserved || !is_item_valid()`
  valid   : σ → Bool                   -- `is_item_valid()`
  cand    : σ → Nat                    -- what try_put_and_add_task offers (`back()` / `front()` / `prio()`)
  busy    : σ → Bool                   -- forwarder_busy
  setBusy : σ → Bool → σ
  order   : σ → σ                      -- `derived->order()`

structure NSt (σ : Type) where
  core   : σ
  succs  : List Nat := []                       -- my_successors (the cache's list, in order)
  tick   : Nat := 0                             -- successor verdicts consumed so far
  offers : List (Nat × Nat × Verdict) := []     -- ghost: (successor, item, verdict), in order
  tasks  : Nat := 0                             -- ghost: forwarding tasks created so far
  live   : Nat := 0                             -- ghost: forwarders that will still submit a try_fwd_task

/-- result of one operation: the status the handler stored, and the item for a successful get / reserve -/
inductive NRes where
  | succeeded | failed | misuse | ub
  | item (v : Nat)
  deriving Repr, DecidableEq

def NRes.ofOut (isRelCon : Bool) : BufOut → NRes
  | .ok => .succeeded
  | .rejected => .failed
  | .none => if isRelCon then .misuse else .failed
  | .ub => .ub
  | .item v => .item v
  | .offered _ a => if a then .succeeded else .failed

/-- `round_robin_cache::try_put_task(v)`: (accepted?, remaining successors, tick, offers made) -/
def cacheTry (ω : Nat → Verdict) (v : Nat) : List Nat → Nat → Bool × List Nat × Nat × List (Nat × Nat × Verdict)
  | [], t => (false, [], t, [])
  | r :: rs, t =>
    match ω t with
    | .accept => (true, r :: rs, t + 1, [(r, v, .accept)])
    | .reject =>
      let (a, rs', t', l) := cacheTry ω v rs (t + 1)
      (a, r :: rs', t', (r, v, .reject) :: l)
    | .rejectPull =>
      let (a, rs', t', l) := cacheTry ω v rs (t + 1)
      (a, rs', t', (r, v, .rejectPull) :: l)

variable {σ : Type}

/-- one `try_put_and_add_task` with verdict `a` of the cache: `try_put_task(back()/front()/prio())` and, if a task came
back, `destroy_back / destroy_front / prio_pop`.  It never touches `forwarder_busy`. -/
def Core.offer (C : Core σ) (s : σ) (a : Bool) : σ := C.setBusy (C.step s (.fwd a)).1 (C.busy s)

/-- the loop `for (; counter > 0 && derived->is_item_valid(); --counter) derived->try_put_and_add_task(last_task)`;
returns the state, the counter left and `last_task != nullptr` -/
def fwdLoop (C : Core σ) (ω : Nat → Verdict) : Nat → NSt σ → Bool → NSt σ × Nat × Bool
  | 0, s, last => (s, 0, last)
  | c + 1, s, last =>
    if C.valid s.core then
      let r := cacheTry ω (C.cand s.core) s.succs s.tick
      fwdLoop C ω c { s with core := C.offer s.core r.1, succs := r.2.1, tick := r.2.2.1,
                             offers := s.offers ++ r.2.2.2 } (last || r.1)
    else (s, c + 1, last)

/-- `internal_forward_task_impl`; the Bool is `status == SUCCEEDED` -/
def internalForward (C : Core σ) (ω : Nat → Verdict) (s : NSt σ) : NSt σ × Bool :=
  if C.blocked s.core then ({ s with core := C.setBusy s.core false }, false)
  else
    let r := fwdLoop C ω s.succs.length s false
    if r.2.2 && r.2.1 == 0 then (r.1, true)
    else ({ r.1 with core := C.setBusy r.1.core false }, false)

/-- one `case` of the switch: the new state, the handler's result, and the Bool the case may assign to
`try_forwarding` (`internal_push`'s return value) -/
def handleOne (C : Core σ) (ω : Nat → Verdict) (s : NSt σ) : NOp → NSt σ × NRes × Bool
  | .regSucc r => ({ s with succs := s.succs ++ [r] }, .succeeded, true)
  | .remSucc r => ({ s with succs := s.succs.erase r }, .succeeded, true)
  | .reqItem => let p := C.step s.core .get; ({ s with core := p.1 }, NRes.ofOut false p.2, true)
  | .resItem => let p := C.step s.core .reserve; ({ s with core := p.1 }, NRes.ofOut false p.2, true)
  | .relRes => let p := C.step s.core .release; ({ s with core := p.1 }, NRes.ofOut true p.2, true)
  | .conRes => let p := C.step s.core .consume; ({ s with core := p.1 }, NRes.ofOut true p.2, true)
  | .putItem v =>
    let p := C.step s.core (.put v)
    ({ s with core := p.1 }, NRes.ofOut false p.2, p.2 == .ok)
  | .tryFwd =>
    let p := internalForward C ω s
    -- a FAILED try_fwd_task ends its forwarder (`forward_task()` leaves its do-while)
    ({ p.1 with live := if p.2 then p.1.live else p.1.live - 1 }, if p.2 then .succeeded else .failed, true)

/-- the `while (op_list)` loop: operations in LIST order; carries `try_forwarding` and the results -/
def handleLoop (C : Core σ) (k : Skel) (ω : Nat → Verdict) : List NOp → NSt σ → Bool → NSt σ × Bool × List NRes
  | [], s, tf => (s, tf, [])
  | op :: ops, s, tf =>
    let r := handleOne C ω s op
    let q := handleLoop C k ω ops r.1 ((k.eff op).apply tf r.2.2)
    (q.1, q.2.1, r.2.1 :: q.2.2)

/-- `derived->order()` and the epilogue of `handle_operations_impl` (the graph is active) -/
def epilogue (C : Core σ) (s : NSt σ) (tf : Bool) : NSt σ × Bool :=
  let s1 := { s with core := C.order s.core }
  if tf && !C.busy s1.core then
    ({ s1 with core := C.setBusy s1.core true, tasks := s1.tasks + 1, live := s1.live + 1 }, true)
  else (s1, false)

/-- `handle_operations(op_list)`: state, per-operation results (list order), "a forwarding task was created" -/
def handleOps (C : Core σ) (k : Skel) (ω : Nat → Verdict) (s : NSt σ) (batch : List NOp) : NSt σ × List NRes × Bool :=
  let r := handleLoop C k ω batch s false
  let e := epilogue C r.1 r.2.1
  (e.1, r.2.2, e.2)

/-- What `aggregator_generic` provides (C13 `aggregator_serial_exactly_once`, same `_aggregator.h`): handlers are
serial, every submitted operation is in exactly one batch, its status is stored inside that batch, and a batch is
the pending stack at the handler's `exchange`: the operations in REVERSED arrival (CAS) order. -/
def batchOf (arrivals : List NOp) : List NOp := arrivals.reverse

/-- a concurrent history, as serialised by the aggregator: the batches in handler order, each given by the
arrival order of its operations -/
def runHistory (C : Core σ) (k : Skel) (ω : Nat → Verdict) (s : NSt σ) : List (List NOp) → NSt σ
  | [] => s
  | arr :: rest => runHistory C k ω (handleOps C k ω s (batchOf arr)).1 rest

/-- the sequential reference: every operation is its own critical section, in the given order; `try_forwarding`
and the task epilogue play no role (they change only `forwarder_busy` and the ghost task counters) -/
def seqRun (C : Core σ) (ω : Nat → Verdict) : List NOp → NSt σ → NSt σ × List NRes
  | [], s => (s, [])
  | op :: ops, s =>
    let r := handleOne C ω s op
    let q := seqRun C ω ops r.1
    (q.1, r.2.1 :: q.2)

/-- does this operation, at this state, ask for forwarding (`try_forwarding = true` in a correct switch)? -/
def fires (C : Core σ) (s : NSt σ) : NOp → Bool
  | .regSucc _ => true
  | .relRes => true
  | .conRes => true
  | .putItem v => (C.step s.core (.put v)).2 == .ok
  | _ => false

/-- some operation of the batch, at its place in the batch, asks for forwarding -/
def hasTrigger (C : Core σ) (ω : Nat → Verdict) : List NOp → NSt σ → Bool
  | [], _ => false
  | op :: ops, s => fires C s op || hasTrigger C ω ops (handleOne C ω s op).1

/-- history well-formedness for forwarders: a batch contains at most as many `try_fwd_task` operations as there are
live forwarders when it starts (a forwarder has one operation in flight) -/
def countFwd (b : List NOp) : Nat := b.count .tryFwd

def wfHistory (C : Core σ) (k : Skel) (ω : Nat → Verdict) (s : NSt σ) : List (List NOp) → Prop
  | [] => True
  | arr :: rest => countFwd arr ≤ s.live ∧ wfHistory C k ω (handleOps C k ω s (batchOf arr)).1 rest

/-! ## the four node kinds as `Core`s -/

def itemValid (k : Kind) (s : BufSt) : Bool :=
  match k with
  | .buffer => s.buf.valid (s.buf.tail - 1)
  | _ => s.buf.valid s.buf.head

def candOf (k : Kind) (s : BufSt) : Nat :=
  match k with
  | .buffer => s.buf.back.getD 0
  | _ => s.buf.front.getD 0

def bufCore (k : Kind) (mode : Nat) (f : Nat → Nat) : Core BufSt :=
  { step := bufStep k mode f
    blocked := fun s => s.reserved || !itemValid k s
    valid := itemValid k
    cand := candOf k
    busy := (·.busy)
    setBusy := fun s b => { s with busy := b }
    order := id }

def toPrioOp : BufOp → PrioOp
  | .put v => .put v | .get => .get | .reserve => .reserve | .release => .release | .consume => .consume
  | .fwd a => .fwd a

def prioCore : Core PrioSt :=
  { step := fun s op => prioStep s (toPrioOp op)
    blocked := fun s => s.resv.isSome || s.data.length == 0
    valid := fun s => decide (s.data.length > 0)
    cand := (·.prio)
    busy := (·.busy)
    setBusy := fun s b => { s with busy := b }
    order := PrioSt.order }

def bufInit : NSt BufSt := { core := {} }
def prioInit : NSt PrioSt := { core := {} }

/-! ## `sequencer_node::internal_push` with the regenerated `size_t` expressions -/

/-- `element(i).state` as a number: no_item = 0, has_item = 1, reserved_item = 2 -/
def slotState : Slot → Nat
  | none => 0
  | some (_, false) => 1
  | some (_, true) => 2

/-- `internal_push` of the sequencer over the ring, every scalar expression being the regenerated one
(`Generated.C15`: 64-bit wrap-around arithmetic as translated from the source text) -/
def seqPush64 (b : ItemBuf) (tag v : Nat) : Option (ItemBuf × Bool) :=
  if Generated.C15.seqStale tag b.head then none
  else
    let newTail := Generated.C15.seqNewTail tag b.tail
    let sz := Generated.C15.sizeOf newTail b.tail b.head
    let b1 := if Generated.C15.seqGrowCond sz b.arr.length then b.grow sz else b
    let b2 := { b1 with tail := newTail }
    if Generated.C15.itemValid tag b2.head b2.tail (slotState (b2.slot tag)) then some (b2, false)
    else some ({ b2 with arr := b2.arr.set (Generated.C15.slotIdx tag b2.arr.length) (some (v, false)) }, true)

/-- the sequencer's handlers with `internal_push` in 64-bit arithmetic (`f v` is converted to `size_t`) -/
def seqStep64 (mode : Nat) (f : Nat → Nat) (s : BufSt) (op : BufOp) : BufSt × BufOut :=
  match op with
  | .put v =>
    if s.ub then (s, .ub) else
    match seqPush64 s.buf (f v % 2 ^ 64) v with
    | none => (s, .rejected)
    | some (b', true) => ({ s with buf := b', acc := s.acc ++ [v] }, .ok)
    | some (b', false) => ({ s with buf := b' }, .rejected)
  | _ => bufStep .sequencer mode f s op

def seqCore64 (mode : Nat) (f : Nat → Nat) : Core BufSt :=
  { bufCore .sequencer mode f with step := seqStep64 mode f }

end TbbVerif.C15.Batch
