/-
C16 — the life cycle of a thread in an arena at the level of atomic accesses: worker admission through `my_references`
(`arena::try_join` = `is_joinable()` check, then `my_references += ref_worker`: check-then-add under a *shared* lock), slot
occupation (`occupy_free_slot`, the protocol of `Model/C16.lean` §5, re-used step for step), recall (`is_recall_requested()` polled
in the dispatch loop), leaving (`arena_slot::release`, `on_thread_leaving`: `my_references.fetch_sub(ref_param)`), with the market
changing `my_num_workers_allotted` at any moment and `r1::resume` / `task_arena` objects adding and dropping references of their own.

"Executing inside the arena" = owning a slot (`STh.slot`: from the successful `try_occupy` exchange to the `release()` store).
A worker that has joined (holds a `ref_worker` reference) is *not* inside until it owns a slot; it may fail to get one and leave.

One model step = one atomic access.  Program counters of a thread:
  out            outside (in `thread_dispatcher::process`, or an application thread before `task_arena::execute`)
  joinAllot r    `is_joinable()`: `my_references` was read as `r`; next: read `my_num_workers_allotted`
  joinOk         the check passed; next: `my_references += ref_worker` (try_join) — or nothing (`is_any_client_in_need` only probes)
  occupy         `occupy_free_slot<as_worker>` in progress: the slot sub-protocol's pc is in `sth`
  inside i       owns slot `i`, in the dispatch loop; a worker may poll `is_recall_requested()`
  recallAllot i r   … `my_references` was read as `r`; next: read `my_num_workers_allotted`
  leaving i      next: `my_slots[i].release()`
  unref          a worker after release / after a failed occupy: next: `my_references.fetch_sub(ref_worker)`
The constants `refExternalBits` (→ `ref_worker`) and the two comparisons (`is_joinable`, `is_recall_requested`) are generated.
-/
import TbbVerif.Model.C16

namespace TbbVerif.C16.Life
open TbbVerif.C16 TbbVerif.Generated.C16

def refWorker : Nat := 2 ^ refExternalBits

/-- `num_workers_active()`: `my_references >> ref_external_bits` -/
def active (refs : Nat) : Nat := refs / refWorker

inductive LPc where
  | out
  | joinAllot (r : Nat)
  | joinOk
  | occupy
  | inside (i : Nat)
  | recallAllot (i r : Nat)
  | leaving (i : Nat)
  | unref
  deriving Repr, DecidableEq

structure LTh where
  sth : STh                  -- the slot sub-protocol's thread state (worker flag, pc, start-index choices, ghost slot)
  pc : LPc := .out
  holdsRef : Bool := false   -- ghost: between the `+= ref_worker` and the `fetch_sub(ref_worker)`
  recalled : Bool := false   -- ghost: the last `is_recall_requested()` of this stay answered true
  deriving Repr, DecidableEq

structure LSt where
  occ : List Bool
  limit : Nat
  refsE : Nat                -- my_references, external field (the arena's own reference, attached task_arena objects, coroutines)
  refsW : Nat := 0           -- my_references, worker field (`>> ref_external_bits`); the word is `refsE + ref_worker * refsW`
  allot : Nat                -- my_num_workers_allotted
  transient : Nat := 0       -- ghost: `ref_worker` references held by `r1::resume` calls in flight
  ths : List LTh
  deriving Repr, DecidableEq

inductive LOp where
  | th (t : Nat)             -- the next access of a thread whose pc determines it
  | begin_ (t : Nat)         -- at `out`: a worker starts `is_joinable()`, an application thread starts `occupy_free_slot<false>`
  | abandon (t : Nat)        -- at `joinOk`: the caller only probed (`is_any_client_in_need`)
  | poll (t : Nat)           -- at `inside`: a worker starts `is_recall_requested()`
  | exit_ (t : Nat)          -- at `inside`: an application thread's `execute` ends; a worker whose last poll said "recalled" leaves
  | setAllot (v : Nat)       -- the market: `my_num_workers_allotted.store(v)`
  | extRef (up : Bool)       -- `my_references += ref_external` (attach, create_coroutine) / `on_thread_leaving(ref_external)`
  | resumeRef (up : Bool)    -- `r1::resume`: `my_references += ref_worker` … `on_thread_leaving(ref_worker)`
  deriving Repr, DecidableEq

/-- the word `my_references` (no carry from the external field while it stays below `ref_worker`: at most 4095 external references) -/
def LSt.refs (s : LSt) : Nat := s.refsE + refWorker * s.refsW

def setTh (s : LSt) (t : Nat) (th : LTh) : LSt := { s with ths := s.ths.set t th }

/-- after a step of the slot sub-protocol during `occupy`: got a slot, gave up, or still scanning -/
def afterOccupy (th : LTh) (sth' : STh) : LTh :=
  match sth'.pc with
  | .inside i => { th with sth := sth', pc := .inside i, recalled := false }
  | .idle => { th with sth := sth', pc := if th.sth.worker then .unref else .out }
  | _ => { th with sth := sth' }

/-- One atomic access; returns the new state and the access (none = no access: a ghost move or a disabled operation). -/
def LSt.step (cfg : SCfg) (s : LSt) : LOp → LSt × Option Ev
  | .begin_ t =>
    match s.ths[t]? with
    | some th =>
      if th.pc = .out ∧ th.sth.pc = .idle ∧ th.sth.hints ≠ [] then
        if th.sth.worker then
          (setTh s t { th with pc := .joinAllot s.refs }, some { kind := "load", var := "refs", order := "acq", a := s.refs, b := 0, ok := 1 })
        else
          let r := stepTh cfg s.occ s.limit th.sth
          ({ (setTh s t (afterOccupy { th with pc := .occupy } r.1)) with occ := r.2.1, limit := r.2.2.1 }, r.2.2.2)
      else (s, none)
    | none => (s, none)
  | .abandon t =>
    match s.ths[t]? with
    | some th => if th.pc = .joinOk then (setTh s t { th with pc := .out }, none) else (s, none)
    | none => (s, none)
  | .poll t =>
    match s.ths[t]? with
    | some th =>
      match th.pc with
      | .inside i =>
        if th.sth.worker then
          (setTh s t { th with pc := .recallAllot i s.refs }, some { kind := "load", var := "refs", order := "acq", a := s.refs, b := 0, ok := 1 })
        else (s, none)
      | _ => (s, none)
    | none => (s, none)
  | .exit_ t =>
    match s.ths[t]? with
    | some th =>
      match th.pc with
      | .inside i => if !th.sth.worker || th.recalled then (setTh s t { th with pc := .leaving i }, none) else (s, none)
      | _ => (s, none)
    | none => (s, none)
  | .setAllot v => ({ s with allot := v }, some { kind := "store", var := "allot", order := "rlx", a := v, b := s.allot, ok := 1 })
  | .extRef up =>
    if up then ({ s with refsE := s.refsE + 1 }, some { kind := "fadd", var := "refs", order := "sc", a := s.refs, b := s.refs + 1, ok := 1 })
    else if 0 < s.refsE then ({ s with refsE := s.refsE - 1 }, some { kind := "fsub", var := "refs", order := "rel", a := s.refs, b := s.refs - 1, ok := 1 })
    else (s, none)
  | .resumeRef up =>
    if up then ({ s with refsW := s.refsW + 1, transient := s.transient + 1 },
                some { kind := "fadd", var := "refs", order := "sc", a := s.refs, b := s.refs + refWorker, ok := 1 })
    else if 0 < s.transient then ({ s with refsW := s.refsW - 1, transient := s.transient - 1 },
                some { kind := "fsub", var := "refs", order := "rel", a := s.refs, b := s.refs - refWorker, ok := 1 })
    else (s, none)
  | .th t =>
    match s.ths[t]? with
    | some th =>
      match th.pc with
      | .joinAllot r =>
        -- `is_joinable()`: generated comparison of `num_workers_active()` (from the value read before) with the allotment read now
        let ev : Ev := { kind := "load", var := "allot", order := "rlx", a := s.allot, b := 0, ok := 1 }
        (setTh s t { th with pc := if joinableCond (active r) s.allot then .joinOk else .out }, some ev)
      | .joinOk =>
        ({ (setTh s t { th with pc := .occupy, holdsRef := true }) with refsW := s.refsW + 1 },
          some { kind := "fadd", var := "refs", order := "sc", a := s.refs, b := s.refs + refWorker, ok := 1 })
      | .occupy =>
        let r := stepTh cfg s.occ s.limit th.sth
        ({ (setTh s t (afterOccupy th r.1)) with occ := r.2.1, limit := r.2.2.1 }, r.2.2.2)
      | .recallAllot i r =>
        let ev : Ev := { kind := "load", var := "allot", order := "rlx", a := s.allot, b := 0, ok := 1 }
        (setTh s t { th with pc := .inside i, recalled := recallCond (active r) s.allot }, some ev)
      | .leaving _ =>
        let r := stepTh cfg s.occ s.limit th.sth       -- the slot sub-protocol is at `.inside i`: the `release()` store
        ({ (setTh s t { th with sth := r.1, pc := if th.sth.worker then .unref else .out }) with occ := r.2.1, limit := r.2.2.1 }, r.2.2.2)
      | .unref =>
        ({ (setTh s t { th with pc := .out, holdsRef := false }) with refsW := s.refsW - 1 },
          some { kind := "fsub", var := "refs", order := "rel", a := s.refs, b := s.refs - refWorker, ok := 1 })
      | _ => (s, none)
    | none => (s, none)

/-- `threads`: worker flag and the start-index choices (one per range scan), as in `slotSys`; `ext0` external references
(the arena's own `ref_external`, attached `task_arena` objects), initial allotment 0. -/
def LSt.init (cfg : SCfg) (threads : List (Bool × List Nat)) (ext0 : Nat) : LSt :=
  { occ := List.replicate cfg.numSlots false, limit := 1, refsE := ext0, allot := 0,
    ths := threads.map (fun p => { sth := { worker := p.1, hints := p.2 } }) }

def LSt.run (cfg : SCfg) (s : LSt) (ops : List LOp) : LSt := ops.foldl (fun s o => (s.step cfg o).1) s

/-- the slot protocol's view of the state -/
def LSt.proj (s : LSt) : SSt := { occ := s.occ, limit := s.limit, ths := s.ths.map (·.sth) }

def LSt.holders (s : LSt) : Nat := s.ths.countP (·.holdsRef)
def LSt.workersInside (s : LSt) : Nat := s.ths.countP (fun th => th.sth.worker && th.sth.slot.isSome)
def LSt.inside (s : LSt) : Nat := s.ths.countP (fun th => th.sth.slot.isSome)

end TbbVerif.C16.Life
