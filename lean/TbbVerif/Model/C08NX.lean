/-
C08 — exhaustive exploration of the node-protocol model `QRwN` (Model/C08N.lean) for SMALL configurations (executable; used by the
check as a model-level search, not as a proof): every reachable state of the given programs under every schedule is visited;
reported: an exclusion violation (two writers / a writer with a reader holding), a dereferenced bad pointer, a STUCK state (some
thread has not finished and no thread's step changes the state: all remaining threads spin — a lost hand-off), and, for programs
without upgrade_to_writer, a violated clause of the invariant of Model/C08NInv.lean.
-/
import Std.Data.HashSet
import TbbVerif.Model.C08NInv

namespace TbbVerif.C08.QRwN.Explore

/-- everything the protocol or the checks can observe of thread `i` -/
structure View where
  loc : Loc
  nd : List Nat
  gh : List Nat
  fl : List Bool
  deriving BEq, Hashable

def view (st : St) (i : Tid) : View :=
  { loc := st.loc i, nd := [st.prev i, st.next i, st.state i, st.going i, st.ilock i],
    gh := [st.held i, st.pos i, st.gpred i, st.iown i], fl := [st.inq i, st.gr i, st.isW i, st.upg i, st.dirty i] }

structure Key where
  tail : Nat
  bad : Bool
  cnt : Nat
  ths : List View
  deriving BEq, Hashable

def key (n : Nat) (st : St) : Key := ⟨st.tail, st.bad, st.cnt, (List.range n).map (view st)⟩

def hasUpgrade (progs : List (List Op)) : Bool := progs.any (fun p => p.any (fun o => o == .upgrade))

def check (n : Nat) (inv : Bool) (st : St) : List String :=
  let ids := List.range n
  let nW := (ids.filter (st.held · == 2)).length
  let nR := (ids.filter (st.held · == 1)).length
  (if nW > 1 || (nW > 0 && nR > 0) then ["exclusion"] else []) ++ (if st.bad then ["bad-pointer"] else []) ++
  (if inv then violated st n else [])

structure Result where
  states : Nat := 0
  finals : Nat := 0
  what : String := "ok"
  sched : List Tid := []

instance : Inhabited St := ⟨{}⟩

/-- depth-first exploration with a visited set, at most `limit` states -/
partial def explore (progs : List (List Op)) (limit : Nat) : Result := Id.run do
  let n := progs.length
  let inv := !hasUpgrade progs
  let init : St := { loc := initLoc progs }
  let mut seen : Std.HashSet Key := {}
  let mut stack : Array (St × List Tid) := #[(init, [])]
  seen := seen.insert (key n init)
  let mut count := 0
  let mut finals := 0
  while !stack.isEmpty do
    let (st, path) := stack.back!
    stack := stack.pop
    count := count + 1
    if count > limit then
      return { states := count, finals := finals, what := "limit" }
    let v := check n inv st
    if !v.isEmpty then
      return { states := count, finals := finals, what := "VIOLATION " ++ ",".intercalate v, sched := path.reverse }
    let k := key n st
    let mut progress := false
    let mut alldone := true
    for t in List.range n do
      if !(st.loc t).ops.isEmpty then alldone := false
      let st' := step st t
      let k' := key n st'
      if k' != k then
        progress := true
        if !seen.contains k' then
          seen := seen.insert k'
          stack := stack.push (st', t :: path)
    if alldone then finals := finals + 1
    else if !progress then
      return { states := count, finals := finals, what := "STUCK", sched := path.reverse }
  return { states := count, finals := finals }

open Proto

/-- `prog <op>*` appends a thread; `explore <limit>` → `<ok|limit|STUCK|VIOLATION names> states=<n> finals=<n> sched=<tids>` -/
def drive (progs : List (List Op)) (ws : List String) : List (List Op) × String :=
  match ws with
  | "prog" :: ops =>
      match ops.mapM parseOp with
      | some os => (progs ++ [os], "ok")
      | none => (progs, "bad-op")
  | ["explore", lim] =>
      match nat? lim with
      | some l =>
        let r := explore progs l
        (progs, s!"{r.what} states={r.states} finals={r.finals} sched={showNats r.sched}")
      | none => (progs, "bad-op")
  | ["reset"] => ([], "ok")
  | _ => (progs, "bad-op")

def driver : Proto.Driver := { σ := List (List Op), init := [], step := drive }

/-! ### trace replay with the invariant evaluated on every model state reached (programs without upgrade_to_writer) -/

/-- the replay driver of Model/C08N.lean; after every committed step of a run whose programs contain no upgrade_to_writer the clauses of
the invariant (Model/C08NInv.lean) are evaluated on the new model state: ` | inv <violated clause names>` is appended to the answer -/
def driveInv (d : DSt) (ws : List String) : DSt × String :=
  let (d', o) := QRwN.drive d ws
  match ws with
  | "e" :: _ =>
      if o.startsWith "ok " then
        let noUpg := (List.range d'.n).all (fun i => (d'.st.upg i == false) && !((d'.st.loc i).ops.any (· == .upgrade)) && !(d'.st.loc i).pc.isUpgOnly)
        (d', o ++ " | inv " ++ (if noUpg then " ".intercalate (violated d'.st d'.n) else "-"))
      else (d', o)
  | _ => (d', o)

def driverInv : Proto.Driver := { σ := DSt, init := {}, step := driveInv }

end TbbVerif.C08.QRwN.Explore
