/-
C09 — concurrent_queue / concurrent_bounded_queue (executable model, core Lean only).

Part 1  lane / page arithmetic exactly as coded in `_concurrent_queue_base.h`
        (`concurrent_queue_rep::index`, `k &= -n_queue`, `modulo_power_of_two(k / n_queue, items_per_page)`,
        the `items_per_page` ladder) and `Ring`, the per-lane page chain (prepare_page / mask / pop finalizer).
Part 2  `TicketQ`: the ticket protocol as an interleaving system, one step per atomic access of the code to
        `tail_counter`, `head_counter`, `n_invalid_entries`, `my_abort_counter`, the lanes' `tail_counter` /
        `head_counter` and the page `mask` (plus one step per blocked-wait resolution).
        `n_queue` and `phi` come from `Generated/C09.lean` (re-extracted from the headers on every run).
Part 3  line-protocol drivers used by checks/c09.py.
-/
import TbbVerif.Core.Proto
import TbbVerif.Generated.C09

namespace TbbVerif.C09

abbrev nq : Nat := Generated.C09.n_queue
abbrev phi : Nat := Generated.C09.phi

/-! ## Part 1: arithmetic -/

/-- `concurrent_queue_rep::index(k) = k * phi % n_queue` -/
def lane (k : Nat) : Nat := k * phi % nq
/-- position of ticket `k` inside its lane -/
def rnd (k : Nat) : Nat := k / nq
/-- `k &= -n_queue` (value the lane counters are compared with) -/
def base (k : Nat) : Nat := nq * (k / nq)
/-- the same, literally as coded on a 64-bit `size_t` -/
def baseAnd (k : Nat) : Nat := k &&& (2 ^ 64 - nq)

/-- `micro_queue<T>::items_per_page` as a function of `sizeof(T)` -/
def ippOf (sz : Nat) : Nat :=
  if sz ≤ 8 then 32 else if sz ≤ 16 then 16 else if sz ≤ 32 then 8 else if sz ≤ 64 then 4 else if sz ≤ 128 then 2 else 1

/-- slot index inside the page: `modulo_power_of_two(k / n_queue, items_per_page)` -/
def idx (ipp k : Nat) : Nat := (k / nq) % ipp
/-- literally as coded -/
def idxAnd (ipp k : Nat) : Nat := (k / nq) &&& (ipp - 1)
/-- which page of the lane -/
def pageOf (ipp k : Nat) : Nat := (k / nq) / ipp

/-! ### page chain of one lane -/

structure Page where
  first : Nat          -- lane round stored in slot 0
  mask : Nat := 0
  deriving Repr, DecidableEq

/-- One `micro_queue`'s page list.  Rounds are lane-local ticket numbers (`k / n_queue`). -/
structure Ring where
  pages : List Page := []     -- head_page … tail_page
  hr : Nat := 0               -- head_counter / n_queue
  tr : Nat := 0               -- tail_counter / n_queue
  linked : Bool := false      -- prepare_page of round `tr` has run
  allocs : Nat := 0
  frees : Nat := 0
  deriving Repr, DecidableEq

inductive ROp where
  | prep                      -- prepare_page: allocate + link a page iff index == 0, else use tail_page
  | pub (valid : Bool)        -- construct (or fail), set the mask bit iff constructed, tail_counter += n_queue
  | pop                       -- micro_queue::pop at round `hr` (the turnstile guarantees hr < tr)
  deriving Repr, DecidableEq

/-- apply `f` to the last page (tail_page) -/
def modLast (f : Page → Page) : List Page → List Page
  | [] => []
  | [p] => [f p]
  | p :: q :: r => p :: modLast f (q :: r)

/-- `none` = the code would touch a page that does not exist / is not the right one. -/
def Ring.step (ipp : Nat) (R : Ring) : ROp → Option (Ring × Option Bool)
  | .prep =>
    if R.linked then none
    else if R.tr % ipp = 0 then
      some ({ R with pages := R.pages ++ [{ first := R.tr }], linked := true, allocs := R.allocs + 1 }, none)
    else if R.pages.isEmpty then none
    else some ({ R with linked := true }, none)
  | .pub valid =>
    if !R.linked || R.pages.isEmpty then none
    else
      let f : Page → Page := fun p => if valid then { p with mask := p.mask ||| (1 <<< (R.tr % ipp)) } else p
      some ({ R with pages := modLast f R.pages, tr := R.tr + 1, linked := false }, none)
  | .pop =>
    if R.hr < R.tr then
      match R.pages with
      | [] => none
      | p :: rest =>
        let bit := p.mask.testBit (R.hr % ipp)
        if R.hr % ipp = ipp - 1 then
          some ({ R with pages := rest, hr := R.hr + 1, frees := R.frees + 1 }, some bit)
        else some ({ R with hr := R.hr + 1 }, some bit)
    else none

def Ring.run (ipp : Nat) : Ring → List ROp → Option (Ring × List (Option Bool))
  | R, [] => some (R, [])
  | R, o :: os =>
    match R.step ipp o with
    | none => none
    | some (R', out) =>
      match Ring.run ipp R' os with
      | none => none
      | some (R'', outs) => some (R'', out :: outs)

/-! ## Part 2: the ticket protocol -/

inductive Slot where
  | pending | item (v : Nat) | invalid
  deriving Repr, DecidableEq

/-- oracle of a push: nothing throws / the element constructor throws / the page allocation (if this push
allocates one) throws -/
inductive Fail where
  | none | ctor | alloc
  deriving Repr, DecidableEq

inductive Op where
  | push (v : Nat) (f : Fail)          -- concurrent_queue::push / emplace
  | tryPop                             -- try_pop of either queue
  | bpush (v : Nat) (f : Fail)         -- concurrent_bounded_queue::push / emplace (blocking)
  | btryPush (v : Nat) (f : Fail)      -- try_push / try_emplace
  | bpop                               -- blocking pop
  | abort
  | setCap (c : Int)
  deriving Repr, DecidableEq

inductive Res where
  | ok | threw | badAlloc | badLast | val (v : Nat) | empty | full | aborted
  deriving Repr, DecidableEq

inductive Pc where
  | start
  -- micro_queue::push (prepare_page + construct + publish)
  | pAlloc1 | pAlloc2 | pTurn | pBadLast | pCons | pMaskSt | pAdv (ok : Bool)
  -- internal_try_pop_impl
  | tHead | tTail | tCas
  -- micro_queue::pop
  | lHead | lTail | lMask | lMove | lInv | lFin (r : Option Nat)
  -- bounded internal_push
  | bTicket | bGate | bPredA | bPredH | bBlocked | bAbTurn | bAbInv | bAbAdv
  -- internal_push_if_not_full
  | yHead | yCas
  -- bounded internal_pop
  | qTicket | qGate | qPredA | qPredT | qBlocked | qUndo
  -- internal_abort: after `++my_abort_counter`, the two abort_all() flushes
  | aFlush
  deriving Repr, DecidableEq

structure Th where
  ops : List Op
  pc : Pc := .start
  k : Nat := 0          -- the ticket held / the local `ticket`
  old : Nat := 0        -- old_abort_counter
  m : Nat := 0          -- mask value loaded before the mask store
  inv : Nat := 0        -- time of the first access of the current operation
  fl : Nat := 0         -- number of abort_all flushes of its monitor seen when the blocked wait began
  deriving Repr, DecidableEq

structure PRec where
  v : Nat
  tid : Nat
  time : Nat
  deriving Repr, DecidableEq

/-- a completed operation -/
structure DoneRec where
  tid : Nat
  op : Op
  res : Res
  ticket : Nat          -- last ticket used (push: tail ticket; pop: head ticket); meaningless for empty/full/abort()
  inv : Nat
  lin : Nat             -- linearisation instant claimed by the model
  resp : Nat
  wit : Bool            -- empty/full answers: the queue really was empty/full at instant `lin`
  deriving Repr, DecidableEq

/-- protocol part of the global state: the code's words + the ghost logs the safety invariant speaks about -/
structure P where
  ipp : Nat := 32
  pushLog : List PRec := []            -- tail_counter = pushLog.length; entry k = who took tail ticket k
  head : Nat := 0                      -- head_counter
  ninv : Nat := 0                      -- n_invalid_entries
  ltail : Nat → Nat := fun _ => 0      -- array[l].tail_counter
  lhead : Nat → Nat := fun _ => 0      -- array[l].head_counter
  mask : Nat → Nat → Nat := fun _ _ => 0   -- lane, page number ↦ padded_page::mask
  -- ghost
  slot : Nat → Slot := fun _ => .pending
  popOwner : Nat → Nat := fun _ => 0
  popLog : List (Nat × Nat) := []      -- (head ticket, value) of every item moved out
  skipLog : List Nat := []             -- head tickets that met an invalid slot
  invLog : List Nat := []              -- tail tickets invalidated (n_invalid_entries was incremented for them)
  hazard : Bool := false               -- an aborted pop undid `head_counter` while not holding the latest ticket
  poisoned : Bool := false             -- a page allocation failed (lane tail made odd)
  underflow : Bool := false            -- `--n_invalid_entries` at 0

/-- global state -/
structure G extends P where
  cap : Int := 0                       -- my_capacity
  abortCnt : Nat := 0                  -- my_abort_counter
  popTime : Nat → Nat := fun _ => 0
  done : List DoneRec := []
  now : Nat := 0
  crashed : Bool := false              -- a pop dereferenced a page that was never linked
  noPage : Nat → Bool := fun _ => false   -- tail tickets whose page was never linked (allocation failed / bad_last_alloc)
  undone : Bool := false               -- some aborted pop executed `head_counter--`
  capSet : Bool := false               -- set_capacity was called
  unb : Bool := false                  -- an unbounded push (no capacity gate) took a ticket
  flushPop : Nat := 0                  -- abort_all() flushes of the items-available monitor (blocked pops)
  flushPush : Nat := 0                 -- abort_all() flushes of the slots-available monitor (blocked pushes)

def P.tail (g : P) : Nat := g.pushLog.length
def G.tail (g : G) : Nat := g.pushLog.length

def upd {α : Type} (f : Nat → α) (i : Nat) (x : α) : Nat → α := fun j => if j = i then x else f j
def upd2 {α : Type} (f : Nat → Nat → α) (i j : Nat) (x : α) : Nat → Nat → α :=
  fun a b => if a = i ∧ b = j then x else f a b

structure Ev where
  kind : String
  var : String
  a : Nat
  b : Nat
  ok : Bool
  deriving Repr, DecidableEq

def ev (kind var : String) (a b : Nat) (ok : Bool := true) : Option Ev := some ⟨kind, var, a, b, ok⟩
def laneVar (p : String) (l : Nat) : String := p ++ toString l

abbrev Out := G × Th × Option Ev

def pushTime (g : G) (k : Nat) : Nat := match g.pushLog[k]? with | some r => r.time | none => 0

/-- the current operation returns -/
def finish (g : G) (tid : Nat) (t : Th) (op : Op) (res : Res) (lin : Nat) (wit : Bool := true) : G × Th :=
  ({ g with done := g.done ++ [{ tid := tid, op := op, res := res, ticket := t.k, inv := t.inv, lin := lin, resp := g.now, wit := wit }] },
   { t with ops := t.ops.tail, pc := .start })

/-- entry of `micro_queue::push` after the ticket `t.k` is held: page allocation (if any) comes first -/
def pushEntry (g : G) (t : Th) (f : Fail) : Pc :=
  if f = .alloc ∧ idx g.ipp t.k = 0 then .pAlloc1 else .pTurn

def invalidate (g : G) (k : Nat) : G :=
  { g with ninv := g.ninv + 1, slot := upd g.slot k .invalid, invLog := g.invLog ++ [k] }

def takeTail (g : G) (tid v : Nat) : G := { g with pushLog := g.pushLog ++ [{ v := v, tid := tid, time := g.now }] }
/-- page allocation failed: `++n_invalid_entries` … -/
def poisonInv (g : G) (k : Nat) : G := { invalidate g k with poisoned := true }
/-- … `invalidate_page`: the lane's tail_counter becomes odd -/
def poisonStore (g : G) (k : Nat) : G := { g with ltail := upd g.ltail (lane k) (base k + nq + 1), poisoned := true }
/-- `p->mask.store(m | 1 << index)` after the element was constructed -/
def maskStore (g : G) (k v m' : Nat) : G :=
  { g with mask := upd2 g.mask (lane k) (pageOf g.ipp k) m', slot := upd g.slot k (.item v) }
/-- `tail_counter.fetch_add(n_queue)` of the lane -/
def advTail (g : G) (k : Nat) : G := { g with ltail := upd g.ltail (lane k) (g.ltail (lane k) + nq) }
/-- the element of head ticket `h` is moved out -/
def popMove (g : G) (h v : Nat) : G := { g with popLog := g.popLog ++ [(h, v)] }
/-- head ticket `h` met an invalid slot: `--n_invalid_entries` -/
def skipInv (g : G) (h : Nat) : G :=
  { g with ninv := g.ninv - 1, skipLog := g.skipLog ++ [h], underflow := g.underflow || g.ninv == 0 }
/-- pop finalizer: the lane's `head_counter.store(k + n_queue)` -/
def advHead (g : G) (h : Nat) : G := { g with lhead := upd g.lhead (lane h) (base h + nq) }
/-- aborted pop: `head_counter--` by the holder of head ticket `h` -/
def undoHead (g : G) (h : Nat) : G :=
  { g with head := g.head - 1, hazard := g.hazard || (h + 1 != g.head), undone := true }
def takeHead (g : G) (tid : Nat) : G :=
  { g with head := g.head + 1, popOwner := upd g.popOwner g.head tid, popTime := upd g.popTime g.head g.now }

def full (g : G) (k hd : Nat) : Bool := decide ((hd : Int) ≤ (k : Int) - g.cap)

/-- steps shared by the three push operations once the ticket is held -/
def stepLanePush (g : G) (tid : Nat) (t : Th) (op : Op) (v : Nat) (f : Fail) : Out :=
  let k := t.k
  let l := lane k
  match t.pc with
  | .pAlloc1 =>   -- allocation threw: ++n_invalid_entries
    ({ poisonInv g k with noPage := upd g.noPage k true }, { t with pc := .pAlloc2 }, ev "fadd" "ninv" g.ninv (g.ninv + 1))
  | .pAlloc2 =>   -- invalidate_page: tail_counter = k + n_queue + 1
    let (g', t') := finish (poisonStore g k) tid t op .badAlloc (pushTime g k)
    (g', t', ev "store" (laneVar "lt" l) (base k + nq + 1) 0)
  | .pTurn =>
    let c := g.ltail l
    let pc' := if c = base k then Pc.pCons else if c % 2 = 1 then Pc.pBadLast else Pc.pTurn
    (g, { t with pc := pc' }, ev "load" (laneVar "lt" l) c 0)
  | .pBadLast =>
    let (g', t') := finish { invalidate g k with noPage := upd g.noPage k true } tid t op .badLast (pushTime g k)
    (g', t', ev "fadd" "ninv" g.ninv (g.ninv + 1))
  | .pCons =>
    if f = .ctor then (invalidate g k, { t with pc := .pAdv false }, ev "fadd" "ninv" g.ninv (g.ninv + 1))
    else
      let m := g.mask l (pageOf g.ipp k)
      (g, { t with pc := .pMaskSt, m := m }, ev "load" "mask" m 0)
  | .pMaskSt =>
    let m' := t.m ||| (1 <<< idx g.ipp k)
    (maskStore g k v m', { t with pc := .pAdv true }, ev "store" "mask" m' 0)
  | .pAdv okb =>
    let c := g.ltail l
    let (g', t') := finish (advTail g k) tid t op (if okb then .ok else .threw) (pushTime g k)
    (g', t', ev "fadd" (laneVar "lt" l) c (c + nq))
  | _ => (g, t, none)

/-- `micro_queue::pop` with ticket `t.k`; `retry` = where the caller continues after an invalid slot -/
def stepLanePop (g : G) (tid : Nat) (t : Th) (op : Op) (retry : Pc) : Out :=
  let k := t.k
  let l := lane k
  match t.pc with
  | .lHead =>
    let c := g.lhead l
    (g, { t with pc := if c = base k then .lTail else .lHead }, ev "load" (laneVar "lh" l) c 0)
  | .lTail =>
    let c := g.ltail l
    (g, { t with pc := if c ≠ base k then .lMask else .lTail }, ev "load" (laneVar "lt" l) c 0)
  | .lMask =>
    let m := g.mask l (pageOf g.ipp k)
    let g1 := if g.slot k = .pending ∨ g.noPage k = true then { g with crashed := true } else g
    (g1, { t with pc := if m.testBit (idx g.ipp k) then .lMove else .lInv }, ev "load" "mask" m 0)
  | .lMove =>
    let v := match g.slot k with | .item v => v | _ => 0
    (popMove g k v, { t with pc := .lFin (some v) }, ev "move" "item" v 0)
  | .lInv =>
    (skipInv g k, { t with pc := .lFin none }, ev "fsub" "ninv" g.ninv (g.ninv - 1))
  | .lFin r =>
    let g1 := advHead g k
    let e := ev "store" (laneVar "lh" l) (base k + nq) 0
    match r with
    | some v =>
      let (g', t') := finish g1 tid t op (.val v) (max (g.popTime k) (pushTime g k))
      (g', t', e)
    | none => (g1, { t with pc := retry }, e)
  | _ => (g, t, none)

def isLanePush : Pc → Bool
  | .pAlloc1 | .pAlloc2 | .pTurn | .pBadLast | .pCons | .pMaskSt | .pAdv _ => true
  | _ => false

def isLanePop : Pc → Bool
  | .lHead | .lTail | .lMask | .lMove | .lInv | .lFin _ => true
  | _ => false

/-- `internal_try_pop_impl` (pc `start` of tryPop behaves as `tHead` and stamps the invocation time) -/
def stepTryPop (g : G) (tid : Nat) (t : Th) : Out :=
  match t.pc with
  | .start => (g, { t with pc := .tTail, k := g.head, inv := g.now }, ev "load" "head" g.head 0)
  | .tHead => (g, { t with pc := .tTail, k := g.head }, ev "load" "head" g.head 0)
  | .tTail =>
    if g.tail ≤ t.k then
      let (g', t') := finish g tid t .tryPop .empty g.now (decide (g.tail ≤ g.head))
      (g', t', ev "load" "tail" g.tail 0)
    else (g, { t with pc := .tCas }, ev "load" "tail" g.tail 0)
  | .tCas =>
    if g.head = t.k then (takeHead g tid, { t with pc := .lHead }, ev "cas" "head" t.k (t.k + 1) true)
    else (g, { t with pc := .tTail, k := g.head }, ev "cas" "head" t.k g.head false)
  | _ => stepLanePop g tid t .tryPop .tHead

def stepPush (g : G) (tid : Nat) (t : Th) (v : Nat) (f : Fail) : Out :=
  match t.pc with
  | .start =>
    let t1 := { t with k := g.tail, inv := g.now }
    ({ takeTail g tid v with unb := true }, { t1 with pc := pushEntry g t1 f }, ev "fadd" "tail" g.tail (g.tail + 1))
  | _ => stepLanePush g tid t (.push v f) v f

/-- `abort_push(ticket)`: wait for the lane turn, ++n_invalid_entries, advance the lane -/
def stepAbortPush (g : G) (tid : Nat) (t : Th) (op : Op) : Out :=
  let k := t.k
  let l := lane k
  match t.pc with
  | .bAbTurn =>
    let c := g.ltail l
    let pc' := if c = base k then Pc.bAbInv else if c % 2 = 1 then Pc.pBadLast else Pc.bAbTurn
    (g, { t with pc := pc' }, ev "load" (laneVar "lt" l) c 0)
  | .bAbInv => (invalidate g k, { t with pc := .bAbAdv }, ev "fadd" "ninv" g.ninv (g.ninv + 1))
  | .bAbAdv =>
    let c := g.ltail l
    let (g', t') := finish (advTail g k) tid t op .aborted (pushTime g k)
    (g', t', ev "fadd" (laneVar "lt" l) c (c + nq))
  | _ => (g, t, none)

/-- bounded `internal_push`.  `c` resolves a blocked wait: 0 = abort has priority, else proceed if serviceable;
1 = re-evaluate the predicate (cancelled commit / spurious wake-up); 2 = proceed if serviceable (woken by a
notification before the abort was seen). -/
def stepBPush (g : G) (tid c : Nat) (t : Th) (v : Nat) (f : Fail) : Out :=
  let op := Op.bpush v f
  match t.pc with
  | .start => (g, { t with pc := .bTicket, old := g.abortCnt, inv := g.now }, ev "load" "abort" g.abortCnt 0)
  | .bTicket => (takeTail g tid v, { t with pc := .bGate, k := g.tail }, ev "fadd" "tail" g.tail (g.tail + 1))
  | .bGate =>
    (g, { t with pc := if full g t.k g.head then .bPredA else pushEntry g t f, fl := g.flushPush }, ev "load" "head" g.head 0)
  | .bPredA =>
    (g, { t with pc := if g.abortCnt ≠ t.old then .bAbTurn else .bPredH }, ev "load" "abort" g.abortCnt 0)
  | .bPredH =>
    (g, { t with pc := if full g t.k g.head then .bBlocked else pushEntry g t f }, ev "load" "head" g.head 0)
  | .bBlocked =>
    if c = 1 then (g, { t with pc := .bPredA }, none)
    else if c = 0 ∧ (g.abortCnt ≠ t.old ∨ g.flushPush ≠ t.fl) then (g, { t with pc := .bAbTurn }, none)
    else if !full g t.k g.head then (g, { t with pc := pushEntry g t f }, none)
    else (g, t, none)
  | .bAbTurn | .bAbInv | .bAbAdv => stepAbortPush g tid t op
  | _ => stepLanePush g tid t op v f

def stepBTryPush (g : G) (tid : Nat) (t : Th) (v : Nat) (f : Fail) : Out :=
  let op := Op.btryPush v f
  match t.pc with
  | .start => (g, { t with pc := .yHead, k := g.tail, inv := g.now }, ev "load" "tail" g.tail 0)
  | .yHead =>
    if (t.k : Int) - (g.head : Int) ≥ g.cap then
      let (g', t') := finish g tid t op .full g.now (decide ((g.tail : Int) - (g.head : Int) ≥ g.cap))
      (g', t', ev "load" "head" g.head 0)
    else (g, { t with pc := .yCas }, ev "load" "head" g.head 0)
  | .yCas =>
    if g.tail = t.k then (takeTail g tid v, { t with pc := pushEntry g t f }, ev "cas" "tail" t.k (t.k + 1) true)
    else (g, { t with pc := .yHead, k := g.tail }, ev "cas" "tail" t.k g.tail false)
  | _ => stepLanePush g tid t op v f

def stepBPop (g : G) (tid c : Nat) (t : Th) : Out :=
  match t.pc with
  | .start => (g, { t with pc := .qTicket, old := g.abortCnt, inv := g.now }, ev "load" "abort" g.abortCnt 0)
  | .qTicket => (takeHead g tid, { t with pc := .qGate, k := g.head }, ev "fadd" "head" g.head (g.head + 1))
  | .qGate => (g, { t with pc := if g.tail ≤ t.k then .qPredA else .lHead, fl := g.flushPop }, ev "load" "tail" g.tail 0)
  | .qPredA => (g, { t with pc := if g.abortCnt ≠ t.old then .qUndo else .qPredT }, ev "load" "abort" g.abortCnt 0)
  | .qPredT => (g, { t with pc := if g.tail ≤ t.k then .qBlocked else .lHead }, ev "load" "tail" g.tail 0)
  | .qBlocked =>
    if c = 1 then (g, { t with pc := .qPredA }, none)
    else if c = 0 ∧ (g.abortCnt ≠ t.old ∨ g.flushPop ≠ t.fl) then (g, { t with pc := .qUndo }, none)
    else if t.k < g.tail then (g, { t with pc := .lHead }, none)
    else (g, t, none)
  | .qUndo =>   -- on_exception: head_counter--
    let (g', t') := finish (undoHead g t.k) tid t .bpop .aborted g.now
    (g', t', ev "fsub" "head" g.head (g.head - 1))
  | _ => stepLanePop g tid t .bpop .qTicket

/-- one step of thread `tid` (its state `t`) -/
def stepTh (g : G) (tid c : Nat) (t : Th) : Out :=
  match t.ops with
  | [] => (g, t, none)
  | op :: _ =>
    match op with
    | .push v f => stepPush g tid t v f
    | .tryPop => stepTryPop g tid t
    | .bpush v f => stepBPush g tid c t v f
    | .btryPush v f => stepBTryPush g tid t v f
    | .bpop => stepBPop g tid c t
    | .abort =>
      -- `++my_abort_counter`, then abort_all() on the items-available and on the slots-available monitor; a flush (choice 1 / 2)
      -- happens only if that wait-set is not empty, so the schedule decides whether and when it takes place
      if t.pc = .start then
        ({ g with abortCnt := g.abortCnt + 1 }, { t with pc := .aFlush, inv := g.now }, ev "fadd" "abort" g.abortCnt (g.abortCnt + 1))
      else if t.pc = .aFlush then
        if c = 1 then ({ g with flushPop := g.flushPop + 1 }, t, none)
        else if c = 2 then ({ g with flushPush := g.flushPush + 1 }, t, none)
        else
          let (g', t') := finish g tid t .abort .ok g.now
          (g', t', none)
      else (g, t, none)
    | .setCap cap =>
      if t.pc = .start then
        let t1 := { t with inv := g.now }
        -- set_capacity: `c = new_capacity < 0 ? infinite_capacity : new_capacity`
        let cap' : Int := if cap < 0 then Generated.C09.infinite_capacity else cap
        let (g', t') := finish { g with cap := cap', capSet := true } tid t1 (.setCap cap) .ok g.now
        (g', t', ev "note" "setcap" cap.toNat 0)
      else (g, t, none)

structure St where
  g : G := {}
  ths : List Th := []

/-- a scheduling decision: which thread moves, and how a blocked wait of that thread is resolved -/
structure Act where
  tid : Nat
  c : Nat := 0
  deriving Repr, DecidableEq

def stepEv (s : St) (a : Act) : St × Option Ev :=
  match s.ths[a.tid]? with
  | none => (s, none)
  | some t =>
    let (g', t', e) := stepTh { s.g with now := s.g.now + 1 } a.tid a.c t
    ({ g := g', ths := s.ths.set a.tid t' }, e)

def step (s : St) (a : Act) : St := (stepEv s a).1

def initSt (ipp : Nat) (cap : Int) (progs : List (List Op)) : St :=
  { g := { toP := { ipp := ipp }, cap := cap }, ths := progs.map (fun p => { ops := p }) }

def runFrom (s : St) (sched : List Act) : St := sched.foldl step s

def run (ipp : Nat) (cap : Int) (progs : List (List Op)) (sched : List Act) : St := runFrom (initSt ipp cap progs) sched

/-- capacity value `concurrent_bounded_queue` starts with when `set_capacity` was never called: effectively infinite -/
def infCap : Int := 2 ^ 62

/-- schedules given as plain thread ids (all blocked waits resolved with choice 0) -/
def acts (tids : List Nat) : List Act := tids.map (fun t => { tid := t })

/-! ## Part 3: drivers -/

open Proto

def parseFail : String → Option Fail
  | "n" => some .none | "c" => some .ctor | "a" => some .alloc | _ => none

def parseOp (w : String) : Option Op :=
  match w.splitOn ":" with
  | ["push", v, f] => do some (.push (← nat? v) (← parseFail f))
  | ["bpush", v, f] => do some (.bpush (← nat? v) (← parseFail f))
  | ["btrypush", v, f] => do some (.btryPush (← nat? v) (← parseFail f))
  | ["trypop"] => some .tryPop
  | ["bpop"] => some .bpop
  | ["abort"] => some .abort
  | ["setcap", c] => do some (.setCap (← int? c))
  | _ => none

def showRes : Res → String
  | .ok => "ok" | .threw => "threw" | .badAlloc => "badalloc" | .badLast => "badlast" | .val v => s!"val:{v}"
  | .empty => "empty" | .full => "full" | .aborted => "aborted"

def showPc : Pc → String
  | .start => "start" | .pAlloc1 => "pAlloc1" | .pAlloc2 => "pAlloc2" | .pTurn => "pTurn" | .pBadLast => "pBadLast"
  | .pCons => "pCons" | .pMaskSt => "pMaskSt" | .pAdv _ => "pAdv" | .tHead => "tHead" | .tTail => "tTail" | .tCas => "tCas"
  | .lHead => "lHead" | .lTail => "lTail" | .lMask => "lMask" | .lMove => "lMove" | .lInv => "lInv" | .lFin _ => "lFin"
  | .bTicket => "bTicket" | .bGate => "bGate" | .bPredA => "bPredA" | .bPredH => "bPredH" | .bBlocked => "blocked"
  | .bAbTurn => "bAbTurn" | .bAbInv => "bAbInv" | .bAbAdv => "bAbAdv" | .yHead => "yHead" | .yCas => "yCas"
  | .qTicket => "qTicket" | .qGate => "qGate" | .qPredA => "qPredA" | .qPredT => "qPredT" | .qBlocked => "blocked"
  | .qUndo => "qUndo" | .aFlush => "aFlush"

def showEv : Option Ev → String
  | none => "-"
  | some e => s!"{e.kind} {e.var} {e.a} {e.b} {showBool e.ok}"

def showDone (d : DoneRec) : String :=
  s!"{d.tid}:{showRes d.res}:{d.ticket}:{showBool d.wit}:{showBool (decide (d.inv ≤ d.lin ∧ d.lin ≤ d.resp))}"

def showState (g : G) : String :=
  s!"tail {g.tail} head {g.head} ninv {g.ninv} abort {g.abortCnt} hazard {showBool g.hazard} poisoned {showBool g.poisoned} crashed {showBool g.crashed} underflow {showBool g.underflow}"

/-- TicketQ driver.  Lines:
  `reset <ipp> <cap>` (cap `inf` = never set) · `prog <op>…` (adds a thread) · `s <tid> [c]` (one step; prints the access and
  the thread's pc) · `e <tid> <kind> <var> <A|P>` (replay of one implementation access) · `state` · `done` (completed operations in completion order) -/
def driveQ (s : St) (ws : List String) : St × String :=
  match ws with
  | ["reset", ipp, cap] =>
    match nat? ipp, (if cap = "inf" then some infCap else int? cap) with
    | some i, some c => (initSt i c [], "ok")
    | _, _ => (s, "bad-op")
  | "prog" :: ops =>
    match ops.mapM parseOp with
    | some p => ({ s with ths := s.ths ++ [{ ops := p }] }, "ok")
    | none => (s, "bad-op")
  | "s" :: tid :: rest =>
    match nat? tid, (match rest with | [] => some 0 | [c] => nat? c | _ => none) with
    | some t, some c =>
      let (s', e) := stepEv s { tid := t, c := c }
      let th := match s'.ths[t]? with | some th => s!"{th.ops.length} {showPc th.pc}" | none => "- -"
      (s', s!"{showEv e} | {th}")
    | _, _ => (s, "bad-op")
  | ["e", tid, kind, var, hint] =>
    -- next ticket-level access of the implementation's thread `tid`; a blocked wait is first resolved the way the
    -- implementation resolved it: re-evaluation (next access loads the abort counter), abort (the operation ends with
    -- user_abort) or normal wake-up
    match nat? tid with
    | none => (s, "bad-op")
    | some t =>
      let atFlush : Bool := match s.ths[t]? with | some th => th.pc == .aFlush | none => false
      if atFlush then
        -- the aborter's epoch store of a monitor = the flush of that monitor's wait-set
        let c : Nat := if var = "ep1" then 1 else if var = "ep0" then 2 else 0
        let s' := step s { tid := t, c := c }
        let th := match s'.ths[t]? with | some th => s!"{th.ops.length} {showPc th.pc}" | none => "- -"
        (s', s!"- | {th}")
      else
      let blocked (x : St) : Bool := match x.ths[t]? with | some th => th.pc == .bBlocked || th.pc == .qBlocked | none => false
      let c : Nat := if kind = "load" ∧ var = "abort" then 1 else if hint = "A" then 0 else 2
      let s1 := if blocked s then step s { tid := t, c := c } else s
      if blocked s1 then (s1, "blocked-not-serviceable | - blocked")
      else
        let (s', e) := stepEv s1 { tid := t }
        let th := match s'.ths[t]? with | some th => s!"{th.ops.length} {showPc th.pc}" | none => "- -"
        (s', s!"{showEv e} | {th}")
  | ["state"] => (s, showState s.g)
  | ["done"] => (s, " ".intercalate (s.g.done.map showDone))
  | _ => (s, "bad-op")

def driverQ : Proto.Driver := { σ := St, init := {}, step := driveQ }

/-- pure arithmetic: `lane k`, `base k`, `baseAnd k`, `idx ipp k`, `idxAnd ipp k`, `ipp sz` -/
def drivePure (ws : List String) : String :=
  match ws with
  | ["tk", ipp, k] =>
    match nat? ipp, nat? k with
    | some i, some k => s!"{lane k} {base k} {baseAnd k} {idx i k} {idxAnd i k} {pageOf i k}"
    | _, _ => "bad-op"
  | ["ipp", sz] => match nat? sz with | some z => toString (ippOf z) | none => "bad-op"
  | _ => "bad-op"

def showRing (R : Ring) : String :=
  s!"hr {R.hr} tr {R.tr} allocs {R.allocs} frees {R.frees} pages " ++
    " ".intercalate (R.pages.map (fun p => s!"{p.first}:{p.mask}"))

/-- per-lane page chain: `reset <ipp>` · `prep` · `pub <0|1>` · `pop` · prints the ring after each op -/
def driveRing (s : Nat × Option Ring) (ws : List String) : (Nat × Option Ring) × String :=
  let go (o : ROp) : (Nat × Option Ring) × String :=
    match s.2 with
    | none => (s, "stuck")
    | some R =>
      match R.step s.1 o with
      | none => ((s.1, none), "stuck")
      | some (R', out) =>
        ((s.1, some R'), (match out with | some b => s!"bit {showBool b} " | none => "") ++ showRing R')
  match ws with
  | ["reset", ipp] => match nat? ipp with | some i => ((i, some {}), "ok") | none => (s, "bad-op")
  | ["prep"] => go .prep
  | ["pub", "1"] => go (.pub true)
  | ["pub", "0"] => go (.pub false)
  | ["pop"] => go .pop
  | _ => (s, "bad-op")

def driverRing : Proto.Driver := { σ := Nat × Option Ring, init := (32, some {}), step := driveRing }

end TbbVerif.C09
