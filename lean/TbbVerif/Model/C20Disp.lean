/-
C20 — `Disp`: the dispatch context a thread works in while a task it suspended waits for `resume`
(src/tbb/task.cpp `create_coroutine` / `internal_suspend`, task_dispatcher.cpp `co_local_wait_for_all`,
task_dispatcher.h `local_wait_for_all` / `receive_or_steal_task`, arena_slot.cpp, arena.cpp `isolate_within_arena`).

A `task_dispatcher` carries `m_execute_data_ext.isolation` (`iso`).  Every dispatch loop (`local_wait_for_all`) reads
it once at entry (`const isolation_type isolation = dl_guard.old_execute_data_ext.isolation`), filters every task
source with that value, and restores the saved execute data when it exits.  `tbb::task::suspend` moves the thread
onto ANOTHER dispatcher: a cached coroutine or a new one (`create_coroutine`), whose loop is entered with that
dispatcher's own `iso`.  The model follows one thread through any sequence of

  `setIso v`   user code changes the isolation of the running dispatcher (this_task_arena::isolate sets a tag, its
               guard restores the previous one; any value at any time is allowed here)
  `enter`      a nested wait: a dispatch loop starts on the current dispatcher (saves `iso`, filters with `iso`)
  `exec t`     the top loop takes a task with isolation tag `t` (only if the loop's filter accepts it);
               `ed.isolation = task_accessor::isolation(*t)`
  `leave`      the top loop exits (the guard restores `iso`); a coroutine's bottom loop never exits this way
  `suspend`    tbb::task::suspend → internal_suspend: the current stack is left suspended, the thread continues on
               `my_co_cache.pop()` or a new dispatcher whose `iso` is `Cfg.coInit (iso of the suspender)` and enters
               its bottom loop (co_local_wait_for_all)
  `resumeTo i` the top loop got the resume task of suspended stack `i`: at a coroutine's bottom loop the loop
               returns it (postpone_execution), the guard restores `iso`, the dispatcher goes to the co-cache
               (post_resume_action::cleanup) and the thread switches; anywhere else the current stack is abandoned
               in the suspended state (register_waiter) and the thread switches

`Cfg` holds the facts regenerated from the source on every run (Generated/C20.lean): the initial isolation of the
dispatcher the thread moves onto — observed on the instrumented runtime as a function of the suspender's isolation —
and the filters of the task sources, translated from the C++ expressions.  Isolation tags are `Nat`, `no_isolation = 0`.
Executable, core Lean only.
-/
import TbbVerif.Core.Sched

namespace TbbVerif.C20.Disp

structure Cfg where
  coInit : Nat → Nat            -- isolation of the dispatcher a suspending thread moves onto (argument: the suspender's)
  omitLocal : Nat → Nat → Bool  -- arena_slot::get_task_impl `omit` (loop isolation, task isolation)
  stealOk : Nat → Nat → Bool    -- arena_slot::steal_task: the task may be taken
  mailSkip : Nat → Nat → Bool   -- mail_outbox::internal_pop: the proxy is skipped
  fifoOk : Nat → Bool           -- receive_or_steal_task: the enqueued-task stream is looked at (given fifo_allowed)
  critAny : Nat → Bool          -- arena::get_critical_task: any critical task (not pop_specific)

def asCoded : Cfg :=
  { coInit := fun _ => 0,
    omitLocal := fun l t => l != 0 && l != t,
    stealOk := fun l t => l == 0 || l == t,
    mailSkip := fun l t => l != 0 && t != l,
    fifoOk := fun l => l == 0,
    critAny := fun l => !(l != 0) }

structure Loop where
  saved : Nat      -- m_execute_data_ext.isolation saved by dispatch_loop_guard
  iso : Nat        -- the loop's `isolation`
  deriving DecidableEq, Repr

structure D where
  iso : Nat := 0
  loops : List Loop := []     -- innermost first
  co : Bool := false          -- a coroutine's dispatcher (not a slot's default dispatcher)
  deriving DecidableEq, Repr

structure St where
  cur : D
  susp : List D := []
  cache : List D := []
  deriving DecidableEq, Repr

inductive Op where
  | setIso (v : Nat) | enter | exec (t : Nat) | leave | suspend | resumeTo (i : Nat)
  deriving DecidableEq, Repr

/-- does a loop with isolation `l` take a task with tag `t` from each of the sources it looks at -/
def acceptsLocal (cfg : Cfg) (l t : Nat) : Bool := !cfg.omitLocal l t
def acceptsSteal (cfg : Cfg) (l t : Nat) : Bool := cfg.stealOk l t
def acceptsMail (cfg : Cfg) (l t : Nat) : Bool := !cfg.mailSkip l t

/-- the loop takes every task, whatever its tag, from every source -/
def takesAll (cfg : Cfg) (l : Nat) : Prop :=
  (∀ t, acceptsLocal cfg l t = true ∧ acceptsSteal cfg l t = true ∧ acceptsMail cfg l t = true) ∧
  cfg.fifoOk l = true ∧ cfg.critAny l = true

def enterLoop (d : D) : D := { d with loops := { saved := d.iso, iso := d.iso } :: d.loops }

def step (cfg : Cfg) (s : St) : Op → St
  | .setIso v => { s with cur := { s.cur with iso := v } }
  | .enter => { s with cur := enterLoop s.cur }
  | .exec t =>
      match s.cur.loops with
      | [] => s
      | l :: _ => if acceptsLocal cfg l.iso t || acceptsSteal cfg l.iso t || acceptsMail cfg l.iso t
                  then { s with cur := { s.cur with iso := t } } else s
  | .leave =>
      match s.cur.loops with
      | [] => s
      | l :: rest => if s.cur.co && rest.isEmpty then s else { s with cur := { s.cur with iso := l.saved, loops := rest } }
  | .suspend =>
      match s.cache with
      | d :: rest => { cur := enterLoop d, susp := s.cur :: s.susp, cache := rest }
      | [] => { s with cur := enterLoop { iso := cfg.coInit s.cur.iso, loops := [], co := true }, susp := s.cur :: s.susp }
  | .resumeTo i =>
      match s.susp[i]? with
      | none => s
      | some tgt =>
          match s.cur.loops with
          | [l] =>
              if s.cur.co then { cur := tgt, susp := s.susp.eraseIdx i, cache := { s.cur with iso := l.saved, loops := [] } :: s.cache }
              else { s with cur := tgt, susp := s.cur :: s.susp.eraseIdx i }
          | _ => { s with cur := tgt, susp := s.cur :: s.susp.eraseIdx i }

def run (cfg : Cfg) (s : St) (ops : List Op) : St := ops.foldl (step cfg) s

/-- the isolation of the loop the thread is dispatching in -/
def curLoopIso (s : St) : Option Nat := s.cur.loops.head?.map (·.iso)

end TbbVerif.C20.Disp
