/-
C13 — concurrent_priority_queue: executable model (core Lean only; linked into drv_c13).

Part 1  `CpqBatch`: the sequential core `handle_operations(op_list)` of
        include/oneapi/tbb/concurrent_priority_queue.h:253-381 on `(data, mark)`:
        `heapify` (sift-up of data[mark..size) with the hole method), `reheap` (sift-down of data.back()
        from the root, hole method), the two passes over the operation list (first pass: pushes are
        appended, pops take `data.back()` when `mark < size ∧ data[0] < data.back()` or are deferred on a
        stack; second pass: deferred pops fail on empty data / take data.back() / take the top + reheap),
        final `heapify`.  Elements are `Elem` (identity + the comparator's priority class `key`);
        `my_compare(a, b)` is `a.key < b.key` — an arbitrary strict weak order with arbitrary ties.
        The four guards of `handle_operations` are re-translated from the source text on every run.
        A push whose element copy throws gets FAILED and leaves `data` untouched (std::vector::push_back
        has the strong guarantee), everything else continues.
Part 2  `Agg`: the combining aggregator of include/oneapi/tbb/detail/_aggregator.h:65-133 as an
        interleaving system (`TbbVerif.Sys`), one step per atomic access, with the priority queue's handler
        (Part 1, executed access by access) as the handler body.
-/
import TbbVerif.Core.Sched
import TbbVerif.Core.Proto
import TbbVerif.Generated.C13

namespace TbbVerif.C13

/-! ## Part 1: the sequential batch handler -/

/-- An element of the queue: an identity `id` (what the caller sees, what is stored in `data`) and the
priority class `key` the comparator sees: `my_compare(a, b) = (a.key < b.key)`.  Distinct elements with equal
keys are *ties* of the comparator.  Every strict weak order on finitely many elements has this form
(`swo_has_rank` in Proofs/C13/Order.lean), so `key` is the "arbitrary total preorder given as a parameter";
`std::less<int>` is `key = id`. -/
structure Elem where
  key : Nat
  id : Nat
deriving Repr, DecidableEq, Inhabited

/-- `my_compare(a, b)` -/
def ltE (a b : Elem) : Bool := decide (a.key < b.key)

/-- `data[i]`.  Total for convenience; every read the code performs is in bounds (`mark ≤ size`). -/
def get (d : List Elem) (i : Nat) : Elem := d[i]?.getD ⟨0, 0⟩

/-- `data.back()` -/
def back (d : List Elem) : Elem := get d (d.length - 1)

/-- The queue's sequential state: `data` (std::vector) and `mark`. -/
structure Heap where
  data : List Elem
  mark : Nat
deriving Repr, DecidableEq, Inhabited

/-- Inner `do … while(cur_pos)` loop of `heapify` followed by `data[cur_pos] = to_place`
(concurrent_priority_queue.h:350-357), entered with `cur ≥ 1`:
`parent = (cur-1)>>1; if (!compare(data[parent], x)) break; data[cur] = data[parent]; cur = parent`. -/
def siftUp (d : List Elem) (x : Elem) (cur : Nat) : List Elem :=
  if cur = 0 then d.set 0 x
  else
    if (get d ((cur - 1) / 2)).key < x.key then siftUp (d.set cur (get d ((cur - 1) / 2))) x ((cur - 1) / 2)
    else d.set cur x
termination_by cur
decreasing_by omega

/-- `n` iterations of `for (; mark < data.size(); ++mark)` of `heapify`. -/
def heapifyN : Nat → List Elem → Nat → List Elem
  | 0, d, _ => d
  | n + 1, d, m => heapifyN n (siftUp d (get d m) m) (m + 1)

/-- `heapify()` (concurrent_priority_queue.h:344-359). -/
def heapify (h : Heap) : Heap :=
  let m0 := if h.mark = 0 ∧ 0 < h.data.length then 1 else h.mark
  { data := heapifyN (h.data.length - m0) h.data m0, mark := max m0 h.data.length }

/-- `target`: the higher-priority child (`child+1` only if it is inside the heap and strictly greater). -/
def pickChild (d : List Elem) (mark child : Nat) : Nat :=
  if child + 1 < mark ∧ (get d child).key < (get d (child + 1)).key then child + 1 else child

theorem pickChild_ge (d : List Elem) (mark child : Nat) : child ≤ pickChild d mark child := by
  unfold pickChild; split <;> omega

theorem pickChild_lt (d : List Elem) (mark child : Nat) (h : child < mark) : pickChild d mark child < mark := by
  unfold pickChild; split <;> omega

/-- The `while (child < mark)` loop of `reheap` (concurrent_priority_queue.h:366-376); `x = data.back()`.
Returns the data and the final `cur_pos`. -/
def siftDown (d : List Elem) (mark : Nat) (x : Elem) (cur : Nat) : List Elem × Nat :=
  if h : 2 * cur + 1 < mark then
    if (get d (pickChild d mark (2 * cur + 1))).key < x.key then (d, cur)
    else siftDown (d.set cur (get d (pickChild d mark (2 * cur + 1)))) mark x (pickChild d mark (2 * cur + 1))
  else (d, cur)
termination_by mark - cur
decreasing_by
  have h1 := pickChild_ge d mark (2 * cur + 1)
  have h2 := pickChild_lt d mark (2 * cur + 1) h
  omega

/-- `reheap()` (concurrent_priority_queue.h:363-381); called with non-empty `data`. -/
def reheap (h : Heap) : Heap :=
  let x := back h.data
  let r := siftDown h.data h.mark x 0
  let d1 := if r.2 ≠ r.1.length - 1 then r.1.set r.2 x else r.1
  let d2 := d1.dropLast
  { data := d2, mark := if h.mark > d2.length then d2.length else h.mark }

/-- An operation of a batch: `push x` (with `throws = true` when copying the element throws) or `try_pop`
(with `throws = true` when assigning the popped element to the caller's object throws). -/
inductive Op where
  | push (x : Elem) (throws : Bool)
  | pop (throws : Bool)
deriving Repr, DecidableEq, Inhabited

/-- What the caller of an operation observes: status SUCCEEDED/FAILED and, for a successful pop, the element;
`exc own`: the call was left by an exception that escaped `handle_operations` (`own`: it was thrown by this
caller's own operation). -/
inductive Res where
  | pushOk
  | pushFailed
  | popOk (v : Elem)
  | popFailed
  | exc (own : Bool)
deriving Repr, DecidableEq, Inhabited

/-- "operation `idx` of the batch got its status (and result)"; the log lists them in the order in which
`handle_operations` stores the statuses. -/
structure Ev where
  idx : Nat
  op : Op
  res : Res
deriving Repr, DecidableEq, Inhabited

/-- regenerated from the source on every run: is the element assignment of a pop (`*(tmp->elem) = std::move(…)`)
inside a try block whose handler stores FAILED and continues with the next operation?  In the pinned tree: no. -/
abbrev guarded : Bool := Generated.C13.popAssignGuarded

/-- the guard of the pop shortcut in the FIRST pass, `mark < data.size() && my_compare(data[0], data.back())`,
as translated from the source text on every run (Generated/C13.lean) -/
def shortcut (h : Heap) : Bool := Generated.C13.shortcutP1 ltE h.mark h.data.length (get h.data) (back h.data)

/-- the same guard in the SECOND pass (a separate occurrence in the source, translated separately) -/
def shortcut2 (h : Heap) : Bool := Generated.C13.shortcutP2 ltE h.mark h.data.length (get h.data) (back h.data)

/-- `data.empty()` in the second pass (translated from the source) -/
def isEmpty2 (h : Heap) : Bool := Generated.C13.emptyP2 h.mark h.data.length

/-- `mark < data.size()` guarding the final `heapify()` (translated from the source) -/
def needHeapify (h : Heap) : Bool := Generated.C13.finishGuard h.mark h.data.length

/-- result of the first pass: state, statuses set in this pass (in order), the deferred pops (index, does its
assignment throw) in the order in which the second pass will visit them (`pop_list` is a stack), and
`abort = some i` if the element assignment of pop `i` threw: `*(tmp->elem) = std::move(data.back())` is outside
any try block, so the exception leaves `handle_operations` at that point — nothing after it is executed. -/
structure P1 where
  heap : Heap
  log : List Ev
  dfr : List (Nat × Bool)
  abort : Option Nat

/-- First pass (concurrent_priority_queue.h:259-308) over the operation list (head first). -/
def pass1 (h : Heap) : List (Op × Nat) → P1
  | [] => ⟨h, [], [], none⟩
  | (.pop thr, i) :: rest =>
    if shortcut h then
      if thr then
        if guarded then      -- (a repaired tree) FAILED + the exception is handed to this pop's caller; nothing else changes
          let r := pass1 h rest
          { r with log := ⟨i, .pop thr, .exc true⟩ :: r.log }
        else ⟨h, [], [], some i⟩
      else
        let r := pass1 { h with data := h.data.dropLast } rest
        { r with log := ⟨i, .pop thr, .popOk (back h.data)⟩ :: r.log }
    else
      let r := pass1 h rest
      { r with dfr := r.dfr ++ [(i, thr)] }
  | (.push x thr, i) :: rest =>
    if thr then
      let r := pass1 h rest
      { r with log := ⟨i, .push x thr, .pushFailed⟩ :: r.log }
    else
      let r := pass1 { h with data := h.data ++ [x] } rest
      { r with log := ⟨i, .push x thr, .pushOk⟩ :: r.log }

structure P2 where
  heap : Heap
  log : List Ev
  abort : Option Nat

/-- Second pass (concurrent_priority_queue.h:311-334) over the deferred pops. -/
def pass2 (h : Heap) : List (Nat × Bool) → P2
  | [] => ⟨h, [], none⟩
  | (i, thr) :: rest =>
    if isEmpty2 h then
      let r := pass2 h rest
      { r with log := ⟨i, .pop thr, .popFailed⟩ :: r.log }
    else if thr then
      if guarded then
        let r := pass2 h rest
        { r with log := ⟨i, .pop thr, .exc true⟩ :: r.log }
      else ⟨h, [], some i⟩
    else if shortcut2 h then
      let r := pass2 { h with data := h.data.dropLast } rest
      { r with log := ⟨i, .pop thr, .popOk (back h.data)⟩ :: r.log }
    else
      let r := pass2 (reheap h) rest
      { r with log := ⟨i, .pop thr, .popOk (get h.data 0)⟩ :: r.log }

/-- `if (mark < data.size()) heapify();` -/
def finish (h : Heap) : Heap := if needHeapify h then heapify h else h

/-- outcome of `handle_operations`: final state, status log, and `abort = some i` when it was left by the
exception of pop `i`'s element assignment (then the remaining operations have no status, the tail is not
heapified, and — one level up — `handler_busy` is never released). -/
structure Out where
  heap : Heap
  log : List Ev
  abort : Option Nat

/-- `handle_operations` on an indexed operation list. -/
def handleIdx (h : Heap) (ops : List (Op × Nat)) : Out :=
  let r1 := pass1 h ops
  match r1.abort with
  | some i => ⟨r1.heap, r1.log, some i⟩
  | none =>
    let r2 := pass2 r1.heap r1.dfr
    match r2.abort with
    | some i => ⟨r2.heap, r1.log ++ r2.log, some i⟩
    | none => ⟨finish r2.heap, r1.log ++ r2.log, none⟩

/-- `handle_operations(op_list)`: operation `i` of the list gets index `i`. -/
def handleOps (h : Heap) (ops : List Op) : Out := handleIdx h ops.zipIdx

/-- The code asserts `mark == data.size()` on entry; other states are rejected. -/
def handleOperations? (h : Heap) (ops : List Op) : Option Out :=
  if h.mark = h.data.length then some (handleOps h ops) else none

/-- result of operation `i` -/
def resultOf (log : List Ev) (i : Nat) : Option Res := (log.find? (·.idx == i)).map (·.res)

/-! ### The sequential priority-queue specification (a multiset with pop-max) -/

/-- One operation of the sequential spec on the contents `s` (a list read as a multiset): a non-throwing
push inserts and succeeds, a throwing push fails and changes nothing, a pop on non-empty contents returns a
maximal element w.r.t. the comparator's preorder (no element has a strictly greater `key`; ties in any order)
and removes one copy of it, a pop fails exactly on empty contents; a pop whose element
assignment throws on non-empty contents ends with that exception at its own caller and changes nothing. -/
def specStep (s : List Elem) : Op × Res → Option (List Elem)
  | (.push x false, .pushOk) => some (x :: s)
  | (.push _ true, .pushFailed) => some s
  | (.pop false, .popOk v) => if v ∈ s ∧ ∀ y ∈ s, y.key ≤ v.key then some (s.erase v) else none
  | (.pop _, .popFailed) => if s = [] then some s else none
  | (.pop true, .exc true) => if s = [] then none else some s   -- the assignment's exception reaches its own caller; nothing is lost
  | _ => none

def specRun (s : List Elem) : List (Op × Res) → Option (List Elem)
  | [] => some s
  | e :: es => (specStep s e).bind (fun s' => specRun s' es)

/-! ### the linearization order of one batch, as an executable function

All operations of one batch are pairwise concurrent (each was invoked before the batch was grabbed and returns
after), so any order of them respects real time.  The order in which the handler *serves* them is NOT a legal
sequential order in general (heap `[3]`, batch `push 10, push 5, try_pop`: the pop is served last and returns 5
through the `data.back()` shortcut while 10 is in the vector).  The order below is:

* the spec's contents are always the heap part `data[0, mark)`; an element of the tail `data[mark, size)` is a
  push that is *not linearized yet*;
* a pop that takes `data.back()` is placed right after the push of that element;
* a pop that takes the top is placed where it is served; the tail element that `reheap` then moves into the
  heap is pushed right after it (with `mark = 0` the "top" is itself a tail element: push, then pop);
* a failed push/pop is placed where it is served; the pushes still in the tail at the end come last. -/

/-- the heap part `data[0,mark)` -/
def heapPart (h : Heap) : List Elem := h.data.take h.mark
/-- pushed, not yet heapified elements `data[mark,size)` -/
def pend (h : Heap) : List Elem := h.data.drop h.mark

/-- a successful push of `x` as a spec event -/
def pushEv (x : Elem) : Op × Res := (.push x false, .pushOk)
def pushes (l : List Elem) : List (Op × Res) := l.map pushEv
def strip (log : List Ev) : List (Op × Res) := log.map (fun e => (e.op, e.res))

/-- spec events contributed by the first pass -/
def lin1 (h : Heap) : List (Op × Nat) → List (Op × Res)
  | [] => []
  | (.pop thr, _) :: rest =>
    if shortcut h then
      if thr then []
      else pushEv (back h.data) :: (.pop false, .popOk (back h.data)) :: lin1 { h with data := h.data.dropLast } rest
    else lin1 h rest
  | (.push x thr, _) :: rest =>
    if thr then (.push x thr, .pushFailed) :: lin1 h rest
    else lin1 { h with data := h.data ++ [x] } rest

/-- spec events contributed by the second pass -/
def lin2 (h : Heap) : List (Nat × Bool) → List (Op × Res)
  | [] => []
  | (_, thr) :: rest =>
    if isEmpty2 h then (.pop thr, .popFailed) :: lin2 h rest
    else if thr then []
    else if shortcut2 h then
      pushEv (back h.data) :: (.pop false, .popOk (back h.data)) :: lin2 { h with data := h.data.dropLast } rest
    else if h.mark = h.data.length then (.pop false, .popOk (get h.data 0)) :: lin2 (reheap h) rest
    else if h.mark = 0 then pushEv (get h.data 0) :: (.pop false, .popOk (get h.data 0)) :: lin2 (reheap h) rest
    else (.pop false, .popOk (get h.data 0)) :: pushEv (back h.data) :: lin2 (reheap h) rest

/-- the linearization of a batch as spec events (operation, result) -/
def batchLinV (h : Heap) (ops : List (Op × Nat)) : List (Op × Res) :=
  let r1 := pass1 h ops
  let r2 := pass2 r1.heap r1.dfr
  lin1 h ops ++ lin2 r1.heap r1.dfr ++ pushes (pend r2.heap)

/-- take the first logged operation with this (operation, result) out of the pool -/
def takeEv (v : Op × Res) : List Ev → Option (Ev × List Ev)
  | [] => none
  | e :: es => if (e.op, e.res) = v then some (e, es) else (takeEv v es).map (fun p => (p.1, e :: p.2))

/-- attach identities: each spec event gets the first not yet used logged operation with the same operation
and result (operations of a batch with equal operation and result are interchangeable) -/
def assignIds : List (Op × Res) → List Ev → Option (List Ev)
  | [], _ => some []
  | v :: vs, pool =>
    match takeEv v pool with
    | none => none
    | some (e, pool') => (assignIds vs pool').map (e :: ·)

/-- the linearization of a batch over identified operations: a permutation of the status log
(`batchLin_spec`, Proofs/C13/Lin.lean) -/
def batchLin (h : Heap) (ops : List (Op × Nat)) : List Ev :=
  (assignIds (batchLinV h ops) (handleIdx h ops).log).getD (handleIdx h ops).log

/-! ### line protocol (E-PURE) -/

open Proto in
def showRes : Res → String
  | .pushOk => "S"
  | .pushFailed => "F"
  | .popOk v => s!"S:{v.id}"
  | .popFailed => "F"
  | .exc own => if own then "E" else "X"

/-- an element on the wire: `<key>:<id>`, or `<n>` for key = id = n (`std::less` on the ids) -/
def parseElem (w : String) : Option Elem :=
  match w.splitOn ":" with
  | [n] => (Proto.nat? n).map (fun n => ⟨n, n⟩)
  | [k, i] => match Proto.nat? k, Proto.nat? i with
    | some k, some i => some ⟨k, i⟩
    | _, _ => none
  | _ => none

def parseElems (ws : List String) : Option (List Elem) := ws.mapM parseElem

open Proto in
def parseOp (w : String) : Option Op :=
  if w == "o" then some (.pop false)
  else if w == "x" then some (.pop true)
  else if w.startsWith "p" || w.startsWith "m" then (parseElem (w.drop 1).toString).map (fun x => .push x false)
  else if w.startsWith "t" then (parseElem (w.drop 1).toString).map (fun x => .push x true)
  else none

/-- elements are printed by their ids (the comparator's key is an input, not an output) -/
def showHeap (h : Heap) : String :=
  if h.data.isEmpty then s!"{h.mark} |" else s!"{h.mark} | {Proto.showNats (h.data.map (·.id))}"

/-- split `ws` at every occurrence of `sep` -/
def splitAt (sep : String) (ws : List String) : List (List String) :=
  let r := ws.foldr (fun w (acc : List String × List (List String)) =>
    if w == sep then ([], acc.1 :: acc.2) else (w :: acc.1, acc.2)) ([], [])
  r.1 :: r.2

/-- a sequence of batches handled one after the other on the same queue -/
def runBatches (h : Heap) : List (List Op) → List String
  | [] => []
  | ops :: rest =>
    match handleOperations? h ops with
    | some o =>
      let rs := (List.range ops.length).map (fun i => match resultOf o.log i with
        | some r => showRes r
        | none => "W")
      let line := if rs.isEmpty then s!"| {showHeap o.heap}" else s!"{" ".intercalate rs} | {showHeap o.heap}"
      match o.abort with
      | some _ => [line ++ " EXCEPTION-ESCAPED"]      -- handle_operations was left by an exception: nothing more is defined
      | none => line :: runBatches o.heap rest
    | none => ["assert-mark"]

open Proto in
def drive (ws : List String) : String :=
  match ws with
  | "heapify" :: m :: ds =>
    match nat? m, parseElems ds with
    | some m, some d => if m ≤ d.length then showHeap (heapify ⟨d, m⟩) else "bad-op"
    | _, _ => "bad-op"
  | "reheap" :: m :: ds =>
    match nat? m, parseElems ds with
    | some m, some d => if m ≤ d.length ∧ 0 < d.length then showHeap (reheap ⟨d, m⟩) else "bad-op"
    | _, _ => "bad-op"
  | "batch" :: rest =>
    match splitAt "|" rest with
    | [ds, os] =>
      match parseElems ds, (splitAt ";" os).mapM (fun b => b.mapM parseOp) with
      | some d, some bs => " ; ".intercalate (runBatches ⟨d, d.length⟩ bs)
      | _, _ => "bad-op"
    | _ => "bad-op"
  | _ => "bad-op"

def driver : Proto.Driver := Proto.pureDriver drive

/-! ## Part 2: the combining aggregator with the priority queue's handler, one step per atomic access

Threads are `Tid`s; an operation node (`cpq_operation op_data` on its caller's stack) is identified with its
owner — a thread has at most one operation in flight.  Pointer *values* (what `res`, `next` and the CAS on
`pending_operations` compare) are pairs (owner, `cls`), `cls` = which of the owner's stack slots holds the
node: consecutive operations of a thread reuse the same address when they come from the same function
(`push(const&)`, `push(&&)`, `try_pop`), which makes the ABA case of the CAS real (and harmless).  `pending_operations` (a LIFO of nodes linked through
`next`) is the list `plist` (top first); the handler's `op_list` / `pop_list` iterators are the lists `rem` /
`dfr` of nodes still to be visited; the `next` fields are kept as data (they are what the atomic loads/stores
read and write) and agree with those lists (`Proofs`).  Control follows the code of
`aggregator_generic::execute`, `start_handle_operations` and `handle_operations` access by access. -/

inductive Pc where
  | idle      -- between two calls (next access: `op->status.load(relaxed)` of a fresh operation)
  | ldPend    -- `res = pending_operations.load(relaxed)`
  | stNext    -- `op->next.store(res, relaxed)`
  | cas       -- `pending_operations.compare_exchange_strong(res, op)`
  | spin      -- not first: `spin_wait_while_eq(op->status, 0)` (one acquire load per step)
  | waitBusy  -- first: `spin_wait_until_eq(handler_busy, 0)` (one acquire load per step)
  | setBusy   -- `handler_busy.store(1, relaxed)`
  | grab      -- `op_list = pending_operations.exchange(nullptr)`
  | p1Load    -- first pass: `tmp = op_list; op_list = op_list->next.load(relaxed)`
  | p1Defer   -- `tmp->next.store(pop_list, relaxed); pop_list = tmp`
  | p1SzLd    -- `my_size.load(relaxed)`
  | p1SzSt    -- `my_size.store(±1, relaxed)`
  | p1Status  -- `tmp->status.store(SUCCEEDED/FAILED, release)` (+ `data.pop_back()` for a pop)
  | p2Load    -- second pass: `tmp = pop_list; pop_list = pop_list->next.load(relaxed)`
  | p2SzLd
  | p2SzSt
  | p2Status  -- `tmp->status.store(...)` (+ `data.pop_back()` / `reheap()`)
  | release   -- `handler_busy.store(0, release)`
  | rdStatus  -- back in push/try_pop: `op_data.status == …` (seq_cst load), then return
  | p1Adv     -- transient (never the pc of a thread between two steps): loop test of pass 1, see `adv1`
  | p2Adv     -- transient: loop test of pass 2, see `adv2`
deriving Repr, DecidableEq, Inhabited

structure Th where
  pc : Pc := .idle
  todo : List (Op × Nat) := []  -- calls still to be made by this thread, each with the address class of its node
  op : Op := .pop false         -- op_data: type and pushed value
  cls : Nat := 0                -- address class of op_data
  res : Option (Tid × Nat) := none   -- local `res`
  status : Nat := 0             -- op_data.status (0 = WAIT, 1 = SUCCEEDED, 2 = FAILED)
  next : Option (Tid × Nat) := none  -- op_data.next
  elem : Option Elem := none    -- `*elem` of a pop: the value the handler moved out
  eptr : Bool := false          -- (repaired tree) the exception of the element assignment, to be rethrown by try_pop
  rem : List Tid := []          -- handler: nodes of op_list (pass 1) / pop_list (pass 2) still to visit
  dfr : List Tid := []          -- handler: pop_list while pass 1 builds it
  tmp : Tid := 0                -- handler: `tmp`
  st : Nat := 0                 -- handler: status about to be stored into `tmp`
  sz : Nat := 0                 -- handler: loaded `my_size`
  results : List Res := []      -- results of the completed calls, in program order
  -- ghost counters: how many operations of this thread were submitted (CAS succeeded), grabbed into a
  -- batch, given a status, returned to the caller
  nSub : Nat := 0
  nGrab : Nat := 0
  nSet : Nat := 0
  nRet : Nat := 0
deriving Inhabited

structure St where
  plist : List Tid := []        -- pending_operations, top first
  busy : Nat := 0               -- handler_busy
  mySize : Nat := 0             -- my_size
  heap : Heap := ⟨[], 0⟩        -- data, mark
  ths : Tid → Th := fun _ => {}
  unset : List Tid := []        -- ghost: operations grabbed into the current batch whose status is not set yet

namespace St
def modTh (s : St) (t : Tid) (f : Th → Th) : St := { s with ths := fun u => if u = t then f (s.ths u) else s.ths u }
end St

/-- the pointer value of a node -/
def nodeOf (s : St) (u : Tid) : Tid × Nat := (u, (s.ths u).cls)
/-- the value of `pending_operations` -/
def headNode (s : St) : Option (Tid × Nat) := s.plist.head?.map (nodeOf s)

/-- pcs between the exchange that grabs a batch and the release of `handler_busy` (the handler is active) -/
def Pc.active : Pc → Bool
  | .grab | .p1Load | .p1Defer | .p1SzLd | .p1SzSt | .p1Status | .p2Load | .p2SzLd | .p2SzSt | .p2Status | .release
  | .p1Adv | .p2Adv => true
  | _ => false

/-- pcs of the thread that pushed onto the empty list and has not grabbed the list yet -/
def Pc.waiting : Pc → Bool
  | .waitBusy | .setBusy | .grab => true
  | _ => false

/-- handler pcs at which `tmp` is an operation taken off the list whose status is still to be stored -/
def Pc.inflight : Pc → Bool
  | .p1Defer | .p1SzLd | .p1SzSt | .p1Status | .p2SzLd | .p2SzSt | .p2Status => true
  | _ => false

/-- pcs before the operation is in the pending list -/
def Pc.outside : Pc → Bool
  | .idle | .ldPend | .stNext | .cas => true
  | _ => false

/-- end of the handler's work on one node in pass 1 (`while (op_list)`; no atomic access): visit the next
node, or start pass 2 on `pop_list`, or (no deferred pop) heapify the tail and go release `handler_busy`.
Every handler step that finishes a node sets the transient pc `p1Adv` and applies `adv1` at once. -/
def adv1 (s : St) (t : Tid) : St :=
  let th := s.ths t
  if th.rem ≠ [] then s.modTh t (fun x => { x with pc := .p1Load })
  else if th.dfr ≠ [] then s.modTh t (fun x => { x with pc := .p2Load, rem := x.dfr, dfr := [] })
  else { s.modTh t (fun x => { x with pc := .release }) with heap := finish s.heap }

/-- same in pass 2 -/
def adv2 (s : St) (t : Tid) : St :=
  let th := s.ths t
  if th.rem ≠ [] then s.modTh t (fun x => { x with pc := .p2Load })
  else { s.modTh t (fun x => { x with pc := .release }) with heap := finish s.heap }

def resultOfCall (th : Th) : Res :=
  match th.op with
  | .push _ _ => if th.status = 1 then .pushOk else .pushFailed
  | .pop _ => if th.status = 1 then .popOk (th.elem.getD ⟨0, 0⟩) else if th.eptr then .exc true else .popFailed

/-- does assigning the popped element to this operation's `*elem` throw? -/
def popThrows : Op → Bool
  | .pop true => true
  | _ => false

/-- AS CODED: the element assignment of `u`'s pop throws inside `handle_operations`, which has no handler
for it: the exception unwinds through `start_handle_operations` and `execute` into the push/try_pop call of
the HANDLER thread `t` and reaches `t`'s caller (`exc own`, `own` iff the throwing pop is `t`'s own
operation).  `handler_busy` stays 1, `u` and every operation of the batch not yet visited keep status 0. -/
def unwind (s : St) (t u : Tid) : St :=
  s.modTh t (fun x => { x with pc := .idle, results := x.results ++ [.exc (decide (u = t))], nRet := x.nRet + 1,
                                rem := [], dfr := [] })

/-- one atomic access (and the non-atomic code up to the next one) of thread `t` -/
def aggStep (s : St) (t : Tid) : St :=
  let th := s.ths t
  match th.pc with
  | .idle =>
    match th.todo with
    | [] => s
    | (o, c) :: rest =>
      s.modTh t (fun x => { x with pc := .ldPend, todo := rest, op := o, cls := c, status := 0, next := none, elem := none, eptr := false })
  | .ldPend => s.modTh t (fun x => { x with pc := .stNext, res := headNode s })
  | .stNext => s.modTh t (fun x => { x with pc := .cas, next := x.res })
  | .cas =>
    if headNode s = th.res then
      { s.modTh t (fun x => { x with pc := if x.res = none then .waitBusy else .spin, nSub := x.nSub + 1 }) with plist := t :: s.plist }
    else s.modTh t (fun x => { x with pc := .stNext, res := headNode s })
  | .spin => if th.status ≠ 0 then s.modTh t (fun x => { x with pc := .rdStatus }) else s
  | .waitBusy => if s.busy = 0 then s.modTh t (fun x => { x with pc := .setBusy }) else s
  | .setBusy => { s.modTh t (fun x => { x with pc := .grab }) with busy := 1 }
  | .grab =>
    let b := s.plist
    let s1 : St := { s with plist := [], unset := b, ths := fun u => { s.ths u with nGrab := (s.ths u).nGrab + b.count u } }
    adv1 (s1.modTh t (fun x => { x with rem := b, dfr := [], pc := .p1Adv })) t
  | .p1Load =>
    match th.rem with
    | [] => adv1 (s.modTh t (fun x => { x with pc := .p1Adv })) t
    | u :: rest =>
      match (s.ths u).op with
      | .pop thr =>
        if shortcut s.heap then
          if thr then
            if guarded then
              (s.modTh u (fun x => { x with eptr := true })).modTh t (fun x => { x with tmp := u, rem := rest, pc := .p1Status, st := 2 })
            else unwind s t u
          else
            (s.modTh u (fun x => { x with elem := some (back s.heap.data) })).modTh t
              (fun x => { x with tmp := u, rem := rest, pc := .p1SzLd, st := 1 })
        else s.modTh t (fun x => { x with tmp := u, rem := rest, pc := .p1Defer })
      | .push v thr =>
        if thr then s.modTh t (fun x => { x with tmp := u, rem := rest, pc := .p1Status, st := 2 })
        else { s.modTh t (fun x => { x with tmp := u, rem := rest, pc := .p1SzLd, st := 1 }) with
               heap := { s.heap with data := s.heap.data ++ [v] } }
  | .p1Defer =>
    adv1 ((s.modTh th.tmp (fun x => { x with next := th.dfr.head?.map (nodeOf s) })).modTh t (fun x => { x with dfr := x.tmp :: x.dfr, pc := .p1Adv })) t
  | .p1SzLd => s.modTh t (fun x => { x with pc := .p1SzSt, sz := s.mySize })
  | .p1SzSt =>
    { s.modTh t (fun x => { x with pc := .p1Status }) with
      mySize := match (s.ths th.tmp).op with | .pop _ => th.sz - 1 | .push _ _ => th.sz + 1 }
  | .p1Status =>
    let s1 : St := { s.modTh th.tmp (fun x => { x with status := th.st, nSet := x.nSet + 1 }) with
      unset := s.unset.erase th.tmp,
      heap := match (s.ths th.tmp).op with
        | .pop _ => if th.st = 1 then { s.heap with data := s.heap.data.dropLast } else s.heap
        | .push _ _ => s.heap }
    adv1 (s1.modTh t (fun x => { x with pc := .p1Adv })) t
  | .p2Load =>
    match th.rem with
    | [] => adv2 (s.modTh t (fun x => { x with pc := .p2Adv })) t
    | u :: rest =>
      if isEmpty2 s.heap then s.modTh t (fun x => { x with tmp := u, rem := rest, pc := .p2Status, st := 2 })
      else if popThrows (s.ths u).op then
        if guarded then
          (s.modTh u (fun x => { x with eptr := true })).modTh t (fun x => { x with tmp := u, rem := rest, pc := .p2Status, st := 2 })
        else unwind s t u
      else if shortcut2 s.heap then
        (s.modTh u (fun x => { x with elem := some (back s.heap.data) })).modTh t
          (fun x => { x with tmp := u, rem := rest, pc := .p2SzLd, st := 1 })
      else
        (s.modTh u (fun x => { x with elem := some (get s.heap.data 0) })).modTh t
          (fun x => { x with tmp := u, rem := rest, pc := .p2SzLd, st := 1 })
  | .p2SzLd => s.modTh t (fun x => { x with pc := .p2SzSt, sz := s.mySize })
  | .p2SzSt => { s.modTh t (fun x => { x with pc := .p2Status }) with mySize := th.sz - 1 }
  | .p2Status =>
    let s1 : St := { s.modTh th.tmp (fun x => { x with status := th.st, nSet := x.nSet + 1 }) with
      unset := s.unset.erase th.tmp,
      heap := if th.st = 1 then (if shortcut2 s.heap then { s.heap with data := s.heap.data.dropLast } else reheap s.heap) else s.heap }
    adv2 (s1.modTh t (fun x => { x with pc := .p2Adv })) t
  | .release => { s.modTh t (fun x => { x with pc := .rdStatus }) with busy := 0 }
  | .rdStatus => s.modTh t (fun x => { x with pc := .idle, results := x.results ++ [resultOfCall x], nRet := x.nRet + 1 })
  | .p1Adv => adv1 s t
  | .p2Adv => adv2 s t

/-- the aggregator + priority queue as an interleaving system; `todo t` are the calls thread `t` makes,
`h0` the initial (heapified) contents -/
def Agg (todo : Tid → List (Op × Nat)) (h0 : Heap) : Sys St :=
  { init := { heap := h0, mySize := h0.data.length, ths := fun t => { todo := todo t } }, step := aggStep }

/-! ### what access a step performs (for the E-SHIM trace replay) -/

def showO : Option (Tid × Nat) → String
  | none => "0"
  | some (u, c) => s!"op{u}.{c}"

/-- `<tid> <kind> <var> <order> <a> <b> <ok>` exactly as `verif::format_event` prints the access that
`aggStep s t` models; "-" if the thread has nothing to do. -/
def describe (s : St) (t : Tid) : String :=
  let th := s.ths t
  match th.pc with
  | .idle => if th.todo.isEmpty then "-" else s!"{t} load st{t} rlx 0 0 1"
  | .ldPend => s!"{t} load pending rlx {showO (headNode s)} 0 1"
  | .stNext => s!"{t} store nx{t} rlx {showO th.res} 0 1"
  | .cas =>
    if headNode s = th.res then s!"{t} cas pending sc {showO th.res} {showO (some (nodeOf s t))} 1"
    else s!"{t} cas pending sc {showO th.res} {showO (headNode s)} 0"
  | .spin => s!"{t} load st{t} acq {th.status} 0 1"
  | .waitBusy => s!"{t} load busy acq {s.busy} 0 1"
  | .setBusy => s!"{t} store busy rlx 1 0 1"
  | .grab => s!"{t} xchg pending sc {showO (headNode s)} 0 1"
  | .p1Load | .p2Load =>
    match th.rem with
    | [] => "-"
    | u :: _ => s!"{t} load nx{u} rlx {showO (s.ths u).next} 0 1"
  | .p1Defer => s!"{t} store nx{th.tmp} rlx {showO (th.dfr.head?.map (nodeOf s))} 0 1"
  | .p1SzLd | .p2SzLd => s!"{t} load my_size rlx {s.mySize} 0 1"
  | .p1SzSt =>
    let v := match (s.ths th.tmp).op with | .pop _ => th.sz - 1 | .push _ _ => th.sz + 1
    s!"{t} store my_size rlx {v} 0 1"
  | .p2SzSt => s!"{t} store my_size rlx {th.sz - 1} 0 1"
  | .p1Status | .p2Status => s!"{t} store st{th.tmp} rel {th.st} 0 1"
  | .release => s!"{t} store busy rel 0 0 1"
  | .rdStatus => s!"{t} load st{t} sc {th.status} 0 1"
  | .p1Adv | .p2Adv => "-"

/-- `<op>@<cls>` (address class of the operation's node, default 0) -/
def parseOpAt (w : String) : Option (Op × Nat) :=
  match w.splitOn "@" with
  | [o] => (parseOp o).map (fun x => (x, 0))
  | [o, c] => match parseOp o, Proto.nat? c with
    | some x, some c => some (x, c)
    | _, _ => none
  | _ => none

end TbbVerif.C13
