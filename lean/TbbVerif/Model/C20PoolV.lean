/-
C20 — line-protocol driver that validates the white-box trace of ONE arena of an E-SHIM whole-runtime run against the
`Pool` model (`Model/C20Pool.lean`): every observed stack switch, co-cache push / pop / replacement, post-resume action,
access to a suspend point's state words and resume-task publication must be the step the model's thread takes next, with
the same values.

  init <nt> <cap> <nthreads>      nt slot threads (model thread = slot index), foreign threads are nt .. nthreads-1
  op <t> <name> [args]            thread t (between operations) performs a user-level / dispatch-loop operation:
       suspend | cbret | resume <d> | take <d> <action> <0|1> | enter | exit | waitdone <d> | leave | enterA | cleanup
  ev <t> <label ...>              the next internal step of thread t must produce exactly this label; steps whose
                                  labels are not observable (`act none`, `fin`, the load `ldrc`) are taken silently first
  end                             summary
`take` carries the OBSERVED action; which waiter the loop runs with (the model's `branch`: worker flag and loop level of
the current dispatcher) is not observable white-box, so the driver sets these two inputs of `branch` to the values that
select the observed action — never the level 0 of a slot's default dispatcher, which is observed (`m_properties.outermost`).
-/
import TbbVerif.Model.C20Pool

namespace TbbVerif.C20.Pool

open Proto

structure VSt where
  sk : Skel := asCoded
  s : PSt := {}
  fail : Option String := none
  n : Nat := 0

def silentLab (l : String) : Bool :=
  l == "act none" || l == "fin"

def busy (s : PSt) (t : Tid) : Bool :=
  (s.thr t).pushing.isSome || !((s.thr t).pc == .idle || (s.thr t).pc == .cb)

/-- take silent internal steps of `t` (at most `fuel`) until it is between operations; `none`: a non-silent step is pending -/
def settle (sk : Skel) : Nat → PSt → Tid → Option PSt
  | 0, s, t => if busy s t then none else some s
  | n + 1, s, t =>
      if !busy s t then some s else
      let r := stepT sk s t none
      if silentLab r.lab && r.s.err.isNone then settle sk n r.s t else none

/-- take the silent internal steps of `t` that are pending (at most `fuel`) -/
def advance (sk : Skel) : Nat → PSt → Tid → PSt
  | 0, s, _ => s
  | n + 1, s, t =>
      if !busy s t then s else
      let r := stepT sk s t none
      if silentLab r.lab && r.s.err.isNone then advance sk n r.s t else s

/-- the next internal step of `t` that produces `want`, skipping silent ones -/
def expectEv (sk : Skel) : Nat → PSt → Tid → String → Except String PSt
  | 0, _, t, want => .error s!"thread {t}: no step produces [{want}]"
  | n + 1, s, t, want =>
      if !busy s t then .error s!"thread {t} is between operations but the implementation did [{want}]" else
      let r := stepT sk s t none
      if r.s.err.isSome then .error s!"model error: {r.lab}"
      else if r.lab == want then .ok r.s
      else if silentLab r.lab then expectEv sk n r.s t want
      else .error s!"thread {t}: implementation did [{want}], model does [{r.lab}]"

def parseAct : String → Option Act
  | "register_waiter" => some .registerWaiter | "cleanup" => some .cleanup | "notify" => some .notify | "none" => some .none
  | _ => none

/-- set the unobservable inputs of `branch` for dispatcher `cur` so that it selects `a` -/
def tune (s : PSt) (cur : DId) (a : Act) : PSt :=
  if cur < s.nt then
    let th := s.thr cur
    match a with
    | .notify => { s with thr := upd s.thr cur { th with worker := true }, lvl := upd s.lvl cur 1 }
    | _ => { s with thr := upd s.thr cur { th with worker := false } }
  else
    match a with
    | .cleanup => { s with lvl := upd s.lvl cur 0 }
    | _ => { s with lvl := upd s.lvl cur (if s.lvl cur = 0 then 1 else s.lvl cur) }

def parseOp (ws : List String) : Option Op :=
  match ws with
  | ["suspend"] => some .suspend
  | ["cbret"] => some .cbReturn
  | ["resume", d] => (nat? d).map .resume
  | ["enter"] => some .enterLoop
  | ["exit"] => some .exitLoop
  | ["waitdone", d] => (nat? d).map .waitDone
  | ["leave"] => some .leaveArena
  | ["enterA"] => some .enterArena
  | ["cleanup"] => some .arenaCleanup
  | ["crit", "1"] => some .critBegin
  | ["crit", "0"] => some .critEnd
  | _ => none

def failWith (d : VSt) (why : String) : VSt × String := ({ d with fail := some why }, "MISMATCH " ++ why)

def doOp (d : VSt) (t : Tid) (op : Op) (s0 : PSt) : VSt × String :=
  match settle d.sk 6 s0 t with
  | none => failWith d s!"thread {t} has a pending non-silent step (pc {repr (s0.thr t).pc}) but the implementation started a new operation {repr op}"
  | some s1 =>
      let r := stepT d.sk s1 t (some op)
      if r.s.err.isSome then failWith d s!"model error: {r.lab}"
      else if r.o == .pop then ({ d with s := r.s, n := d.n + 1 }, "ok " ++ r.lab)
      else failWith d s!"thread {t}: operation {repr op} is not enabled in the model ({r.lab}; pc {repr (s1.thr t).pc} cur {(s1.thr t).cur})"

def drive (d : VSt) (ws : List String) : VSt × String :=
  if d.fail.isSome ∧ ws.head? ≠ some "init" ∧ ws ≠ ["end"] then (d, "skipped") else
  match ws with
  | ["init", nt, cap, nthr] =>
      match nat? nt, nat? cap, nat? nthr with
      | some nt, some cap, some _ => if cap = 0 then (d, "bad-op") else ({ sk := d.sk, s := initPool nt cap [] }, "ok")
      | _, _, _ => (d, "bad-op")
  | "op" :: t :: "take" :: dd :: a :: wd :: [] =>
      match nat? t, nat? dd, parseAct a with
      | some t, some dd, some a =>
          match settle d.sk 6 d.s t with
          | none => failWith d s!"thread {t} has a pending non-silent step but the implementation took a resume task"
          | some s1 =>
              let cur := (s1.thr t).cur
              if cur < s1.nt ∧ s1.lvl cur = 0 then failWith d s!"thread {t} took a resume task at the outermost level of dispatcher {cur}" else
              doOp d t (.take dd (wd == "1")) (tune s1 cur (if wd == "1" then .registerWaiter else a))
      | _, _, _ => (d, "bad-op")
  | ["op", t, "recall"] =>
      -- recall_point was observed: the model thread either goes there by itself (after a continuation at the outermost
      -- level of a borrowed dispatcher) or leaves an outermost loop of a borrowed dispatcher now
      match nat? t with
      | some t =>
          let s1 := advance d.sk 6 d.s t
          let th := s1.thr t
          if th.pushing.isNone ∧ th.pc = .sel ∧ th.act = .notify then ({ d with s := s1 }, "ok recall (the model went there by itself)")
          else doOp d t .exitLoop s1
      | none => (d, "bad-op")
  | "op" :: t :: rest =>
      match nat? t, parseOp rest with
      | some t, some op => doOp d t op d.s
      | _, _ => (d, "bad-op")
  | "ev" :: t :: rest =>
      match nat? t with
      | some t =>
          match expectEv d.sk 6 d.s t (" ".intercalate rest) with
          | .ok s' => ({ d with s := s', n := d.n + 1 }, "ok")
          | .error e => failWith d e
      | none => (d, "bad-op")
  | ["end"] =>
      let s := d.s
      let ths := (List.range (s.nt + 4)).filter (fun t => busy s t)
      let logsOk := (List.range s.nt).all (fun t => (s.thr t).setLog == (s.thr t).runLog || busy s t)
      let live := (List.range s.nd).filter (fun x => x ≥ s.nt && !s.dead x)
      (d, s!"summary fail={showBool d.fail.isSome} err={showBool s.err.isSome} cacheErr={showBool s.cacheErr} events={d.n} nd={s.nd} " ++
          s!"busy={ths.length} logsOk={showBool logsOk} ring={(s.ring.buf.filterMap id).length} refs={s.refH.length} live={live.length} " ++
          s!"dead={((List.range s.nd).filter (fun x => s.dead x)).length} freed={showBool s.freed} " ++
          s!"switches={(List.range s.nt).foldl (fun a t => a + (s.thr t).runLog.length) 0}")
  | _ => (d, "bad-op")

def vdriver (sk : Skel) : Proto.Driver := { σ := VSt, init := { sk := sk }, step := drive }

end TbbVerif.C20.Pool
