/-
C17 — line-protocol driver of the back-reference model: loads the table the white-box harness (`be br`) starts from
(`load T ...` / `load L ...` lines, then `endload`), executes the harness' operations and prints records in the
harness' format.
-/
import Std.Data.HashMap
import TbbVerif.Model.C17Backref
import TbbVerif.Model.C17BackrefInv

namespace TbbVerif.C17.BR
open TbbVerif.Generated.C17Backend
open TbbVerif.Proto

def hashMod : Nat := 2305843009213693951

def slotHash (l : Leaf) : Nat × Nat :=
  -- (offsets on the free list are marked in one pass; `List.contains` per slot would be quadratic)
  let freeMark : List Bool := l.free.foldl (fun (m : List Bool) o => m.set o true) (List.replicate brMaxCnt false)
  (((List.range brMaxCnt).zip l.slots).zip freeMark).foldl (fun (acc : Nat × Nat) (p : (Nat × Nat) × Bool) =>
    let off := p.1.1
    let above := match l.bump with | some b => decide ((off : Int) > b) | none => true
    if !p.2 && above then
      (acc.1 + 1, (acc.2 + ((off + 1) * 1000003 + p.1.2) % hashMod * (off + 7)) % hashMod)
    else acc) (0, 0)

def showLeaf (n : Nat) (l : Leaf) (values : Bool) : String :=
  let bump := match l.bump with | some b => toString b | none => "n"
  let head := s!"L {n} {l.cnt} {bump} {if l.added then 1 else 0} {l.base} :" ++ String.join (l.free.map (fun f => s!" {f}")) ++ " |"
  if values then
    head ++ String.join (((List.range brMaxCnt).filter l.allocated).map (fun off => s!" {off}={l.slots.getD off 0}"))
  else
    let (n, h) := slotHash l
    head ++ s!" n={n} h={h}"

def showTab (t : Tab) (values : Bool) : List String :=
  (s!"T {t.lastUsed} {t.active} :" ++ String.join (t.forUse.map (fun f => s!" {f}"))) ::
    ((List.range t.leaves.length).zip t.leaves).map (fun (p : Nat × Leaf) => showLeaf p.1 p.2 values)
  ++ (if t.bad then ["BAD the model handed out a word outside the slot area"] else [])
  ++ (tabReport t).map (fun w => "NOTOK " ++ w)

structure DSt where
  t : Tab := { leaves := [], active := 0, forUse := [] }
  loaded : Bool := false
  held : Std.HashMap Nat Idx := {}
  quiet : Bool := false

/-- `L num cnt bump added base : free... | off=val ...` -/
def parseLeaf (ws : List String) : Option Leaf :=
  match ws with
  | _ :: _ :: cnt :: bump :: added :: base :: ":" :: rest =>
    let (fr, sl) := match rest.span (· ≠ "|") with
      | (f, _ :: s) => (f, s)
      | (f, []) => (f, [])
    match nat? cnt, nat? added, nat? base, nats? fr with
    | some cnt, some added, some base, some fr =>
      let bumpV : Option (Option Int) := if bump = "n" then some none else (int? bump).map some
      match bumpV with
      | none => none
      | some bumpV =>
        let pairs := sl.filterMap (fun w => match w.splitOn "=" with
          | [o, v] => match nat? o, nat? v with
            | some o, some v => some (o, v)
            | _, _ => none
          | _ => none)
        let slots0 := List.replicate brMaxCnt 0
        let slots1 := pairs.foldl (fun (acc : List Nat) (p : Nat × Nat) => acc.set p.1 p.2) slots0
        -- links of the free list
        let rec link (acc : List Nat) : List Nat → List Nat
          | [] => acc
          | [o] => acc.set o 0
          | o :: n :: more => link (acc.set o (slotAddr base n)) (n :: more)
        some { base := base, slots := link slots1 fr, freeHead := match fr with | o :: _ => slotAddr base o | [] => 0,
               bump := bumpV, cnt := cnt, added := added != 0, free := fr }
    | _, _, _, _ => none
  | _ => none

def record (line : List String) (res : String) (t : Option Tab) : String :=
  let head := "> " ++ " ".intercalate line ++ "\n= " ++ res
  match t with
  | some t => head ++ "\n" ++ "\n".intercalate (showTab t false) ++ "\n."
  | none => head ++ "\n."

def dstep (d : DSt) (ws : List String) : DSt × String :=
  let (cmd, raws) := match ws.span (· ≠ "|") with
    | (c, _ :: r) => (c, r)
    | (c, []) => (c, [])
  let bad := (d, record cmd "bad-op" none)
  match (if ws.head? = some "load" then ws else cmd) with
  | "load" :: "T" :: _ :: act :: ":" :: fu =>
    match nat? act, nats? fu with
    | some act, some fu => ({ d with t := { d.t with active := act, forUse := fu } }, "")
    | _, _ => (d, "load-error")
  | "load" :: "L" :: rest =>
    match parseLeaf ("L" :: rest) with
    | some l => ({ d with t := { d.t with leaves := d.t.leaves ++ [l] } }, "")
    | none => (d, "load-error")
  | ["endload"] =>
    ({ d with loaded := true }, "> init\n= ok\n" ++ "\n".intercalate (showTab d.t true) ++ "\n.")
  | _ =>
    if !d.loaded then bad else
    let fin (t : Tab) (res : String) (held : Std.HashMap Nat Idx) : DSt × String :=
      ({ d with t := t, held := held }, record cmd res (if d.quiet then none else some t))
    let rawAns : List (Option Nat) := raws.map nat?
    let logOf (t t' : Tab) (used : Nat) : String :=
      -- the raw requests made: one 64K mapping per answer consumed
      String.join ((rawAns.take used).map (fun a => match a with
        | some a => s!" [A {brBlockSpaceSize} {a}]"
        | none => s!" [A {brBlockSpaceSize} fail]")) ++ (if t.leaves.length = t'.leaves.length then "" else "")
    match cmd with
    | ["quiet", q] =>
      match nat? q with
      | some q => ({ d with quiet := q != 0 }, record cmd "ok" (if q != 0 then none else some d.t))
      | none => bad
    | ["new", id, large] =>
      match nat? id, nat? large with
      | some id, some large =>
        if d.held.contains id then bad else
        let (t', r, used) := newBackRef d.t (large != 0) rawAns
        match r with
        | some i => fin t' (s!"{i.main} {i.off} {if i.large then 1 else 0}" ++ logOf d.t t' used) (d.held.insert id i)
        | none => fin t' ("invalid" ++ logOf d.t t' used) d.held
      | _, _ => bad
    | ["set", id, v] =>
      match nat? id, nat? v with
      | some id, some v =>
        match d.held[id]? with
        | some i => match setBackRef d.t i v with
          | some t' => fin t' "ok" d.held
          | none => fin d.t "not-live" d.held
        | none => bad
      | _, _ => bad
    | ["getid", id] =>
      match (nat? id).bind (fun id => d.held[id]?) with
      | some i => fin d.t (toString (getBackRef d.t i)) d.held
      | none => bad
    | ["get", m, o, l] =>
      match nat? m, nat? o, nat? l with
      | some m, some o, some l => fin d.t (toString (getBackRef d.t ⟨m % 2 ^ brMainBits, o % 2 ^ 15, l != 0⟩)) d.held
      | _, _, _ => bad
    | ["rm", id] =>
      match nat? id with
      | some id =>
        match d.held[id]? with
        | some i => match removeBackRef d.t i with
          | some t' => fin t' "ok" (d.held.erase id)
          | none => fin d.t "not-live" d.held
        | none => bad
      | none => bad
    | _ => bad

def driver : Proto.Driver := { σ := DSt, init := {}, step := dstep }

end TbbVerif.C17.BR
