/-
C12 — concurrent unordered / ordered associative containers (executable models, core Lean only).

Three layers, all at atomic-access granularity (one `step` of a thread = one atomic access of the real code, plus
"silent" op-begin steps that only touch thread-local / ghost state):

* `CasList`   : insert-only sorted singly linked list with CAS (the shared heart of both container families):
                `search_after` / `insert_dummy_node` / skip-list level walk, `try_insert` = store `new.next`, CAS
                `prev.next : curr → new`; never unlinks.  include/oneapi/tbb/detail/_concurrent_unordered_base.h
* `SplitOrder`: split-ordered hash table on top (order keys by bit reversal, bucket table of dummy entry points,
                recursive parent initialisation, table doubling).        (same header)
* `SkipList`  : level-0 CasList is the content, levels ≥ 1 are CasLists over subsets, linked bottom-up.
                include/oneapi/tbb/detail/_concurrent_skip_list.h

Pointers are small node ids (`0` = list head); `next` pointers are maps `Node → Option Node`.  The field `chain`
(nodes reachable from the head, in order) and `wins` (successfully linked nodes) are GHOST: they are only written
by the successful CAS and are proved to coincide with what the pointers say (`follow next … = chain`).
All three systems have inductive invariants for any number of threads and every schedule (Proofs/C12/*.lean);
SplitOrder and SkipList are the models the E-SHIM traces of the real headers are replayed on, access by access.

User functors that throw: SplitOrder and SkipList programs may arm a fault (`Op.arm kind n`: the n-th call of the comparator /
`key_equal` / hasher, the element constructor, the allocation of the node or of the skip-list head of the NEXT operation throws);
`thStep` = the exception-free step `thStepCore` + the throwing steps at every call site of the real code + the allocator ledger
`freed` (nodes handed back by `delete_value_node` / `destroy_node`).  Where the code deletes a node on an exception path is a
parameter of the models whose default is regenerated from the headers (`Cfg.freeUnlinked`, `Cfg.freeLinked`).
`CasList` additionally models `count(k)` of the multi containers (`std::distance` over `equal_range`).
-/
import TbbVerif.Core.Sched
import TbbVerif.Core.Proto
import TbbVerif.Generated.C12

namespace TbbVerif.C12

/-- node ids are natural numbers (a notation, so that `omega` sees `Nat`) -/
notation "Node" => Nat

/-! ## ghost list helpers -/

/-- the elements strictly after the first occurrence of `p` -/
def aft (p : Node) : List Node → List Node
  | [] => []
  | x :: xs => if x = p then xs else aft p xs

/-- the prefix up to and including the first occurrence of `p` -/
def upto (p : Node) : List Node → List Node
  | [] => []
  | x :: xs => if x = p then [x] else x :: upto p xs

/-- insert `n` immediately after the first occurrence of `p` -/
def insAfter (p n : Node) : List Node → List Node
  | [] => []
  | x :: xs => if x = p then x :: n :: xs else x :: insAfter p n xs

/-- the nodes met by following `next` pointers from `n` (at most `fuel` of them): what the pointers really say -/
def follow (next : Node → Option Node) : Nat → Node → List Node
  | 0, _ => []
  | fuel + 1, n => n :: (match next n with | none => [] | some m => follow next fuel m)

-- (`noinline`: the compiler must evaluate `v` once, before the closure is built, not inside it on every lookup)
@[noinline] def upd {α : Type} (f : Node → α) (a : Node) (v : α) : Node → α := fun x => if x = a then v else f x

/-! ## keys and the container's tie rule -/

/-- `ok` = the order key the list is sorted by (split-order key, or comparator rank for ordered containers);
`uk` = the user key, which distinguishes different keys whose order keys collide (hash collisions). -/
structure Key where
  ok : Nat
  uk : Nat
  deriving DecidableEq, Repr, Inhabited

/-- tie rule of an insertion: `uniq` (unique-key containers and dummy nodes), `before` (unordered multi
containers: stop at the first equal key, link in front of it), `after` (ordered multi containers: walk past all
equal keys, `not_greater_compare`). -/
inductive Rule where
  | uniq | before | after
  deriving DecidableEq, Repr

/-- the loop condition of `search_after` / `insert_dummy_node` / `internal_find_position`: keep walking past `c` -/
def adv (r : Rule) (c k : Key) : Bool :=
  match r with
  | .after => decide (c.ok ≤ k.ok)
  | _ => decide (c.ok < k.ok) || (decide (c.ok = k.ok) && decide (c.uk ≠ k.uk))

/-- evaluated when the walk stopped at `c`: an equivalent key is already present (unique containers only) -/
def hit (r : Rule) (c k : Key) : Bool := decide (r = .uniq) && decide (c.ok = k.ok)

/-! ## shared list state and the actions a step can perform on it -/

structure LSt where
  next  : Node → Option Node := fun _ => none
  key   : Node → Key := fun _ => ⟨0, 0⟩
  owner : Node → Tid := fun _ => 0        -- ghost: the thread that allocated the node
  fresh : Nat := 1                        -- nodes `< fresh` are allocated
  chain : List Node := [0]                -- ghost: the list from the head
  wins  : List Node := []                 -- ghost: successfully linked nodes, newest first

inductive Act where
  | nop
  | alloc (k : Key) (t : Tid)
  | setNext (n : Node) (v : Option Node)
  | link (p n : Node)

def LSt.apply (L : LSt) : Act → LSt
  | .nop => L
  | .alloc k t => { L with key := upd L.key L.fresh k, owner := upd L.owner L.fresh t,
                           next := upd L.next L.fresh none, fresh := L.fresh + 1 }
  | .setNext n v => { L with next := upd L.next n v }
  | .link p n => { L with next := upd L.next p (some n), chain := insAfter p n L.chain, wins := n :: L.wins }

/-- an access as it appears in the E-SHIM trace -/
structure Ev where
  kind : String
  var  : String
  a    : String := "0"
  b    : String := "0"
  ok   : Bool := true
  deriving Repr, DecidableEq

def nodeName (n : Node) : String := s!"n{n}"
def ptrName : Option Node → String
  | none => "nil"
  | some n => nodeName n
def nextVar (n : Node) : String := s!"n{n}.next"

/-! ## CasList: the standalone system -/
namespace CasList

inductive Op where
  | ins (k : Key) (start : Node)
  | find (k : Key) (start : Node)
  | trav
  | count (k : Key) (start : Node)       -- `count(key)` of a multi container = `std::distance` over `equal_range(key)`
  deriving Repr, DecidableEq

inductive Pc where
  | idle | search | setNext | cas | fwalk | twalk
  | cfirst        -- equal_range: walk to the first equivalent element
  | clast         -- equal_range: walk past the equivalent elements; the node that ends the run is `second`
  | cdist         -- std::distance(first, second): walk from `first` again, counting, until `second` is met
  deriving Repr, DecidableEq

/-- results of completed operations.  `must` / `snap` are ghost copies of what the list contained when the
operation began (`must`: a node with the key was present; `snap`: the whole chain). -/
inductive Res where
  | ins (k : Key) (ok : Bool) (n : Node)
  | find (k : Key) (must : Bool) (r : Option Node)
  | trav (seen : List Node) (snap : List Node)
  | misuse
  | touched (entry : Node)          -- SplitOrder: prepare_bucket only
  | broken (what : String)          -- SplitOrder: the code would dereference a null pointer here (proved unreachable)
  | sized (what : String)           -- SplitOrder: rehash / reserve / max_load_factor returned (no list result)
  | threw                           -- SplitOrder: the operation was left by an exception of a user functor
  /-- `count(k)` returned `n`.  Ghost: `lo` = equivalent elements in the list when the call began; `hi` = equivalent elements
  in the list when it returned + elements of OTHER keys that were linked between its begin and its return. -/
  | count (k : Key) (n lo hi : Nat)
  deriving Repr, DecidableEq

structure Th where
  ops  : List Op := []
  pc   : Pc := .idle
  k    : Key := ⟨0, 0⟩
  prev : Node := 0
  curr : Option Node := none
  new  : Node := 0
  seen : List Node := []          -- traversal: nodes visited so far, newest first (head included)
  snap : List Node := []          -- ghost: the chain when the traversal began
  must : Bool := false            -- ghost: a node with key `k` was in the chain when the find began
  first : Node := 0               -- count: `equal_range(k).first`
  second : Option Node := none    -- count: `equal_range(k).second` (`none` = end())
  deriving Repr

/-- what one step of a thread does: action on the shared list, new local state, the access performed (`none`
for the silent op-begin step) and the result if the step completes an operation -/
structure Out where
  act : Act := .nop
  th  : Th
  ev  : Option Ev := none
  res : Option Res := none

def Th.finish (th : Th) : Th := { th with pc := .idle, ops := th.ops.tail }

/-- a valid entry point for an operation on key `k` (what the bucket table / the upper skip-list levels provide) -/
def validStart (rule : Key → Rule) (L : LSt) (k : Key) (start : Node) : Bool :=
  decide (start ∈ L.chain) &&
    (decide ((L.key start).ok < k.ok) || (decide (rule k = .after) && decide ((L.key start).ok ≤ k.ok)))

/-- entry point of a lookup: strictly below the key -/
def validFind (L : LSt) (k : Key) (start : Node) : Bool :=
  decide (start ∈ L.chain) && decide ((L.key start).ok < k.ok)

def hasKey (L : LSt) (k : Key) : Bool := L.chain.any (fun x => decide (L.key x = k))

/-- `c` is equivalent to the key `k` of a `count` / `equal_range`: the comparator cannot tell them apart (ordered containers,
rule `after`), or hash and `key_equal` agree (unordered containers) -/
def sameKey (rule : Key → Rule) (c k : Key) : Bool :=
  if rule k = .after then decide (c.ok = k.ok) else decide (c = k)

/-- ghost bounds reported with the result of `count(k)`; `snap` = the chain when the call began -/
def countLo (rule : Key → Rule) (L : LSt) (k : Key) (snap : List Node) : Nat :=
  (snap.filter (fun x => sameKey rule (L.key x) k)).length
def countHi (rule : Key → Rule) (L : LSt) (k : Key) (snap : List Node) : Nat :=
  (L.chain.filter (fun x => sameKey rule (L.key x) k)).length +
    (L.chain.filter (fun x => !sameKey rule (L.key x) k && !snap.contains x)).length

def thStep (rule : Key → Rule) (L : LSt) (t : Tid) (th : Th) : Out :=
  match th.pc with
  | .idle =>
    match th.ops with
    | [] => { th := th }
    | .ins k start :: _ =>
      if validStart rule L k start then
        { act := .alloc k t, th := { th with pc := .search, k := k, prev := start, curr := none, new := L.fresh } }
      else { th := th.finish, res := some .misuse }
    | .find k start :: _ =>
      if validFind L k start then
        { th := { th with pc := .fwalk, k := k, prev := start, must := hasKey L k } }
      else { th := th.finish, res := some .misuse }
    | .trav :: _ =>
      { th := { th with pc := .twalk, prev := 0, seen := [0], snap := L.chain } }
    | .count k start :: _ =>
      if validFind L k start then
        { th := { th with pc := .cfirst, k := k, prev := start, snap := L.chain } }
      else { th := th.finish, res := some .misuse }
  | .cfirst =>
    -- internal_equal_range: `curr->order_key() > order_key` -> empty range; equivalent -> `first`; else walk on
    let c := L.next th.prev
    let ev : Ev := { kind := "load", var := nextVar th.prev, a := ptrName c }
    let none0 : Out := { th := th.finish, ev := some ev,
                         res := some (.count th.k 0 (countLo rule L th.k th.snap) (countHi rule L th.k th.snap)) }
    match c with
    | none => none0
    | some c' =>
      if th.k.ok < (L.key c').ok then none0
      else if sameKey rule (L.key c') th.k then { th := { th with pc := .clast, first := c', prev := c' }, ev := some ev }
      else { th := { th with prev := c' }, ev := some ev }
  | .clast =>
    -- `do last = last->next() while (last != nullptr && equivalent(last))`; the distance walk then starts at `first`
    let c := L.next th.prev
    let ev : Ev := { kind := "load", var := nextVar th.prev, a := ptrName c }
    match c with
    | none => { th := { th with pc := .cdist, second := none, prev := th.first, seen := [th.first] }, ev := some ev }
    | some c' =>
      if sameKey rule (L.key c') th.k then { th := { th with prev := c' }, ev := some ev }
      else { th := { th with pc := .cdist, second := some c', prev := th.first, seen := [th.first] }, ev := some ev }
  | .cdist =>
    -- `std::distance(first, second)`: `while (it != second) { ++it; ++n; }`
    let c := L.next th.prev
    let ev : Ev := { kind := "load", var := nextVar th.prev, a := ptrName c }
    if c = th.second then
      { th := th.finish, ev := some ev,
        res := some (.count th.k th.seen.length (countLo rule L th.k th.snap) (countHi rule L th.k th.snap)) }
    else
      match c with
      | none => { th := th.finish, ev := some ev, res := some (.broken "std::distance ran past end()") }
      | some c' => { th := { th with prev := c', seen := c' :: th.seen }, ev := some ev }
  | .search =>
    let c := L.next th.prev
    let ev : Ev := { kind := "load", var := nextVar th.prev, a := ptrName c }
    match c with
    | none => { th := { th with pc := .setNext, curr := none }, ev := some ev }
    | some c' =>
      if adv (rule th.k) (L.key c') th.k then { th := { th with prev := c' }, ev := some ev }
      else if hit (rule th.k) (L.key c') th.k then
        { th := th.finish, ev := some ev, res := some (.ins th.k false c') }
      else { th := { th with pc := .setNext, curr := some c' }, ev := some ev }
  | .setNext =>
    { act := .setNext th.new th.curr, th := { th with pc := .cas },
      ev := some { kind := "store", var := nextVar th.new, a := ptrName th.curr } }
  | .cas =>
    if L.next th.prev = th.curr then
      { act := .link th.prev th.new, th := th.finish, res := some (.ins th.k true th.new),
        ev := some { kind := "cas", var := nextVar th.prev, a := ptrName th.curr, b := nodeName th.new, ok := true } }
    else
      { th := { th with pc := .search },
        ev := some { kind := "cas", var := nextVar th.prev, a := ptrName th.curr, b := ptrName (L.next th.prev), ok := false } }
  | .fwalk =>
    let c := L.next th.prev
    let ev : Ev := { kind := "load", var := nextVar th.prev, a := ptrName c }
    match c with
    | none => { th := th.finish, ev := some ev, res := some (.find th.k th.must none) }
    | some c' =>
      if th.k.ok < (L.key c').ok then { th := th.finish, ev := some ev, res := some (.find th.k th.must none) }
      else if L.key c' = th.k then { th := th.finish, ev := some ev, res := some (.find th.k th.must (some c')) }
      else { th := { th with prev := c' }, ev := some ev }
  | .twalk =>
    let c := L.next th.prev
    let ev : Ev := { kind := "load", var := nextVar th.prev, a := ptrName c }
    match c with
    | none => { th := th.finish, ev := some ev, res := some (.trav th.seen.reverse th.snap) }
    | some c' => { th := { th with prev := c', seen := c' :: th.seen }, ev := some ev }

structure St where
  L : LSt := {}
  ths : List Th := []
  log : List (Tid × Res) := []       -- results of completed operations, newest first

def addLog (log : List (Tid × Res)) (t : Tid) : Option Res → List (Tid × Res)
  | none => log
  | some r => (t, r) :: log

def step (rule : Key → Rule) (s : St) (t : Tid) : St :=
  match s.ths[t]? with
  | none => s
  | some th =>
    let o := thStep rule s.L t th
    { L := s.L.apply o.act, ths := s.ths.set t o.th, log := addLog s.log t o.res }

def initSt (progs : List (List Op)) : St := { L := {}, ths := progs.map (fun p => { ops := p }) }

def sys (rule : Key → Rule) (progs : List (List Op)) : Sys St :=
  { init := initSt progs, step := step rule }

/-- the node of a successful insert report -/
def succNode : Tid × Res → Option Node
  | (_, .ins _ true n) => some n
  | _ => none

def isSucc (k : Key) : Tid × Res → Bool
  | (_, .ins k' true _) => decide (k' = k)
  | _ => false

def isIns (k : Key) : Tid × Res → Bool
  | (_, .ins k' _ _) => decide (k' = k)
  | _ => false

end CasList

/-! ## split-order arithmetic (`reverse_bits`, order keys, `get_parent`) -/

/-- `rev w x`: the low `w` bits of `x` in reverse order (`reverse_bits` on a `w`-bit word; the code uses `w = 64`) -/
def rev : Nat → Nat → Nat
  | 0, _ => 0
  | w + 1, x => (x % 2) * 2 ^ w + rev w (x / 2)

def wordBits : Nat := 64

/-- `split_order_key_regular(hash) = reverse_bits(hash) | 1` -/
def regularKey (h : Nat) : Nat := rev wordBits h / 2 * 2 + 1

/-- `split_order_key_dummy(bucket) = reverse_bits(bucket) & ~1` -/
def dummyKey (b : Nat) : Nat := rev wordBits b / 2 * 2

/-- `get_parent(bucket)`: clear the most significant set bit (rejects bucket 0 as the code asserts) -/
def getParent (b : Nat) : Option Nat := if b = 0 then none else some (b - 2 ^ Nat.log2 b)

def parentOf (b : Nat) : Nat := b - 2 ^ Nat.log2 b


/-! ## table sizing: `my_bucket_count` as a function of the constructor argument and of the sequence of
`insert` / `reserve` / `rehash` / `max_load_factor(f)` calls.  Every expression comes from `Generated/C12.lean`
(translated from the header on every run); this section only adds the control flow around them. -/
namespace Sizing
open Generated.C12

structure St where
  bc   : Nat
  size : Nat := 0
  mlf  : F32
  deriving Repr

inductive Op where
  | ins (k : Nat)          -- `k` successful inserts of new keys: `my_size.fetch_add(1)`, `adjust_table_size`
  | reserve (n : Nat)
  | rehash (n : Nat)
  | setMlf (f : F32)
  deriving Repr

/-- `while (cond) necessary_bucket_count <<= 1;` of `reserve`; `none`: still looping after `fuel` iterations -/
def reserveLoop (cur n : Nat) (mlf : F32) : Nat → Nat → Option Nat
  | 0, _ => none
  | fuel + 1, nec =>
    if reserveCond cur nec n mlf then reserveLoop cur n mlf fuel (reserveStep cur nec n mlf) else some nec

/-- after 64 shifts the word is 0 and stays 0: a loop that has not stopped by then never stops -/
def reserveFuel : Nat := 200

def insertOne (s : St) : St :=
  let total := s.size + 1
  if adjustCond total s.bc s.mlf then { s with size := total, bc := adjustNew total s.bc s.mlf }
  else { s with size := total }

def insertMany : Nat → St → St
  | 0, s => s
  | k + 1, s => insertMany k (insertOne s)

/-- one call, executed alone (every CAS on `my_bucket_count` succeeds).  `none`: `reserve` does not return. -/
def step (s : St) : Op → Option St
  | .ins k => some (insertMany k s)
  | .reserve n =>
    match reserveLoop s.bc n s.mlf reserveFuel (reserveInit s.bc n s.mlf) with
    | none => none
    | some nec => some { s with bc := reserveDesired s.bc nec n s.mlf }
  | .rehash n => some (if rehashCond s.bc n then { s with bc := rehashNew s.bc n } else s)
  | .setMlf f => some (if mlfReject f then s else { s with mlf := f })      -- a rejected value throws: nothing changes

def run (s : St) : List Op → Option St
  | [] => some s
  | op :: ops => match step s op with | none => none | some s' => run s' ops

/-- the constructor -/
def init (n0 : Nat) (mlf0 : F32) : St := { bc := ctorBc n0, mlf := mlf0 }

end Sizing


/-! ## SplitOrder: the unordered containers (bucket table + CAS list), one step per atomic access -/
namespace SplitOrder

/-- tie rule of the unordered containers: dummy nodes (even order keys) are unique; regular nodes follow the
container (`allow_multimapping`) -/
def rule (multi : Bool) (k : Key) : Rule :=
  if k.ok % 2 = 0 then .uniq else if multi then .before else .uniq

/-- `freeUnlinked`: is the node of an insertion destroyed when the insertion is left by an exception (regenerated from the
header: a handler around `internal_insert` in `internal_insert_value` / `emplace`)?  In `internal_insert` no user functor is
called after the node has been linked (`generated_throw_sites`), so there is no "linked" variant. -/
structure Cfg where
  multi : Bool := false
  mlf0  : F32 := F32.ofNat 4        -- my_max_load_factor when the threads start
  freeUnlinked : Bool := Generated.C12.uoFreeOnThrowUnlinked
  deriving Repr

/-- `arm kind n`: fault annotation for the NEXT operation of the thread — its `n`-th call of the user functor `kind` throws
(`1` = `key_equal`, `2` = the hasher) -/
inductive Op where
  | ins (h uk : Nat)
  | find (h uk : Nat)
  | touch (h : Nat)            -- prepare_bucket only (the entry of count()/equal_range() of multi containers)
  | trav
  | reserve (n : Nat)
  | rehash (n : Nat)
  | setMlf (f : F32)           -- max_load_factor(f): a plain (non-atomic) store
  | arm (kind n : Nat)
  deriving Repr, DecidableEq

inductive Kind where
  | ins | find | touch | size
  deriving Repr, DecidableEq

inductive Pc where
  | idle
  | ldBc                      -- prepare_bucket: my_bucket_count.load
  | gb1                       -- get_bucket: if (my_segments[b].load == nullptr)
  | gb2                       -- get_bucket: return my_segments[b].load
  | ibCas0                    -- init_bucket(0): my_segments[0].compare_exchange_strong(nullptr, &my_head)
  | ibLoop                    -- init_bucket(b): while (my_segments[parent].load == nullptr)
  | ibParent                  -- node_ptr parent = my_segments[parent].load
  | dSearch | dSetNext | dCas -- insert_dummy_node
  | ibStore                   -- my_segments[b].store(dummy)
  | search | setNext | cas    -- search_after / try_insert
  | szAdd | ldBc2 | casBc     -- my_size.fetch_add, adjust_table_size (`casBc` is also the single CAS of rehash)
  | rhLd                      -- rehash: my_bucket_count.load
  | rvLd | rvCas              -- reserve: my_bucket_count.load (+ the local loop), the CAS loop
  | fwalk | twalk
  deriving Repr, DecidableEq

abbrev Res := CasList.Res

structure Th where
  ops   : List Op := []
  pc    : Pc := .idle
  fk    : Nat := 0                -- armed fault: functor kind (0 = none) ...
  fn    : Nat := 0                -- ... and the number of the call that throws
  calls : Nat := 0                -- key_equal calls the current operation has made
  kind  : Kind := .ins
  h     : Nat := 0
  k     : Key := ⟨0, 0⟩          -- key of the walk in progress (dummy key during insert_dummy_node)
  rk    : Key := ⟨0, 0⟩          -- the regular key of the operation
  b     : Nat := 0                -- bucket of the operation
  stack : List Nat := []          -- init_bucket frames (innermost first)
  prev  : Node := 0
  curr  : Option Node := none
  new   : Node := 0
  dres  : Node := 0               -- node to publish in the table (new or already present dummy)
  sz    : Nat := 0
  cur   : Nat := 0
  nec   : Nat := 0                -- the bucket count a CAS on my_bucket_count is about to install
  arg   : Nat := 0                -- argument of rehash / reserve
  seen  : List Node := []
  snap  : List Node := []
  must  : Bool := false
  deriving Repr

structure St where
  L    : LSt := {}
  bc   : Nat := 8
  size : Nat := 0
  mlf  : F32 := F32.ofNat 4
  slot : Nat → Option Node := fun _ => none
  freed : List Node := []              -- nodes handed back to the allocator (`destroy_node`), newest first
  ths  : List Th := []
  log  : List (Tid × Res) := []

structure Out where
  act  : Act := .nop
  th   : Th
  bc   : Option Nat := none            -- new bucket count
  size : Option Nat := none
  mlf  : Option F32 := none
  slot : Option (Nat × Option Node) := none
  free : Option Node := none           -- node handed back to the allocator
  ev   : Option Ev := none
  res  : Option Res := none

def Th.finish (th : Th) : Th := { th with pc := .idle, ops := th.ops.tail, stack := [] }

def slotVar (b : Nat) : String := s!"slot{b}"

/-- call `init_bucket(b)` -/
def enterInit (th : Th) (b : Nat) : Th :=
  { th with stack := b :: th.stack, pc := if b = 0 then .ibCas0 else .ibLoop }

/-- return from `init_bucket` -/
def leaveInit (th : Th) : Th :=
  match th.stack.tail with
  | [] => { th with stack := [], pc := .gb2 }
  | rest => { th with stack := rest, pc := .ibLoop }

/-- one step of the exception-free code (the functors return normally) -/
def thStepCore (cfg : Cfg) (s : St) (t : Tid) (th : Th) : Out :=
  let L := s.L
  match th.pc with
  | .idle =>
    match th.ops with
    | [] => { th := th }
    | .arm _ _ :: _ => { th := th.finish }                    -- (the annotation itself is recorded by `thStep`)
    | .ins h uk :: _ =>
      { th := { th with pc := .ldBc, kind := .ins, h := h, rk := ⟨regularKey h, uk⟩, stack := [] } }
    | .find h uk :: _ =>
      { th := { th with pc := .ldBc, kind := .find, h := h, rk := ⟨regularKey h, uk⟩, stack := [],
                        must := CasList.hasKey L ⟨regularKey h, uk⟩ } }
    | .touch h :: _ => { th := { th with pc := .ldBc, kind := .touch, h := h, stack := [] } }
    | .trav :: _ => { th := { th with pc := .twalk, prev := 0, seen := [0], snap := L.chain } }
    | .reserve n :: _ => { th := { th with pc := .rvLd, kind := .size, arg := n, stack := [] } }
    | .rehash n :: _ => { th := { th with pc := .rhLd, kind := .size, arg := n, stack := [] } }
    | .setMlf f :: _ =>
      if Generated.C12.mlfReject f then { th := th.finish, res := some (.sized "mlf-rejected") }
      else { th := th.finish, mlf := some f, res := some (.sized "mlf") }
  | .ldBc =>
    { th := { th with pc := .gb1, b := th.h % s.bc }, ev := some { kind := "load", var := "bc", a := toString s.bc } }
  | .gb1 =>
    let v := s.slot th.b
    let ev : Ev := { kind := "load", var := slotVar th.b, a := ptrName v }
    match v with
    | none => { th := enterInit th th.b, ev := some ev }
    | some _ => { th := { th with pc := .gb2 }, ev := some ev }
  | .gb2 =>
    let v := s.slot th.b
    let ev : Ev := { kind := "load", var := slotVar th.b, a := ptrName v }
    match v with
    | none => { th := th.finish, ev := some ev, res := some (.broken "get_bucket returned nullptr") }
    | some p =>
      match th.kind with
      | .find => { th := { th with pc := .fwalk, prev := p, k := th.rk }, ev := some ev }
      | .touch => { th := th.finish, ev := some ev, res := some (.touched p) }
      | .size => { th := th.finish, ev := some ev, res := some (.touched p) }      -- (sizing calls never get here)
      | .ins =>
        { act := .alloc th.rk t, th := { th with pc := .search, prev := p, k := th.rk, curr := none, new := L.fresh },
          ev := some ev }
  | .ibCas0 =>
    match s.slot 0 with
    | none => { th := leaveInit th, slot := some (0, some 0),
                ev := some { kind := "cas", var := slotVar 0, a := "nil", b := nodeName 0, ok := true } }
    | some v => { th := leaveInit th,
                  ev := some { kind := "cas", var := slotVar 0, a := "nil", b := nodeName v, ok := false } }
  | .ibLoop =>
    match th.stack with
    | [] => { th := th.finish, res := some (.broken "init_bucket without a frame") }
    | b :: _ =>
      let v := s.slot (parentOf b)
      let ev : Ev := { kind := "load", var := slotVar (parentOf b), a := ptrName v }
      match v with
      | none => { th := enterInit th (parentOf b), ev := some ev }
      | some _ => { th := { th with pc := .ibParent }, ev := some ev }
  | .ibParent =>
    match th.stack with
    | [] => { th := th.finish, res := some (.broken "init_bucket without a frame") }
    | b :: _ =>
      let v := s.slot (parentOf b)
      let ev : Ev := { kind := "load", var := slotVar (parentOf b), a := ptrName v }
      match v with
      | none => { th := th.finish, ev := some ev, res := some (.broken "parent bucket is nullptr") }
      | some p =>
        { act := .alloc ⟨dummyKey b, 0⟩ t,
          th := { th with pc := .dSearch, prev := p, k := ⟨dummyKey b, 0⟩, curr := none, new := L.fresh }, ev := some ev }
  | .dSearch =>
    let c := L.next th.prev
    let ev : Ev := { kind := "load", var := nextVar th.prev, a := ptrName c }
    match c with
    | none => { th := { th with pc := .dSetNext, curr := none }, ev := some ev }
    | some c' =>
      if adv .uniq (L.key c') th.k then { th := { th with prev := c' }, ev := some ev }
      else if hit .uniq (L.key c') th.k then { th := { th with pc := .ibStore, dres := c' }, ev := some ev }
      else { th := { th with pc := .dSetNext, curr := some c' }, ev := some ev }
  | .dSetNext =>
    { act := .setNext th.new th.curr, th := { th with pc := .dCas },
      ev := some { kind := "store", var := nextVar th.new, a := ptrName th.curr } }
  | .dCas =>
    if L.next th.prev = th.curr then
      { act := .link th.prev th.new, th := { th with pc := .ibStore, dres := th.new }, res := some (.ins th.k true th.new),
        ev := some { kind := "cas", var := nextVar th.prev, a := ptrName th.curr, b := nodeName th.new, ok := true } }
    else
      { th := { th with pc := .dSearch },
        ev := some { kind := "cas", var := nextVar th.prev, a := ptrName th.curr, b := ptrName (L.next th.prev), ok := false } }
  | .ibStore =>
    match th.stack with
    | [] => { th := th.finish, res := some (.broken "init_bucket without a frame") }
    | b :: _ =>
      { th := leaveInit th, slot := some (b, some th.dres),
        ev := some { kind := "store", var := slotVar b, a := nodeName th.dres } }
  | .search =>
    let c := L.next th.prev
    let ev : Ev := { kind := "load", var := nextVar th.prev, a := ptrName c }
    match c with
    | none => { th := { th with pc := .setNext, curr := none }, ev := some ev }
    | some c' =>
      if adv (rule cfg.multi th.k) (L.key c') th.k then { th := { th with prev := c' }, ev := some ev }
      else if hit (rule cfg.multi th.k) (L.key c') th.k then
        { th := th.finish, ev := some ev, res := some (.ins th.k false c') }
      else { th := { th with pc := .setNext, curr := some c' }, ev := some ev }
  | .setNext =>
    { act := .setNext th.new th.curr, th := { th with pc := .cas },
      ev := some { kind := "store", var := nextVar th.new, a := ptrName th.curr } }
  | .cas =>
    if L.next th.prev = th.curr then
      -- the insert takes effect (and its success is logged) here; size / table growth follow
      { act := .link th.prev th.new, th := { th with pc := .szAdd }, res := some (.ins th.k true th.new),
        ev := some { kind := "cas", var := nextVar th.prev, a := ptrName th.curr, b := nodeName th.new, ok := true } }
    else
      { th := { th with pc := .search },
        ev := some { kind := "cas", var := nextVar th.prev, a := ptrName th.curr, b := ptrName (L.next th.prev), ok := false } }
  | .szAdd =>
    { th := { th with pc := .ldBc2, sz := s.size }, size := some (s.size + 1),
      ev := some { kind := "fadd", var := "size", a := toString s.size, b := toString (s.size + 1) } }
  | .ldBc2 =>
    let ev : Ev := { kind := "load", var := "bc", a := toString s.bc }
    -- float(total_elements) / float(current_size) > my_max_load_factor   (generated condition and new count)
    -- (the table cannot grow beyond 2^63 buckets: 63 segment pointers; the model stops doubling there)
    if Generated.C12.adjustCond (th.sz + 1) s.bc s.mlf && decide (s.bc < 2 ^ 63) then
      { th := { th with pc := .casBc, cur := s.bc, nec := Generated.C12.adjustNew (th.sz + 1) s.bc s.mlf }, ev := some ev }
    else { th := th.finish, ev := some ev }
  | .casBc =>
    -- my_bucket_count.compare_exchange_strong(cur, nec), result ignored (adjust_table_size and rehash)
    let res : Option Res := if th.kind = .size then some (.sized "rehash") else none
    if s.bc = th.cur then
      { th := th.finish, bc := some th.nec, res := res,
        ev := some { kind := "cas", var := "bc", a := toString th.cur, b := toString th.nec, ok := true } }
    else
      { th := th.finish, res := res,
        ev := some { kind := "cas", var := "bc", a := toString th.cur, b := toString s.bc, ok := false } }
  | .rhLd =>
    let ev : Ev := { kind := "load", var := "bc", a := toString s.bc }
    if Generated.C12.rehashCond s.bc th.arg then
      { th := { th with pc := .casBc, cur := s.bc, nec := Generated.C12.rehashNew s.bc th.arg }, ev := some ev }
    else { th := th.finish, ev := some ev, res := some (.sized "rehash") }
  | .rvLd =>
    let ev : Ev := { kind := "load", var := "bc", a := toString s.bc }
    -- the loop `while (necessary * max_load_factor() < n) necessary <<= 1` is thread-local
    match Sizing.reserveLoop s.bc th.arg s.mlf Sizing.reserveFuel (Generated.C12.reserveInit s.bc th.arg s.mlf) with
    | none => { th := th.finish, ev := some ev, res := some (.sized "reserve-does-not-return") }
    | some nec =>
      -- (a count shifted out of the 64-bit word is not modelled here: see `Sizing`)
      if nec = 0 then { th := th.finish, ev := some ev, res := some (.sized "reserve-wrapped") }
      else { th := { th with pc := .rvCas, cur := s.bc, nec := nec }, ev := some ev }
  | .rvCas =>
    let desired := Generated.C12.reserveDesired th.cur th.nec th.arg s.mlf
    if s.bc = th.cur then
      { th := th.finish, bc := some desired, res := some (.sized "reserve"),
        ev := some { kind := "cas", var := "bc", a := toString th.cur, b := toString desired, ok := true } }
    else
      let ev : Ev := { kind := "cas", var := "bc", a := toString th.cur, b := toString s.bc, ok := false }
      if Generated.C12.reserveBreak s.bc th.nec th.arg s.mlf then { th := th.finish, ev := some ev, res := some (.sized "reserve") }
      else { th := { th with cur := s.bc }, ev := some ev }
  | .fwalk =>
    let c := L.next th.prev
    let ev : Ev := { kind := "load", var := nextVar th.prev, a := ptrName c }
    match c with
    | none => { th := th.finish, ev := some ev, res := some (.find th.k th.must none) }
    | some c' =>
      if th.k.ok < (L.key c').ok then { th := th.finish, ev := some ev, res := some (.find th.k th.must none) }
      else if L.key c' = th.k then { th := th.finish, ev := some ev, res := some (.find th.k th.must (some c')) }
      else { th := { th with prev := c' }, ev := some ev }
  | .twalk =>
    let c := L.next th.prev
    let ev : Ev := { kind := "load", var := nextVar th.prev, a := ptrName c }
    match c with
    | none => { th := th.finish, ev := some ev, res := some (.trav th.seen.reverse th.snap) }
    | some c' => { th := { th with prev := c', seen := c' :: th.seen }, ev := some ev }

/-! ### user functors that throw

`search_after` / `internal_find` load `curr = prev->next()` and call `key_equal` on the node they read iff its order key
equals the wanted one; the hasher is called once, first thing in `internal_insert` / `internal_find` / `equal_range`. -/

/-- `key_equal` calls of the step `thStepCore` is about to perform (after its load) -/
def eqCalls (s : St) (th : Th) : Nat :=
  match th.pc with
  | .search | .fwalk =>
    match s.L.next th.prev with
    | some c' => if (s.L.key c').ok = th.k.ok then 1 else 0
    | none => 0
  | _ => 0

def eqThrows (s : St) (th : Th) : Bool :=
  decide (th.fk = 1) && decide (th.calls < th.fn) && decide (th.fn ≤ th.calls + eqCalls s th)

/-- the operation that begins computes the hash of its key, and that call throws -/
def hashThrows (th : Th) : Bool :=
  decide (th.fk = 2) && decide (th.fn = 1) &&
    (match th.ops with
     | .ins _ _ :: _ => true
     | .find _ _ :: _ => true
     | .touch _ :: _ => true
     | _ => false)

def Th.disarm (th : Th) : Th := { th with fk := 0, fn := 0, calls := 0 }

/-- bookkeeping after an exception-free step: count the calls; an operation that has ended disarms the fault -/
def Th.after (th' : Th) (calls : Nat) : Th := if th'.pc = .idle then th'.disarm else { th' with calls := calls }

/-- the step ends with `destroy_node(<the thread's own node>)`: an insertion that found an equivalent key, or
`insert_dummy_node` that found the bucket's dummy node already linked by another thread -/
def dupStep (th : Th) (o : Out) : Bool :=
  (match o.res with
   | some (.ins _ false _) => true
   | _ => false) || (decide (th.pc = .dSearch) && decide (o.th.pc = .ibStore))

/-- One step of a thread, user functors that throw included (see `SkipList.thStep`): a throwing step performs the access
of the exception-free step and leaves the operation with result `threw`; the node of the insertion is destroyed iff the
code has a handler that does so (`cfg.freeUnlinked`).  Exception-free steps are `thStepCore` plus the `destroy_node` of a
node that turned out to be a duplicate. -/
def thStep (cfg : Cfg) (s : St) (t : Tid) (th : Th) : Out :=
  match th.pc, th.ops with
  | .idle, .arm kind n :: _ => { th := { th.finish with fk := kind, fn := n, calls := 0 } }
  | _, _ =>
    let o := thStepCore cfg s t th
    if th.pc = .idle then
      if hashThrows th then { th := th.finish.disarm, res := some .threw }
      else if o.th.pc = .idle then { o with th := o.th.disarm } else o
    else if eqThrows s th then
      { th := th.finish.disarm, ev := o.ev, res := some .threw,
        free := if th.pc = .search ∧ cfg.freeUnlinked = true then some th.new else none }
    else
      { o with th := o.th.after (th.calls + eqCalls s th), free := if dupStep th o then some th.new else none }

def addLog (log : List (Tid × Res)) (t : Tid) : Option Res → List (Tid × Res)
  | none => log
  | some r => (t, r) :: log

def applyOut (s : St) (t : Tid) (o : Out) : St :=
  { L := s.L.apply o.act,
    bc := o.bc.getD s.bc,
    size := o.size.getD s.size,
    mlf := o.mlf.getD s.mlf,
    slot := match o.slot with | none => s.slot | some (b, v) => upd s.slot b v,
    freed := match o.free with | none => s.freed | some n => n :: s.freed,
    ths := s.ths.set t o.th,
    log := addLog s.log t o.res }

def step (cfg : Cfg) (s : St) (t : Tid) : St :=
  match s.ths[t]? with
  | none => s
  | some th => applyOut s t (thStep cfg s t th)

def initSt (cfg : Cfg) (bc : Nat) (progs : List (List Op)) : St :=
  { bc := bc, mlf := cfg.mlf0, ths := progs.map (fun p => { ops := p }) }

def sys (cfg : Cfg) (bc : Nat) (progs : List (List Op)) : Sys St :=
  { init := initSt cfg bc progs, step := step cfg }

end SplitOrder

/-! ## SkipList: the ordered containers -/
namespace SkipList

/-- `freeUnlinked` / `freeLinked`: does `internal_insert` delete its node when `internal_insert_node` is left by an
exception BEFORE / AFTER the node was CAS-linked on level 0?  The defaults are regenerated from the header on every run
(`Generated.C12.slFreeOnThrowUnlinked/Linked`: is there a handler — RAII guard, `try_call(..).on_exception`, `catch` — around
the call that deletes the node, and is it dismissed before the upper levels are linked?). -/
structure Cfg where
  multi : Bool := false
  maxLevel : Nat := 32
  freeUnlinked : Bool := Generated.C12.slFreeOnThrowUnlinked
  freeLinked : Bool := Generated.C12.slFreeOnThrowLinked
  deriving Repr

def rule (multi : Bool) : Rule := if multi then .after else .uniq

/-- `arm kind n`: fault annotation for the NEXT operation of the thread — its `n`-th call of the user functor `kind`
throws (`1` = the comparator, `3` = the element constructor inside `create_value_node`, `4` = the allocator's `allocate`:
call 1 is the value node, call 2 the head node).  Programs range over all lists of operations, so the theorems cover
every fault position. -/
inductive Op where
  | ins (k h : Nat)          -- key rank (order key = k + 1) and the height drawn for the node (≥ 1)
  | find (k : Nat)
  | trav
  | arm (kind n : Nat)
  deriving Repr, DecidableEq

inductive Pc where
  | idle
  | ldHead | casHead          -- create_head_if_necessary
  | ldMaxh                    -- fill_prev_curr_arrays: my_max_height.load
  | desc                      -- internal_find_position on level `lvl`
  | setNext0 | cas0           -- level 0: new_node->set_next(0, next); prev->atomic_next(0).CAS
  | ldMaxh2 | casMaxh         -- raise my_max_height
  | setNextU | casU           -- upper levels
  | refind                    -- after a failed upper CAS: internal_find_position(lev, prev_nodes[lev], new_node)
  | szInc
  | fLdHead | fLdMaxh | fdesc -- lookups (lower_bound / find)
  | tLdHead | twalk
  deriving Repr, DecidableEq

inductive Res where
  | ins (k : Nat) (ok : Bool) (n : Node)
  | find (k : Nat) (must : Bool) (r : Option Node)
  | trav (seen : List Node) (snap : List Node)
  | misuse                              -- a node height outside 1..max_level (the level generator never returns one)
  | threw (linked : Option Node)        -- the operation was left by an exception (`some n`: after its node `n` was linked on level 0)
  deriving Repr, DecidableEq

structure Th where
  ops   : List Op := []
  pc    : Pc := .idle
  fk    : Nat := 0                       -- armed fault: functor kind (0 = none) ...
  fn    : Nat := 0                       -- ... and the number of the call that throws
  calls : Nat := 0                       -- comparator calls the current operation has made
  k     : Key := ⟨0, 0⟩
  hgt   : Nat := 0
  new   : Node := 0
  cmh   : Nat := 0                       -- max height read by fill_prev_curr_arrays / lookups
  lvl   : Nat := 0                       -- level being searched (descending) / refound (ascending)
  level : Nat := 0                       -- upper level being linked
  prev  : Node := 0
  prevs : Nat → Node := fun _ => 0
  currs : Nat → Option Node := fun _ => none
  mh    : Nat := 0
  oldc  : Option Node := none            -- internal_find_multi: old_curr
  last  : Option Node := none            -- lookups: the last `curr`
  seen  : List Node := []
  snap  : List Node := []
  must  : Bool := false

/-- the shared pointer structure (everything the level-structure invariants talk about) -/
structure Core where
  key    : Node → Key := fun _ => ⟨0, 0⟩
  owner  : Node → Tid := fun _ => 0
  fresh  : Nat := 1
  height : Node → Nat := fun _ => 0
  idx    : Node → Nat := fun _ => 0            -- my_index_number
  next   : Nat → Node → Option Node := fun _ _ => none
  chain  : Nat → List Node := fun _ => [0]     -- ghost: per level, the list from the head
  wins   : List Node := []                     -- ghost: nodes linked on level 0, newest first

structure St where
  core   : Core := {}
  maxh   : Nat := 0
  headSet : Bool := false                      -- my_head_ptr != nullptr
  size   : Nat := 0
  freed  : List Node := []                     -- nodes handed back to the allocator (`delete_value_node`), newest first
  ths    : List Th := []
  log    : List (Tid × Res) := []

def nextVarL (n : Node) (l : Nat) : String := s!"n{n}.next{l}"

def Th.finish (th : Th) : Th := { th with pc := .idle, ops := th.ops.tail }

/-- continue-condition of `internal_find_position(level, prev, key, cmp)` (the `key` overload) -/
def advKey (multi : Bool) (c k : Key) : Bool := adv (rule multi) c k

/-- continue-condition of the `node` overload used to re-find a position on an upper level: for multi
containers equal keys are ordered by `index_number` -/
def advNode (multi : Bool) (c k : Key) (cidx nidx : Nat) : Bool :=
  if multi then decide (c.ok < k.ok) || (decide (c.ok = k.ok) && decide (cidx ≤ nidx))
  else decide (c.ok < k.ok)

def hasKey (s : St) (k : Key) : Bool := (s.core.chain 0).any (fun x => decide (s.core.key x = k))

@[noinline] def upd2 {α : Type} (f : Nat → Node → α) (l : Nat) (n : Node) (v : α) : Nat → Node → α :=
  fun l' x => if l' = l ∧ x = n then v else f l' x

/-- after a level has been searched during `fill_prev_curr_arrays`: record and go one level down -/
def afterDesc (th : Th) (c : Option Node) : Th :=
  let th := { th with prevs := upd th.prevs th.lvl th.prev, currs := upd th.currs th.lvl c }
  if th.lvl = 0 then { th with pc := .setNext0 } else { th with lvl := th.lvl - 1 }

/-- the result of one step: the new global state pieces are applied directly (this model is used for trace
replay and for the level-structure theorems) -/
structure Out where
  st  : St
  th  : Th
  ev  : Option Ev := none
  res : Option Res := none

/-- one step of the exception-free code (the functors return normally) -/
def thStepCore (cfg : Cfg) (s : St) (t : Tid) (th : Th) : Out :=
  let c := s.core
  match th.pc with
  | .idle =>
    match th.ops with
    | [] => { st := s, th := th }
    | .arm _ _ :: _ => { st := s, th := th.finish }          -- (the annotation itself is recorded by `thStep`)
    | .ins k h :: _ =>
      if h = 0 ∨ cfg.maxLevel < h then { st := s, th := th.finish, res := some .misuse } else
      -- create_value_node: the node exists (with its height) before anything is searched
      let n := c.fresh
      { st := { s with core := { c with fresh := n + 1, key := upd c.key n ⟨k + 1, 0⟩, owner := upd c.owner n t,
                                        height := upd c.height n h, idx := upd c.idx n 0,
                                        next := fun l x => if x = n then none else c.next l x } },
        th := { th with pc := .ldHead, k := ⟨k + 1, 0⟩, hgt := h, new := n } }
    | .find k :: _ =>
      -- `must`: the key is in the list and published (an insert that has returned has raised my_max_height above 0)
      { st := s, th := { th with pc := .fLdHead, k := ⟨k + 1, 0⟩, must := hasKey s ⟨k + 1, 0⟩ && decide (0 < s.maxh),
                                 oldc := none, last := none } }
    | .trav :: _ => { st := s, th := { th with pc := .tLdHead, prev := 0, seen := [0], snap := c.chain 0 } }
  | .ldHead =>
    let ev : Ev := { kind := "load", var := "headptr", a := if s.headSet then nodeName 0 else "nil" }
    if s.headSet then { st := s, th := { th with pc := .ldMaxh }, ev := some ev }
    else { st := s, th := { th with pc := .casHead }, ev := some ev }
  | .casHead =>
    if s.headSet then
      { st := s, th := { th with pc := .ldMaxh },
        ev := some { kind := "cas", var := "headptr", a := "nil", b := nodeName 0, ok := false } }
    else
      { st := { s with headSet := true }, th := { th with pc := .ldMaxh },
        ev := some { kind := "cas", var := "headptr", a := "nil", b := nodeName 0, ok := true } }
  | .ldMaxh =>
    let ev : Ev := { kind := "load", var := "maxh", a := toString s.maxh }
    let cmh := s.maxh
    -- levels [cmh, hgt): prev = head, curr = nullptr.  (Levels below cmh are all rewritten by the descent before
    -- they are read and levels ≥ max cmh hgt are never read, so the arrays may as well be reset completely.)
    let th := { th with cmh := cmh, prevs := fun _ => 0, currs := fun _ => none, prev := 0 }
    if cmh = 0 then { st := s, th := { th with pc := .setNext0 }, ev := some ev }
    else { st := s, th := { th with pc := .desc, lvl := cmh - 1 }, ev := some ev }
  | .desc =>
    let cn := s.core.next th.lvl th.prev
    let ev : Ev := { kind := "load", var := nextVarL th.prev th.lvl, a := ptrName cn }
    match cn with
    | some c' =>
      if advKey cfg.multi (c.key c') th.k then { st := s, th := { th with prev := c' }, ev := some ev }
      else
        let th' := afterDesc th cn
        -- level 0 of a unique container: `found(next, key)` ends the insertion
        if th.lvl = 0 ∧ hit (rule cfg.multi) (c.key c') th.k then
          { st := s, th := th'.finish, ev := some ev, res := some (.ins (th.k.ok - 1) false c') }
        else { st := s, th := th', ev := some ev }
    | none => { st := s, th := afterDesc th cn, ev := some ev }
  | .setNext0 =>
    let nx := th.currs 0
    let pv := th.prevs 0
    -- multi containers: new_node->set_index_number(prev->index_number() + 1)
    let iv := if cfg.multi then c.idx pv + 1 else c.idx th.new
    { st := { s with core := { c with next := upd2 c.next 0 th.new nx, idx := upd c.idx th.new iv } },
      th := { th with pc := .cas0 },
      ev := some { kind := "store", var := nextVarL th.new 0, a := ptrName nx } }
  | .cas0 =>
    let nx := th.currs 0
    let pv := th.prevs 0
    if c.next 0 pv = nx then
      { st := { s with core := { c with next := upd2 c.next 0 pv (some th.new),
                                        chain := upd c.chain 0 (insAfter pv th.new (c.chain 0)), wins := th.new :: c.wins } },
        th := { th with pc := .ldMaxh2 }, res := some (.ins (th.k.ok - 1) true th.new),
        ev := some { kind := "cas", var := nextVarL pv 0, a := ptrName nx, b := nodeName th.new, ok := true } }
    else
      { st := s, th := { th with pc := .ldMaxh },
        ev := some { kind := "cas", var := nextVarL pv 0, a := ptrName nx, b := ptrName (c.next 0 pv), ok := false } }
  | .ldMaxh2 =>
    let ev : Ev := { kind := "load", var := "maxh", a := toString s.maxh }
    if th.hgt ≤ s.maxh then
      { st := s, th := { th with pc := if 1 < th.hgt then .setNextU else .szInc, level := 1, mh := s.maxh }, ev := some ev }
    else { st := s, th := { th with pc := .casMaxh, mh := s.maxh }, ev := some ev }
  | .casMaxh =>
    if s.maxh = th.mh then
      { st := { s with maxh := th.hgt }, th := { th with pc := if 1 < th.hgt then .setNextU else .szInc, level := 1 },
        ev := some { kind := "cas", var := "maxh", a := toString th.mh, b := toString th.hgt, ok := true } }
    else
      -- the failed CAS reloads `max_height`; the loop re-tests `new_height <= max_height`
      let ev : Ev := { kind := "cas", var := "maxh", a := toString th.mh, b := toString s.maxh, ok := false }
      if th.hgt ≤ s.maxh then
        { st := s, th := { th with pc := if 1 < th.hgt then .setNextU else .szInc, level := 1, mh := s.maxh }, ev := some ev }
      else { st := s, th := { th with mh := s.maxh }, ev := some ev }
  | .setNextU =>
    let nx := th.currs th.level
    { st := { s with core := { c with next := upd2 c.next th.level th.new nx } }, th := { th with pc := .casU },
      ev := some { kind := "store", var := nextVarL th.new th.level, a := ptrName nx } }
  | .casU =>
    let nx := th.currs th.level
    let pv := th.prevs th.level
    if c.next th.level pv = nx then
      { st := { s with core := { c with next := upd2 c.next th.level pv (some th.new),
                                        chain := upd c.chain th.level (insAfter pv th.new (c.chain th.level)) } },
        th := { th with pc := if th.level + 1 < th.hgt then .setNextU else .szInc, level := th.level + 1 },
        ev := some { kind := "cas", var := nextVarL pv th.level, a := ptrName nx, b := nodeName th.new, ok := true } }
    else
      { st := s, th := { th with pc := .refind, lvl := th.level, prev := th.prevs th.level },
        ev := some { kind := "cas", var := nextVarL pv th.level, a := ptrName nx, b := ptrName (c.next th.level pv), ok := false } }
  | .refind =>
    let cn := s.core.next th.lvl th.prev
    let ev : Ev := { kind := "load", var := nextVarL th.prev th.lvl, a := ptrName cn }
    let stop (c0 : Option Node) : Th :=
      let th := { th with prevs := upd th.prevs th.lvl th.prev, currs := upd th.currs th.lvl c0 }
      if th.lvl + 1 < th.hgt then { th with lvl := th.lvl + 1, prev := th.prevs (th.lvl + 1) }
      else { th with pc := .setNextU }
    match cn with
    | some c' =>
      if advNode cfg.multi (c.key c') th.k (c.idx c') (c.idx th.new) then { st := s, th := { th with prev := c' }, ev := some ev }
      else { st := s, th := stop cn, ev := some ev }
    | none => { st := s, th := stop cn, ev := some ev }
  | .szInc =>
    { st := { s with size := s.size + 1 }, th := th.finish,
      ev := some { kind := "fadd", var := "size", a := toString s.size, b := toString (s.size + 1) } }
  | .fLdHead =>
    let ev : Ev := { kind := "load", var := "headptr", a := if s.headSet then nodeName 0 else "nil" }
    if s.headSet then { st := s, th := { th with pc := .fLdMaxh, prev := 0 }, ev := some ev }
    else { st := s, th := th.finish, ev := some ev, res := some (.find (th.k.ok - 1) th.must none) }
  | .fLdMaxh =>
    let ev : Ev := { kind := "load", var := "maxh", a := toString s.maxh }
    if s.maxh = 0 then { st := s, th := th.finish, ev := some ev, res := some (.find (th.k.ok - 1) th.must none) }
    else { st := s, th := { th with pc := .fdesc, lvl := s.maxh - 1, cmh := s.maxh }, ev := some ev }
  | .fdesc =>
    -- lookups always walk with the strict comparator `my_compare`
    let cn := s.core.next th.lvl th.prev
    let ev : Ev := { kind := "load", var := nextVarL th.prev th.lvl, a := ptrName cn }
    let isEq (c0 : Option Node) : Bool := match c0 with
      | some c' => decide ((s.core.key c').ok ≤ th.k.ok)      -- found(curr, key) = !(key < curr)
      | none => false
    let levelDone (c0 : Option Node) : Out :=
      if cfg.multi then
        -- internal_find_multi: return as soon as a level lands on an equal key
        if c0 ≠ th.oldc ∧ isEq c0 then { st := s, th := th.finish, ev := some ev, res := some (.find (th.k.ok - 1) th.must c0) }
        else if th.lvl = 0 then { st := s, th := th.finish, ev := some ev, res := some (.find (th.k.ok - 1) th.must none) }
        else { st := s, th := { th with lvl := th.lvl - 1, oldc := c0 }, ev := some ev }
      else
        if th.lvl = 0 then
          { st := s, th := th.finish, ev := some ev, res := some (.find (th.k.ok - 1) th.must (if isEq c0 then c0 else none)) }
        else { st := s, th := { th with lvl := th.lvl - 1 }, ev := some ev }
    match cn with
    | some c' =>
      if (s.core.key c').ok < th.k.ok then { st := s, th := { th with prev := c' }, ev := some ev }
      else levelDone cn
    | none => levelDone cn
  | .tLdHead =>
    let ev : Ev := { kind := "load", var := "headptr", a := if s.headSet then nodeName 0 else "nil" }
    if s.headSet then { st := s, th := { th with pc := .twalk }, ev := some ev }
    else { st := s, th := th.finish, ev := some ev, res := some (.trav [0] th.snap) }
  | .twalk =>
    let cn := s.core.next 0 th.prev
    let ev : Ev := { kind := "load", var := nextVarL th.prev 0, a := ptrName cn }
    match cn with
    | none => { st := s, th := th.finish, ev := some ev, res := some (.trav th.seen.reverse th.snap) }
    | some c' => { st := s, th := { th with prev := c', seen := c' :: th.seen }, ev := some ev }

/-! ### user functors that throw

`internal_find_position` loads `prev->next(level)` and then calls the comparator on the node it read; `found()` and the
multi-container tie test call it once more.  So every comparator call follows a load of the same model step, and the
number of calls of a step is a function of what was loaded. -/

/-- comparator calls the code makes in the step `thStepCore` is about to perform (all of them after the step's load):
`desc` — `cmp(curr, key)` of `internal_find_position`, and on level 0 of a unique container `found(next, key)` when
the walk stops at a node; `refind` — `cmp(curr, node)` and, in multi containers when it held, `cmp(node, curr)`;
`fdesc` — `my_compare(curr, key)`, plus `found(curr, key)` (`internal_find_multi`, when `curr != old_curr`) or the
final `my_compare(key, *it)` of `internal_find_unique` on level 0. -/
def cmpCalls (cfg : Cfg) (s : St) (th : Th) : Nat :=
  match th.pc with
  | .desc =>
    match s.core.next th.lvl th.prev with
    | none => 0
    | some c' =>
      if advKey cfg.multi (s.core.key c') th.k then 1
      else if th.lvl = 0 ∧ cfg.multi = false then 2 else 1
  | .refind =>
    match s.core.next th.lvl th.prev with
    | none => 0
    | some c' => if cfg.multi = true ∧ (s.core.key c').ok ≤ th.k.ok then 2 else 1
  | .fdesc =>
    match s.core.next th.lvl th.prev with
    | none => 0
    | some c' =>
      if (s.core.key c').ok < th.k.ok then 1
      else if cfg.multi then (if some c' ≠ th.oldc then 2 else 1)
      else (if th.lvl = 0 then 2 else 1)
  | _ => 0

/-- the armed comparator fault falls among the calls of this step -/
def cmpThrows (cfg : Cfg) (s : St) (th : Th) : Bool :=
  decide (th.fk = 1) && decide (th.calls < th.fn) && decide (th.fn ≤ th.calls + cmpCalls cfg s th)

/-- `create_head_if_necessary`: `my_head_ptr` was null, the allocation of the head node throws (allocator call 2) -/
def headAllocThrows (s : St) (th : Th) : Bool :=
  decide (th.pc = .ldHead) && !s.headSet && decide (th.fk = 4) && decide (th.fn = 2)

def Th.disarm (th : Th) : Th := { th with fk := 0, fn := 0, calls := 0 }

/-- the next operation is an insertion (with a legal height) whose node creation throws: allocator call 1 or the constructor -/
def valueNodeThrows (cfg : Cfg) (th : Th) : Bool :=
  match th.ops with
  | .ins _ h :: _ => !(decide (h = 0) || decide (cfg.maxLevel < h)) && (decide (th.fk = 4) || decide (th.fk = 3)) && decide (th.fn = 1)
  | _ => false

/-- is the thread inside an insertion (it owns `th.new`)? -/
def Pc.inIns : Pc → Bool
  | .ldHead | .casHead | .ldMaxh | .desc | .setNext0 | .cas0 | .ldMaxh2 | .casMaxh | .setNextU | .casU | .refind => true
  | _ => false

def isDup : Option Res → Bool
  | some (.ins _ false _) => true
  | _ => false

/-- One step of a thread, user functors that throw included.  A throwing step performs the access of the exception-free
step (the load precedes the call) and then leaves the operation: result `threw`, and the node of an insertion is handed
back to the allocator iff the code has a handler that does so (`cfg.freeUnlinked` before the level-0 link — pcs `ldHead`,
`desc` —, `cfg.freeLinked` after it — pc `refind`).  Exception-free steps are `thStepCore`; additionally the node of an
insertion that found an equivalent key is deleted (`if (!insert_result.second) delete_value_node(new_node)`). -/
def thStep (cfg : Cfg) (s : St) (t : Tid) (th : Th) : Out :=
  match th.pc, th.ops with
  | .idle, .arm kind n :: _ => { st := s, th := { th.finish with fk := kind, fn := n, calls := 0 } }
  | _, _ =>
    let o := thStepCore cfg s t th
    if th.pc = .idle then
      -- `create_value_node`: `allocate` throws (nothing was allocated), or the element constructor throws (the `value_guard`
      -- hands the node back; nobody has seen it: modelled like the failed allocation)
      if valueNodeThrows cfg th then { st := s, th := th.finish.disarm, res := some (.threw none) }
      else if o.th.pc = .idle then { o with th := o.th.disarm } else o
    else if cmpThrows cfg s th || headAllocThrows s th then
      let linked := decide (th.pc = .refind)
      let free := th.pc.inIns && (if linked then cfg.freeLinked else cfg.freeUnlinked)
      { st := { s with freed := if free then th.new :: s.freed else s.freed }, th := th.finish.disarm, ev := o.ev,
        res := some (.threw (if linked then some th.new else none)) }
    else
      let th' := { o.th with calls := th.calls + cmpCalls cfg s th }
      { o with st := { o.st with freed := if isDup o.res then th.new :: o.st.freed else o.st.freed },
               th := if th'.pc = .idle then th'.disarm else th' }

def addLog (log : List (Tid × Res)) (t : Tid) : Option Res → List (Tid × Res)
  | none => log
  | some r => (t, r) :: log

def step (cfg : Cfg) (s : St) (t : Tid) : St :=
  match s.ths[t]? with
  | none => s
  | some th =>
    let o := thStep cfg s t th
    { o.st with ths := s.ths.set t o.th, log := addLog s.log t o.res }

def initSt (progs : List (List Op)) : St := { ths := progs.map (fun p => { ops := p }) }

def sys (cfg : Cfg) (progs : List (List Op)) : Sys St := { init := initSt progs, step := step cfg }

end SkipList

end TbbVerif.C12
