/-
C12 — concurrent unordered / ordered associative containers (executable models, core Lean only).

Three layers, all at atomic-access granularity (one `step` of a thread = one atomic access of the real code, plus
"silent" op-begin steps that only touch thread-local / ghost state):

* `CasList`   : insert-only sorted singly linked list with CAS (the shared heart of both container families):
                `search_after` / `insert_dummy_node` / skip-list level walk, `try_insert` = store `new.next`, CAS
                `prev.next : curr → new`; never unlinks.  include/oneapi/tbb/detail/_concurrent_unordered_base.h
* `SplitOrder`: split-ordered hash table on top (order keys by bit reversal, bucket table of dummy entry points,
                recursive parent initialisation, table doubling).        (same header)
* `SkipList`  : level-0 CasList is the content, levels ≥ 1 are CasLists over subsets, linked bottom-up.
                include/oneapi/tbb/detail/_concurrent_skip_list.h

Pointers are small node ids (`0` = list head); `next` pointers are maps `Node → Option Node`.  The field `chain`
(nodes reachable from the head, in order) and `wins` (successfully linked nodes) are GHOST: they are only written
by the successful CAS and are proved to coincide with what the pointers say (`Linked`).
-/
import TbbVerif.Core.Sched
import TbbVerif.Core.Proto

namespace TbbVerif.C12

/-- node ids are natural numbers (a notation, so that `omega` sees `Nat`) -/
notation "Node" => Nat

/-! ## ghost list helpers -/

/-- the elements strictly after the first occurrence of `p` -/
def aft (p : Node) : List Node → List Node
  | [] => []
  | x :: xs => if x = p then xs else aft p xs

/-- the prefix up to and including the first occurrence of `p` -/
def upto (p : Node) : List Node → List Node
  | [] => []
  | x :: xs => if x = p then [x] else x :: upto p xs

/-- insert `n` immediately after the first occurrence of `p` -/
def insAfter (p n : Node) : List Node → List Node
  | [] => []
  | x :: xs => if x = p then x :: n :: xs else x :: insAfter p n xs

def upd {α : Type} (f : Node → α) (a : Node) (v : α) : Node → α := fun x => if x = a then v else f x

/-! ## keys and the container's tie rule -/

/-- `ok` = the order key the list is sorted by (split-order key, or comparator rank for ordered containers);
`uk` = the user key, which distinguishes different keys whose order keys collide (hash collisions). -/
structure Key where
  ok : Nat
  uk : Nat
  deriving DecidableEq, Repr, Inhabited

/-- tie rule of an insertion: `uniq` (unique-key containers and dummy nodes), `before` (unordered multi
containers: stop at the first equal key, link in front of it), `after` (ordered multi containers: walk past all
equal keys, `not_greater_compare`). -/
inductive Rule where
  | uniq | before | after
  deriving DecidableEq, Repr

/-- the loop condition of `search_after` / `insert_dummy_node` / `internal_find_position`: keep walking past `c` -/
def adv (r : Rule) (c k : Key) : Bool :=
  match r with
  | .after => decide (c.ok ≤ k.ok)
  | _ => decide (c.ok < k.ok) || (decide (c.ok = k.ok) && decide (c.uk ≠ k.uk))

/-- evaluated when the walk stopped at `c`: an equivalent key is already present (unique containers only) -/
def hit (r : Rule) (c k : Key) : Bool := decide (r = .uniq) && decide (c.ok = k.ok)

/-! ## shared list state and the actions a step can perform on it -/

structure LSt where
  next  : Node → Option Node := fun _ => none
  key   : Node → Key := fun _ => ⟨0, 0⟩
  owner : Node → Tid := fun _ => 0        -- ghost: the thread that allocated the node
  fresh : Nat := 1                        -- nodes `< fresh` are allocated
  chain : List Node := [0]                -- ghost: the list from the head
  wins  : List Node := []                 -- ghost: successfully linked nodes, newest first

inductive Act where
  | nop
  | alloc (k : Key) (t : Tid)
  | setNext (n : Node) (v : Option Node)
  | link (p n : Node)

def LSt.apply (L : LSt) : Act → LSt
  | .nop => L
  | .alloc k t => { L with key := upd L.key L.fresh k, owner := upd L.owner L.fresh t,
                           next := upd L.next L.fresh none, fresh := L.fresh + 1 }
  | .setNext n v => { L with next := upd L.next n v }
  | .link p n => { L with next := upd L.next p (some n), chain := insAfter p n L.chain, wins := n :: L.wins }

/-- an access as it appears in the E-SHIM trace -/
structure Ev where
  kind : String
  var  : String
  a    : String := "0"
  b    : String := "0"
  ok   : Bool := true
  deriving Repr, DecidableEq

def nodeName (n : Node) : String := s!"n{n}"
def ptrName : Option Node → String
  | none => "nil"
  | some n => nodeName n
def nextVar (n : Node) : String := s!"n{n}.next"

/-! ## CasList: the standalone system -/
namespace CasList

inductive Op where
  | ins (k : Key) (start : Node)
  | find (k : Key) (start : Node)
  | trav
  deriving Repr, DecidableEq

inductive Pc where
  | idle | search | setNext | cas | fwalk | twalk
  deriving Repr, DecidableEq

/-- results of completed operations.  `must` / `snap` are ghost copies of what the list contained when the
operation began (`must`: a node with the key was present; `snap`: the whole chain). -/
inductive Res where
  | ins (k : Key) (ok : Bool) (n : Node)
  | find (k : Key) (must : Bool) (r : Option Node)
  | trav (seen : List Node) (snap : List Node)
  | misuse
  deriving Repr, DecidableEq

structure Th where
  ops  : List Op := []
  pc   : Pc := .idle
  k    : Key := ⟨0, 0⟩
  prev : Node := 0
  curr : Option Node := none
  new  : Node := 0
  seen : List Node := []          -- traversal: nodes visited so far, newest first (head included)
  snap : List Node := []          -- ghost: the chain when the traversal began
  must : Bool := false            -- ghost: a node with key `k` was in the chain when the find began
  deriving Repr

/-- what one step of a thread does: action on the shared list, new local state, the access performed (`none`
for the silent op-begin step) and the result if the step completes an operation -/
structure Out where
  act : Act := .nop
  th  : Th
  ev  : Option Ev := none
  res : Option Res := none

def Th.finish (th : Th) : Th := { th with pc := .idle, ops := th.ops.tail }

/-- a valid entry point for an operation on key `k` (what the bucket table / the upper skip-list levels provide) -/
def validStart (rule : Key → Rule) (L : LSt) (k : Key) (start : Node) : Bool :=
  decide (start ∈ L.chain) &&
    (decide ((L.key start).ok < k.ok) || (decide (rule k = .after) && decide ((L.key start).ok ≤ k.ok)))

def hasKey (L : LSt) (k : Key) : Bool := L.chain.any (fun x => decide (L.key x = k))

def thStep (rule : Key → Rule) (L : LSt) (t : Tid) (th : Th) : Out :=
  match th.pc with
  | .idle =>
    match th.ops with
    | [] => { th := th }
    | .ins k start :: _ =>
      if validStart rule L k start then
        { act := .alloc k t, th := { th with pc := .search, k := k, prev := start, curr := none, new := L.fresh } }
      else { th := th.finish, res := some .misuse }
    | .find k start :: _ =>
      if validStart rule L k start then
        { th := { th with pc := .fwalk, k := k, prev := start, must := hasKey L k } }
      else { th := th.finish, res := some .misuse }
    | .trav :: _ =>
      { th := { th with pc := .twalk, prev := 0, seen := [0], snap := L.chain } }
  | .search =>
    let c := L.next th.prev
    let ev : Ev := { kind := "load", var := nextVar th.prev, a := ptrName c }
    match c with
    | none => { th := { th with pc := .setNext, curr := none }, ev := some ev }
    | some c' =>
      if adv (rule th.k) (L.key c') th.k then { th := { th with prev := c' }, ev := some ev }
      else if hit (rule th.k) (L.key c') th.k then
        { th := th.finish, ev := some ev, res := some (.ins th.k false c') }
      else { th := { th with pc := .setNext, curr := some c' }, ev := some ev }
  | .setNext =>
    { act := .setNext th.new th.curr, th := { th with pc := .cas },
      ev := some { kind := "store", var := nextVar th.new, a := ptrName th.curr } }
  | .cas =>
    if L.next th.prev = th.curr then
      { act := .link th.prev th.new, th := th.finish, res := some (.ins th.k true th.new),
        ev := some { kind := "cas", var := nextVar th.prev, a := ptrName th.curr, b := nodeName th.new, ok := true } }
    else
      { th := { th with pc := .search },
        ev := some { kind := "cas", var := nextVar th.prev, a := ptrName th.curr, b := ptrName (L.next th.prev), ok := false } }
  | .fwalk =>
    let c := L.next th.prev
    let ev : Ev := { kind := "load", var := nextVar th.prev, a := ptrName c }
    match c with
    | none => { th := th.finish, ev := some ev, res := some (.find th.k th.must none) }
    | some c' =>
      if th.k.ok < (L.key c').ok then { th := th.finish, ev := some ev, res := some (.find th.k th.must none) }
      else if L.key c' = th.k then { th := th.finish, ev := some ev, res := some (.find th.k th.must (some c')) }
      else { th := { th with prev := c' }, ev := some ev }
  | .twalk =>
    let c := L.next th.prev
    let ev : Ev := { kind := "load", var := nextVar th.prev, a := ptrName c }
    match c with
    | none => { th := th.finish, ev := some ev, res := some (.trav th.seen.reverse th.snap) }
    | some c' => { th := { th with prev := c', seen := c' :: th.seen }, ev := some ev }

structure St where
  L : LSt := {}
  ths : List Th := []
  log : List (Tid × Res) := []       -- results of completed operations, newest first

def addLog (log : List (Tid × Res)) (t : Tid) : Option Res → List (Tid × Res)
  | none => log
  | some r => (t, r) :: log

def step (rule : Key → Rule) (s : St) (t : Tid) : St :=
  match s.ths[t]? with
  | none => s
  | some th =>
    let o := thStep rule s.L t th
    { L := s.L.apply o.act, ths := s.ths.set t o.th, log := addLog s.log t o.res }

def initSt (progs : List (List Op)) : St := { L := {}, ths := progs.map (fun p => { ops := p }) }

def sys (rule : Key → Rule) (progs : List (List Op)) : Sys St :=
  { init := initSt progs, step := step rule }

/-- the node of a successful insert report -/
def succNode : Tid × Res → Option Node
  | (_, .ins _ true n) => some n
  | _ => none

def isSucc (k : Key) : Tid × Res → Bool
  | (_, .ins k' true _) => decide (k' = k)
  | _ => false

def isIns (k : Key) : Tid × Res → Bool
  | (_, .ins k' _ _) => decide (k' = k)
  | _ => false

end CasList

/-! ## split-order arithmetic (`reverse_bits`, order keys, `get_parent`) -/

/-- `rev w x`: the low `w` bits of `x` in reverse order (`reverse_bits` on a `w`-bit word; the code uses `w = 64`) -/
def rev : Nat → Nat → Nat
  | 0, _ => 0
  | w + 1, x => (x % 2) * 2 ^ w + rev w (x / 2)

def wordBits : Nat := 64

/-- `split_order_key_regular(hash) = reverse_bits(hash) | 1` -/
def regularKey (h : Nat) : Nat := rev wordBits h / 2 * 2 + 1

/-- `split_order_key_dummy(bucket) = reverse_bits(bucket) & ~1` -/
def dummyKey (b : Nat) : Nat := rev wordBits b / 2 * 2

/-- `get_parent(bucket)`: clear the most significant set bit (rejects bucket 0 as the code asserts) -/
def getParent (b : Nat) : Option Nat := if b = 0 then none else some (b - 2 ^ Nat.log2 b)

def parentOf (b : Nat) : Nat := b - 2 ^ Nat.log2 b

end TbbVerif.C12
