/-
C09 — page life cycle of one `micro_queue` (one lane of the queue) at atomic-access granularity
(`/repo/include/oneapi/tbb/detail/_concurrent_queue_base.h`), executable model, core Lean only.

One lane, any number of threads.  A thread's program is a list of lane operations
  `push n i v f`   `micro_queue::push` / `abort_push` with a ticket whose lane round is `r = n·ipp + i`
                   (page number `n = r / items_per_page`, slot `i = r % items_per_page`; the arithmetic is `idx` / `pageOf` of
                   Model/C09.lean, tied by E-PURE); `f`: nothing fails / the element constructor throws (also: `abort_push`,
                   which prepares the page and constructs nothing) / the page allocation (if this push performs one) throws
  `pop n i`        `micro_queue::pop` with the ticket of round `(n, i)`.
Which rounds a thread gets is decided by the ticket dispenser (Model/C09.lean: tickets are unique, `lane_bijection`); here
the programs are arbitrary subject to `wf` (every round is pushed at most once and popped at most once).

State = the code's own words: `head_page`, `tail_page`, `head_counter`, `tail_counter` (as (page, slot) pairs, so that all
reasoning is linear), `page_mutex`, and the heap of pages (`next`, `mask`, per-slot object state).  A page is named by its
page number (the allocation performed by the push of round `(n, 0)` is page `n`); pages are never re-used by the model, so every
access through a stale pointer is visible (`uaf`).  One step per atomic access; the two plain accesses to `padded_page::next`
(`q->next = p` under the mutex in `prepare_page`, `p->next` under the mutex in the pop finalizer), the element construction and
the page deallocation are steps of their own.

Ghost fields (never read by the code paths): `U`, `L` (number of pages unlinked from the head / linked at the tail so far),
`ph` (progress inside a `page_mutex` section), `mv` (the current head round's slot was consumed), the error flags and logs.
-/
import TbbVerif.Model.C09

namespace TbbVerif.C09.Pg

inductive Ptr where
  | null | inv | pg (n : Nat)
  deriving Repr, DecidableEq

/-- `is_valid_page` -/
def Ptr.valid : Ptr → Bool
  | .pg _ => true
  | _ => false

inductive PSt where
  | unalloc | live | freed
  deriving Repr, DecidableEq

/-- life of the object in one slot; `failed` = its constructor threw (physically uninitialised, never touched again) -/
inductive SlotSt where
  | uninit | cons (v : Nat) | dead (v : Nat) | failed
  deriving Repr, DecidableEq

structure PageRec where
  st : PSt := .unalloc
  next : Ptr := .null
  mask : Nat → Bool := fun _ => false

inductive Phase where
  | idle | linkHalf | unlinkHalf
  deriving Repr, DecidableEq

inductive Fail where
  | none | ctor | alloc
  deriving Repr, DecidableEq

inductive LOp where
  | push (n i v : Nat) (f : Fail)
  | pop (n i : Nat)
  deriving Repr, DecidableEq

inductive Res where
  | ok | threw | badAlloc | badLast | val (v : Nat) | skipped | crashed
  deriving Repr, DecidableEq

structure Done where
  tid : Nat
  op : LOp
  res : Res
  deriving Repr, DecidableEq

structure Lane where
  ipp : Nat := 32
  pages : Nat → PageRec := fun _ => {}
  slot : Nat → Nat → SlotSt := fun _ _ => .uninit
  hp : Ptr := .null            -- head_page
  tp : Ptr := .null            -- tail_page
  hP : Nat := 0                -- head_counter = n_queue * (hP * ipp + hI)
  hI : Nat := 0
  tP : Nat := 0                -- tail_counter likewise; `odd` = made odd by invalidate_page
  tI : Nat := 0
  odd : Bool := false
  mutex : Option Nat := none   -- page_mutex holder
  -- ghost
  U : Nat := 0
  L : Nat := 0
  ph : Phase := .idle
  mv : Bool := false
  poisoned : Bool := false     -- a page allocation failed
  uaf : Bool := false          -- a page (slot, mask, next) was accessed after it was freed
  wild : Bool := false         -- a null / invalid / never allocated page pointer was dereferenced
  dfree : Bool := false        -- a page was freed twice (or without being allocated)
  dalloc : Bool := false       -- a page number was allocated twice (cannot happen with unique rounds)
  ccons : Bool := false        -- an object was constructed over a slot that is not raw memory
  ddead : Bool := false        -- an object was destroyed / moved from in a slot that holds no live object
  delivered : List (Nat × Nat × Nat) := []     -- (page, slot, value) moved out by pops
  done : List Done := []

def Lane.clean (l : Lane) : Prop :=
  l.uaf = false ∧ l.wild = false ∧ l.dfree = false ∧ l.dalloc = false ∧ l.ccons = false ∧ l.ddead = false

inductive Pc where
  | start
  -- prepare_page + push
  | pTurn | pLock | pLdTail | pLink | pSetTail | pUnlock | pLdTail2 | pCons | pMaskLd | pMaskSt | pAdv (ok : Bool)
  -- invalidate_page after a failed allocation
  | aLock | aStoreTc | aLdTail | aLink | aSetTail | aUnlock
  -- pop + finalizer
  | cHead | cTail | cPage | cMask | cMove | fLock | fNext | fSetHead | fSetTail | fUnlock | fPub | fFree
  deriving Repr, DecidableEq

structure LTh where
  ops : List LOp
  pc : Pc := .start
  p : Ptr := .null
  q : Ptr := .null
  m : Nat → Bool := fun _ => false
  r : Option Nat := none       -- value moved out by the current pop

def updF {α : Type} (f : Nat → α) (i : Nat) (x : α) : Nat → α := fun j => if j = i then x else f j
def updF2 {α : Type} (f : Nat → Nat → α) (i j : Nat) (x : α) : Nat → Nat → α :=
  fun a b => if a = i ∧ b = j then x else f a b

/-- successor of a round -/
def succP (ipp n i : Nat) : Nat := if i + 1 = ipp then n + 1 else n
def succI (ipp i : Nat) : Nat := if i + 1 = ipp then 0 else i + 1

inductive Acc where
  | ok (n : Nat) | uaf | wild
  deriving Repr, DecidableEq

/-- dereferencing a page pointer -/
def Lane.acc (l : Lane) : Ptr → Acc
  | .pg n => match (l.pages n).st with
    | .live => .ok n
    | .freed => .uaf
    | .unalloc => .wild
  | _ => .wild

def Lane.flag (l : Lane) : Acc → Lane
  | .ok _ => l
  | .uaf => { l with uaf := true }
  | .wild => { l with wild := true }

def maskNat (m : Nat → Bool) : Nat := (List.range 64).foldl (fun a k => if m k then a + 2 ^ k else a) 0

def Ptr.code : Ptr → Nat
  | .null => 0 | .inv => 1 | .pg n => n + 2

abbrev Out := Lane × LTh × Option Ev

def finish (l : Lane) (tid : Nat) (t : LTh) (op : LOp) (res : Res) : Lane × LTh :=
  ({ l with done := l.done ++ [{ tid := tid, op := op, res := res }] },
   { t with ops := t.ops.tail, pc := .start, p := .null, q := .null, r := none })

/-- a faulting access: the flag is raised and the operation ends -/
def crash (l : Lane) (a : Acc) (tid : Nat) (t : LTh) (op : LOp) : Out :=
  let (l', t') := finish (l.flag a) tid t op .crashed
  (l', t', ev "crash" "page" 0 0)

def setNext (l : Lane) (n : Nat) (x : Ptr) : Lane :=
  { l with pages := updF l.pages n { l.pages n with next := x } }
def setMask (l : Lane) (n : Nat) (m : Nat → Bool) : Lane :=
  { l with pages := updF l.pages n { l.pages n with mask := m } }
def setSlot (l : Lane) (n i : Nat) (x : SlotSt) : Lane := { l with slot := updF2 l.slot n i x }

def stepPush (l : Lane) (tid : Nat) (t : LTh) (n i v : Nat) (f : Fail) : Out :=
  let op := LOp.push n i v f
  match t.pc with
  | .start =>
    if i = 0 then
      if f = .alloc then ({ l with poisoned := true }, { t with pc := .aLock }, ev "allocfail" "page" 0 0)
      else match (l.pages n).st with
        | .unalloc =>
          ({ l with pages := updF l.pages n { st := .live, next := .null, mask := fun _ => false } },
           { t with pc := .pTurn, p := .pg n }, ev "alloc" "page" (n + 2) 0)
        | _ =>
          let (l', t') := finish { l with dalloc := true } tid t op .crashed
          (l', t', ev "crash" "page" 0 0)
    else (l, { t with pc := .pTurn, p := .null }, none)
  | .pTurn =>
    let e := ev "load" "lt" (l.tP * l.ipp + l.tI) (if l.odd then 1 else 0)
    if l.tP = n ∧ l.tI = i ∧ l.odd = false then (l, { t with pc := if t.p.valid then .pLock else .pLdTail2 }, e)
    else if l.odd then
      let (l', t') := finish l tid t op .badLast
      (l', t', e)
    else (l, t, e)
  | .pLock =>
    match l.mutex with
    | none => ({ l with mutex := some tid }, { t with pc := .pLdTail }, ev "xchg" "pm" 0 1)
    | some _ => (l, t, ev "xchg" "pm" 1 1)
  | .pLdTail => (l, { t with pc := .pLink, q := l.tp }, ev "load" "tp" l.tp.code 0)
  | .pLink =>
    match t.q with
    | .pg _ =>
      match l.acc t.q with
      | .ok qn => ({ setNext l qn t.p with ph := .linkHalf }, { t with pc := .pSetTail }, none)
      | a => crash l a tid t op
    | _ => ({ l with hp := t.p, ph := .linkHalf }, { t with pc := .pSetTail }, ev "store" "hp" t.p.code 0)
  | .pSetTail => ({ l with tp := t.p, L := l.L + 1, ph := .idle }, { t with pc := .pUnlock }, ev "store" "tp" t.p.code 0)
  | .pUnlock => ({ l with mutex := none }, { t with pc := .pCons }, ev "store" "pm" 0 0)
  | .pLdTail2 => (l, { t with pc := .pCons, p := l.tp }, ev "load" "tp" l.tp.code 0)
  | .pCons =>
    match l.acc t.p with
    | .ok pn =>
      match l.slot pn i with
      | .uninit =>
        if f = .ctor then (setSlot l pn i .failed, { t with pc := .pAdv false }, none)
        else (setSlot l pn i (.cons v), { t with pc := .pMaskLd }, ev "cons" "item" v (pn + 2))
      | _ =>
        let (l', t') := finish { l with ccons := true } tid t op .crashed
        (l', t', ev "crash" "page" 0 0)
    | a => crash l a tid t op
  | .pMaskLd =>
    match l.acc t.p with
    | .ok pn => (l, { t with pc := .pMaskSt, m := (l.pages pn).mask }, ev "load" "mask" (maskNat (l.pages pn).mask) (pn + 2))
    | a => crash l a tid t op
  | .pMaskSt =>
    match l.acc t.p with
    | .ok pn => (setMask l pn (updF t.m i true), { t with pc := .pAdv true }, ev "store" "mask" (maskNat (updF t.m i true)) (pn + 2))
    | a => crash l a tid t op
  | .pAdv okb =>
    let (l', t') := finish { l with tP := succP l.ipp l.tP l.tI, tI := succI l.ipp l.tI } tid t op (if okb then .ok else .threw)
    (l', t', ev "fadd" "lt" (l.tP * l.ipp + l.tI) (if l.odd then 1 else 0))
  -- invalidate_page(k): under the mutex `tail_counter = k + n_queue + 1`, an invalid page is appended
  | .aLock =>
    match l.mutex with
    | none => ({ l with mutex := some tid }, { t with pc := .aStoreTc }, ev "xchg" "pm" 0 1)
    | some _ => (l, t, ev "xchg" "pm" 1 1)
  | .aStoreTc =>
    ({ l with tP := succP l.ipp n i, tI := succI l.ipp i, odd := true }, { t with pc := .aLdTail },
     ev "store" "lt" (succP l.ipp n i * l.ipp + succI l.ipp i) 1)
  | .aLdTail => (l, { t with pc := .aLink, q := l.tp }, ev "load" "tp" l.tp.code 0)
  | .aLink =>
    match t.q with
    | .pg _ =>
      match l.acc t.q with
      | .ok qn => (setNext l qn .inv, { t with pc := .aSetTail }, none)
      | a => crash l a tid t op
    | _ => ({ l with hp := .inv }, { t with pc := .aSetTail }, ev "store" "hp" 1 0)
  | .aSetTail => ({ l with tp := .inv }, { t with pc := .aUnlock }, ev "store" "tp" 1 0)
  | .aUnlock =>
    let (l', t') := finish { l with mutex := none } tid t op .badAlloc
    (l', t', ev "store" "pm" 0 0)
  | _ => (l, t, none)

/-- where a pop continues after the slot was consumed or skipped -/
def finPc (l : Lane) (t : LTh) (i : Nat) : Pc := if i + 1 = l.ipp ∧ t.p.valid then .fLock else .fPub

def stepPop (l : Lane) (tid : Nat) (t : LTh) (n i : Nat) : Out :=
  let op := LOp.pop n i
  let head : Out :=
    (l, { t with pc := if l.hP = n ∧ l.hI = i then .cTail else .cHead }, ev "load" "lh" (l.hP * l.ipp + l.hI) 0)
  match t.pc with
  | .start => head
  | .cHead => head
  | .cTail =>
    (l, { t with pc := if l.tP = n ∧ l.tI = i ∧ l.odd = false then .cTail else .cPage },
     ev "load" "lt" (l.tP * l.ipp + l.tI) (if l.odd then 1 else 0))
  | .cPage => (l, { t with pc := .cMask, p := l.hp }, ev "load" "hp" l.hp.code 0)
  | .cMask =>
    match l.acc t.p with
    | .ok pn =>
      if (l.pages pn).mask i then (l, { t with pc := .cMove }, ev "load" "mask" (maskNat (l.pages pn).mask) (pn + 2))
      else ({ l with mv := true }, { t with pc := finPc l t i }, ev "load" "mask" (maskNat (l.pages pn).mask) (pn + 2))
    | a => crash l a tid t op
  | .cMove =>
    match l.acc t.p with
    | .ok pn =>
      match l.slot pn i with
      | .cons v =>
        ({ setSlot l pn i (.dead v) with mv := true, delivered := l.delivered ++ [(pn, i, v)] },
         { t with pc := finPc l t i, r := some v }, ev "move" "item" v 0)
      | _ =>
        let (l', t') := finish { l with ddead := true } tid t op .crashed
        (l', t', ev "crash" "page" 0 0)
    | a => crash l a tid t op
  | .fLock =>
    match l.mutex with
    | none => ({ l with mutex := some tid }, { t with pc := .fNext }, ev "xchg" "pm" 0 1)
    | some _ => (l, t, ev "xchg" "pm" 1 1)
  | .fNext =>
    match l.acc t.p with
    | .ok pn => (l, { t with pc := .fSetHead, q := (l.pages pn).next }, none)
    | a => crash l a tid t op
  | .fSetHead =>
    if t.q.valid then ({ l with hp := t.q, U := l.U + 1 }, { t with pc := .fUnlock }, ev "store" "hp" t.q.code 0)
    else ({ l with hp := t.q, U := l.U + 1, ph := .unlinkHalf }, { t with pc := .fSetTail }, ev "store" "hp" t.q.code 0)
  | .fSetTail => ({ l with tp := .null, ph := .idle }, { t with pc := .fUnlock }, ev "store" "tp" 0 0)
  | .fUnlock => ({ l with mutex := none }, { t with pc := .fPub }, ev "store" "pm" 0 0)
  | .fPub =>
    let l1 := { l with hP := succP l.ipp n i, hI := succI l.ipp i, mv := false }
    let e := ev "store" "lh" (succP l.ipp n i * l.ipp + succI l.ipp i) 0
    if i + 1 = l.ipp ∧ t.p.valid then (l1, { t with pc := .fFree }, e)
    else
      let (l', t') := finish l1 tid t op (match t.r with | some v => .val v | none => .skipped)
      (l', t', e)
  | .fFree =>
    match t.p with
    | .pg pn =>
      let res : Res := match t.r with | some v => .val v | none => .skipped
      match (l.pages pn).st with
      | .live =>
        let (l', t') := finish { l with pages := updF l.pages pn { l.pages pn with st := .freed } } tid t op res
        (l', t', ev "free" "page" (pn + 2) 0)
      | _ =>
        let (l', t') := finish { l with dfree := true } tid t op .crashed
        (l', t', ev "crash" "page" 0 0)
    | _ => crash l .wild tid t op
  | _ => (l, t, none)

def stepTh (l : Lane) (tid : Nat) (t : LTh) : Out :=
  match t.ops with
  | [] => (l, t, none)
  | .push n i v f :: _ => stepPush l tid t n i v f
  | .pop n i :: _ => stepPop l tid t n i

structure St where
  l : Lane := {}
  ths : List LTh := []

def stepEv (s : St) (tid : Nat) : St × Option Ev :=
  match s.ths[tid]? with
  | none => (s, none)
  | some t =>
    let (l', t', e) := stepTh s.l tid t
    ({ l := l', ths := s.ths.set tid t' }, e)

def step (s : St) (tid : Nat) : St := (stepEv s tid).1

def initFrom (l : Lane) (progs : List (List LOp)) : St := { l := l, ths := progs.map (fun p => { ops := p }) }
def initSt (ipp : Nat) (progs : List (List LOp)) : St := initFrom { ipp := ipp } progs

def runFrom (s : St) (sched : List Nat) : St := sched.foldl step s
def run (ipp : Nat) (progs : List (List LOp)) (sched : List Nat) : St := runFrom (initSt ipp progs) sched

/-- no operation in flight -/
def quiescent (s : St) : Prop := ∀ t, t ∈ s.ths → t.pc = .start

/-! ### the rounds a program uses -/

def pushRound : LOp → Option (Nat × Nat)
  | .push n i _ _ => some (n, i)
  | _ => none
def popRound : LOp → Option (Nat × Nat)
  | .pop n i => some (n, i)
  | _ => none

def opsDisj (a b : List LOp) : Prop :=
  (∀ x ∈ a, ∀ y ∈ b, pushRound x = none ∨ pushRound x ≠ pushRound y) ∧
  (∀ x ∈ a, ∀ y ∈ b, popRound x = none ∨ popRound x ≠ popRound y)

instance (a b : List LOp) : Decidable (opsDisj a b) := by unfold opsDisj; exact inferInstance

/-- every round is pushed at most once and popped at most once, by whichever thread -/
def wf (progs : List (List LOp)) : Prop :=
  progs.Pairwise opsDisj ∧ ∀ p ∈ progs, (p.filterMap pushRound).Nodup ∧ (p.filterMap popRound).Nodup

instance (progs : List (List LOp)) : Decidable (wf progs) := by unfold wf; exact inferInstance

/-- an operation uses a round that the lane `l` has not handed out yet, with its slot index inside a page -/
def freshOp (l : Lane) : LOp → Prop
  | .push n i _ _ => i < l.ipp ∧ (l.tP < n ∨ (l.tP = n ∧ l.tI ≤ i)) ∧ (i = 0 → (l.pages n).st = .unalloc) ∧
      l.slot n i = .uninit ∧ (l.pages n).mask i = false
  | .pop n i => i < l.ipp ∧ (l.hP < n ∨ (l.hP = n ∧ l.hI ≤ i))

instance (l : Lane) (o : LOp) : Decidable (freshOp l o) := by
  cases o <;> simp only [freshOp] <;> exact inferInstance

def fresh (l : Lane) (progs : List (List LOp)) : Prop := ∀ p ∈ progs, ∀ o ∈ p, freshOp l o

instance (l : Lane) (progs : List (List LOp)) : Decidable (fresh l progs) := by unfold fresh; exact inferInstance

/-! ### non-concurrent operations on one lane: `clear` and `assign` / `make_copy` -/

/-- destroy the objects of page `n` at the slots `i ≤ k < ipp` whose mask bit is set -/
def destroyFrom (l : Lane) (n : Nat) : Nat → Nat → Lane
  | _, 0 => l
  | i, fuel + 1 =>
    if i < l.ipp then
      let l1 := if (l.pages n).mask i then
          match l.slot n i with
          | .cons v => setSlot l n i (.dead v)
          | _ => { l with ddead := true }
        else l
      destroyFrom l1 n (i + 1) fuel
    else l

/-- the loop of `micro_queue::clear`: walk from `cur`, destroy the live objects, free every page -/
def clearWalk (l : Lane) : Ptr → Nat → Nat → Lane
  | _, _, 0 => l
  | cur, idx, fuel + 1 =>
    match cur with
    | .pg _ =>
      match l.acc cur with
      | .ok n =>
        let l1 := destroyFrom l n idx l.ipp
        let nxt := (l1.pages n).next
        let l2 := { l1 with pages := updF l1.pages n { l1.pages n with st := .freed } }
        clearWalk l2 nxt 0 fuel
      | a => l.flag a
    | _ => l

/-- `micro_queue::clear` up to (not including) the reset of the counters -/
def clearPages (l : Lane) : Lane := clearWalk l l.hp l.hI (l.L - l.U + 1)

/-- the reset: counters zero, `head_page = tail_page = nullptr` (the model's page names start again) -/
def clearReset (l : Lane) : Lane :=
  { ipp := l.ipp, uaf := l.uaf, wild := l.wild, dfree := l.dfree, dalloc := l.dalloc, ccons := l.ccons, ddead := l.ddead,
    poisoned := l.poisoned }

/-- `make_copy`: a new page with the source page's mask; the slots `b ≤ k < e` whose bit is set are copy/move-constructed -/
def copySlots (src dst : Lane) (n : Nat) : Nat → Nat → Nat → Lane
  | _, _, 0 => dst
  | b, e, fuel + 1 =>
    if b < e then
      let dst1 := if (src.pages n).mask b then
          match src.slot n b with
          | .cons v => setSlot dst n b (.cons v)
          | _ => { dst with ddead := true }       -- copy_item would read a slot that holds no object
        else dst
      copySlots src dst1 n (b + 1) e fuel
    else dst

/-- the page walk of `micro_queue::assign`: pages `n … last`, `b` = first slot to copy in page `n` -/
def copyWalk (src dst : Lane) (last : Nat) : Nat → Nat → Nat → Lane
  | _, _, 0 => dst
  | n, b, fuel + 1 =>
    if n ≤ last then
      match src.acc (.pg n) with
      | .ok _ =>
        let e := if n = src.tP then src.tI else src.ipp
        let d1 := { dst with pages := updF dst.pages n { st := .live, next := if n < last then .pg (n + 1) else .null,
                                                          mask := (src.pages n).mask } }
        copyWalk src (copySlots src d1 n b e src.ipp) last (n + 1) 0 fuel
      | a => dst.flag a
    else dst

/-- `micro_queue::assign(src)` into a zero-initialised lane (quiescent source, nothing fails) -/
def copyLane (src : Lane) : Lane :=
  match src.hp with
  | .pg _ =>
    let d0 : Lane := { ipp := src.ipp, hP := src.hP, hI := src.hI, tP := src.tP, tI := src.tI, U := src.U, L := src.L,
                       hp := .pg src.U, tp := .pg (src.L - 1) }
    copyWalk src d0 (src.L - 1) src.U src.hI (src.L - src.U + 1)
  | _ => { ipp := src.ipp, hP := src.hP, hI := src.hI, tP := src.tP, tI := src.tI, U := src.L, L := src.L }

/-! ### driver (used by checks/c09pg.py): all lanes of one queue, replay of the page-level access log -/

open Proto

def parseFail : String → Option Fail
  | "n" => some .none | "c" => some .ctor | "a" => some .alloc | _ => none

def parseLOp (w : String) : Option LOp :=
  match w.splitOn ":" with
  | ["push", n, i, v, f] => do some (.push (← nat? n) (← nat? i) (← nat? v) (← parseFail f))
  | ["pop", n, i] => do some (.pop (← nat? n) (← nat? i))
  | _ => none

def showRes : Res → String
  | .ok => "ok" | .threw => "threw" | .badAlloc => "badalloc" | .badLast => "badlast" | .val v => s!"val:{v}"
  | .skipped => "skipped" | .crashed => "crashed"

def showPtr : Ptr → String
  | .null => "null" | .inv => "inv" | .pg n => s!"p{n}"

def livePages (l : Lane) (bound : Nat) : List Nat := (List.range bound).filter (fun n => (l.pages n).st == .live)
def freedPages (l : Lane) (bound : Nat) : List Nat := (List.range bound).filter (fun n => (l.pages n).st == .freed)

def chainFrom (l : Lane) : Ptr → Nat → List Nat
  | _, 0 => []
  | .pg n, fuel + 1 => n :: chainFrom l (l.pages n).next fuel
  | _, _ => []

def consSlots (l : Lane) (bound : Nat) : Nat :=
  (List.range bound).foldl (fun a n => a + ((List.range l.ipp).filter (fun i => match l.slot n i with | .cons _ => true | _ => false)).length) 0

def showLane (l : Lane) (bound : Nat) : String :=
  s!"hc {l.hP} {l.hI} tc {l.tP} {l.tI} odd {showBool l.odd} hp {showPtr l.hp} tp {showPtr l.tp} U {l.U} L {l.L} " ++
  s!"live [{showNats (livePages l bound)}] chain [{showNats (chainFrom l l.hp (bound + 1))}] freed {(freedPages l bound).length} cons {consSlots l bound} " ++
  s!"flags uaf {showBool l.uaf} wild {showBool l.wild} dfree {showBool l.dfree} dalloc {showBool l.dalloc} ccons {showBool l.ccons} ddead {showBool l.ddead} " ++
  s!"poisoned {showBool l.poisoned} mutex {match l.mutex with | some t => toString t | none => "-"}"

def showEvP : Option Ev → String
  | none => "-"
  | some e => s!"{e.kind} {e.var} {e.a} {e.b}"

def isVisible : Option Ev → Bool
  | none => false
  | some _ => true

/-- run thread `tid` through its silent steps up to and including its next visible access -/
def nextVisible (s : St) (tid : Nat) : Nat → St × Option Ev
  | 0 => (s, none)
  | fuel + 1 =>
    let (s', e) := stepEv s tid
    if isVisible e then (s', e) else
      match s.ths[tid]? with
      | some t => if t.ops.isEmpty then (s', none) else nextVisible s' tid fuel
      | none => (s', none)

structure DSt where
  lanes : List St := []
  bound : Nat := 0

/-- Lines: `reset <ipp> <lanes>` · `prog <lane> <tid> <op>…` (threads must be added in tid order per lane) · `e <lane> <tid>` (next
visible access of that thread; prints it) · `lane <lane>` (state summary) · `done <lane>` · `copy <lane>` / `clear <lane>` (apply the
sequential operation to the lane, print the summary of the result) -/
def drive (d : DSt) (ws : List String) : DSt × String :=
  let withLane (ln : String) (f : Nat → St → DSt × String) : DSt × String :=
    match nat? ln with
    | some k => match d.lanes[k]? with
      | some s => f k s
      | none => (d, "bad-op")
    | none => (d, "bad-op")
  match ws with
  | ["reset", ipp, n] =>
    match nat? ipp, nat? n with
    | some i, some k => ({ lanes := List.replicate k (initSt i []), bound := 0 }, "ok")
    | _, _ => (d, "bad-op")
  | "prog" :: ln :: _tid :: ops =>
    withLane ln fun k s =>
      match ops.mapM parseLOp with
      | some p =>
        let b := p.foldl (fun a o => match o with | .push n _ _ _ => max a (n + 2) | .pop n _ => max a (n + 2)) d.bound
        ({ lanes := d.lanes.set k { s with ths := s.ths ++ [{ ops := p }] }, bound := b }, "ok")
      | none => (d, "bad-op")
  | ["e", ln, tid] =>
    withLane ln fun k s =>
      match nat? tid with
      | some t =>
        let (s', e) := nextVisible s t 8
        let th := match s'.ths[t]? with | some th => toString th.ops.length | none => "-"
        ({ d with lanes := d.lanes.set k s' }, s!"{showEvP e} | {th}")
      | none => (d, "bad-op")
  | ["lane", ln] => withLane ln fun _ s => (d, showLane s.l d.bound)
  | ["done", ln] => withLane ln fun _ s => (d, " ".intercalate (s.l.done.map (fun x => s!"{x.tid}:{showRes x.res}")))
  | ["copy", ln] => withLane ln fun _ s => (d, showLane (copyLane s.l) d.bound)
  | ["clear", ln] => withLane ln fun _ s => (d, showLane (clearPages s.l) d.bound)
  | _ => (d, "bad-op")

def driver : Proto.Driver := { σ := DSt, init := {}, step := drive }

end TbbVerif.C09.Pg
