/-
C08 — the inductive invariant of the queuing_rw_mutex node-protocol model `QRwN` (Model/C08N.lean), written as decidable
quantifier-free clauses over one or two nodes, so that the same text is (a) the invariant proved inductive in
Proofs/C08N/* for any number of threads (`Inv st := ∀ i j, clause st i j`), and (b) an executable check
(`violated st n`) that the driver evaluates on the states of replayed runs of the real code and the explorer on all
reachable states of small configurations.  Core Lean only (linked into drv_c08).

Scope: the clauses describe programs WITHOUT upgrade_to_writer (`noUpgProg`); with upgrades the tagged q_tail / my_next and
the UPGRADE_* states appear, which these clauses exclude.
-/
import TbbVerif.Model.C08NCls

namespace TbbVerif.C08.QRwN

def isPtr (p : Nat) : Prop := p ≠ 0 ∧ p = P (nodeOf p)

instance (p : Nat) : Decidable (isPtr p) := by unfold isPtr; infer_instance

/-! ### clauses over one node  (program counters only through the classes of Model/C08NCls.lean) -/

/-- no upgrade in the remaining program; the upgrade-only paths are not entered; state bytes are plain -/
def c1NoUpg (st : St) (i : Tid) : Prop :=
  (∀ op ∈ (st.loc i).ops, op ≠ Op.upgrade) ∧ (st.loc i).pc.isUpgOnly = false ∧ st.upg i = false ∧
  (st.state i = 0 ∨ st.state i = 1 ∨ st.state i = 2 ∨ st.state i = 4 ∨ st.state i = 8) ∧ (st.ilock i = 0 ∨ st.ilock i = 1)

/-- queue membership, entitlement and hold, by program counter -/
def c1Phase (st : St) (i : Tid) : Prop :=
  let l := st.loc i
  (l.pc.notInq = true → st.inq i = false) ∧ (l.pc.surelyInq = true → st.inq i = true) ∧
  (st.gr i = true → st.inq i = true) ∧
  (st.held i ≠ 0 → st.gr i = true ∧ l.pc.startOrD = true) ∧
  (l.pc.isStart = true → st.held i = 0 → st.inq i = false) ∧
  (st.held i = 0 ∨ st.held i = 1 ∨ st.held i = 2) ∧
  (st.held i = 2 → st.isW i = true) ∧ (st.held i = 1 → st.isW i = false) ∧
  (l.pc.isD = true → st.held i = 1) ∧
  (l.pc.noHold = true → st.held i = 0)

/-- fields set by the initialisation prefix of acquire / try_acquire; nothing owns the internal lock of a node outside the queue
unless its former owner is still on its way out -/
def c1Init (st : St) (i : Tid) : Prop :=
  let l := st.loc i
  (l.pc.isInit = true → st.isW i = l.w ∧ st.iown i = 0 ∧ st.gr i = false) ∧
  (l.pc.initPrev0 = true → st.prev i = 0) ∧
  (l.pc.initNext0 = true → st.next i = 0) ∧
  (l.pc.initGoing0 = true → st.going i = 0) ∧
  (l.pc.initStA = true → st.state i = if l.w then 1 else 2) ∧
  (l.pc.initStT = true → st.state i = if l.w then 1 else 8) ∧
  (l.pc.isStart = true → st.held i = 0 → st.iown i = 0) ∧
  (l.pc.relEnd = true → st.iown i = 0)

/-- mode and state byte by program counter -/
def c1Mode (st : St) (i : Tid) : Prop :=
  let l := st.loc i
  (l.pc.isAw = true → st.isW i = true ∧ l.w = true ∧ st.state i = 1) ∧
  (l.pc.isAr = true → st.isW i = false ∧ l.w = false) ∧
  (l.pc.isRwIn = true → st.isW i = true ∧ st.state i = 1 ∧ st.gr i = true) ∧
  (l.pc.isRr = true → st.isW i = false ∧ st.state i = 8) ∧
  (l.pc.rrInq = true → st.inq i = true → st.gr i = true) ∧
  (l.pc.isStart = true → st.held i = 2 → st.state i = 1) ∧ (l.pc.isStart = true → st.held i = 1 → st.state i = 8) ∧
  (l.pc.isD = true → st.isW i = false ∧ st.gr i = true ∧ (st.state i = 1 ∨ st.state i = 2 ∨ st.state i = 4)) ∧
  (l.pc.dEarly = true → st.state i = 1) ∧ (l.pc.dCasPc = true → (st.state i = 2 ∨ st.state i = 4)) ∧
  (l.pc.isRwGo1 = true → st.isW i = true)

/-- reader acquire: entitlement by program counter, state byte -/
def c1Ar (st : St) (i : Tid) : Prop :=
  let l := st.loc i
  (l.pc.arEarly = true → st.gr i = false) ∧
  (l.pc.isArCasU = true → l.pst = 2) ∧
  (l.pc.isArReload = true → l.pst = 8) ∧
  (l.pc.arMid = true → (l.pst = 8 ↔ st.gr i = true)) ∧
  (l.pc.isArSpin = true → l.pst ≠ 8) ∧
  (l.pc.arSt24 = true → (st.state i = 2 ∨ st.state i = 4)) ∧
  (l.pc.arGranted = true → st.gr i = true) ∧
  (l.pc.arSt4 = true → st.state i = 4) ∧ (l.pc.arSt8 = true → st.state i = 8) ∧
  (l.pc.arNextNZ = true → st.next i ≠ 0)

/-- state bytes and entitlement -/
def c1State (st : St) (i : Tid) : Prop :=
  (st.inq i = true → st.state i = 8 → st.gr i = true ∧ st.isW i = false) ∧
  (st.state i = 4 → st.inq i = true ∧ st.isW i = false) ∧
  (st.inq i = true → (st.state i = 2 ∨ st.state i = 4) → st.isW i = false) ∧
  (st.inq i = true → st.going i = 1 → st.gr i = true)

/-- ticket, ghost predecessor pointer -/
def c1Ghost (st : St) (i : Tid) : Prop :=
  (st.inq i = true → st.pos i < st.cnt) ∧ (st.inq i = true → st.gpred i ≠ 0 → isPtr (st.gpred i)) ∧ (st.inq i = true → st.gpred i ≠ P i)

/-- q_tail -/
def c1Tail (st : St) (i : Tid) : Prop :=
  (st.inq i = true → st.tail ≠ 0) ∧ (st.tail ≠ 0 → isPtr st.tail ∧ st.inq (nodeOf st.tail) = true) ∧
  (st.inq i = true → st.gpred i ≠ st.tail ∨ st.tail = 0) ∧ (st.tail = P i → st.next i = 0)

/-- the locals that name the predecessor -/
def c1Pred (st : St) (i : Tid) : Prop :=
  let l := st.loc i
  (l.pc.preLink = true → l.pred = st.gpred i ∧ l.pred ≠ 0) ∧
  True ∧
  (l.pc.holdPred = true → st.inq i = true → l.pred = st.gpred i ∧ l.pred ≠ 0) ∧
  (l.pc.holdPredAny = true → isPtr l.pred ∧ l.pred ≠ P i) ∧
  (l.pc.rrTryPcs = true → isPtr l.pred ∧ l.pred ≠ P i) ∧
  (l.pc.isRhIn = true → st.gpred i = 0) ∧
  (l.pc.rwdHead = true → st.gpred i = 0) ∧ (st.held i = 2 → st.gpred i = 0) ∧
  (l.pc.isRrLdN3 = true → st.inq i = false → st.next i = 0) ∧
  (l.pc.isRrLdN3 = true → st.inq i = true → st.next i ≠ 0)

/-- own my_prev against the ghost predecessor; the tag bit -/
def c1Prev (st : St) (i : Tid) : Prop :=
  let l := st.loc i
  (st.inq i = true → l.pc.prePrev = false → (unflag (st.prev i) = st.gpred i ∨ (st.prev i = 0 ∧ st.isW i = true))) ∧
  (st.inq i = true → flagOf (st.prev i) = 1 → l.pc.flagPc = true) ∧
  (l.pc.isRhIn = true → st.prev i = 1) ∧
  (l.pc.isRrSetP = true → st.prev i = l.pred + 1) ∧
  (l.pc.isRrFadd = true → l.tmp = 0) ∧ (l.pc.tmp0 = true → l.tmp = 0) ∧
  (l.pc.rrTryCas = true → flagOf (st.prev i) = 1 → st.prev i = l.pred + 1)

/-- the internal lock byte and its ghost owner; what the owner of its own lock is doing -/
def c1Own (st : St) (i : Tid) : Prop :=
  let l := st.loc i
  (st.ilock i = 1 ↔ st.iown i ≠ 0) ∧ (st.iown i ≠ 0 → isPtr (st.iown i)) ∧
  (st.iown i = P i → (l.pc.selfOwnPre = true ∨ l.pc.postXchg = true)) ∧
  (l.pc.selfOwnNot3 = true → st.iown i = P i) ∧ (l.pc.isRrLdN3 = true → st.inq i = true → st.iown i = P i) ∧
  (l.pc.postXchgNot3 = true → (flagOf l.tmp = 0 → st.iown i = P i) ∧ (flagOf l.tmp = 1 → st.iown i ≠ P i)) ∧
  (l.pc.isRrLdN3 = true → st.inq i = false → (flagOf l.tmp = 0 → st.iown i = P i) ∧ (flagOf l.tmp = 1 → st.iown i ≠ P i)) ∧
  (st.isW i = true → st.iown i = 0)

/-- the local `nxt` -/
def c1Nxt (st : St) (i : Tid) : Prop :=
  let l := st.loc i
  (l.pc.nxtLive = true → l.nxt = st.next i ∧ l.nxt ≠ 0) ∧
  (l.pc.ldN2 = true → st.next i ≠ 0) ∧
  (l.pc.nxtPtr = true → isPtr l.nxt) ∧
  (st.inq i = true → st.next i ≠ 0 → isPtr (st.next i)) ∧
  (l.pc.casT = true → st.tail = P i → st.next i = 0)

/-! ### clauses over two nodes -/

/-- entitlement is contiguous from the head and only readers share -/
def c2A (st : St) (i j : Tid) : Prop :=
  st.inq j = true → st.gr j = true → st.gpred j = P i → st.gr i = true ∧ st.isW i = false ∧ st.isW j = false

/-- ghost predecessor: in the queue, earlier ticket; one successor per node; one head; distinct tickets -/
def c2G (st : St) (i j : Tid) : Prop :=
  (st.inq j = true → st.gpred j = P i → st.inq i = true ∧ st.pos i < st.pos j) ∧
  (i ≠ j → st.inq i = true → st.inq j = true → st.gpred i = st.gpred j → False) ∧
  (i ≠ j → st.inq i = true → st.inq j = true → st.pos i ≠ st.pos j)

/-- `my_next` names the ghost successor; a successor that has not linked yet finds `my_next` null -/
def c2Next (st : St) (i j : Tid) : Prop :=
  (st.inq i = true → st.next i = P j → st.inq j = true ∧ st.gpred j = P i ∧ (st.loc j).pc.preLink = false) ∧
  (st.inq j = true → st.gpred j = P i → (st.loc j).pc.preLink = true → st.next i = 0) ∧
  ((st.loc j).pc.pncNot3 = true → (st.loc j).pred = P i → st.next i = 0) ∧
  ((st.loc j).pc.isRrLdN3 = true → st.inq j = true → (st.loc j).pred = P i → st.next i = 0)

/-- who may hold the internal lock of node `i`: `j` (≠ i) after locking it as `i`'s successor, or after `i` handed it over -/
def c2Own (st : St) (i j : Tid) : Prop :=
  (i ≠ j → st.iown i = P j → (st.loc j).pred = P i ∧
      ((st.loc j).pc.holdPredAny = true ∨
       ((st.loc j).pc.rrTryPcs = true ∧ (st.loc i).pc.postXchg = true ∧ flagOf (st.loc i).tmp = 1 ∧ flagOf (st.prev j) = 0 ∧ st.inq i = false))) ∧
  (i ≠ j → (st.loc j).pc.holdPredAny = true → (st.loc j).pred = P i → st.iown i = P j) ∧
  (i ≠ j → (st.loc j).pc.rrTryCas = true → (st.loc j).pred = P i →
      ((st.prev j = (st.loc j).pred + 1 ∧ (st.loc j).pred = st.gpred j) ∨ (flagOf (st.prev j) = 0 ∧ st.iown i = P j))) ∧
  (i ≠ j → (st.loc j).pc.isRrRelP = true → (st.loc j).pred = P i → st.iown i = P j)

/-- a node that must unblock its successor (state READER_UNBLOCKNEXT, or past it) has one, and it is a blocked reader -/
def c2Unb (st : St) (i j : Tid) : Prop :=
  (((st.state i = 4 ∧ (st.loc i).pc.isDSetA = false) ∨ (st.loc i).pc.waitUnb = true) → st.tail ≠ P i) ∧
  (((st.state i = 4 ∧ (st.loc i).pc.isDSetA = false) ∨ (st.loc i).pc.waitUnb = true) → st.inq j = true → st.gpred j = P i →
      st.isW j = false ∧ st.gr j = false ∧ (st.loc j).pc.blockedR = true ∧ (st.loc j).pst = 2) ∧
  -- a downgrading writer / a holding or releasing writer: the successor is not entitled
  (((st.loc i).pc.isDpre = true ∨ st.held i = 2 ∨ (st.loc i).pc.isRwIn = true) → st.inq j = true → st.gpred j = P i → st.gr j = false) ∧
  ((st.loc i).pc.isDGo = true → st.inq j = true → st.gpred j = P i → st.isW j = false)

/-- the node a releasing head is about to send `my_going := 1` to -/
def c2Go (st : St) (i j : Tid) : Prop :=
  ((st.loc i).pc.goHead = true → (st.loc i).nxt = P j → st.inq j = true → st.gpred j = 0) ∧
  ((st.loc i).pc.isRwGo1 = true → (st.loc i).nxt = P j → st.inq j = true ∧ st.gr j = false ∧ (st.loc j).pc.preLink = false) ∧
  ((st.loc i).pc.rrOut2 = true → (st.loc i).nxt = P j → st.inq j = true ∧ st.gpred j = (st.loc i).pred ∧ (st.loc j).pc.preLink = false) ∧
  ((st.loc i).pc.afterGo2 = true → (st.loc i).nxt = P j →
      st.going j = 2 ∧ (st.loc j).pc.afterDone = false ∧ ((st.loc j).pc.isStart = true → st.inq j = true)) ∧
  -- while `i` (out of the queue) still holds the internal lock of its former predecessor `j`, `j` is not in the middle of a hand-off
  ((st.loc i).pc.rrOut2 = true → (st.loc i).pred = P j →
      (st.state j = 4 → (st.loc j).pc.isDSetA = true) ∧ (st.loc j).pc.waitUnb = false ∧ (st.loc j).pc.nxtLive = false ∧ (st.loc j).pc.ldN2 = false) ∧
  -- at most one releasing head is about to send `my_going := 1` to a node
  (i ≠ j → (st.loc i).pc.afterGo2 = true → (st.loc j).pc.afterGo2 = true → (st.loc i).nxt ≠ (st.loc j).nxt)

/-! ### the invariant and its executable check -/

structure Inv (st : St) : Prop where
  noUpg : ∀ i, c1NoUpg st i
  phase : ∀ i, c1Phase st i
  init  : ∀ i, c1Init st i
  mode  : ∀ i, c1Mode st i
  ar    : ∀ i, c1Ar st i
  state : ∀ i, c1State st i
  ghost : ∀ i, c1Ghost st i
  tail  : ∀ i, c1Tail st i
  pred  : ∀ i, c1Pred st i
  prev  : ∀ i, c1Prev st i
  own   : ∀ i, c1Own st i
  nxt   : ∀ i, c1Nxt st i
  a     : ∀ i j, c2A st i j
  g     : ∀ i j, c2G st i j
  next  : ∀ i j, c2Next st i j
  own2  : ∀ i j, c2Own st i j
  unb   : ∀ i j, c2Unb st i j
  go    : ∀ i j, c2Go st i j
  bad   : st.bad = false

set_option synthInstance.maxSize 4096
set_option synthInstance.maxHeartbeats 200000

instance (st : St) (i : Tid) : Decidable (c1NoUpg st i) := by unfold c1NoUpg; infer_instance
instance (st : St) (i : Tid) : Decidable (c1Phase st i) := by unfold c1Phase; infer_instance
instance (st : St) (i : Tid) : Decidable (c1Init st i) := by unfold c1Init; infer_instance
instance (st : St) (i : Tid) : Decidable (c1Mode st i) := by unfold c1Mode; infer_instance
instance (st : St) (i : Tid) : Decidable (c1Ar st i) := by unfold c1Ar; infer_instance
instance (st : St) (i : Tid) : Decidable (c1State st i) := by unfold c1State; infer_instance
instance (st : St) (i : Tid) : Decidable (c1Ghost st i) := by unfold c1Ghost; infer_instance
instance (st : St) (i : Tid) : Decidable (c1Tail st i) := by unfold c1Tail; infer_instance
instance (st : St) (i : Tid) : Decidable (c1Pred st i) := by unfold c1Pred; infer_instance
instance (st : St) (i : Tid) : Decidable (c1Prev st i) := by unfold c1Prev; infer_instance
instance (st : St) (i : Tid) : Decidable (c1Own st i) := by unfold c1Own; infer_instance
instance (st : St) (i : Tid) : Decidable (c1Nxt st i) := by unfold c1Nxt; infer_instance
instance (st : St) (i j : Tid) : Decidable (c2A st i j) := by unfold c2A; infer_instance
instance (st : St) (i j : Tid) : Decidable (c2G st i j) := by unfold c2G; infer_instance
instance (st : St) (i j : Tid) : Decidable (c2Next st i j) := by unfold c2Next; infer_instance
instance (st : St) (i j : Tid) : Decidable (c2Own st i j) := by unfold c2Own; infer_instance
instance (st : St) (i j : Tid) : Decidable (c2Unb st i j) := by unfold c2Unb; infer_instance
instance (st : St) (i j : Tid) : Decidable (c2Go st i j) := by unfold c2Go; infer_instance

/-- names of the clauses violated among the first `n` threads (the check used by the driver and the explorer) -/
def violated (st : St) (n : Nat) : List String :=
  let ids := List.range n
  let one (nm : String) (p : Tid → Bool) : List String := if ids.all p then [] else [nm]
  let two (nm : String) (p : Tid → Tid → Bool) : List String := if ids.all (fun i => ids.all (p i)) then [] else [nm]
  one "noUpg" (fun i => decide (c1NoUpg st i)) ++ one "phase" (fun i => decide (c1Phase st i)) ++
  one "init" (fun i => decide (c1Init st i)) ++ one "mode" (fun i => decide (c1Mode st i)) ++ one "ar" (fun i => decide (c1Ar st i)) ++
  one "state" (fun i => decide (c1State st i)) ++ one "ghost" (fun i => decide (c1Ghost st i)) ++ one "tail" (fun i => decide (c1Tail st i)) ++
  one "pred" (fun i => decide (c1Pred st i)) ++ one "prev" (fun i => decide (c1Prev st i)) ++ one "own" (fun i => decide (c1Own st i)) ++
  one "nxt" (fun i => decide (c1Nxt st i)) ++
  two "a" (fun i j => decide (c2A st i j)) ++ two "g" (fun i j => decide (c2G st i j)) ++ two "next" (fun i j => decide (c2Next st i j)) ++
  two "own2" (fun i j => decide (c2Own st i j)) ++ two "unb" (fun i j => decide (c2Unb st i j)) ++ two "go" (fun i j => decide (c2Go st i j)) ++
  (if st.bad then ["bad"] else [])

end TbbVerif.C08.QRwN
