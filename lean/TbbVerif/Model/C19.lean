/-
C19 — call_once and thread-specific storage (executable models, core Lean only).

`Once` : include/oneapi/tbb/collaborative_call_once.h.  One model step of a caller = one atomic access of the real
         code (to the flag's state word, to a runner's `m_ref_count` / `m_is_ready`, to the runner's wait_context, or
         the user function's invocation), in program order.  N callers, each performing `calls` calls on the same
         flag; the outcome of the user function on its k-th invocation is an ORACLE `throws k`.
         The state word is kept as (`hi`,`lo`) = (pointer bits / U, low bits) with U = `collaborative_once_max_references`
         (generated): `hi = 0` is "no runner" (`lo` = 0 uninitialized, 1 done), `hi = w+1` designates the runner that
         lives on the stack of caller `w`.  `x | mask`, `x & ~mask`, `x + 1`, `x - 1` are modelled on that pair
         (`+1` at `lo = U-1` CARRIES into the pointer bits, `-1` at `lo = 0` BORROWS: both set the ghost flag `bad`).
         What helpers do inside the runner's arena is abstracted to "wait until the runner's wait_context is released".
`Ets`  : include/oneapi/tbb/enumerable_thread_specific.h (`ets_base::table_lookup`), see below.
-/
import TbbVerif.Core.Sched
import TbbVerif.Core.Proto

namespace TbbVerif.C19

namespace Once

/-- The flag's state word, split at the alignment of the runner. -/
structure Word where
  hi : Nat := 0
  lo : Nat := 0
  deriving Repr, DecidableEq

def Word.uninit : Word := ⟨0, 0⟩
def Word.done : Word := ⟨0, 1⟩
/-- `runner.to_bits()` of the runner constructed by caller `t` -/
def Word.runner (t : Tid) : Word := ⟨t + 1, 0⟩
/-- `expected > state::done` -/
def Word.gtDone (x : Word) : Bool := x.hi != 0 || x.lo > 1
/-- `expected | collaborative_once_references_mask` -/
def Word.orMask (U : Nat) (x : Word) : Word := ⟨x.hi, U - 1⟩
/-- `expected + 1`; the flag says whether the addition carried into the pointer bits -/
def Word.inc (U : Nat) (x : Word) : Word × Bool :=
  if x.lo + 1 < U then (⟨x.hi, x.lo + 1⟩, false) else (⟨x.hi + 1, 0⟩, true)
/-- `fetch_sub(1)`; the flag says whether the subtraction borrowed from the pointer bits -/
def Word.dec (U : Nat) (x : Word) : Word × Bool :=
  if x.lo = 0 then (⟨x.hi - 1, U - 1⟩, true) else (⟨x.hi, x.lo - 1⟩, false)

def Word.show (x : Word) : String := s!"{x.hi}.{x.lo}"

/-- program counters = the next atomic access of the caller (names follow the code) -/
inductive Pc where
  | idle      -- outside a call; next: `flag.m_state.load(acquire) != done` of collaborative_call_once
  | entry     -- do_collaborative_call_once: `expected = m_state.load(acquire)`; the runner is constructed
  | winCas    -- `m_state.compare_exchange_strong(expected /*uninitialized*/, runner.to_bits())`
  | wReady    -- run_once: storage (arena, wait_context{1}) constructed, `m_is_ready.store(true, release)`
  | wCall     -- the user function runs (its outcome is the oracle)
  | wSpin     -- set_completion_state: `spin_wait_until_eq(m_state, runner_bits)`
  | wSet      -- set_completion_state: `m_state.compare_exchange_strong(runner_bits, desired)`
  | wRelease  -- finalize(): `m_wait_ctx.release()`
  | wWait     -- execute_and_wait returns once the wait_context is released
  | dtor      -- ~collaborative_once_runner: `spin_wait_until_eq(m_ref_count, 0)`
  | dtor2     -- ~collaborative_once_runner: `m_is_ready.load(relaxed)`, storage destroyed; the call returns / rethrows
  | hSpin     -- moonlighting: `expected = spin_wait_while_eq(m_state, expected | mask)`
  | hCas      -- `m_state.compare_exchange_strong(expected, expected + 1)`
  | hGuard    -- lifetime_guard: `m_runner.m_ref_count++`
  | hSub      -- `m_state.fetch_sub(1)`
  | hReady    -- assist(): `spin_wait_while_eq(m_is_ready, false)`
  | hWait     -- assist(): wait on the runner's wait_context
  | hUnguard  -- ~lifetime_guard: `m_runner.m_ref_count--`
  deriving Repr, DecidableEq

/-- how a call ended -/
inductive Ret where
  | ok (succSeen : Nat)     -- returned normally; `succSeen` = number of successful completions of the function so far
  | exc (attempt : Nat)     -- the exception thrown by invocation number `attempt` propagated out of the call
  deriving Repr, DecidableEq

structure Th where
  calls : Nat                    -- calls still to perform (the one in progress included)
  pc    : Pc := .idle
  exp   : Word := {}             -- the local `expected`
  tgt   : Nat := 0               -- `shared_runner` (caller index of the runner being helped)
  des   : Word := {}             -- winner: the completion state to install (`done` / `uninitialized`)
  pend  : Option Nat := none     -- winner: the exception in flight (invocation number)
  rets  : List Ret := []         -- outcomes of finished calls, newest first
  deriving Repr, DecidableEq

/-- the `collaborative_once_runner` on a caller's stack -/
structure Rn where
  refc  : Nat := 0               -- m_ref_count
  ready : Bool := false          -- m_is_ready
  wctx  : Nat := 0               -- m_storage.m_wait_context reference count
  alive : Bool := false          -- ghost: constructed and not yet destroyed
  stor  : Bool := false          -- ghost: m_storage constructed
  deriving Repr, DecidableEq

structure St where
  word    : Word := {}
  ths     : List Th := []
  rns     : List Rn := []
  winners : List Tid := []       -- ghost: winners[k] = caller that ran invocation k of the user function
  succ    : Nat := 0             -- ghost: successful completions of the user function
  bad     : Bool := false        -- ghost: carry/borrow across the bit fields, access to a destroyed runner or to
                                 --        unconstructed storage, reference-count underflow
  deriving Repr, DecidableEq

/-- An access as it appears in the E-SHIM log. -/
structure Ev where
  kind : String
  var  : String
  a    : String
  b    : String
  ok   : Bool
  deriving Repr, DecidableEq

def ldEv (var a : String) : Option Ev := some ⟨"load", var, a, "0", true⟩
def b2s (b : Bool) : String := if b then "1" else "0"

/-- finish the current call with outcome `r` -/
def Th.ret (t : Th) (r : Ret) : Th :=
  { t with calls := t.calls - 1, pc := .idle, pend := none, rets := r :: t.rets }

/-- One atomic access of caller `t`.  `U` = collaborative_once_max_references, `throws k` = the user function throws on
its k-th invocation. -/
def stepEv (U : Nat) (throws : Nat → Bool) (s : St) (t : Tid) : St × Option Ev :=
  match s.ths[t]?, s.rns[t]? with
  | some th, some rn =>
    let w := s.word
    let me := Word.runner t
    let setTh (th' : Th) : St := { s with ths := s.ths.set t th' }
    match th.pc with
    | .idle =>
        if th.calls = 0 then (s, none)
        else if w = Word.done then (setTh (th.ret (.ok s.succ)), ldEv "state" w.show)
        else (setTh { th with pc := .entry }, ldEv "state" w.show)
    | .entry =>
        ({ s with ths := s.ths.set t { th with exp := w, pc := if w = Word.uninit then .winCas else .hSpin },
                  rns := s.rns.set t { refc := 0, ready := false, wctx := 0, alive := true, stor := false } },
         ldEv "state" w.show)
    | .winCas =>
        if w = Word.uninit then
          ({ s with word := me, ths := s.ths.set t { th with pc := .wReady } }, some ⟨"cas", "state", w.show, me.show, true⟩)
        else (setTh { th with exp := w, pc := .hSpin }, some ⟨"cas", "state", Word.uninit.show, w.show, false⟩)
    | .wReady =>
        ({ s with ths := s.ths.set t { th with pc := .wCall },
                  rns := s.rns.set t { rn with stor := true, wctx := 1, ready := true } },
         some ⟨"store", s!"ready:{t}", "1", b2s rn.ready, true⟩)
    | .wCall =>
        let k := s.winners.length
        let ev : Option Ev := some ⟨"fadd", "fcount", toString k, toString (k + 1), true⟩
        if throws k then
          ({ s with winners := s.winners ++ [t],
                    ths := s.ths.set t { th with pc := .wSpin, des := Word.uninit, pend := some k } }, ev)
        else
          ({ s with winners := s.winners ++ [t], succ := s.succ + 1,
                    ths := s.ths.set t { th with pc := .wSpin, des := Word.done, pend := none } }, ev)
    | .wSpin =>
        (setTh { th with pc := if w = me then .wSet else .wSpin }, ldEv "state" w.show)
    | .wSet =>
        if w = me then
          ({ s with word := th.des, ths := s.ths.set t { th with pc := .wRelease } }, some ⟨"cas", "state", me.show, th.des.show, true⟩)
        else (setTh { th with pc := .wSpin }, some ⟨"cas", "state", me.show, w.show, false⟩)
    | .wRelease =>
        ({ s with bad := s.bad || rn.wctx == 0 || !rn.stor,
                  ths := s.ths.set t { th with pc := .wWait }, rns := s.rns.set t { rn with wctx := rn.wctx - 1 } },
         some ⟨"fadd", s!"wctx:{t}", toString rn.wctx, toString (rn.wctx - 1), true⟩)
    | .wWait =>
        (setTh { th with pc := if rn.wctx = 0 then .dtor else .wWait }, ldEv s!"wctx:{t}" (toString rn.wctx))
    | .dtor =>
        (setTh { th with pc := if rn.refc = 0 then .dtor2 else .dtor }, ldEv s!"refc:{t}" (toString rn.refc))
    | .dtor2 =>
        ({ s with ths := s.ths.set t (th.ret (match th.pend with | some k => .exc k | none => .ok s.succ)),
                  rns := s.rns.set t { rn with alive := false, stor := false } },
         ldEv s!"ready:{t}" (b2s rn.ready))
    | .hSpin =>
        if w = th.exp.orMask U then (s, ldEv "state" w.show)
        else
          let pc' := if w.gtDone then Pc.hCas else if w = Word.done then Pc.dtor else Pc.winCas
          (setTh { th with exp := w, pc := pc' }, ldEv "state" w.show)
    | .hCas =>
        if w = th.exp then
          let (w', carry) := th.exp.inc U
          let ev : Option Ev := some ⟨"cas", "state", th.exp.show, w'.show, true⟩
          if th.exp.hi = 0 then
            -- from_bits(expected & ~mask) == nullptr: nothing is guarded, the increment is never undone
            ({ s with word := w', bad := s.bad || carry, ths := s.ths.set t { th with pc := .hSpin } }, ev)
          else
            ({ s with word := w', bad := s.bad || carry, ths := s.ths.set t { th with pc := .hGuard, tgt := th.exp.hi - 1 } }, ev)
        else (setTh { th with exp := w, pc := .hSpin }, some ⟨"cas", "state", th.exp.show, w.show, false⟩)
    | .hGuard =>
        match s.rns[th.tgt]? with
        | none => ({ s with bad := true }, none)
        | some r =>
          ({ s with bad := s.bad || !r.alive, ths := s.ths.set t { th with pc := .hSub },
                    rns := s.rns.set th.tgt { r with refc := r.refc + 1 } },
           some ⟨"fadd", s!"refc:{th.tgt}", toString r.refc, toString (r.refc + 1), true⟩)
    | .hSub =>
        let (w', borrow) := w.dec U
        ({ s with word := w', bad := s.bad || borrow, ths := s.ths.set t { th with pc := .hReady } },
         some ⟨"fsub", "state", w.show, w'.show, true⟩)
    | .hReady =>
        match s.rns[th.tgt]? with
        | none => ({ s with bad := true }, none)
        | some r =>
          ({ s with bad := s.bad || !r.alive, ths := s.ths.set t { th with pc := if r.ready then .hWait else .hReady } },
           ldEv s!"ready:{th.tgt}" (b2s r.ready))
    | .hWait =>
        match s.rns[th.tgt]? with
        | none => ({ s with bad := true }, none)
        | some r =>
          ({ s with bad := s.bad || !r.alive || !r.stor, ths := s.ths.set t { th with pc := if r.wctx = 0 then .hUnguard else .hWait } },
           ldEv s!"wctx:{th.tgt}" (toString r.wctx))
    | .hUnguard =>
        match s.rns[th.tgt]? with
        | none => ({ s with bad := true }, none)
        | some r =>
          ({ s with bad := s.bad || !r.alive || r.refc == 0, ths := s.ths.set t { th with pc := .hSpin },
                    rns := s.rns.set th.tgt { r with refc := r.refc - 1 } },
           some ⟨"fsub", s!"refc:{th.tgt}", toString r.refc, toString (r.refc - 1), true⟩)
  | _, _ => (s, none)

def step (U : Nat) (throws : Nat → Bool) (s : St) (t : Tid) : St := (stepEv U throws s t).1

def init (calls : List Nat) : St :=
  { ths := calls.map (fun c => { calls := c }), rns := calls.map (fun _ => {}) }

/-- `calls[i]` = number of calls caller `i` performs. -/
def sys (U : Nat) (throws : Nat → Bool) (calls : List Nat) : Sys St :=
  { init := init calls, step := step U throws }

/-! ### line-protocol driver (trace replay) -/
open Proto

structure DSt where
  U : Nat := 128
  thr : List Nat := []
  st : St := {}

def showRet : Ret → String
  | .ok n => s!"ok:{n}"
  | .exc k => s!"exc:{k}"

/-- `mask <U>`; `callers <c0> <c1> …`; `throws <k>*`; `s <tid>` = the caller performs its next atomic access, prints
`<kind> <var> <a> <b> <ok> | <calls left> <outcomes oldest first>`; `state` prints `<hi.lo> <succ> <bad>`. -/
def drive (d : DSt) (ws : List String) : DSt × String :=
  match ws with
  | ["mask", u] => match nat? u with
      | some u => ({ d with U := u }, "ok")
      | none => (d, "bad-op")
  | "callers" :: cs => match nats? cs with
      | some cs => ({ d with st := init cs }, "ok")
      | none => (d, "bad-op")
  | "throws" :: ks => match nats? ks with
      | some ks => ({ d with thr := ks }, "ok")
      | none => (d, "bad-op")
  | ["s", t] => match nat? t with
      | some t =>
        let (st', ev) := stepEv d.U (fun k => d.thr.contains k) d.st t
        match st'.ths[t]? with
        | some th =>
          let e := match ev with
            | some e => s!"{e.kind} {e.var} {e.a} {e.b} {showBool e.ok}"
            | none => "-"
          ({ d with st := st' }, s!"{e} | {th.calls} {" ".intercalate (th.rets.reverse.map showRet)}")
        | none => (d, "bad-tid")
      | none => (d, "bad-op")
  | ["state"] => (d, s!"{d.st.word.show} {d.st.succ} {showBool d.st.bad}")
  | ["reset"] => ({}, "ok")
  | _ => (d, "bad-op")

def driver : Proto.Driver := { σ := DSt, init := {}, step := drive }

end Once

/-! ## enumerable_thread_specific / combinable: `ets_base::table_lookup`

One model step of a thread = one atomic access of `table_lookup` (to `my_root`, `my_count` or a slot's `key`), in
program order.  The chain of arrays is kept OLDEST FIRST (`arrs[j]`, `j` = number of arrays that were already
published when it was pushed); the root is the last one, `r->next` of array `j` is array `j-1` (`a->next = r` is set
before the publishing CAS and the CAS succeeds only if the root still is `r`), a pointer to array `j` is printed as
`j+1` and `nullptr` as 0.  Thread `t` has key `t+1` (0 = empty slot) and hash `h` (a parameter: `std::hash` of the
real key).  `(i+1) & mask` is modelled as `(i+1) % 2^lg_size`.  `create_local()` (which touches only `my_locals`) is
merged with the `++my_count` that follows it; element pointers are positions in `my_locals` (1-based).  Arrays that
lose the publishing race are thread-local and freed (`deallocate(a)`), they never appear in the state. -/
namespace Ets

structure Arr where
  lg   : Nat
  keys : List Nat        -- length 2^lg; 0 = empty
  ptrs : List Nat
  deriving Repr, DecidableEq

def Arr.size (a : Arr) : Nat := 2 ^ a.lg
def Arr.key (a : Arr) (i : Nat) : Nat := a.keys.getD i 0
def Arr.ptr (a : Arr) (i : Nat) : Nat := a.ptrs.getD i 0
def Arr.empty (lg : Nat) : Arr := ⟨lg, List.replicate (2 ^ lg) 0, List.replicate (2 ^ lg) 0⟩

/-- `array::start(h)` = `h >> (8*sizeof(size_t) - lg_size)` -/
def start (B : Nat) (h lg : Nat) : Nat := h / 2 ^ (B - lg)

/-- `while( c > size_t(1)<<(s-1) ) ++s;` -/
def growLg (c : Nat) : Nat → Nat → Nat
  | 0, s => s
  | fuel + 1, s => if c > 2 ^ (s - 1) then growLg c fuel (s + 1) else s

inductive Pc where
  | idle      -- next: `my_root.load(acquire)` at the head of table_lookup
  | probe     -- `s.empty()`: key.load of slot (r,i)
  | mtch      -- `s.match(k)`: key.load of slot (r,i)
  | top       -- `r == my_root.load(acquire)` after a match
  | cnt       -- `create_local()`; `++my_count`
  | root2     -- `my_root.load(acquire)` after the increment
  | push      -- `my_root.compare_exchange_strong(new_r, a)`
  | ins       -- insert: `my_root.load(acquire)`
  | insProbe  -- insert: `s.empty()`: key.load of slot (r,i)
  | claim     -- insert: `s.claim(k)`: key.compare_exchange_strong(0, k); `s.ptr = found`
  deriving Repr, DecidableEq

structure Th where
  h       : Nat                   -- hash of the thread's key
  todo    : Nat                   -- lookups still to perform (the one in progress included)
  pc      : Pc := .idle
  r       : Nat := 0              -- array under the cursor (position in the chain, oldest = 0)
  i       : Nat := 0              -- slot index under the cursor
  c       : Nat := 0              -- the value `++my_count` returned to this thread
  s       : Nat := 0              -- lg_size of the array this thread allocated
  nr      : Nat := 0              -- grow loop: the root the new array is to be chained to (pointer: 0 = nullptr)
  found   : Nat := 0              -- `found`
  ex      : Bool := false         -- `exists`
  created : Nat := 0              -- ghost: create_local() calls made by this thread
  elem    : Nat := 0              -- ghost: the element this thread created last (0 = none)
  rets    : List (Nat × Bool) := []   -- (pointer, exists) returned by finished lookups, newest first
  deriving Repr, DecidableEq

structure St where
  arrs   : List Arr := []         -- oldest first; root = last
  count  : Nat := 0
  locals : List Tid := []         -- my_locals: creator of element e is locals[e-1]
  ths    : List Th := []
  bad    : Bool := false          -- ghost: null root dereferenced at insert / access outside an array
  deriving Repr, DecidableEq

structure Ev where
  kind : String
  var  : String
  a    : String
  b    : String
  ok   : Bool
  deriving Repr, DecidableEq

def Th.ret (t : Th) (p : Nat) (ex : Bool) : Th :=
  { t with todo := t.todo - 1, pc := .idle, rets := (p, ex) :: t.rets }

/-- One atomic access of thread `t`.  `B` = bits of `size_t`, `L0` = lg_size of the first array. -/
def stepEv (B L0 : Nat) (s : St) (t : Tid) : St × Option Ev :=
  match s.ths[t]? with
  | none => (s, none)
  | some th =>
    let k := t + 1
    let R := s.arrs.length
    let setTh (th' : Th) : St := { s with ths := s.ths.set t th' }
    let ld (var a : String) : Option Ev := some ⟨"load", var, a, "0", true⟩
    match th.pc with
    | .idle =>
        if th.todo = 0 then (s, none)
        else match s.arrs[R - 1]? with
          | none => (setTh { th with pc := .cnt }, ld "root" "0")
          | some a => (setTh { th with pc := .probe, r := R - 1, i := start B th.h a.lg }, ld "root" (toString R))
    | .probe =>
        match s.arrs[th.r]? with
        | none => ({ s with bad := true }, none)
        | some a =>
          let key := a.key th.i
          let ev := ld s!"key:{th.r}:{th.i}" (toString key)
          if key = 0 then
            if th.r = 0 then (setTh { th with pc := .cnt }, ev)
            else match s.arrs[th.r - 1]? with
              | none => ({ s with bad := true }, none)
              | some a' => (setTh { th with r := th.r - 1, i := start B th.h a'.lg }, ev)
          else (setTh { th with pc := .mtch }, ev)
    | .mtch =>
        match s.arrs[th.r]? with
        | none => ({ s with bad := true }, none)
        | some a =>
          let key := a.key th.i
          let ev := ld s!"key:{th.r}:{th.i}" (toString key)
          if key = k then (setTh { th with pc := .top }, ev)
          else (setTh { th with pc := .probe, i := (th.i + 1) % a.size }, ev)
    | .top =>
        match s.arrs[th.r]? with
        | none => ({ s with bad := true }, none)
        | some a =>
          if th.r + 1 = R then (setTh (th.ret (a.ptr th.i) true), ld "root" (toString R))
          else (setTh { th with pc := .ins, found := a.ptr th.i, ex := true }, ld "root" (toString R))
    | .cnt =>
        let e := s.locals.length + 1
        ({ s with locals := s.locals ++ [t], count := s.count + 1,
                  ths := s.ths.set t { th with pc := .root2, found := e, ex := false, c := s.count + 1,
                                               created := th.created + 1, elem := e } },
         some ⟨"fadd", "count", toString s.count, toString (s.count + 1), true⟩)
    | .root2 =>
        match s.arrs[R - 1]? with
        | none => (setTh { th with pc := .push, nr := 0, s := growLg th.c th.c L0 }, ld "root" "0")
        | some a =>
          if th.c > a.size / 2 then (setTh { th with pc := .push, nr := R, s := growLg th.c th.c a.lg }, ld "root" (toString R))
          else (setTh { th with pc := .ins }, ld "root" (toString R))
    | .push =>
        if R = th.nr then
          ({ s with arrs := s.arrs ++ [Arr.empty th.s], ths := s.ths.set t { th with pc := .ins } },
           some ⟨"cas", "root", toString th.nr, toString (R + 1), true⟩)
        else
          let ev : Option Ev := some ⟨"cas", "root", toString th.nr, toString R, false⟩
          match s.arrs[R - 1]? with
          | none => ({ s with bad := true }, none)
          | some a =>
            if a.lg ≥ th.s then (setTh { th with pc := .ins }, ev)
            else (setTh { th with nr := R }, ev)
    | .ins =>
        match s.arrs[R - 1]? with
        | none => ({ s with bad := true }, none)
        | some a => (setTh { th with pc := .insProbe, r := R - 1, i := start B th.h a.lg }, ld "root" (toString R))
    | .insProbe =>
        match s.arrs[th.r]? with
        | none => ({ s with bad := true }, none)
        | some a =>
          let key := a.key th.i
          let ev := ld s!"key:{th.r}:{th.i}" (toString key)
          if key = 0 then (setTh { th with pc := .claim }, ev)
          else (setTh { th with i := (th.i + 1) % a.size }, ev)
    | .claim =>
        match s.arrs[th.r]? with
        | none => ({ s with bad := true }, none)
        | some a =>
          let key := a.key th.i
          if key = 0 then
            ({ s with arrs := s.arrs.set th.r { a with keys := a.keys.set th.i k, ptrs := a.ptrs.set th.i th.found },
                      ths := s.ths.set t (th.ret th.found th.ex) },
             some ⟨"cas", s!"key:{th.r}:{th.i}", "0", toString k, true⟩)
          else
            (setTh { th with pc := .insProbe, i := (th.i + 1) % a.size },
             some ⟨"cas", s!"key:{th.r}:{th.i}", "0", toString key, false⟩)

def step (B L0 : Nat) (s : St) (t : Tid) : St := (stepEv B L0 s t).1

/-- `hs[i]` = (hash of thread i's key, number of lookups thread i performs). -/
def init (hs : List (Nat × Nat)) : St := { ths := hs.map (fun p => { h := p.1, todo := p.2 }) }

def sys (B L0 : Nat) (hs : List (Nat × Nat)) : Sys St := { init := init hs, step := step B L0 }

/-- elements visited by iteration / combine_each over the container (`my_locals` in creation order) with their creators -/
def iterate (s : St) : List (Nat × Tid) := (List.range s.locals.length).map (fun e => (e + 1, s.locals.getD e 0))

/-! ### line-protocol driver (trace replay) -/
open Proto

structure DSt where
  B : Nat := 64
  L0 : Nat := 2
  st : St := {}

/-- canonical name of an element pointer: `<creator+1>.<n>` (n-th element created by that thread), `0` = null -/
def elemName (s : St) (p : Nat) : String :=
  if p = 0 then "0" else
  match s.locals[p - 1]? with
  | none => "?"
  | some c => s!"{c + 1}.{(s.locals.take (p - 1)).count c}"

/-- `cfg <B> <L0>`; `thread <hash> <lookups>` appends a thread; `s <tid>` = next atomic access of the thread, prints
`<kind> <var> <a> <b> <ok> | <lookups left> <ptr:exists of finished lookups, oldest first>`;
`state` prints `<#arrays> <lg sizes oldest first> | <count> | <creators in my_locals order> | <bad>`. -/
def drive (d : DSt) (ws : List String) : DSt × String :=
  match ws with
  | ["cfg", b, l] => match nat? b, nat? l with
      | some b, some l => ({ d with B := b, L0 := l }, "ok")
      | _, _ => (d, "bad-op")
  | ["thread", h, n] => match nat? h, nat? n with
      | some h, some n => ({ d with st := { d.st with ths := d.st.ths ++ [{ h := h % 2 ^ d.B, todo := n }] } }, "ok")
      | _, _ => (d, "bad-op")
  | ["s", t] => match nat? t with
      | some t =>
        let (st', ev) := stepEv d.B d.L0 d.st t
        match st'.ths[t]? with
        | some th =>
          let e := match ev with
            | some e => s!"{e.kind} {e.var} {e.a} {e.b} {showBool e.ok}"
            | none => "-"
          let rs := th.rets.reverse.map (fun (p : Nat × Bool) => s!"{elemName st' p.1}:{showBool p.2}")
          ({ d with st := st' }, s!"{e} | {th.todo} {" ".intercalate rs}")
        | none => (d, "bad-tid")
      | none => (d, "bad-op")
  | ["state"] =>
      let s := d.st
      (d, s!"{s.arrs.length} {showNats (s.arrs.map (·.lg))} | {s.count} | {showNats (s.locals.map (· + 1))} | {showBool s.bad}")
  | ["reset"] => ({}, "ok")
  | _ => (d, "bad-op")

def driver : Proto.Driver := { σ := DSt, init := {}, step := drive }

end Ets

end TbbVerif.C19
