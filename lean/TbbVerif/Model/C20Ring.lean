/-
C20 — `Ring`: `arena_co_cache` (src/tbb/arena.h), the per-arena cache of coroutine dispatchers, at the level of its
serialised operations (every public operation runs under `my_co_cache_mutex`).  State = the code's own words:
`my_co_scheduler_cache` (`buf`, `cap` entries, `nullptr` = `none`), `my_head`; `my_max_index = cap - 1`.

  push(s):  to_cleanup := buf[head] (if not null); buf[head] := s; head := next_index();  the replaced entry is destroyed
            (outside the lock)
  pop():    if buf[prev_index()] == nullptr return nullptr; head := prev_index(); r := buf[head]; buf[head] := nullptr
  cleanup() while (d = pop()) destroy d

`pop` takes the flag `clears` (regenerated from the source: does `pop` store `nullptr` into the slot it returns?).
Dispatchers are small ids.  Executable, core Lean only.
-/
import TbbVerif.Core.Proto

namespace TbbVerif.C20.Ring

structure R where
  buf : List (Option Nat)
  head : Nat
  deriving Repr, DecidableEq

def init (cap : Nat) : R := { buf := List.replicate cap none, head := 0 }

/-- `next_index()`: `(my_head == my_max_index) ? 0 : my_head + 1` with `my_max_index = cap - 1` -/
def nextIdx (r : R) : Nat := if r.head + 1 = r.buf.length then 0 else r.head + 1

/-- `prev_index()`: `(my_head == 0) ? my_max_index : my_head - 1` -/
def prevIdx (r : R) : Nat := if r.head = 0 then r.buf.length - 1 else r.head - 1

def entry (r : R) (i : Nat) : Option Nat := (r.buf[i]?).join

/-- returns the new ring and the replaced (destroyed) entry -/
def push (r : R) (d : Nat) : R × Option Nat :=
  ({ buf := r.buf.set r.head (some d), head := nextIdx r }, entry r r.head)

def pop (clears : Bool) (r : R) : R × Option Nat :=
  match entry r (prevIdx r) with
  | none => (r, none)
  | some d => ({ buf := if clears then r.buf.set (prevIdx r) none else r.buf, head := prevIdx r }, some d)

/-- `cleanup()`: pops until empty; returns the destroyed dispatchers (fuel = capacity + 1 suffices for a well-formed ring) -/
def cleanupAux (clears : Bool) : Nat → R → List Nat → R × List Nat
  | 0, r, acc => (r, acc.reverse)
  | n + 1, r, acc =>
      match pop clears r with
      | (_, none) => (r, acc.reverse)
      | (r', some d) => cleanupAux clears n r' (d :: acc)

def cleanup (clears : Bool) (r : R) : R × List Nat := cleanupAux clears (r.buf.length + 1) r []

/-- number of slots that hold dispatcher `d` -/
def cnt (r : R) (d : Nat) : Nat := r.buf.count (some d)

/-- the bounded LIFO stack the ring implements (newest first): what `pop` returns next is its head; a `push` onto a full
stack drops (destroys) the oldest entry -/
def stackPush (cap : Nat) (l : List Nat) (d : Nat) : List Nat × Option Nat :=
  if l.length < cap then (d :: l, none) else ((d :: l).take cap, l.getLast?)

/-! ## line-protocol driver (differential against the real `arena_co_cache`)

  init <cap> | push <d> | pop | cleanup            answers: ok | evict <d>/evict - | pop <d>/pop - | cleanup <d...>
-/
open Proto

structure DSt where
  r : R := init 1
  clears : Bool := true

def showO : Option Nat → String
  | none => "-"
  | some d => toString d

def drive (d : DSt) (ws : List String) : DSt × String :=
  match ws with
  | ["init", c] =>
      match nat? c with
      | some c => if c = 0 then (d, "bad-op") else ({ d with r := init c }, "ok")
      | none => (d, "bad-op")
  | ["push", x] =>
      match nat? x with
      | some x => let (r', e) := push d.r x; ({ d with r := r' }, s!"evict {showO e} head {r'.head}")
      | none => (d, "bad-op")
  | ["pop"] => let (r', e) := pop d.clears d.r; ({ d with r := r' }, s!"pop {showO e} head {r'.head}")
  | ["cleanup"] =>
      let (r', l) := cleanup d.clears d.r
      ({ d with r := r' }, "cleanup " ++ " ".intercalate (l.map toString))
  | _ => (d, "bad-op")

def driver (clears : Bool) : Proto.Driver := { σ := DSt, init := { clears := clears }, step := drive }

end TbbVerif.C20.Ring
