/-
C17 — line-protocol driver of the back-end model (`Model/C17Backend.lean`): consumes the script the white-box harness
`harness/c17/be.cpp bk` consumed (each `get` line extended by the raw-allocator answers the harness observed) and
prints records in the harness' format, so that the two outputs can be compared line by line.
-/
import TbbVerif.Model.C17Backend
import TbbVerif.Model.C17BackendInv

namespace TbbVerif.C17.BE
open TbbVerif.Generated.C17Backend
open TbbVerif.Proto

def kindOf : Own → String
  | .user _ => "U" | .coal _ => "C" | .held => "H" | .queued => "Q" | .free => "F" | .last => "L"

def showBlocks : Nat → List Blk → List String
  | _, [] => []
  | a, b :: rest =>
    let body := match b.own with
      | .free => s!"{a}:{b.size}:F:{b.myBin}:{if b.aligned then 1 else 0}"
      | .queued => s!"{a}:{b.size}:Q:{if b.aligned then 1 else 0}"
      | o => s!"{a}:{b.size}:{kindOf o}"
    s!"{body}:{b.myL}:{b.leftL}" :: showBlocks (a + b.size) rest

def showRegion (r : Region) : String :=
  s!"R {r.base} {r.allocSz} {r.blockSz} {r.type} {r.first} | " ++ " ".intercalate (showBlocks r.first r.blocks)

def binLines (s : St) : List String :=
  let one (al : Bool) : List String :=
    (List.range beFreeBinsNum).filterMap (fun i =>
      let es := s.g.bins.filter (fun e => e.al == al && e.bin == i)
      if es.isEmpty then none
      else some (s!"B {if al then 1 else 0} {i} : " ++ " ".intercalate (es.map (fun e => toString e.addr))))
  one false ++ one true

def maskLine (s : St) (al : Bool) : String :=
  let bits := (List.range beFreeBinsNum).filter (fun i => s.g.mask.contains (al, i))
  s!"M {if al then 1 else 0} :" ++ String.join (bits.map (fun i => s!" {i}"))

def queueLine (s : St) : String :=
  "Q :" ++ String.join (s.g.queue.map (fun a =>
    match locate s a with
    | some c => s!" {a}:{c.z.cur.sizeTmp}"
    | none => s!" {a}:?"))

def snapshot (s : St) : List String :=
  s.regions.map showRegion ++ binLines s ++ [maskLine s false, maskLine s true, queueLine s,
    s!"S maxReq={s.g.maxReq} boot={s.g.boot}"] ++ (if s.g.bad then ["BAD the model followed an inconsistent tag"] else [])
    ++ (if s.g.skip then ["SKIP a model step found its block in an unexpected ghost state"] else [])
    ++ (wfReport s).map (fun w => "NOTWF " ++ w)

structure DSt where
  st : Option St := none
  fixedSize : Nat := 0
  /-- every block ever handed out, in order (`putn k` / `markcoaln k` name them) -/
  handed : List Nat := []

/-- `... | a:g a:g fail ...` : raw allocator answers appended to a `get` line by the plug-in -/
def parseRaws (ws : List String) : Option (List (Option (Nat × Nat))) :=
  ws.mapM (fun w =>
    if w = "fail" then some none
    else match w.splitOn ":" with
      | [a, g] => match nat? a, nat? g with
        | some a, some g => some (some (a, g))
        | _, _ => none
      | _ => none)

def record (line : List String) (res : String) (s : Option St) : String :=
  let head := "> " ++ " ".intercalate line ++ "\n= " ++ res
  match s with
  | some s => head ++ String.join (s.g.log.map (fun l => " " ++ l)) ++ "\n" ++ "\n".intercalate (snapshot s) ++ "\n."
  | none => head ++ "\n."

def dstep (d : DSt) (ws : List String) : DSt × String :=
  -- split off the raw answers
  let (cmd, raws) := match ws.span (· ≠ "|") with
    | (c, _ :: r) => (c, r)
    | (c, []) => (c, [])
  let bad := (d, record cmd "bad-op" none)
  match d.st, cmd with
  | none, ["cfg", f, k, g, fs] =>
    match nats? [f, k, g, fs] with
    | some [f, k, g, fs] =>
      ({ st := some { g := { cfg := { fixedPool := f != 0, keepAll := k != 0, granularity := g } } }, fixedSize := fs }, record cmd "cfg ok" none)
    | _ => bad
  | some s0, _ =>
    let s : St := ⟨{ s0.g with log := [] }, s0.regions⟩
    let fin (s' : St) (res : String) : DSt × String := ({ d with st := some s' }, record cmd res (some s'))
    match cmd with
    | ["get", n, sz, al] =>
      match nats? [n, sz, al], parseRaws raws with
      | some [n, sz, al], some raws =>
        if n ≥ 1 ∧ n ≤ 64 ∧ sz ≥ beMinBlockSize ∧ sz % 8 = 0 ∧ sz ≤ 2 ^ 27 ∧ (al = 0 ∨ sz % beSlabSize = 0) ∧ (n = 1 ∨ n * sz < beMaxBinnedSmallPage) ∧ n * sz ≥ beMinBinnedSize
            ∧ (al = 0 ∨ s.g.cfg.fixedPool ∨ n * sz < beMaxBinnedSmallPage / 8) then
          match step s (.get n sz (al != 0) raws) with
          | (s', .got (.block a) _) =>
            ({ d with st := some s', handed := d.handed ++ (List.range n).map (fun i => a + i * sz) }, record cmd (toString a) (some s'))
          | (s', .got .null _) => fin s' "0"
          | (s', .got .blocked _) => fin s' "blocked"
          | (s', _) => fin s' "rejected"
        else bad
      | _, _ => bad
    | ["put", a] =>
      match nat? a with
      | some a =>
        match step s (.put a) with
        | (s', .unit) => fin s' "ok"
        | (s', _) => fin s' "not-in-use"
      | none => bad
    | ["putn", k] =>
      match (nat? k).bind (fun k => d.handed[k]?) with
      | some a =>
        match step s (.put a) with
        | (s', .unit) => fin s' "ok"
        | (s', _) => fin s' "not-in-use"
      | none => bad
    | ["markcoaln", k] =>
      match (nat? k).bind (fun k => d.handed[k]?) with
      | some a => match step s (.markcoal a) with
        | (s', .unit) => fin s' "ok"
        | (s', _) => fin s' "not-in-use"
      | none => bad
    | ["scan", f] =>
      match nat? f with
      | some f => match step s (.scan (f != 0)) with
        | (s', .flag b) => fin s' (showBool b)
        | (s', _) => fin s' "?"
      | none => bad
    | ["clean"] => match step s .clean with
        | (s', .flag b) => fin s' (showBool b)
        | (s', _) => fin s' "?"
    | ["reset"] => fin (step s .reset).1 "ok"
    | ["delay", a] => match nat? a with
      | some a => fin (step s (.delay (a != 0))).1 "ok"
      | none => bad
    | ["lockbin", al, b] => match nat? al, nat? b with
      | some al, some b =>
        if b < beFreeBinsNum then
          if s.g.binLocked.contains (al != 0, b) then fin s "already" else fin (step s (.lockbin (al != 0) b)).1 "ok"
        else bad
      | _, _ => bad
    | ["unlockbin", al, b] => match nat? al, nat? b with
      | some al, some b => if b < beFreeBinsNum then fin (step s (.unlockbin (al != 0) b)).1 "ok" else bad
      | _, _ => bad
    | ["markcoal", a] => match nat? a with
      | some a => match step s (.markcoal a) with
        | (s', .unit) => fin s' "ok"
        | (s', _) => fin s' "not-in-use"
      | none => bad
    | ["lockempty"] =>
      let empties := [false, true].flatMap (fun al => ((List.range beFreeBinsNum).filter (fun i => binEmpty s.g.bins al i)).map (fun i => (al, i)))
      fin (empties.foldl (fun s (p : Bool × Nat) => (step s (.lockbin p.1 p.2)).1) s) "ok"
    | ["unlockall"] => fin ⟨{ s.g with binLocked := [] }, s.regions⟩ "ok"
    | ["skew", a] => match nat? a with
      | some a => if a < 4 then fin s "ok" else bad
      | none => bad
    | ["osfail", a, b] => match nat? a, nat? b with
      | some _, some _ => fin s "ok"
      | _, _ => bad
    | _ => bad
  | none, _ => bad

def driver : Proto.Driver := { σ := DSt, init := {}, step := dstep }

end TbbVerif.C17.BE
