/-
C01 / Dispatch — the whole dispatcher at task level (spec-level composition model; executable, core Lean only).

State = the scheduler's containers and the threads' dispatch stacks:
  * `pools[k]`    the task pool (work-stealing deque) of arena slot `k`, abstracted to a BAG of entries — a plain task
                  or a `task_proxy` (the abstraction is the proved interface of the Deque theorems: conservation, no
                  duplication, no loss; see `Proofs/C01/DispatchIface.lean`);
  * `boxes[k]`    the mailbox (`mail_outbox`) of slot `k`: a bag of proxies (interface: `mailbox_no_loss_no_dup`);
  * `streams[3·a + kind]`  the resume (0) / fifo (1) / critical (2) `task_stream` of arena `a` (`stream_conservation`);
  * `proxies[p]`  `task_proxy::task_and_tag` of proxy `p`: `shared` (task pointer | pool_bit | mailbox_bit),
                  `poolCleans` (= pool_bit: emptied by the mailbox side, the pool side frees it), `mboxCleans`
                  (= mailbox_bit), `freed`  (interface: `proxy_exactly_once`, `proxy_freed_once`);
  * `units[u]`    one unit of work (a `d1::task`): its group (wait_context), its task_group_context, isolation tag,
                  state `pending → running → released → done` and ghost counters of `execute()` / `cancel()` calls;
  * `groups[g]`   a wait_context: reference count `refs`, owner thread (the thread that waits on it), `began` / `closed`;
  * `ctxs[c]`     cancellation flag of task_group_context `c`;
  * per thread: a stack of frames (innermost first) — `attach k` (the thread occupies slot `k`: arena::process,
                  nested_arena_context), `wait g iso` (a `local_wait_for_all` loop: `g = some` external waiter on that
                  group, `none` a worker's outermost loop), `exec u` (inside `u->execute()` / `u->cancel()`); the bypass
                  slot = the variable `t` of `local_wait_for_all`, the task the dispatcher holds in its hand and runs
                  next (returned by the last `execute`, handed to `execute_and_wait`, or just taken out of a container);
                  and `look`, the position of the dispatch loop in the order in which it looks for work (`order`,
                  re-extracted from task_dispatcher.h on every run).

A step is `step : St → Act → Option St` (`none` = the action is not enabled); programs and schedules are both subsumed
by the action sequence, so "for all programs and schedules" = "for all `List Act`".
-/
import TbbVerif.Core.Sched
import TbbVerif.Core.Proto

namespace TbbVerif.C01.Dispatch

/-- where the dispatch loop looks for work -/
inductive Src where
  | bypass | localPool | mailbox | resume | fifo | steal | critical
  deriving Repr, DecidableEq

/-- The order of the current tree, for reference: `task_dispatcher::local_wait_for_all` (bypass loop, then
`slot.get_task`, then `receive_or_steal_task`) followed by the else-if chain of `receive_or_steal_task` (inbox, resume
stream, fifo stream, steal, critical).  The model does NOT hard-wire it: the order is a parameter of the initial state
(`St.order`), re-extracted from the source on every run (`Generated.C01.dispatchOrder`) and handed to the validator; every
theorem holds for every order (`Reachable` quantifies over it), so re-ordering the chain cannot break the property. -/
def order : List Src := [.bypass, .localPool, .mailbox, .resume, .fifo, .steal, .critical]

def Src.name : Src → String
  | .bypass => "bypass" | .localPool => "local" | .mailbox => "mailbox" | .resume => "resume"
  | .fifo => "fifo" | .steal => "steal" | .critical => "critical"

def Src.ofName : String → Option Src
  | "bypass" => some .bypass | "local" => some .localPool | "mailbox" => some .mailbox | "resume" => some .resume
  | "fifo" => some .fifo | "steal" => some .steal | "critical" => some .critical
  | _ => none

/-- the position after `l` in the look-up order `ord`; after the last one the stealing loop starts over at the third
position (the first look-up of `receive_or_steal_task`; the local pool cannot have been refilled meanwhile) -/
def nextIn (ord : List Src) (l : Src) : Src :=
  match (ord.dropWhile (· != l)).drop 1 with
  | n :: _ => n
  | [] => ord.getD 2 l

inductive Entry where
  | task (u : Nat)
  | proxy (p : Nat)
  deriving Repr, DecidableEq

inductive Tag where
  | shared | poolCleans | mboxCleans | freed
  deriving Repr, DecidableEq

structure Proxy where
  unit : Nat
  tag : Tag := .shared
  deriving Repr, DecidableEq

inductive UState where
  | pending      -- submitted, in a container
  | running      -- inside execute() / cancel(); still holds its wait reference
  | released     -- its wait reference is released; the call has not returned to the dispatcher yet
  | done
  deriving Repr, DecidableEq

structure UnitR where
  grp : Nat
  ctx : Nat
  iso : Nat := 0
  st : UState := .pending
  nexec : Nat := 0         -- ghost: calls of execute()
  ncancel : Nat := 0       -- ghost: calls of cancel()
  deriving Repr, DecidableEq

structure Group where
  owner : Tid
  refs : Nat := 0
  began : Bool := false
  closed : Bool := false
  inUnit : Option Nat := none     -- ghost: the unit inside whose execute() the wait on this group began (none: top level)
  deriving Repr, DecidableEq

inductive Frame where
  | attach (k : Nat)
  | wait (g : Option Nat) (iso : Nat)
  | exec (u : Nat)
  deriving Repr, DecidableEq

structure St where
  slotArena : List Nat := []
  pools : List (List Entry) := []
  boxes : List (List Nat) := []
  streams : List (List Nat) := []
  proxies : List Proxy := []
  units : List UnitR := []
  groups : List Group := []
  ctxs : List Bool := []
  stacks : List (List Frame) := []
  bypass : List (Option Nat) := []
  look : List Src := []
  order : List Src := []          -- the order in which a dispatch loop looks for work (fixed by `init`)
  deriving Repr, DecidableEq

/-- `slotArena[k]` = the arena slot `k` belongs to; `narenas` arenas; `nthreads` threads, all outside every arena;
`ord` = the look-up order of the dispatch loop -/
def init (slotArena : List Nat) (narenas nthreads : Nat) (ord : List Src := order) : St :=
  { order := ord, slotArena := slotArena, pools := List.replicate slotArena.length [], boxes := List.replicate slotArena.length [],
    streams := List.replicate (3 * narenas) [], stacks := List.replicate nthreads [],
    bypass := List.replicate nthreads none, look := List.replicate nthreads .bypass }

inductive Target where
  | spawn                        -- r1::spawn(t, ctx): the calling thread's task pool
  | mail (dst : Nat)             -- r1::spawn(t, ctx, dst): proxy in the caller's pool AND in the mailbox of slot dst
  | stream (a kind : Nat)        -- enqueue / submit into a stream of arena a (0 resume, 1 fifo, 2 critical)
  | bypass                       -- returned by execute() / handed to execute_and_wait: runs next on this thread
  deriving Repr, DecidableEq

inductive Act where
  | newGroup (t : Tid)
  | newCtx
  | cancel (c : Nat)
  | enter (t : Tid) (k : Nat)
  | leave (t : Tid)
  | beginWait (t : Tid) (g : Option Nat) (iso : Nat)
  | waitReturn (t : Tid)
  | submit (t : Tid) (g c iso : Nat) (tg : Target)
  | respawn (t : Tid)
  | miss (t : Tid)
  | takeBypass (t : Tid)
  | takePool (t : Tid) (v i : Nat)
  | takeBox (t : Tid) (i : Nat)
  | takeStream (t : Tid) (kind i : Nat)
  | drainBox (k i : Nat)
  | complete (t : Tid)
  | ret (t : Tid)
  deriving Repr, DecidableEq

/-- the slot a thread currently occupies: its innermost `attach` frame -/
def curSlot : List Frame → Option Nat
  | [] => none
  | .attach k :: _ => some k
  | _ :: r => curSlot r

/-- the unit a thread is executing: its innermost `exec` frame -/
def innerExec : List Frame → Option Nat
  | [] => none
  | .exec u :: _ => some u
  | _ :: r => innerExec r

def occupied (s : St) (k : Nat) : Bool := s.stacks.any (fun stk => stk.contains (.attach k))

def isoOk (w iso : Nat) : Bool := w == 0 || iso == w

/-- the thread holds a wait reference of group `g`: one of its frames is a unit of `g` that has not released yet -/
def holds (s : St) (stk : List Frame) (g : Nat) : Bool :=
  stk.any (fun f => match f with
    | .exec u => match s.units[u]? with
                 | some x => x.grp == g && x.st == .running
                 | none => false
    | _ => false)

/-- begin `u->execute()` (or `u->cancel()` when its context is cancelled) on thread `t` -/
def startExec (s : St) (t : Tid) (stk : List Frame) (u : Nat) (x : UnitR) : St :=
  let c := s.ctxs[x.ctx]?.getD false
  { s with units := s.units.set u { x with st := .running, nexec := x.nexec + (if c then 0 else 1),
                                            ncancel := x.ncancel + (if c then 1 else 0) },
           stacks := s.stacks.set t (.exec u :: stk), look := s.look.set t .bypass }

def actNewGroup (s : St) (t : Tid) : Option St :=
  if t < s.stacks.length then some { s with groups := s.groups ++ [({ owner := t } : Group)] } else none

def actCancel (s : St) (c : Nat) : Option St :=
  if c < s.ctxs.length then some { s with ctxs := s.ctxs.set c true } else none

def actEnter (s : St) (t : Tid) (k : Nat) : Option St :=
  match s.stacks[t]? with
  | none => none
  | some stk =>
    if k < s.pools.length ∧ occupied s k = false then some { s with stacks := s.stacks.set t (.attach k :: stk) } else none

def actLeave (s : St) (t : Tid) : Option St :=
  match s.stacks[t]? with
  | some (.attach _ :: rest) =>
      if s.bypass[t]? = some none then some { s with stacks := s.stacks.set t rest } else none
  | _ => none

/-- a wait begins inside a unit only while that unit still holds its reference (the release is the last thing a unit does) -/
def stillRunning (s : St) : Option Nat → Bool
  | none => true
  | some u => match s.units[u]? with
    | some x => x.st == .running
    | none => false

def actBeginWait (s : St) (t : Tid) (g : Option Nat) (iso : Nat) : Option St :=
  match s.stacks[t]? with
  | none => none
  | some stk =>
    if curSlot stk = none then none else
    match g with
    | none => some { s with stacks := s.stacks.set t (.wait none iso :: stk), look := s.look.set t .bypass }
    | some g =>
      match s.groups[g]? with
      | none => none
      | some G =>
        if G.owner = t ∧ G.closed = false ∧ G.began = false ∧ stillRunning s (innerExec stk) = true then
          some { s with groups := s.groups.set g { G with began := true, inUnit := innerExec stk },
                        stacks := s.stacks.set t (.wait (some g) iso :: stk), look := s.look.set t .bypass }
        else none

/-- `continue_execution()` is evaluated after the bypass loop (and again inside the stealing loop): never with a task
in the dispatcher's hand, never before the bypass loop is done -/
def canLeaveLoop (s : St) (t : Tid) : Bool :=
  s.bypass[t]? == some none && (match s.look[t]? with | some l => l != .bypass | none => false)

def actWaitReturn (s : St) (t : Tid) : Option St :=
  match s.stacks[t]? with
  | some (.wait none _ :: rest) =>
      if canLeaveLoop s t then some { s with stacks := s.stacks.set t rest } else none
  | some (.wait (some g) _ :: rest) =>
      match s.groups[g]? with
      | none => none
      | some G =>
        if canLeaveLoop s t ∧ G.refs = 0 then
          some { s with groups := s.groups.set g { G with closed := true }, stacks := s.stacks.set t rest }
        else none
  | _ => none

def actSubmit (s : St) (t : Tid) (g c iso : Nat) (tg : Target) : Option St :=
  match s.stacks[t]?, s.groups[g]? with
  | some stk, some G =>
    if c < s.ctxs.length ∧ ((G.owner = t ∧ G.closed = false) ∨ holds s stk g = true) then
      let u := s.units.length
      let s1 := { s with units := s.units ++ [({ grp := g, ctx := c, iso := iso } : UnitR)],
                         groups := s.groups.set g { G with refs := G.refs + 1 } }
      match tg with
      | .spawn =>
          match curSlot stk with
          | none => none
          | some k =>
            match s.pools[k]? with
            | none => none
            | some P => some { s1 with pools := s.pools.set k (.task u :: P) }
      | .mail dst =>
          match curSlot stk with
          | none => none
          | some k =>
            match s.pools[k]?, s.boxes[dst]? with
            | some P, some B =>
              if s.slotArena[k]? = s.slotArena[dst]? then
                some { s1 with proxies := s.proxies ++ [({ unit := u } : Proxy)],
                               pools := s.pools.set k (.proxy s.proxies.length :: P),
                               boxes := s.boxes.set dst (B ++ [s.proxies.length]) }
              else none
            | _, _ => none
      | .stream a kind =>
          if kind < 3 then
            match s.streams[3 * a + kind]? with
            | none => none
            | some S => some { s1 with streams := s.streams.set (3 * a + kind) (S ++ [u]) }
          else none
      | .bypass =>
          if s.bypass[t]? = some none then some { s1 with bypass := s.bypass.set t (some u) } else none
    else none
  | _, _ => none

/-- `get_critical_task` found a critical task while a bypass task was pending: the bypass task is spawned -/
def actRespawn (s : St) (t : Tid) : Option St :=
  match s.stacks[t]?, s.bypass[t]? with
  | some stk, some (some u) =>
    match curSlot stk with
    | none => none
    | some k =>
      match s.pools[k]? with
      | none => none
      | some P => some { s with bypass := s.bypass.set t none, pools := s.pools.set k (.task u :: P) }
  | _, _ => none

def actMiss (s : St) (t : Tid) : Option St :=
  match s.stacks[t]?, s.look[t]? with
  | some (.wait _ _ :: _), some l =>
    if l = .bypass ∧ s.bypass[t]? ≠ some none then none else some { s with look := s.look.set t (nextIn s.order l) }
  | _, _ => none

def actTakeBypass (s : St) (t : Tid) : Option St :=
  match s.stacks[t]?, s.bypass[t]? with
  | some (.wait g w :: rest), some (some u) =>
    match s.units[u]? with
    | none => none
    | some x =>
      if s.look[t]? = some .bypass ∧ x.st = .pending then
        some (startExec { s with bypass := s.bypass.set t none } t (.wait g w :: rest) u x)
      else none
  | _, _ => none

def actTakePool (s : St) (t : Tid) (v i : Nat) : Option St :=
  match s.stacks[t]? with
  | some (.wait _ w :: rest) =>
    match curSlot rest, s.pools[v]? with
    | some k, some P =>
      if s.bypass[t]? = some none ∧
         ((v = k ∧ s.look[t]? = some .localPool) ∨
          (v ≠ k ∧ s.look[t]? = some .steal ∧ s.slotArena[k]? = s.slotArena[v]?)) then
        match P[i]? with
        | none => none
        | some (.task u) =>
          match s.units[u]? with
          | none => none
          | some x =>
            if isoOk w x.iso = true ∧ x.st = .pending then
              some { s with pools := s.pools.set v (P.eraseIdx i), bypass := s.bypass.set t (some u),
                            look := s.look.set t .bypass }
            else none
        | some (.proxy p) =>
          match s.proxies[p]? with
          | none => none
          | some X =>
            match X.tag with
            | .shared =>
              match s.units[X.unit]? with
              | none => none
              | some x =>
                if isoOk w x.iso = true ∧ x.st = .pending then
                  some { s with pools := s.pools.set v (P.eraseIdx i),
                                proxies := s.proxies.set p { X with tag := .mboxCleans },
                                bypass := s.bypass.set t (some X.unit), look := s.look.set t .bypass }
                else none
            | .poolCleans =>
              some { s with pools := s.pools.set v (P.eraseIdx i), proxies := s.proxies.set p { X with tag := .freed } }
            | _ => none
      else none
    | _, _ => none
  | _ => none

def actTakeBox (s : St) (t : Tid) (i : Nat) : Option St :=
  match s.stacks[t]? with
  | some (.wait _ w :: rest) =>
    match curSlot rest with
    | none => none
    | some k =>
      match s.boxes[k]? with
      | none => none
      | some B =>
        if s.bypass[t]? = some none ∧ s.look[t]? = some .mailbox then
          match B[i]? with
          | none => none
          | some p =>
            match s.proxies[p]? with
            | none => none
            | some X =>
              match X.tag with
              | .shared =>
                match s.units[X.unit]? with
                | none => none
                | some x =>
                  if isoOk w x.iso = true ∧ x.st = .pending then
                    some { s with boxes := s.boxes.set k (B.eraseIdx i),
                                  proxies := s.proxies.set p { X with tag := .poolCleans },
                                  bypass := s.bypass.set t (some X.unit), look := s.look.set t .bypass }
                  else none
              | .mboxCleans =>
                some { s with boxes := s.boxes.set k (B.eraseIdx i), proxies := s.proxies.set p { X with tag := .freed } }
              | _ => none
        else none
  | _ => none

/-- which position of the dispatch loop serves stream `kind`; the critical stream is consulted at every position -/
def streamLookOk (kind : Nat) (l : Option Src) (w : Nat) (iso : Nat) : Bool :=
  match kind with
  | 0 => l == some .resume
  | 1 => l == some .fifo && w == 0
  | _ => isoOk w iso

def actTakeStream (s : St) (t : Tid) (kind i : Nat) : Option St :=
  match s.stacks[t]? with
  | some (.wait _ w :: rest) =>
    match curSlot rest with
    | none => none
    | some k =>
      match s.slotArena[k]? with
      | none => none
      | some a =>
        match s.streams[3 * a + kind]? with
        | none => none
        | some S =>
          match S[i]? with
          | none => none
          | some u =>
            match s.units[u]? with
            | none => none
            | some x =>
              if kind < 3 ∧ s.bypass[t]? = some none ∧ streamLookOk kind s.look[t]? w x.iso = true ∧ x.st = .pending then
                some { s with streams := s.streams.set (3 * a + kind) (S.eraseIdx i), bypass := s.bypass.set t (some u),
                              look := s.look.set t .bypass }
              else none
  | _ => none

/-- arena teardown (`mail_outbox::drain`): an emptied proxy left in a mailbox is freed by whoever destroys the arena -/
def actDrainBox (s : St) (k i : Nat) : Option St :=
  match s.boxes[k]? with
  | none => none
  | some B =>
    match B[i]? with
    | none => none
    | some p =>
      match s.proxies[p]? with
      | none => none
      | some X =>
        if X.tag = .mboxCleans then
          some { s with boxes := s.boxes.set k (B.eraseIdx i), proxies := s.proxies.set p { X with tag := .freed } }
        else none

/-- the unit's own work is finished: it releases its wait reference (`wait_context::release`, `fold_tree`) -/
def actComplete (s : St) (t : Tid) : Option St :=
  match s.stacks[t]? with
  | some (.exec u :: _) =>
    match s.units[u]? with
    | none => none
    | some x =>
      match s.groups[x.grp]? with
      | none => none
      | some G =>
        if x.st = .running then
          some { s with units := s.units.set u { x with st := .released },
                        groups := s.groups.set x.grp { G with refs := G.refs - 1 } }
        else none
  | _ => none

/-- `execute()` / `cancel()` returns to the dispatch loop -/
def actRet (s : St) (t : Tid) : Option St :=
  match s.stacks[t]? with
  | some (.exec u :: rest) =>
    match s.units[u]? with
    | none => none
    | some x =>
      if x.st = .released then
        some { s with units := s.units.set u { x with st := .done }, stacks := s.stacks.set t rest,
                      look := s.look.set t .bypass }
      else none
  | _ => none

def step (s : St) : Act → Option St
  | .newGroup t => actNewGroup s t
  | .newCtx => some { s with ctxs := s.ctxs ++ [false] }
  | .cancel c => actCancel s c
  | .enter t k => actEnter s t k
  | .leave t => actLeave s t
  | .beginWait t g iso => actBeginWait s t g iso
  | .waitReturn t => actWaitReturn s t
  | .submit t g c iso tg => actSubmit s t g c iso tg
  | .respawn t => actRespawn s t
  | .miss t => actMiss s t
  | .takeBypass t => actTakeBypass s t
  | .takePool t v i => actTakePool s t v i
  | .takeBox t i => actTakeBox s t i
  | .takeStream t kind i => actTakeStream s t kind i
  | .drainBox k i => actDrainBox s k i
  | .complete t => actComplete s t
  | .ret t => actRet s t

/-- run an action sequence; `none` as soon as one action is not enabled -/
def run (s : St) : List Act → Option St
  | [] => some s
  | a :: as => match step s a with
    | none => none
    | some s' => run s' as

/-- `s` is reachable from the initial state of some configuration by some action sequence (program + schedule) -/
def Reachable (s : St) : Prop :=
  ∃ slotArena narenas nthreads ord acts, run (init slotArena narenas nthreads ord) acts = some s

/-! ### measures used by the theorems -/

def poolCount (s : St) (e : Entry) : Nat := s.pools.flatten.count e
def boxCount (s : St) (p : Nat) : Nat := s.boxes.flatten.count p
def streamCount (s : St) (u : Nat) : Nat := s.streams.flatten.count u
def bypassCount (s : St) (u : Nat) : Nat := s.bypass.count (some u)
/-- live proxies (tag `shared`) that carry unit `u`: the unit is in a pool AND a mailbox through each of them -/
def liveProxy (s : St) (u : Nat) : Nat := s.proxies.countP (fun p => p.tag == .shared && p.unit == u)
/-- number of places unit `u` can be taken from -/
def occ (s : St) (u : Nat) : Nat := poolCount s (.task u) + streamCount s u + bypassCount s u + liveProxy s u
/-- number of `exec u` frames over all threads -/
def frameCount (s : St) (u : Nat) : Nat := s.stacks.flatten.count (.exec u)
/-- units of group `g` that still hold their wait reference -/
def live (s : St) (g : Nat) : Nat := s.units.countP (fun x => x.grp == g && (x.st == .pending || x.st == .running))

def topFrame (s : St) (t : Tid) : Option Frame := (s.stacks.getD t []).head?

end TbbVerif.C01.Dispatch
