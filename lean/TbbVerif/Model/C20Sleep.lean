/-
C20 — `Sleep`: resume-versus-sleep hand-shake of the arena's only thread (a thread that suspended a task and now runs
the coroutine's dispatch loop with `coroutine_waiter`, src/tbb/waiters.h) against the threads that make it runnable
again.  One model step per atomic access / per lock-protected region.  Executable, core Lean only.

SLEEPER (tid 0) — `coroutine_waiter::pause()` after the stealing back-off has expired:
  `ldPool`    arena::out_of_work → my_pool_state.try_clear_if: `state = my_state.load()`
  `casBusy`   `my_state.compare_exchange_strong(SET, busy)`            (busy = address of a local: the `tag`)
  `scan`      `has_tasks()`: is a task in any slot / stream (here: the resume stream)
  `casClear`  `compare_exchange_strong(busy, UNSET)` if nothing was found, else `(busy, SET)`
  `prepare`   concurrent_monitor::prepare_wait: under the mutex `node.my_epoch = my_epoch; my_waitset.add(node)`
  `pred`      the wake-up condition, first operand: `my_arena.is_empty()` = `my_pool_state.test()` (one load)
  `predRc`    ... second operand `sp->m_is_owner_recalled.load()`, then the generated fact `Cfg.pred` (as coded
              `!my_arena.is_empty() || sp->m_is_owner_recalled`) decides: true → cancel_wait
  `commit`    commit_wait: `node.my_epoch == my_epoch` ? semaphore P : cancel_wait (and prepare again)
  `parked`    blocked in `semaphore().P()` until a V
  `cancelLd`  cancel_wait: `my_is_in_list.load()`
  `cancelLk`  cancel_wait under the mutex: still in the list → remove
  `drain`     the node had been removed by a notifier: its V is consumed (`~sleep_node` / `node.reset()`: P)
  `idle`      back in the dispatch loop: may take the resume task / its own recall, or start the sleep path again

NOTIFIERS (tid k+1): kind `resume` = `r1::resume(sp)` after a successful `try_notify_resume()`:
  `start`       `my_resume_task_stream.push(...)`                  (iff `Cfg.pushFirst`, else at the end: `latePush`)
  `tasLoad`     advertise_new_work<wakeup> → my_pool_state.test_and_set: `state = my_state.load()`; SET → return
  `tasCasBusy`  saw busy: `compare_exchange_strong(state, SET)` ("interrupt the clear transaction")
  `tasCasUnset` `compare_exchange_strong(UNSET, SET)`; success → request_workers(wakeup_threads = true) →
  `ntfEmpty`    concurrent_monitor::notify: `my_waitset.empty()` → return
  `ntfLocked`   under the mutex: `++my_epoch`, remove the matching nodes
  `ntfV`        `semaphore().V()` of the removed node
kind `recall` = post_resume_action::notify: `start` = `recall_owner()` (`m_is_owner_recalled.store(true)`), then the
same `ntfEmpty`/`ntfLocked`/`ntfV` of `get_waiting_threads_monitor().notify(is_our_suspend_point)`.

Not modelled: my_mandatory_concurrency, adjust_demand (no effect on this hand-shake), the other task sources
(`scan` looks at the resume stream only), the internals of task_stream (push = one step), memory orders weaker than
sequential consistency (the code puts full fences at `prepare_wait`, `notify` and `advertise_new_work<wakeup>`).
-/
import TbbVerif.Core.Sched
import TbbVerif.Core.Proto

namespace TbbVerif.C20.Sleep

/-- facts extracted from the source on every run (Generated/C20.lean → `C20Gen.genCfg`) -/
structure Cfg where
  pred : Bool → Bool → Bool     -- coroutine_waiter's wake-up condition (arena not empty, owner recalled)
  scanSeesResume : Bool         -- arena::has_tasks() tests my_resume_task_stream (and the critical stream)
  advertises : Bool             -- r1::resume: advertise_new_work<arena::wakeup>() after a successful notify
  pushFirst : Bool              -- ... and the push of the resume task precedes it
  recallNotifies : Bool         -- post_resume_action::notify: monitor.notify(...) follows recall_owner()

def asCoded : Cfg :=
  { pred := fun n r => n || r, scanSeesResume := true, advertises := true, pushFirst := true, recallNotifies := true }

inductive Pool where
  | unset | set | busy (tag : Nat)
  deriving DecidableEq, Repr

inductive NKind where
  | resume | recall
  deriving DecidableEq, Repr

inductive NPc where
  | start | tasLoad | tasCasBusy | tasCasUnset | ntfEmpty | ntfLocked | ntfV | latePush | done
  deriving DecidableEq, Repr

inductive SPc where
  | idle | ldPool | casBusy | scan | casClear | prepare | pred | predRc | commit | parked | cancelLd | cancelLk | drain
  deriving DecidableEq, Repr

inductive SOp where
  | take               -- dispatch loop: pop of the resume stream
  | home               -- dispatch loop: get_self_recall_task saw the recall flag; the owner returns and clears it
  | sleep (tag : Nat)  -- the back-off expired: out_of_work() + sleep(); `tag` = value of `busy` (stack address)
  | clear (tag : Nat)  -- out_of_work() alone (arena::on_thread_leaving of an external reference)
  deriving DecidableEq, Repr

structure Nt where
  kind : NKind
  pc : NPc := .start
  seen : Nat := 0          -- the busy value read by test_and_set
  pushed : Bool := false
  deriving DecidableEq, Repr

structure St where
  pool : Pool := .set            -- arena::my_pool_state
  stream : Nat := 0              -- resume tasks in arena::my_resume_task_stream
  recalled : Bool := false       -- sp->m_is_owner_recalled of the sleeper's default dispatcher
  inList : Bool := false         -- the sleeper's wait node is in my_waitset
  epoch : Nat := 0               -- concurrent_monitor::my_epoch
  sem : Nat := 0                 -- the wait node's binary semaphore
  vOwner : Option Nat := none    -- ghost: the notifier that removed the node and still owes the V
  sl : SPc := .idle
  tag : Nat := 0
  found : Bool := false
  ne : Bool := false             -- the wake-up condition's first operand as read: the arena was not empty
  myEpoch : Nat := 0
  retry : Bool := false          -- commit_wait failed: cancel, then prepare_wait again (the loop of `wait()`)
  thenSleep : Bool := true       -- the clear transaction in progress is followed by sleep()
  ops : List SOp := []
  ns : List Nt := []
  deriving DecidableEq, Repr

/-- after cancel_wait: `wait()` either returns (predicate was true) or prepares again (commit failed) -/
def afterCancel (s : St) : St :=
  if s.retry then { s with sl := .prepare, retry := false } else { s with sl := .idle }

/-- after out_of_work(): the waiter goes on to sleep(), a leaving thread is done -/
def afterClear (s : St) : SPc := if s.thenSleep then .prepare else .idle

def stepS (cfg : Cfg) (s : St) : St :=
  match s.sl with
  | .idle =>
      match s.ops with
      | [] => s
      | .take :: r => if 0 < s.stream then { s with stream := s.stream - 1, ops := r } else { s with ops := r }
      | .home :: r => if s.recalled then { s with recalled := false, ops := r } else { s with ops := r }
      | .sleep tag :: r => { s with sl := .ldPool, tag := tag, thenSleep := true, ops := r }
      | .clear tag :: r => { s with sl := .ldPool, tag := tag, thenSleep := false, ops := r }
  | .ldPool => if s.pool = .set then { s with sl := .casBusy } else { s with sl := afterClear s }
  | .casBusy => if s.pool = .set then { s with pool := .busy s.tag, sl := .scan } else { s with sl := afterClear s }
  | .scan => { s with found := cfg.scanSeesResume && decide (0 < s.stream), sl := .casClear }
  | .casClear =>
      if s.pool = .busy s.tag then { s with pool := if s.found then .set else .unset, sl := afterClear s }
      else { s with sl := afterClear s }
  | .prepare => { s with inList := true, myEpoch := s.epoch, sl := .pred }
  | .pred => { s with ne := decide (s.pool ≠ .unset), sl := .predRc }
  | .predRc =>
      if cfg.pred s.ne s.recalled then { s with sl := .cancelLd, retry := false }
      else { s with sl := .commit }
  | .commit =>
      if s.myEpoch = s.epoch then { s with sl := .parked } else { s with sl := .cancelLd, retry := true }
  | .parked => if 0 < s.sem then { s with sem := s.sem - 1, sl := .idle } else s
  | .cancelLd => if s.inList then { s with sl := .cancelLk } else { s with sl := .drain }
  | .cancelLk => if s.inList then afterCancel { s with inList := false } else { s with sl := .drain }
  | .drain => if 0 < s.sem then afterCancel { s with sem := s.sem - 1 } else s

/-- where a notifier goes when its advertise / notify part is over -/
def finish (n : Nt) : NPc :=
  if n.kind = .resume ∧ n.pushed = false then .latePush else .done

def setN (s : St) (j : Nat) (n : Nt) : St := { s with ns := s.ns.set j n }

def stepN (cfg : Cfg) (s : St) (j : Nat) (n : Nt) : St :=
  match n.pc with
  | .start =>
      match n.kind with
      | .resume =>
          let s1 := if cfg.pushFirst then { s with stream := s.stream + 1 } else s
          let n1 := { n with pushed := cfg.pushFirst }
          setN s1 j { n1 with pc := if cfg.advertises then .tasLoad else finish n1 }
      | .recall =>
          setN { s with recalled := true } j { n with pc := if cfg.recallNotifies then .ntfEmpty else .done }
  | .tasLoad =>
      match s.pool with
      | .set => setN s j { n with pc := finish n }
      | .busy k => setN s j { n with pc := .tasCasBusy, seen := k }
      | .unset => setN s j { n with pc := .tasCasUnset }
  | .tasCasBusy =>
      if s.pool = .busy n.seen then setN { s with pool := .set } j { n with pc := finish n }
      else if s.pool = .unset then setN s j { n with pc := .tasCasUnset }
      else setN s j { n with pc := finish n }
  | .tasCasUnset =>
      if s.pool = .unset then setN { s with pool := .set } j { n with pc := .ntfEmpty }
      else setN s j { n with pc := finish n }
  | .ntfEmpty => if s.inList then setN s j { n with pc := .ntfLocked } else setN s j { n with pc := finish n }
  | .ntfLocked =>
      if s.inList then setN { s with epoch := s.epoch + 1, inList := false, vOwner := some j } j { n with pc := .ntfV }
      else setN { s with epoch := s.epoch + 1 } j { n with pc := finish n }
  | .ntfV => setN { s with sem := s.sem + 1, vOwner := none } j { n with pc := finish n }
  | .latePush => setN { s with stream := s.stream + 1 } j { n with pc := .done, pushed := true }
  | .done => s

def step (cfg : Cfg) (s : St) (t : Tid) : St :=
  match t with
  | 0 => stepS cfg s
  | j + 1 =>
      match s.ns[j]? with
      | none => s
      | some n => stepN cfg s j n

def initSt (poolSet : Bool) (kinds : List NKind) (ops : List SOp) : St :=
  { pool := if poolSet then .set else .unset, ops := ops, ns := kinds.map (fun k => { kind := k }) }

def sys (cfg : Cfg) (poolSet : Bool) (kinds : List NKind) (ops : List SOp) : Sys St :=
  { init := initSt poolSet kinds ops, step := step cfg }

/-- the sleeper waits on its semaphore and no V has been posted -/
def blocked (s : St) : Bool := (s.sl == .parked || s.sl == .drain) && s.sem == 0

/-- no notifier is in the middle of its resume() / recall: each either has not started or has returned -/
def quiet (s : St) : Bool := s.ns.all (fun n => n.pc == .start || n.pc == .done)

/-! ## driver: run a schedule of the model under a configuration (used by the failing-input search to exhibit the
lost resume on the MODEL when a generated fact deviates) -/

open Proto

def showPool : Pool → String
  | .unset => "unset" | .set => "set" | .busy k => s!"busy{k}"

def parseKinds (w : String) : List NKind :=
  w.toList.filterMap (fun c => if c = 'r' then some .resume else if c = 'c' then some .recall else none)

def parseOps (w : String) : List SOp :=
  (w.splitOn ",").filterMap (fun x =>
    if x = "t" then some .take
    else if x = "h" then some .home
    else if x.startsWith "s" then (nat? (x.drop 1).toString).map .sleep
    else if x.startsWith "c" then (nat? (x.drop 1).toString).map .clear
    else none)

def parseSched (w : String) : List Tid := (w.splitOn ",").filterMap nat?

def summary (s : St) : String :=
  s!"sl={repr s.sl} pool={showPool s.pool} stream={s.stream} recalled={showBool s.recalled} inList={showBool s.inList} " ++
  s!"epoch={s.epoch} sem={s.sem} quiet={showBool (quiet s)} blocked={showBool (blocked s)} " ++
  s!"lost={showBool (blocked s && quiet s && (decide (0 < s.stream) || s.recalled))}"

/-- `run <poolSet 0|1> <kinds r|c...> <ops t|h|s<tag>|c<tag>,...> <sched t,t,...>` under configuration `cfg` -/
def drive (cfg : Cfg) (_ : Unit) (ws : List String) : Unit × String :=
  match ws with
  | ["run", p, k, o, sch] =>
      let s := (sys cfg (p = "1") (parseKinds k) (parseOps o)).run (parseSched sch)
      ((), summary s)
  | _ => ((), "bad-op")

def driver (cfg : Cfg) : Proto.Driver := { σ := Unit, init := (), step := drive cfg }

end TbbVerif.C20.Sleep
