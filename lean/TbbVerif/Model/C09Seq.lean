/-
C09 — the non-concurrent and rarely used operations of `concurrent_queue` / `concurrent_bounded_queue` as coded
(`/repo/include/oneapi/tbb/concurrent_queue.h`, `_concurrent_queue_base.h`), at ticket level: executable model, core Lean only.

State of one queue object = the representation's words: `head_counter`, `tail_counter`, `n_invalid_entries`, the slot of every ticket
(`pending` = nothing there, `item v`, `invalid` = its constructor threw), and the object's own `my_capacity`.
The operations are the sequential semantics of the code paths:
  push / emplace (and a push whose constructor throws), try_pop (skips invalidated tickets, `--n_invalid_entries` each), try_push /
  try_emplace (fullness test on ticket occupancy `tail - head ≥ my_capacity`), `size` (signed `tail - head - n_invalid`), `unsafe_size`
  (clamped at 0), `empty`, iteration `unsafe_begin … unsafe_end` (`get_item` / `advance`: ticket walk that skips clear mask bits),
  `clear`, `set_capacity` (negative → `infinite_capacity`), copy construction / assignment (`concurrent_queue_rep::assign` copies the
  three counters and, per lane, the pages between head and tail: the slots of `[head, tail)`), move construction / assignment with equal
  allocators (the representations are swapped) and with unequal allocators (element-wise move through `assign`, then `src.clear()`),
  `swap` (representation pointers only — `my_capacity` stays with the object, as coded).
The page-level side of copy / clear / iteration (which slots of which page) is `Pg.copyLane` / `Pg.clearPages` (Model/C09Page.lean) and
the differential against the real containers (checks/c09ops.py).
-/
import TbbVerif.Model.C09

namespace TbbVerif.C09.Seq

structure SQ where
  head : Nat := 0
  tail : Nat := 0
  ninv : Nat := 0
  slot : Nat → Slot := fun _ => .pending
  cap : Int := 0
  bounded : Bool := false

def itemOf : Slot → List Nat
  | .item v => [v]
  | _ => []

/-- the items of the tickets `k, k+1, …, k+n-1`, in ticket order -/
def absGo (s : Nat → Slot) : Nat → Nat → List Nat
  | _, 0 => []
  | k, n + 1 => itemOf (s k) ++ absGo s (k + 1) n

/-- abstraction: the FIFO content -/
def abs (q : SQ) : List Nat := absGo q.slot q.head (q.tail - q.head)

def invCount (s : Nat → Slot) : Nat → Nat → Nat
  | _, 0 => 0
  | k, n + 1 => (if s k = .invalid then 1 else 0) + invCount s (k + 1) n

/-- well-formed quiescent representation -/
def WF (q : SQ) : Prop :=
  q.head ≤ q.tail ∧ q.ninv = invCount q.slot q.head (q.tail - q.head) ∧ ∀ k, q.head ≤ k → k < q.tail → q.slot k ≠ .pending

/-- push / emplace; `okc = false`: the element constructor throws (ticket invalidated) -/
def push (q : SQ) (v : Nat) (okc : Bool) : SQ :=
  if okc then { q with slot := upd q.slot q.tail (.item v), tail := q.tail + 1 }
  else { q with slot := upd q.slot q.tail .invalid, tail := q.tail + 1, ninv := q.ninv + 1 }

/-- `internal_try_pop`: draw head tickets while `tail > head`; an invalid slot is skipped -/
def popGo (s : Nat → Slot) : Nat → Nat → Nat → Nat × Nat × Option Nat
  | h, ni, 0 => (h, ni, none)
  | h, ni, f + 1 =>
    match s h with
    | .item v => (h + 1, ni, some v)
    | _ => popGo s (h + 1) (ni - 1) f

def tryPop (q : SQ) : SQ × Option Nat :=
  let r := popGo q.slot q.head q.ninv (q.tail - q.head)
  ({ q with head := r.1, ninv := r.2.1 }, r.2.2)

/-- `internal_push_if_not_full` -/
def tryPush (q : SQ) (v : Nat) (okc : Bool) : SQ × Bool :=
  if (q.tail : Int) - (q.head : Int) ≥ q.cap then (q, false) else (push q v okc, true)

/-- `concurrent_queue_rep::size` (signed) -/
def size (q : SQ) : Int := (q.tail : Int) - (q.head : Int) - (q.ninv : Int)
/-- `concurrent_queue::unsafe_size` -/
def unsafeSize (q : SQ) : Nat := (size q).toNat
def empty (q : SQ) : Bool := decide (size q ≤ 0)

/-- the iterator: `get_item(k)` yields the slot unless its mask bit is clear, `advance` moves to the next ticket until `tail_counter` -/
def iterGo (s : Nat → Slot) : Nat → Nat → List Nat
  | _, 0 => []
  | k, f + 1 =>
    match s k with
    | .item v => v :: iterGo s (k + 1) f
    | _ => iterGo s (k + 1) f

def iter (q : SQ) : List Nat := iterGo q.slot q.head (q.tail - q.head)

/-- `clear()`: every lane cleared, the three counters zero -/
def clear (q : SQ) : SQ := { cap := q.cap, bounded := q.bounded }

/-- `set_capacity` -/
def setCap (q : SQ) (c : Int) : SQ := { q with cap := if c < 0 then Generated.C09.infinite_capacity else c }

/-- `concurrent_queue_rep::assign(src)` into the representation of `dst` (cleared or fresh): counters and the slots between them -/
def assignRep (dst src : SQ) : SQ :=
  { dst with head := src.head, tail := src.tail, ninv := src.ninv,
             slot := fun k => if src.head ≤ k ∧ k < src.tail then src.slot k else .pending }

/-- the capacity a freshly constructed object has -/
def defaultCap (bounded : Bool) (itemSize : Nat) : Int :=
  if bounded then ((2 ^ 64 - 1) / (if itemSize > 1 then itemSize else 2) : Nat) else 0

def fresh (bounded : Bool) (itemSize : Nat) : SQ := { cap := defaultCap bounded itemSize, bounded := bounded }

/-- exchange of the representations (`internal_swap`); the capacities stay -/
def swapRep (a b : SQ) : SQ × SQ := ({ b with cap := a.cap }, { a with cap := b.cap })

/-! ### how many pages a quiescent queue holds (the page ledger of the differential) -/

/-- number of tickets below `x` that belong to lane `l` -/
def laneCount (l x : Nat) : Nat := ((List.range x).filter (fun k => lane k == l)).length

def lanePages (ipp hr tr : Nat) : Nat := (tr + ipp - 1) / ipp - hr / ipp

def livePages (q : SQ) (ipp : Nat) : Nat :=
  (List.range nq).foldl (fun a l => a + lanePages ipp (laneCount l q.head) (laneCount l q.tail)) 0

/-! ### driver: a store of queue objects, one line per operation (mirrors harness/c09/seq.cpp) -/

open Proto

structure Store where
  qs : List (Nat × SQ) := []
  ipp : Nat := 32
  itemSize : Nat := 8

def Store.get (s : Store) (i : Nat) : Option SQ := s.qs.lookup i
def Store.set (s : Store) (i : Nat) (q : SQ) : Store := { s with qs := (i, q) :: s.qs.filter (fun p => p.1 != i) }
def Store.del (s : Store) (i : Nat) : Store := { s with qs := s.qs.filter (fun p => p.1 != i) }

def Store.pages (s : Store) : Nat := s.qs.foldl (fun a p => a + livePages p.2 s.ipp) 0

def showQ (q : SQ) : String := s!"[{showNats (iter q)}] size {size q} empty {showBool (empty q)} cap {q.cap}"

def drive (s : Store) (ws : List String) : Store × String :=
  let fin (s' : Store) (out : String) : Store × String := (s', s!"{out} | pages {s'.pages}")
  match ws with
  | ["reset", ipp, isz] =>
    match nat? ipp, nat? isz with
    | some i, some z => ({ ipp := i, itemSize := z }, "ok")
    | _, _ => (s, "bad-op")
  | ["new", id, kind] =>
    match nat? id with
    | some i => fin (s.set i (fresh (kind == "b") s.itemSize)) "ok"
    | none => (s, "bad-op")
  | ["final"] => fin { s with qs := [] } "final items 0"
  | ["del", id] =>
    match nat? id with
    | some i => fin (s.del i) "ok"
    | none => (s, "bad-op")
  | [op, id] =>
    match nat? id with
    | none => (s, "bad-op")
    | some i =>
      match s.get i with
      | none => (s, "bad-op")
      | some q =>
        match op with
        | "trypop" =>
          let (q', r) := tryPop q
          fin (s.set i q') (match r with | some v => s!"val {v}" | none => "empty")
        | "pushf" => fin (s.set i (push q 0 false)) "threw"
        | "size" => fin s (if q.bounded then s!"size {size q}" else s!"size {unsafeSize q}")
        | "empty" => fin s s!"empty {showBool (empty q)}"
        | "iter" => fin s s!"iter {showNats (iter q)}"
        | "clear" => fin (s.set i (clear q)) "ok"
        | "cap" => fin s s!"cap {q.cap}"
        | "show" => fin s (showQ q)
        | _ => (s, "bad-op")
  | [op, id, arg] =>
    match nat? id with
    | none => (s, "bad-op")
    | some i =>
      match op, s.get i with
      | "push", some q => match nat? arg with
        | some v => fin (s.set i (push q v true)) "ok"
        | none => (s, "bad-op")
      | "trypush", some q => match nat? arg with
        | some v =>
          let (q', r) := tryPush q v true
          fin (s.set i q') (if r then "ok" else "full")
        | none => (s, "bad-op")
      | "trypushf", some q =>
        let (q', r) := tryPush q 0 false
        fin (s.set i q') (if r then "threw" else "full")
      | "setcap", some q => match int? arg with
        | some c => fin (s.set i (setCap q c)) "ok"
        | none => (s, "bad-op")
      -- copy construction: `copy <new> <src>`
      | "copy", _ => match nat? arg with
        | some j => match s.get j with
          | some src => fin (s.set i (assignRep (fresh src.bounded s.itemSize) src)) "ok"
          | none => (s, "bad-op")
        | none => (s, "bad-op")
      -- copy assignment: `copyassign <dst> <src>`
      | "copyassign", some q => match nat? arg with
        | some j => match s.get j with
          | some src => fin (s.set i (if i = j then q else assignRep (clear q) src)) "ok"
          | none => (s, "bad-op")
        | none => (s, "bad-op")
      | "swap", some q => match nat? arg with
        | some j => match s.get j with
          | some r =>
            if i = j then fin s "ok" else
            let (a, b) := swapRep q r
            fin ((s.set i a).set j b) "ok"
          | none => (s, "bad-op")
        | none => (s, "bad-op")
      | _, _ => (s, "bad-op")
  | [op, id, arg, eq] =>
    match nat? id, nat? arg with
    | some i, some j =>
      match s.get j with
      | none => (s, "bad-op")
      | some src =>
        match op with
        -- move construction `move <new> <src> <eq|ne>`: equal allocators swap the representation into a fresh object,
        -- unequal allocators move element-wise and clear the source
        | "move" =>
          if eq == "eq" then
            let (a, b) := swapRep (fresh src.bounded s.itemSize) src
            fin ((s.set i a).set j b) "ok"
          else fin ((s.set i (assignRep (fresh src.bounded s.itemSize) src)).set j (clear src)) "ok"
        | "moveassign" =>
          match s.get i with
          | none => (s, "bad-op")
          | some q =>
            if i = j then fin s "ok"
            else if eq == "eq" then
              let (a, b) := swapRep (clear q) src
              fin ((s.set i a).set j b) "ok"
            else fin ((s.set i (assignRep (clear q) src)).set j (clear src)) "ok"
        | _ => (s, "bad-op")
    | _, _ => (s, "bad-op")
  | _ => (s, "bad-op")

def driver : Proto.Driver := { σ := Store, init := {}, step := drive }

end TbbVerif.C09.Seq
