/-
C03 — exception capture / cancel / rethrow: executable models (core Lean only; linked into drv_c03).

`DispatchEH`  N dispatching threads (any number: thread states are a function `Tid → Pc`) over a pool of task
              instances with SCRIPTED behaviour, one `task_group_context` (`cancelled`, `exc`), one wait counter.
              The steps follow `task_dispatcher::local_wait_for_all` (src/tbb/task_dispatcher.h):

                  if (ed.context->is_group_execution_cancelled()) t = t->cancel(ed); else t = t->execute(ed);   -- check
                  ...
                  } catch (...) {
                      if (ed.context->cancel_group_execution())            -- caught (relaxed load) / xchg (exchange(1))
                          ed.context->my_exception.store(allocate());      -- store   (only the exchange winner)
                  }                                                        -- the loop continues with the SAME `t`
                                                                           -- (now finalised through cancel())

              `execute_and_wait` (task_dispatcher.cpp): the waiter leaves the loop only when the wait counter is 0,
              loads `my_exception`, rethrows; `task_group::wait` (task_group.h) then reads the cancellation flag and
              resets the context.  Task finalisation follows the library's task types: destroy the task object, run
              the fold/join step (`reduction_tree_node::join`: the user callback runs only if the context is not
              cancelled — and may itself throw), release the wait reference.

`ReduceEH`    the parallel_reduce join tree (partitioner.h `fold_tree`, parallel_reduce.h `reduction_tree_node`):
              reference counts, zombie (right) bodies, join skipped when cancelled, node deletion.
-/
import TbbVerif.Core.Sched
import TbbVerif.Core.Proto

namespace TbbVerif.C03

abbrev ExcId := Nat

/-- What a piece of user code does when it is run. -/
inductive Outcome where
  | ok
  | throw (e : ExcId)
  deriving DecidableEq, Repr, Inhabited

/-- Script of a task.  `kids` are indices into the program (templates: every spawn creates a fresh instance). -/
structure Spec where
  kids : List Nat
  body : Outcome
  /-- user callback run inside the finalisation (reduce `join`); skipped when the context is cancelled -/
  join : Outcome
  deriving DecidableEq, Repr, Inhabited

abbrev Prog := List Spec

inductive TSt where
  | ready                 -- spawned, in some task pool
  | held (t : Tid)        -- current task `t` of a dispatching thread
  | done                  -- finalised, wait reference released
  deriving DecidableEq, Repr, Inhabited

structure Task where
  spec : Spec
  st : TSt
  epoch : Nat
  execs : Nat := 0        -- times the body was entered
  fins : Nat := 0         -- times the task object was destroyed (finalize)
  rels : Nat := 0         -- times its wait reference was released
  deriving DecidableEq, Repr, Inhabited

inductive WaitResult where
  | complete
  | canceled
  | rethrown (e : ExcId)
  deriving DecidableEq, Repr, Inhabited

/-- Program counter of a dispatching thread.  Thread 0 is the thread that calls the waiting function. -/
inductive Pc where
  | idle                            -- in the dispatch loop without a task
  | check (i : Nat)                 -- has `t = task i`; next: load `my_cancellation_requested`
  | running (i : Nat) (k : Nat)     -- inside `execute()`: `k` children submitted so far
  | finA (i : Nat)                  -- finalize: destroy the task object
  | finJ (i : Nat)                  -- finalize: fold step, user join callback unless cancelled
  | finB (i : Nat)                  -- finalize: release the wait reference
  | caught (i : Nat) (e : ExcId)    -- catch(...): relaxed load in cancel_group_execution
  | xchg (i : Nat) (e : ExcId)      -- catch(...): exchange(1)
  | store (i : Nat) (e : ExcId)     -- catch(...): winner stores the exception
  | wspawn (k : Nat)                -- waiter: submitting root `k` of the current round
  | wexit                           -- waiter: left the loop (counter was 0); next: load `my_exception`
  | wreset (oe : Option ExcId)      -- waiter: on_completion — read flag, reset the context, return / rethrow
  | wdone                           -- waiter: all rounds finished
  deriving DecidableEq, Repr, Inhabited

/-- Summary of one completed wait (one context epoch). -/
structure Epoch where
  res : WaitResult
  thrown : List ExcId       -- every exception thrown by the group's work in this epoch
  extC : Bool               -- the context was cancelled by somebody else (not by the catch block)
  stores : Nat              -- stores to `my_exception` in this epoch
  deriving DecidableEq, Repr, Inhabited

structure State where
  prog : Prog
  rounds : List (List Nat)      -- root tasks (program indices) submitted before each wait
  tasks : List Task
  pcs : Tid → Pc
  cancelled : Bool              -- my_cancellation_requested
  exc : Option ExcId            -- my_exception
  count : Nat                   -- wait counter
  epoch : Nat
  -- ghost
  thrown : List ExcId
  stores : Nat
  winner : Option Tid
  extC : Bool
  results : List Epoch          -- most recent first

inductive Act where
  | thr (t : Tid) (choice : Nat)     -- thread `t` takes its next step (`choice`: which task an idle thread takes)
  | extCancel                        -- somebody else calls `cancel_group_execution` on the context
  deriving DecidableEq, Repr, Inhabited

def setPc (s : State) (t : Tid) (p : Pc) : State :=
  { s with pcs := fun u => if u = t then p else s.pcs u }

def modTask (s : State) (i : Nat) (f : Task → Task) : State :=
  match s.tasks[i]? with
  | some tk => { s with tasks := s.tasks.set i (f tk) }
  | none => s

/-- Submit one instance of program entry `j` (takes a wait reference).  Unknown entries submit nothing. -/
def spawn (s : State) (j : Nat) : State :=
  match s.prog[j]? with
  | some sp => { s with tasks := s.tasks ++ [{ spec := sp, st := .ready, epoch := s.epoch }], count := s.count + 1 }
  | none => s

def init (prog : Prog) (rounds : List (List Nat)) : State :=
  { prog := prog, rounds := rounds, tasks := [], pcs := fun t => if t = 0 then .wspawn 0 else .idle,
    cancelled := false, exc := none, count := 0, epoch := 0,
    thrown := [], stores := 0, winner := none, extC := false, results := [] }

def specOf (s : State) (i : Nat) : Spec :=
  match s.tasks[i]? with
  | some tk => tk.spec
  | none => default

/-- what the waiting call reports: the stored exception is rethrown, otherwise the status from the flag -/
def waitRes (oe : Option ExcId) (cancelled : Bool) : WaitResult :=
  match oe with
  | some e => .rethrown e
  | none => if cancelled then .canceled else .complete

/-- One step of thread `t`.  The second component is an exception that propagates OUT of the thread's
dispatch loop / waiting call in this step. -/
def stepThr (s : State) (t : Tid) (choice : Nat) : State × Option ExcId :=
  match s.pcs t with
  | .idle =>
    if t = 0 ∧ s.count = 0 then (setPc s t .wexit, none)
    else match s.tasks[choice]? with
      | some tk =>
        if tk.st = .ready then (setPc (modTask s choice fun x => { x with st := .held t }) t (.check choice), none)
        else (s, none)
      | none => (s, none)
  | .check i =>
    if s.cancelled then (setPc s t (.finA i), none)
    else (setPc (modTask s i fun x => { x with execs := x.execs + 1 }) t (.running i 0), none)
  | .running i k =>
    let sp := specOf s i
    match sp.kids[k]? with
    | some j => (setPc (spawn s j) t (.running i (k + 1)), none)
    | none =>
      match sp.body with
      | .ok => (setPc s t (.finA i), none)
      | .throw e => (setPc { s with thrown := e :: s.thrown } t (.caught i e), none)
  | .finA i => (setPc (modTask s i fun x => { x with fins := x.fins + 1 }) t (.finJ i), none)
  | .finJ i =>
    match (specOf s i).join with
    | .ok => (setPc s t (.finB i), none)
    | .throw e =>
      if s.cancelled then (setPc s t (.finB i), none)
      else (setPc { s with thrown := e :: s.thrown } t (.caught i e), none)
  | .finB i =>
    (setPc (modTask { s with count := s.count - 1 } i fun x => { x with rels := x.rels + 1, st := .done }) t .idle, none)
  | .caught i e =>
    if s.cancelled then (setPc s t (.check i), none) else (setPc s t (.xchg i e), none)
  | .xchg i e =>
    if s.cancelled then (setPc s t (.check i), none)
    else (setPc { s with cancelled := true, winner := some t } t (.store i e), none)
  | .store i e => (setPc { s with exc := some e, stores := s.stores + 1 } t (.check i), none)
  | .wspawn k =>
    match (s.rounds.getD s.epoch [])[k]? with
    | some j => (setPc (spawn s j) t (.wspawn (k + 1)), none)
    | none => (setPc s t .idle, none)
  | .wexit => (setPc s t (.wreset s.exc), none)
  | .wreset oe =>
    let res : WaitResult := waitRes oe s.cancelled
    let s1 : State := { s with
      results := { res := res, thrown := s.thrown, extC := s.extC, stores := s.stores } :: s.results,
      exc := none, cancelled := false, epoch := s.epoch + 1,
      thrown := [], stores := 0, winner := none, extC := false }
    (setPc s1 t (if s.epoch + 1 < s.rounds.length then .wspawn 0 else .wdone), oe)
  | .wdone => (s, none)

def step (s : State) (a : Act) : State × Option ExcId :=
  match a with
  | .thr t c => stepThr s t c
  | .extCancel => if s.cancelled then (s, none) else ({ s with cancelled := true, extC := true }, none)

def runFrom (s : State) (sched : List Act) : State := sched.foldl (fun s a => (step s a).1) s

def run (prog : Prog) (rounds : List (List Nat)) (sched : List Act) : State := runFrom (init prog rounds) sched

/-- Exceptions that left a thread other than the waiter, over a whole schedule (ghost observer). -/
def escapes (s : State) : List Act → List (Tid × ExcId)
  | [] => []
  | a :: as =>
    let r := step s a
    let rest := escapes r.1 as
    match a, r.2 with
    | .thr t _, some e => if t = 0 then rest else (t, e) :: rest
    | _, _ => rest

/-! ## ReduceEH -/

inductive LSt where
  | unstarted | running | arrived | merged
  deriving DecidableEq, Repr, Inhabited

inductive NSt where
  | active      -- m_ref_count > 0
  | joining     -- the last child decremented it to 0: this thread must join and delete the node
  | arrived     -- node deleted; the same thread is about to decrement the parent
  | merged      -- the parent's count was decremented
  deriving DecidableEq, Repr, Inhabited

/-- A join tree.  `leaf` = a start_reduce task working on a leaf range; `node` = reduction_tree_node. -/
inductive RT where
  | leaf (st : LSt)
  | node (ref : Nat) (st : NSt) (zombie : Bool) (joined deleted zdestroyed : Nat) (l r : RT)
  deriving DecidableEq, Repr, Inhabited

/-- has this subtree handed its reference to its parent? -/
def RT.merged : RT → Bool
  | .leaf st => st == .merged
  | .node _ st .. => st == .merged

def RT.arrived : RT → Bool
  | .leaf st => st == .arrived
  | .node _ st .. => st == .arrived

def RT.setMerged : RT → RT
  | .leaf _ => .leaf .merged
  | .node ref _ z j d zd l r => .node ref .merged z j d zd l r

inductive ROp where
  | start (right : Bool) (mkZombie : Bool)  -- child leaf: execute()/cancel() entered; right child seeing ref = 2 may split the body
  | finish (right : Bool)                   -- child leaf: body done (or cancelled), task destroyed, fold begins
  | dec (right : Bool)                      -- `--n->m_ref_count` by the folder coming from that child
  | joinDel                                 -- `self->join(ctx); delete self`
  deriving DecidableEq, Repr, Inhabited

/-- apply an operation at the root of `t` (a node) -/
def RT.opHere (cancelled : Bool) : RT → ROp → RT
  | .node ref st z j d zd l r, .start right mk =>
    let c := if right then r else l
    match c with
    | .leaf .unstarted =>
      let z' := z || (mk && right && ref == 2)
      if right then .node ref st z' j d zd l (.leaf .running) else .node ref st z' j d zd (.leaf .running) r
    | _ => .node ref st z j d zd l r
  | .node ref st z j d zd l r, .finish right =>
    let c := if right then r else l
    match c with
    | .leaf .running => if right then .node ref st z j d zd l (.leaf .arrived) else .node ref st z j d zd (.leaf .arrived) r
    | _ => .node ref st z j d zd l r
  | .node ref st z j d zd l r, .dec right =>
    let c := if right then r else l
    if c.arrived then
      let ref' := ref - 1
      let st' := if ref' == 0 then NSt.joining else st
      if right then .node ref' st' z j d zd l c.setMerged else .node ref' st' z j d zd c.setMerged r
    else .node ref st z j d zd l r
  | .node ref st z j d zd l r, .joinDel =>
    if st == .joining then
      .node ref .arrived z (j + (if z && !cancelled then 1 else 0)) (d + 1) (zd + (if z then 1 else 0)) l r
    else .node ref st z j d zd l r
  | t, _ => t

/-- apply an operation at the node addressed by `path` (false = left, true = right) -/
def RT.opAt (cancelled : Bool) : RT → List Bool → ROp → RT
  | t, [], op => t.opHere cancelled op
  | .node ref st z j d zd l r, b :: p, op =>
    if b then .node ref st z j d zd l (RT.opAt cancelled r p op) else .node ref st z j d zd (RT.opAt cancelled l p op) r
  | t, _ :: _, _ => t

structure RState where
  tree : RT
  cancelled : Bool
  waitRef : Nat        -- wait_node::m_wait
  released : Nat       -- times the root released the wait context

inductive RAct where
  | op (path : List Bool) (o : ROp)
  | startTop            -- the tree is a single leaf: the root task starts / finishes
  | finishTop
  | decRoot             -- the folder arriving at the wait_node
  | cancel
  deriving DecidableEq, Repr, Inhabited

def rstep (s : RState) : RAct → RState
  | .op p o => { s with tree := s.tree.opAt s.cancelled p o }
  | .startTop => match s.tree with
    | .leaf .unstarted => { s with tree := .leaf .running }
    | _ => s
  | .finishTop => match s.tree with
    | .leaf .running => { s with tree := .leaf .arrived }
    | _ => s
  | .decRoot =>
    if s.tree.arrived then { s with tree := s.tree.setMerged, waitRef := s.waitRef - 1, released := s.released + 1 } else s
  | .cancel => { s with cancelled := true }

/-- shapes: the tree before anything ran -/
inductive Shape where
  | leaf
  | node (l r : Shape)
  deriving Repr, Inhabited

def Shape.fresh : Shape → RT
  | .leaf => .leaf .unstarted
  | .node l r => .node 2 .active false 0 0 0 l.fresh r.fresh

def rinit (sh : Shape) : RState := { tree := sh.fresh, cancelled := false, waitRef := 1, released := 0 }

def rrun (sh : Shape) (sched : List RAct) : RState := sched.foldl rstep (rinit sh)

/-- totals over a tree: (nodes, zombies created, joins, node deletions, zombie destructions) -/
def RT.totals : RT → Nat × Nat × Nat × Nat × Nat
  | .leaf _ => (0, 0, 0, 0, 0)
  | .node _ _ z j d zd l r =>
    let a := l.totals
    let b := r.totals
    (1 + a.1 + b.1, (if z then 1 else 0) + a.2.1 + b.2.1, j + a.2.2.1 + b.2.2.1, d + a.2.2.2.1 + b.2.2.2.1,
      zd + a.2.2.2.2 + b.2.2.2.2)

/-! ## line driver (validate mode): the check feeds the action sequence derived from the implementation's
task-level event log; every action must be enabled and report the same observable outcome. -/

open TbbVerif.Proto

def showOutcome : Outcome → String
  | .ok => "ok"
  | .throw e => s!"t{e}"

def parseOutcome (w : String) : Option Outcome :=
  if w = "ok" then some .ok
  else if w.startsWith "t" then (w.drop 1).toString.toNat?.map Outcome.throw
  else none

def showRes : WaitResult → String
  | .complete => "complete"
  | .canceled => "canceled"
  | .rethrown e => s!"rethrow {e}"

def showPc : Pc → String
  | .idle => "idle"
  | .check i => s!"check {i}"
  | .running i k => s!"running {i} {k}"
  | .finA i => s!"finA {i}"
  | .finJ i => s!"finJ {i}"
  | .finB i => s!"finB {i}"
  | .caught i e => s!"caught {i} {e}"
  | .xchg i e => s!"xchg {i} {e}"
  | .store i e => s!"store {i} {e}"
  | .wspawn k => s!"wspawn {k}"
  | .wexit => "wexit"
  | .wreset oe => match oe with
    | some e => s!"wreset {e}"
    | none => "wreset -"
  | .wdone => "wdone"

/-- what a thread step did, as seen from outside -/
def describe (s : State) (t : Tid) (choice : Nat) (s' : State) (out : Option ExcId) : String :=
  match s.pcs t, s'.pcs t with
  | .idle, .wexit => "leave"
  | .idle, .check i => s!"take {i}"
  | .idle, _ => "stutter"
  | .check _, .finA i => s!"check cancel {i}"
  | .check _, .running i _ => s!"check exec {i}"
  | .running _ _, .running i k => if s'.tasks.length > s.tasks.length then s!"spawn {i} {s'.tasks.length - 1}" else s!"nospawn {i} {k}"
  | .running _ _, .finA i => s!"bodyok {i}"
  | .running _ _, .caught i e => s!"throw {i} {e}"
  | .finA _, .finJ i => s!"destroy {i}"
  | .finJ _, .finB i => s!"fold {i}"
  | .finJ _, .caught i e => s!"jointhrow {i} {e}"
  | .finB _, .idle => s!"release {s'.count}"
  | .caught _ _, .check _ => "cload 1"
  | .caught _ _, .xchg _ _ => "cload 0"
  | .xchg _ _, .check _ => "xchg 1"
  | .xchg _ _, .store _ _ => "xchg 0"
  | .store _ e, .check _ => s!"store {e}"
  | .wspawn _, .wspawn _ => if s'.tasks.length > s.tasks.length then s!"root {s'.tasks.length - 1}" else "noroot"
  | .wspawn _, .idle => "wait"
  | .wexit, .wreset oe => match oe with
    | some e => s!"excload {e}"
    | none => "excload -"
  | .wreset _, _ => match s'.results.head? with
    | some r => s!"ret {showRes r.res}" ++ (match out with | some e => s!" out {e}" | none => "")
    | none => "ret ?"
  | .wdone, _ => "stutter"
  | _, _ => let _ := choice; "?"

structure DState where
  prog : Prog := []
  rounds : List (List Nat) := []
  st : Option State := none

def showState (s : State) : String :=
  let ts := s.tasks.map fun tk => s!"{tk.execs}/{tk.fins}/{tk.rels}"
  let rs := s.results.reverse.map fun r => showRes r.res
  s!"count {s.count} cancelled {showBool s.cancelled} exc {match s.exc with | some e => toString e | none => "-"} tasks {" ".intercalate ts} results {",".intercalate rs}"

def drvStep (d : DState) (ws : List String) : DState × String :=
  match ws with
  | ["reset"] => ({}, "ok")
  | "spec" :: rest =>
    -- spec <body> <join> <kid>*
    match rest with
    | b :: j :: kids =>
      match parseOutcome b, parseOutcome j, nats? kids with
      | some b, some j, some ks => ({ d with prog := d.prog ++ [{ kids := ks, body := b, join := j }] }, s!"spec {d.prog.length}")
      | _, _, _ => (d, "bad-op")
    | _ => (d, "bad-op")
  | "round" :: rest =>
    match nats? rest with
    | some rs =>
      if rs.all (· < d.prog.length) then ({ d with rounds := d.rounds ++ [rs] }, s!"round {d.rounds.length}") else (d, "bad-op")
    | none => (d, "bad-op")
  | ["init"] =>
    if d.prog.all (fun sp => sp.kids.all (· < d.prog.length)) then ({ d with st := some (init d.prog d.rounds) }, "init")
    else (d, "bad-op")
  | ["a", t, c] =>
    match d.st, nat? t, nat? c with
    | some s, some t, some c =>
      let r := stepThr s t c
      ({ d with st := some r.1 }, describe s t c r.1 r.2)
    | _, _, _ => (d, "bad-op")
  | ["x"] =>
    match d.st with
    | some s => ({ d with st := some (step s .extCancel).1 }, if s.cancelled then "extcancel 1" else "extcancel 0")
    | none => (d, "bad-op")
  | ["pc", t] =>
    match d.st, nat? t with
    | some s, some t => (d, showPc (s.pcs t))
    | _, _ => (d, "bad-op")
  | ["state"] =>
    match d.st with
    | some s => (d, showState s)
    | none => (d, "bad-op")
  | _ => (d, "bad-op")

def driver : Proto.Driver := { σ := DState, init := {}, step := drvStep }

/-! ReduceEH driver: `shape <preorder: N = node, L = leaf>`, then actions. -/

def parseShape : Nat → List Char → Option (Shape × List Char)
  | 0, _ => none
  | _ + 1, [] => none
  | _ + 1, 'L' :: rest => some (.leaf, rest)
  | fuel + 1, 'N' :: rest =>
    match parseShape fuel rest with
    | some (l, rest1) =>
      match parseShape fuel rest1 with
      | some (r, rest2) => some (.node l r, rest2)
      | none => none
    | none => none
  | _ + 1, _ :: _ => none

def parsePath (w : String) : Option (List Bool) :=
  if w = "-" then some [] else w.toList.mapM fun c => if c = 'l' then some false else if c = 'r' then some true else none

def showTotals (s : RState) : String :=
  let t := s.tree.totals
  s!"nodes {t.1} zombies {t.2.1} joins {t.2.2.1} deleted {t.2.2.2.1} zdestroyed {t.2.2.2.2} released {s.released} wait {s.waitRef} cancelled {showBool s.cancelled}"

def parseBit (w : String) : Option Bool := if w = "l" then some false else if w = "r" then some true else none

def rdrvStep (s : Option RState) (ws : List String) : Option RState × String :=
  match ws with
  | ["shape", w] =>
    match parseShape (w.length + 1) w.toList with
    | some (sh, []) => (some (rinit sh), "ok")
    | _ => (s, "bad-op")
  | _ =>
    match s with
    | none => (s, "bad-op")
    | some st =>
      let act : Option RAct := match ws with
        | ["start", p, d, z] => do
          let p ← parsePath p; let d ← parseBit d
          pure (.op p (.start d (z = "1")))
        | ["finish", p, d] => do
          let p ← parsePath p; let d ← parseBit d
          pure (.op p (.finish d))
        | ["dec", p, d] => do
          let p ← parsePath p; let d ← parseBit d
          pure (.op p (.dec d))
        | ["joindel", p] => do
          let p ← parsePath p
          pure (.op p .joinDel)
        | ["starttop"] => some .startTop
        | ["finishtop"] => some .finishTop
        | ["decroot"] => some .decRoot
        | ["cancel"] => some .cancel
        | _ => none
      match act with
      | some a => let st' := rstep st a; (some st', showTotals st')
      | none => (s, "bad-op")

def rdriver : Proto.Driver := { σ := Option RState, init := none, step := rdrvStep }

end TbbVerif.C03
