/-
C05 — parallel_for: ranges, splits, range pool, partitioners (executable model, core Lean only).

Code modelled
  include/oneapi/tbb/blocked_range.h        is_divisible, do_split(split) midpoint, do_split(proportional_split&)
                                            (binary32 arithmetic modelled exactly on `Rat`)
  include/oneapi/tbb/blocked_range2d.h,
  blocked_range3d.h, blocked_nd_range.h     choice of the dimension to split (binary64 products)
  include/oneapi/tbb/partitioner.h          range_vector (8-slot ring), adaptive/proportional/linear_affinity/
                                            dynamic_grainsize modes, the four partition types, execute/work_balance
  include/oneapi/tbb/parallel_for.h         start_for::execute / offer_work (what a task runs and what it spawns)

Everything a task reads from the runtime (is_stolen_task, parent ref count >= 2, is_peer_stolen, cancellation)
comes from an environment machine `Env σ`; the theorems quantify over every `σ` and every `Env σ`, which
subsumes "every stream of oracle answers" (`bitsEnv`).
-/
import TbbVerif.Core.Proto
import TbbVerif.Core.Cint
import TbbVerif.Generated.C05

namespace TbbVerif.C05
open TbbVerif



/-! ## IEEE-754 round-to-nearest-even with `p` significant bits, unbounded exponent, on `Rat` -/

/-- round-half-even of a non-negative rational to a natural number -/
def rne (q : Rat) : Nat :=
  let f : Nat := q.floor.toNat
  let r : Rat := q - (f : Rat)
  if r < 1/2 then f else if 1/2 < r then f + 1 else if f % 2 = 0 then f else f + 1

/-- `2^k` for an integer exponent -/
def pow2 (k : Int) : Rat := if 0 ≤ k then (2 : Rat) ^ k.toNat else 1 / (2 : Rat) ^ (-k).toNat

/-- `⌊log2 (n/d)⌋` for `n, d > 0` -/
def ilog2Frac (n d : Nat) : Int :=
  let ln := n.log2
  let ld := d.log2
  if ld ≤ ln then
    (if d * 2 ^ (ln - ld) ≤ n then ((ln - ld : Nat) : Int) else ((ln - ld : Nat) : Int) - 1)
  else
    (if d ≤ n * 2 ^ (ld - ln) then -((ld - ln : Nat) : Int) else -((ld - ln + 1 : Nat) : Int))

/-- `⌊log2 q⌋` for `q > 0` -/
def ilog2 (q : Rat) : Int := ilog2Frac q.num.toNat q.den

/-- nearest value with a `p`-bit significand, ties to even; `0` for `q ≤ 0` (only non-negative values occur) -/
def fl (p : Nat) (q : Rat) : Rat :=
  if q ≤ 0 then 0 else
    let s : Int := (p : Int) - 1 - ilog2 q
    (rne (q * pow2 s) : Rat) * pow2 (-s)

def f32 (q : Rat) : Rat := fl Generated.C05.floatMantBits q
def f64 (q : Rat) : Rat := fl Generated.C05.doubleMantBits q

def U64 : Nat := 2 ^ Generated.C05.sizeTypeBits

/-! ## blocked_range<std::size_t> -/

structure R1 where
  b : Nat
  e : Nat
  g : Nat
  deriving DecidableEq, Repr, Inhabited

namespace R1
/-- `size()`: `size_type(my_end - my_begin)` -/
def size (r : R1) : Nat := Cint.subU64 r.e r.b
/-- `empty()`: `!(my_begin < my_end)` -/
def isEmpty (r : R1) : Bool := !(r.b < r.e)
/-- `is_divisible()`: `my_grainsize < size()` -/
def divisible (r : R1) : Bool := r.g < r.size
end R1

/-- `do_split(r, split)`: `middle = begin + (end - begin) / 2u`; returns (what `r` keeps, the new range). -/
def splitMid (r : R1) : R1 × R1 :=
  let m := Cint.addU64 r.b (r.size / 2)
  ({ r with e := m }, { r with b := m })

/-- `size_type(float(size) * float(right) / float(left + right) + 0.5f)`; `none` where C++ is undefined
(0/0, infinity or a value that does not fit `size_t` in the float→integer conversion). -/
def propRightPart (size l r : Nat) : Option Nat :=
  let lr := Cint.addU64 l r
  let m := f32 (f32 size * f32 r)
  if lr = 0 then none
  else if (2 : Rat) ^ 128 ≤ m then none
  else
    let d := f32 (m / f32 lr)
    let t := f32 (d + 1/2)
    if (2 : Rat) ^ 64 ≤ t then none else some t.floor.toNat

/-- `do_split(r, proportional_split&)`: `r.my_end = Value(r.my_end - right_part)` -/
def splitProp (r : R1) (l rt : Nat) : Option (R1 × R1) :=
  match propRightPart r.size l rt with
  | none => none
  | some rp =>
    let m := Cint.subU64 r.e rp
    some ({ r with e := m }, { r with b := m })

/-! ## 2d / 3d / nd: which dimension is split -/

/-- `first.size()*double(second.grainsize()) < second.size()*double(first.grainsize())` -/
def ratioLess (a b : R1) : Bool :=
  f64 (f64 a.size * f64 b.g) < f64 (f64 b.size * f64 a.g)

/-- Should dimension `b` be cut in preference to `a`?  `guard = false`: the bare binary64 ratio comparison;
`guard = true`: an indivisible dimension is never preferred
(`b.is_divisible() && (!a.is_divisible() || ratio comparison)`).  Which of the two the code has is regenerated from
the current tree on every run (`Generated.C05.sel2Guarded` …). -/
def pick (guard : Bool) (a b : R1) : Bool :=
  if guard then b.divisible && (!a.divisible || ratioLess a b) else ratioLess a b

/-- blocked_range2d::do_split, dims = [rows, cols] -/
def sel2 (d : List R1) : Nat :=
  match d with
  | [rows, cols] => if pick Generated.C05.sel2Guarded rows cols then 1 else 0
  | _ => 0

/-- blocked_range3d::do_split, dims = [pages, rows, cols] -/
def sel3 (d : List R1) : Nat :=
  match d with
  | [pages, rows, cols] =>
    if pick Generated.C05.sel3Guarded pages rows then (if pick Generated.C05.sel3Guarded rows cols then 2 else 1)
    else (if pick Generated.C05.sel3Guarded pages cols then 2 else 0)
  | _ => 0

/-- blocked_nd_range::do_split: `std::max_element(dims, comp)` (first maximum) -/
def selNdAux : R1 → Nat → Nat → List R1 → Nat
  | _, best, _, [] => best
  | cur, best, i, x :: xs =>
    if pick Generated.C05.selNdGuarded cur x then selNdAux x i (i + 1) xs else selNdAux cur best (i + 1) xs

def selNd (d : List R1) : Nat :=
  match d with
  | [] => 0
  | x :: xs => selNdAux x 0 1 xs

/-! ## The Range concept as the partitioners see it -/

structure RangeOps (R : Type) where
  divisible : R → Bool
  isEmpty : R → Bool
  /-- splitting constructor `R(r, split)`: (what `r` keeps, the newly constructed range) -/
  split : R → R × R
  /-- `R(r, proportional_split(left,right))` -/
  psplit : R → Nat → Nat → Option (R × R)

def ops1 : RangeOps R1 :=
  { divisible := R1.divisible, isEmpty := R1.isEmpty, split := splitMid, psplit := splitProp }

def setDim (d : List R1) (i : Nat) (x : R1) : List R1 := d.set i x

def opsN (sel : List R1 → Nat) : RangeOps (List R1) :=
  { divisible := fun d => d.any R1.divisible
    isEmpty := fun d => d.any R1.isEmpty
    split := fun d =>
      let i := sel d
      match d[i]? with
      | none => (d, d)
      | some x => let (a, b) := splitMid x; (setDim d i a, setDim d i b)
    psplit := fun d l r =>
      let i := sel d
      match d[i]? with
      | none => none
      | some x => match splitProp x l r with
        | none => none
        | some (a, b) => some (setDim d i a, setDim d i b) }

/-! ## range_vector<T, __TBB_RANGE_POOL_CAPACITY> (the ring exactly as in the code) -/

def depthMod : Nat := 2 ^ Generated.C05.depthBits

structure RV (R : Type) where
  head : Nat
  tail : Nat
  size : Nat
  depth : List Nat
  pool : List (Option R)
  deriving Repr

namespace RV
variable {R : Type}

def cap : Nat := Generated.C05.poolCapacity

def init (r : R) : RV R :=
  { head := 0, tail := 0, size := 1,
    depth := List.replicate cap 0,
    pool := (List.replicate cap none).set 0 (some r) }

def back (v : RV R) : Option R := (v.pool[v.head]?).join
def front (v : RV R) : Option R := (v.pool[v.tail]?).join
def backDepth (v : RV R) : Nat := v.depth[v.head]?.getD 0
def frontDepth (v : RV R) : Nat := v.depth[v.tail]?.getD 0

def isDivisible (ops : RangeOps R) (v : RV R) (maxDepth : Nat) : Bool :=
  match v.back with
  | some r => decide (v.backDepth < maxDepth) && ops.divisible r
  | none => false

/-- one iteration of the loop in `split_to_fill` -/
def splitOnce (ops : RangeOps R) (v : RV R) : RV R :=
  match v.back with
  | none => v
  | some r =>
    let prev := v.head
    let head := (v.head + 1) % cap
    let (l, rt) := ops.split r
    let d := (v.depth[prev]?.getD 0 + 1) % depthMod
    { head := head, tail := v.tail, size := v.size + 1,
      depth := (v.depth.set prev d).set head d,
      pool := (v.pool.set head (some l)).set prev (some rt) }

def splitToFill (ops : RangeOps R) (maxDepth : Nat) : Nat → RV R → RV R
  | 0, v => v
  | f + 1, v => if v.size < cap ∧ v.isDivisible ops maxDepth then splitToFill ops maxDepth f (splitOnce ops v) else v

def popBack (v : RV R) : RV R :=
  { v with pool := v.pool.set v.head none, size := v.size - 1, head := (v.head + cap - 1) % cap }

def popFront (v : RV R) : RV R :=
  { v with pool := v.pool.set v.tail none, size := v.size - 1, tail := (v.tail + 1) % cap }

/-- the stored ranges with their depths, from `back()` to `front()` -/
def toListAux (v : RV R) : Nat → Nat → List (R × Nat)
  | 0, _ => []
  | n + 1, i =>
    match (v.pool[i]?).join with
    | some r => (r, v.depth[i]?.getD 0) :: toListAux v n ((i + cap - 1) % cap)
    | none => []

def toList (v : RV R) : List (R × Nat) := toListAux v v.size v.head

end RV

/-! ## Partition objects -/

inductive Kind where
  | simple | auto | static | affinity
  deriving DecidableEq, Repr, Inhabited

/-- The state words of a partition object (union over the four types; unused words stay 0).
`delay`: 0 = begin, 1 = run, 2 = pass. -/
structure Part where
  kind : Kind
  divisor : Nat := 0
  maxDepth : Nat := 0
  delay : Nat := 0
  head : Nat := 0
  maxAff : Nat := 0
  deriving DecidableEq, Repr, Inhabited

def factor (k : Kind) : Nat := match k with | .affinity => Generated.C05.affinityFactor | _ => 1

/-- the partition object of the root task, for `max_concurrency() = P` and calling slot `slot` -/
def initPart (k : Kind) (P slot : Nat) : Part :=
  match k with
  | .simple => { kind := .simple }
  | .auto => { kind := .auto, divisor := Generated.C05.autoDivPerThread * P, maxDepth := Generated.C05.initDepthAuto, delay := 0 }
  | .static => { kind := .static, divisor := Generated.C05.staticDivPerThread * P, head := slot, maxAff := Generated.C05.staticDivPerThread * P }
  | .affinity => { kind := .affinity, divisor := Generated.C05.affinityDivPerThread * P, maxDepth := Generated.C05.initDepthAffinity, delay := 0,
                   head := slot, maxAff := Generated.C05.affinityDivPerThread * P }

def hasLinearAffinity (k : Kind) : Bool := match k with | .static | .affinity => true | _ => false

/-- splitting constructor `Partition(src, split)`: `(src afterwards, new object)` -/
def partSplit (p : Part) : Part × Part :=
  let d := p.divisor / 2
  let src := { p with divisor := d }
  let child : Part :=
    { kind := p.kind, divisor := d, maxDepth := p.maxDepth, delay := 2,
      head := if hasLinearAffinity p.kind then (p.head + d) % p.maxAff else 0,
      maxAff := p.maxAff }
  (src, match p.kind with | .simple => { kind := .simple } | _ => child)

/-- splitting constructor `Partition(src, proportional_split(l, r))` -/
def partPSplit (p : Part) (_l r : Nat) : Part × Part :=
  let F := factor p.kind
  let portion0 := Cint.mulU64 r F
  let portion := (Cint.addU64 portion0 (F / 2)) &&& (Cint.subU64 0 F)
  let sd := Cint.subU64 p.divisor portion
  let src := { p with divisor := sd }
  let child : Part :=
    { kind := p.kind, divisor := portion, maxDepth := p.maxDepth, delay := 0,
      head := (p.head + sd) % p.maxAff, maxAff := p.maxAff }
  (src, child)

/-- `self().is_divisible()` (auto's version has side effects) -/
def partIsDivisible (p : Part) : Bool × Part :=
  match p.kind with
  | .simple => (false, p)
  | .auto =>
    if p.divisor > 1 then (true, p)
    else if p.divisor ≠ 0 ∧ p.maxDepth ≠ 0 then (true, { p with maxDepth := p.maxDepth - 1, divisor := 0 })
    else (false, p)
  | .static => (decide (p.divisor > 1), p)
  | .affinity => (decide (p.divisor > factor .affinity), p)

/-! ## Environment: the runtime-dependent reads -/

structure Env (σ : Type) where
  /-- `is_stolen_task(ed)` in check_being_stolen -/
  stolen : σ → Bool × σ
  /-- `t.my_parent->m_ref_count >= 2` in check_being_stolen -/
  ref2 : σ → Bool × σ
  /-- `tree_node::is_peer_stolen(t)` in check_for_demand -/
  peer : σ → Bool × σ
  /-- `ed.context->is_group_execution_cancelled()` in work_balance -/
  cancel : σ → Bool × σ
  /-- the environment may act whenever the task calls out: after a spawn … -/
  onSpawn : σ → σ
  /-- … and after a body invocation -/
  onBody : σ → σ

/-- "every oracle stream": one bit per read, `false` when the stream is exhausted -/
def bitsEnv : Env (List Bool) :=
  let rd : List Bool → Bool × List Bool := fun s => match s with | [] => (false, []) | b :: t => (b, t)
  { stolen := rd, ref2 := rd, peer := rd, cancel := rd, onSpawn := id, onBody := id }

/-- Mock-runtime environment used by the E-MOCK tie: `stolen`/`ref2` are fixed per task, the peer flag is
whatever the harness sampled after each call-out, cancellation reads are a bit list. -/
structure MockSt where
  stolen : Bool := false
  ref2 : Bool := false
  flag : Bool := false
  hooks : List Bool := []
  cancels : List Bool := []
  deriving Repr

def mockEnv : Env MockSt :=
  let hook : MockSt → MockSt := fun s => match s.hooks with
    | [] => { s with flag := false }
    | b :: t => { s with flag := b, hooks := t }
  { stolen := fun s => (s.stolen, s), ref2 := fun s => (s.ref2, s), peer := fun s => (s.flag, s),
    cancel := fun s => match s.cancels with | [] => (false, s) | b :: t => (b, { s with cancels := t }),
    onSpawn := hook, onBody := hook }

/-! ## What one `start_for` task does -/

inductive Ev (R : Type) where
  | body (r : R)
  | spawn (r : R) (p : Part)
  | drop (r : R)
  deriving Repr

structure TS (R σ : Type) where
  range : R
  part : Part
  env : σ
  evs : List (Ev R) := []     -- most recent first

section exec
variable {R σ : Type} (ops : RangeOps R) (E : Env σ)

def runBody (t : TS R σ) (r : R) : TS R σ :=
  { t with evs := .body r :: t.evs, env := E.onBody t.env }

def emitSpawn (t : TS R σ) (r : R) (p : Part) : TS R σ :=
  { t with evs := .spawn r p :: t.evs, env := E.onSpawn t.env }

/-- `simple_partition_type::execute` -/
def simpleExec : Nat → TS R σ → Option (TS R σ)
  | 0, _ => none
  | f + 1, t =>
    if ops.divisible t.range then
      let (a, b) := ops.split t.range
      simpleExec f (emitSpawn E { t with range := a } b { kind := .simple })
    else some (runBody E t t.range)

/-- `dynamic_grainsize_mode::check_being_stolen` -/
def checkBeingStolen (t : TS R σ) : TS R σ :=
  let p := t.part
  if p.divisor / factor p.kind = 0 then
    let p := { p with divisor := 1 }
    let (s, env) := E.stolen t.env
    if s then
      let (r2, env) := E.ref2 env
      if r2 then
        let md := if p.maxDepth = 0 then 1 else p.maxDepth
        { t with part := { p with maxDepth := (md + Generated.C05.demandDepthAdd) % depthMod }, env := env }
      else { t with part := p, env := env }
    else { t with part := p, env := env }
  else t

/-- `offer_work(split_obj)` of the splitting loop in `partition_type_base::execute` -/
def offerSplit (t : TS R σ) : Option (TS R σ) :=
  match t.part.kind with
  | .simple => none
  | .auto =>
    let (a, b) := ops.split t.range
    let (src, child) := partSplit t.part
    some (emitSpawn E { t with range := a, part := src } b child)
  | _ =>
    let n := t.part.divisor / factor t.part.kind
    let right := n / 2
    let left := n - right
    match ops.psplit t.range left right with
    | none => none
    | some (a, b) =>
      let (src, child) := partPSplit t.part left right
      some (emitSpawn E { t with range := a, part := src } b child)

/-- `do { offer_work } while (range.is_divisible() && self().is_divisible())` guarded by the same test -/
def splitLoop : Nat → TS R σ → Option (TS R σ)
  | 0, _ => none
  | f + 1, t =>
    if ops.divisible t.range then
      let (d, p) := partIsDivisible t.part
      let t := { t with part := p }
      if d then
        match offerSplit ops E t with
        | none => none
        | some t' => splitLoop f t'
      else some t
    else some t

/-- `check_for_demand` (auto_partition_type's override, or dynamic_grainsize_mode's for affinity) -/
def checkForDemand (t : TS R σ) : Bool × TS R σ :=
  let p := t.part
  match p.kind with
  | .auto =>
    let (b, env) := E.peer t.env
    if b then (true, { t with part := { p with maxDepth := (p.maxDepth + Generated.C05.demandDepthAdd) % depthMod }, env := env })
    else (false, { t with env := env })
  | .affinity =>
    if p.delay = 2 then
      if p.divisor > 1 then (true, t)
      else if p.divisor ≠ 0 ∧ p.maxDepth ≠ 0 then (true, { t with part := { p with divisor := 0 } })
      else
        let (b, env) := E.peer t.env
        if b then (true, { t with part := { p with maxDepth := (p.maxDepth + Generated.C05.demandDepthAdd) % depthMod }, env := env })
        else (false, { t with env := env })
    else if p.delay = 0 then (false, { t with part := { p with delay := 2 } })
    else (false, t)
  | _ => (false, t)

/-- `range_vector::split_to_fill` on the abstract pool (list from `back()` to `front()`) -/
def fillPool (maxDepth : Nat) : Nat → List (R × Nat) → List (R × Nat)
  | 0, pool => pool
  | f + 1, pool =>
    match pool with
    | [] => []
    | (r, d) :: rest =>
      if pool.length < Generated.C05.poolCapacity ∧ d < maxDepth ∧ ops.divisible r then
        let (l, rt) := ops.split r
        let d' := (d + 1) % depthMod
        fillPool maxDepth f ((l, d') :: (rt, d') :: rest)
      else pool

def poolIsDivisible (pool : List (R × Nat)) (maxDepth : Nat) : Bool :=
  match pool with
  | [] => false
  | (r, d) :: _ => decide (d < maxDepth) && ops.divisible r

def dropAll (t : TS R σ) (pool : List (R × Nat)) : TS R σ :=
  { t with evs := (pool.map (fun x => Ev.drop x.1)).reverse ++ t.evs }

/-- the loop condition `!range_pool.empty() && !is_group_execution_cancelled()` followed by the next iteration `k` -/
def poolNext (k : TS R σ → List (R × Nat) → Option (TS R σ)) (t : TS R σ) (pool : List (R × Nat)) : Option (TS R σ) :=
  match pool with
  | [] => some t
  | _ :: _ =>
    let (c, env) := E.cancel t.env
    let t := { t with env := env }
    if c then some (dropAll t pool) else k t pool

/-- `start.run_body(range_pool.back()); range_pool.pop_back();` then the loop condition -/
def poolRunBack (k : TS R σ → List (R × Nat) → Option (TS R σ)) (t : TS R σ) (pool : List (R × Nat)) : Option (TS R σ) :=
  match pool with
  | [] => none
  | (r, _) :: rest => poolNext E k (runBody E t r) rest

/-- the `do { … } while (!range_pool.empty() && !cancelled)` loop of `work_balance` -/
def poolLoop : Nat → TS R σ → List (R × Nat) → Option (TS R σ)
  | 0, _, _ => none
  | f + 1, t, pool =>
    let pool := fillPool ops t.part.maxDepth Generated.C05.poolCapacity pool
    let (dem, t) := checkForDemand E t
    if dem then
      if pool.length > 1 then
        -- offer_work(range_pool.front(), range_pool.front_depth()); pop_front(); continue
        match pool.getLast? with
        | some (fr, fd) =>
          let (src, child) := partSplit t.part
          let child := { child with maxDepth := (child.maxDepth + depthMod - fd % depthMod) % depthMod }
          poolNext E (poolLoop f) (emitSpawn E { t with part := src } fr child) pool.dropLast
        | none => none
      else if poolIsDivisible ops pool t.part.maxDepth then poolNext E (poolLoop f) t pool
      else poolRunBack E (poolLoop f) t pool
    else poolRunBack E (poolLoop f) t pool

/-- `work_balance` -/
def workBalance (fuel : Nat) (t : TS R σ) : Option (TS R σ) :=
  match t.part.kind with
  | .static => some (runBody E t t.range)
  | .simple => some (runBody E t t.range)
  | _ =>
    if !ops.divisible t.range || t.part.maxDepth = 0 then some (runBody E t t.range)
    else poolLoop ops E fuel t [(t.range, 0)]

/-- `start_for::execute`: events in program order and the environment afterwards -/
def execTask (fuel : Nat) (r : R) (p : Part) (s : σ) : Option (List (Ev R) × σ) :=
  let t : TS R σ := { range := r, part := p, env := s }
  let res :=
    match p.kind with
    | .simple => simpleExec ops E fuel t
    | .static =>
      match splitLoop ops E fuel t with
      | none => none
      | some t => workBalance ops E fuel t
    | _ =>
      match splitLoop ops E fuel (checkBeingStolen E t) with
      | none => none
      | some t => workBalance ops E fuel t
  res.map (fun t => (t.evs.reverse, t.env))

def evKids (evs : List (Ev R)) : List (R × Part) :=
  evs.filterMap (fun e => match e with | .spawn r p => some (r, p) | _ => none)
def evBodies (evs : List (Ev R)) : List R :=
  evs.filterMap (fun e => match e with | .body r => some r | _ => none)
def evDrops (evs : List (Ev R)) : List R :=
  evs.filterMap (fun e => match e with | .drop r => some r | _ => none)

/-- Whole loop: closure over the task tree (depth-first), collecting the chunks handed to the body and the
ranges dropped because of cancellation. -/
def runTasks : Nat → List (R × Part) → σ → List R → List R → Option (List R × List R × σ)
  | 0, _, _, _, _ => none
  | _ + 1, [], s, ran, dropped => some (ran, dropped, s)
  | f + 1, (r, p) :: work, s, ran, dropped =>
    match execTask ops E f r p s with
    | none => none
    | some (evs, s') =>
      runTasks f (evKids evs ++ work) s' (evBodies evs ++ ran) (evDrops evs ++ dropped)

/-- `start_for::run`: nothing at all for an empty range -/
def runLoop (fuel : Nat) (k : Kind) (P slot : Nat) (r : R) (s : σ) : Option (List R × List R × σ) :=
  if ops.isEmpty r then some ([], [], s) else runTasks ops E fuel [(r, initPart k P slot)] s [] []

end exec

/-! ## parallel_for(first, last, step, f) -/

/-- number of iterations of the underlying blocked_range: `end = (last - first - 1) / step + 1` (nothing for `first ≥ last`) -/
def stridedEnd (first last step : Nat) : Nat := if first < last then (last - first - 1) / step + 1 else 0

/-- the value passed to `f` for iteration `i` of the blocked_range: `k = my_begin + i * my_step` -/
def stridedIndex (first step i : Nat) : Nat := first + i * step

/-! ### the index form for the fixed-width `Index` types (specification side)

The C++ expressions themselves are regenerated from `parallel_for.h` for every Index type into
`Generated/C05Stride.lean` (signed values are `Int`, unsigned values are `Nat`); the predicates below say what they have
to compute.  `half = 2^(bits-1)` for a signed type, `top = 2^bits` for an unsigned one. -/

/-- admissible arguments of `parallel_for(first, last, step, f)` for a signed Index type: representable values, a
non-empty iteration space whose extent `last - first` is representable in Index, a positive step -/
structure StrideArgsS (half first last step : Int) : Prop where
  lo  : -half ≤ first
  hi  : last < half
  lt  : first < last
  ext : last - first < half
  sp  : 0 < step
  sh  : step < half

/-- admissible arguments for an unsigned Index type (every extent is representable) -/
structure StrideArgsU (top first last step : Nat) : Prop where
  hi : last < top
  lt : first < last
  sp : 0 < step
  sh : step < top

/-- `cnt` is the exact trip count `⌈(last - first) / step⌉` (as a mathematical integer), and it is representable -/
def CountExactS (half : Int) (cnt : Int → Int → Int → Int) : Prop :=
  ∀ first last step, StrideArgsS half first last step →
    0 < cnt first last step ∧ cnt first last step < half ∧
    (cnt first last step - 1) * step < last - first ∧ last - first ≤ cnt first last step * step

def CountExactU (top : Nat) (cnt : Nat → Nat → Nat → Nat) : Prop :=
  ∀ first last step, StrideArgsU top first last step →
    0 < cnt first last step ∧ cnt first last step < top ∧
    (cnt first last step - 1) * step < last - first ∧ last - first ≤ cnt first last step * step

/-- the guards: `bad step` ⇔ the step is not positive (the call throws), `run first last` ⇔ the loop is not empty -/
def GuardsExactS (half : Int) (bad : Int → Bool) (run : Int → Int → Bool) : Prop :=
  ∀ first last step, -half ≤ first → first < half → -half ≤ last → last < half → -half ≤ step → step < half →
    bad step = decide (step ≤ 0) ∧ run first last = decide (first < last)

def GuardsExactU (top : Nat) (bad : Nat → Bool) (run : Nat → Nat → Bool) : Prop :=
  ∀ first last step, first < top → last < top → step < top →
    bad step = decide (step = 0) ∧ run first last = decide (first < last)

/-- value of `k` in the body wrapper at the `j`-th iteration of a chunk: `k = k0; … ; k += ms` (`j` times) -/
def chunkVal {α : Type} (next : α → α → α) (ms : α) (k0 : α) : Nat → α
  | 0 => k0
  | j + 1 => next (chunkVal next ms k0 j) ms

/-- the body wrapper, run on a chunk that starts at iteration `b` of the blocked_range `[0, cnt)`, passes
`first + (b + j) * step` to the functor at its `j`-th iteration, for every iteration `b + j < cnt` (no wrap-around) -/
def IndexExactS (half : Int) (cnt : Int → Int → Int → Int) (idx0 : Int → Int → Int → Int) (next : Int → Int → Int) : Prop :=
  ∀ first last step, StrideArgsS half first last step → ∀ (b : Int) (j : Nat), 0 ≤ b → b + j < cnt first last step →
    chunkVal next step (idx0 first step b) j = first + (b + j) * step

def IndexExactU (top : Nat) (cnt : Nat → Nat → Nat → Nat) (idx0 : Nat → Nat → Nat → Nat) (next : Nat → Nat → Nat) : Prop :=
  ∀ first last step, StrideArgsU top first last step → ∀ (b j : Nat), b + j < cnt first last step →
    chunkVal next step (idx0 first step b) j = first + (b + j) * step

end TbbVerif.C05
