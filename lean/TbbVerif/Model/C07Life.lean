/-
C07 — token life cycle and the cancelled / throwing pipeline (executable, core Lean only).

Code modelled (on top of `Model/C07.lean`, whose `stepL` stays the model of `stage_task::execute_filter`):
  * include/oneapi/tbb/detail/_pipeline_filters.h: `token_helper<T,Allocate>::create_token / destroy_token`,
    `concrete_filter::operator()` (input: `create_token(body(fc))`, and after `fc.stop()`: `destroy_token` of the value
    just created, `set_end_of_input`, return nullptr; middle: `create_token(body(move(token(in))))` THEN
    `destroy_token(in)`; output: body, `destroy_token(in)`), `concrete_filter::finalize` (= `destroy_token(in)`);
  * src/tbb/parallel_pipeline.cpp: `stage_task::execute` / `cancel` / `finalize` / `~stage_task`
    (`if (my_filter && my_object) my_filter->finalize(my_object)`, `wait_ctx.release()`), `my_filter = nullptr` after a
    successful `try_put_token`, `pipeline::~pipeline` / `~input_buffer` (free the arrays; whether parked items are
    finalized is the generated flag `bufferCleanup`);
  * src/tbb/task_dispatcher.h, the part every stage_task goes through: before every `execute` the dispatcher loads the
    context's cancellation flag and calls `cancel` instead when it is set; an exception leaving `execute` is caught,
    `cancel_group_execution()` is called, and the loop re-enters with the same task (so the task is cancelled).

A token OBJECT is named by the invocation that created it: `tok i k` is the value returned by filter `k` for item `i`
(`k + 1 < n`), owned by the library until filter `k+1` consumes it; `stopVal j` is the value returned by the `j`-th input
invocation that called `flow_control::stop()`.  For `token_helper<T*,false>` / `token_helper<T,false>` create/destroy
are the identity / no-ops, for `token_helper<T,true>` they are placement-new into `r1::allocate_memory` and destructor +
`r1::deallocate_memory`; the call structure is the same for all three.

Cancellation only removes behaviour: a cancelled task is a task of the base model that is never scheduled again
(`Phase.gone`).  Hence `LSt.base` evolves by `C07.step` only and every invariant of the base model holds for it.
-/
import TbbVerif.Model.C07

namespace TbbVerif.C07.Life

open TbbVerif.C07

inductive Obj where
  | tok (item stage : Nat)
  | stopVal (j : Nat)
  deriving Repr, DecidableEq, Inhabited

/-- where a stage_task is with respect to the dispatcher loop -/
inductive Phase where
  | run       -- inside `execute` (or, at base pc `start` / `call`: back in the dispatcher, about to load the cancellation flag)
  | checked   -- the dispatcher found the context not cancelled and is calling `execute`
  | thrown    -- an exception left the filter body and is propagating to the dispatcher's catch block
  | atDisp    -- the catch block has called `cancel_group_execution`; the loop re-enters with this task
  | gone      -- `cancel` → `finalize` → `~stage_task` done
  deriving Repr, DecidableEq, Inhabited

/-- what the translator reads off `pipeline::~pipeline` / `input_buffer::~input_buffer` -/
structure Flags where
  bufferCleanup : Bool
  deriving Repr, DecidableEq

structure LSt where
  base      : St
  cancelled : Bool              -- `task_group_context` cancellation flag
  ph        : List Phase        -- per stage_task (same index as `base.tasks`)
  created   : List Obj          -- ledger: `create_token` calls, in order
  destroyed : List Obj          -- ledger: `destroy_token` calls, in order
  cleaned   : List Obj          -- ghost: the `destroy_token` calls made by `~stage_task` on a cancelled task
  stops     : Nat               -- number of input invocations that called `fc.stop()`
  returned  : Bool              -- `parallel_pipeline` has returned (or left by rethrowing the exception)
  leaked    : List Obj          -- set at return: objects still sitting in buffer slots that nobody will destroy

inductive Ev where
  | run (tid : Nat)     -- the thread running stage_task `tid` performs its next step
  | throw (tid : Nat)   -- the filter body that task `tid` is inside throws
  | cancel              -- somebody calls `cancel_group_execution` on the pipeline's context
  | ret                 -- `execute_and_wait` sees `wait_ctx == 0`; `~pipeline` runs
  deriving Repr, DecidableEq, Inhabited

inductive LLabel where
  | noop
  | base (l : Label)
  | passed
  | thrown
  | caught
  | fin (o : Option Obj)
  | cancel
  | ret
  deriving Repr, DecidableEq, Inhabited

/-- number of filters whose invocation on the carried item has returned (0 if the task carries nothing) -/
def endedOf (t : Task) : Nat :=
  match t.pc with
  | .fsubS => 1
  | .put | .call | .inFilter => t.stage
  | .noteDone => t.stage + 1
  | _ => 0

/-- the token object `my_object` points to while `my_filter != nullptr` -/
def heldObj (c : Cfg) (t : Task) : Option Obj :=
  if 1 ≤ endedOf t ∧ endedOf t < c.n then some (.tok t.info.item (endedOf t - 1)) else none

def atDispPc : Pc → Bool
  | .start | .call => true
  | _ => false

def inBodyPc : Pc → Bool
  | .inCallS | .inCallP | .inFilter => true
  | _ => false

def syncPh (ph : List Phase) (n : Nat) : List Phase := ph ++ List.replicate (n - ph.length) .run

/-- `wait_ctx`: one reference per live stage_task object -/
def waitL (s : LSt) : Nat := s.base.wait - s.ph.count .gone

/-- the token objects sitting in valid buffer slots (`array[j].is_valid`), by item -/
def parkedObjs (b : St) : List Obj :=
  (List.range b.produced).filterMap (fun i =>
    match b.loc[i]? with
    | some (Loc.parked k _) => some (Obj.tok i (k - 1))
    | _ => none)

/-- a step of `execute_filter` (the base model) with the `create_token` / `destroy_token` calls it contains -/
def baseStep (c : Cfg) (s : LSt) (tid : Nat) : LSt × LLabel :=
  let r := stepL c s.base tid
  let s1 : LSt := { s with base := r.1, ph := syncPh (s.ph.set tid .run) r.1.tasks.length }
  match r.2 with
  | .iend (some i) =>
    if 1 < c.n then ({ s1 with created := s.created ++ [.tok i 0] }, .base r.2) else (s1, .base r.2)
  | .iend none =>
    if 1 < c.n then
      ({ s1 with created := s.created ++ [.stopVal s.stops], destroyed := s.destroyed ++ [.stopVal s.stops],
                 stops := s.stops + 1 }, .base r.2)
    else (s1, .base r.2)
  | .fend k i =>
    if k + 1 < c.n then
      ({ s1 with created := s.created ++ [.tok i k], destroyed := s.destroyed ++ [.tok i (k - 1)] }, .base r.2)
    else ({ s1 with destroyed := s.destroyed ++ [.tok i (k - 1)] }, .base r.2)
  | _ => (s1, .base r.2)

/-- `cancel(ed)` → `finalize(ed)` → `~stage_task`: `if (my_filter && my_object) my_filter->finalize(my_object)`;
`wait_ctx.release()` -/
def finalize (c : Cfg) (s : LSt) (tid : Nat) (t : Task) : LSt × LLabel :=
  match heldObj c t with
  | some o => ({ s with ph := s.ph.set tid .gone, destroyed := s.destroyed ++ [o], cleaned := s.cleaned ++ [o] }, .fin (some o))
  | none => ({ s with ph := s.ph.set tid .gone }, .fin none)

def stepEv (c : Cfg) (f : Flags) (s : LSt) (e : Ev) : LSt × LLabel :=
  if s.returned then (s, .noop) else
  match e with
  | .cancel => ({ s with cancelled := true }, .cancel)
  | .ret =>
    if waitL s = 0 then
      if f.bufferCleanup then ({ s with returned := true, destroyed := s.destroyed ++ parkedObjs s.base }, .ret)
      else ({ s with returned := true, leaked := parkedObjs s.base }, .ret)
    else (s, .noop)
  | .throw tid =>
    match s.base.tasks[tid]?, s.ph[tid]? with
    | some t, some .run => if inBodyPc t.pc then ({ s with ph := s.ph.set tid .thrown }, .thrown) else (s, .noop)
    | _, _ => (s, .noop)
  | .run tid =>
    match s.base.tasks[tid]?, s.ph[tid]? with
    | some t, some p =>
      match p with
      | .gone => (s, .noop)
      | .thrown => ({ s with cancelled := true, ph := s.ph.set tid .atDisp }, .caught)
      | .atDisp => if s.cancelled then finalize c s tid t else (s, .noop)
      | .checked => baseStep c s tid
      | .run =>
        if atDispPc t.pc then
          if s.cancelled then finalize c s tid t else ({ s with ph := s.ph.set tid .checked }, .passed)
        else baseStep c s tid
    | _, _ => (s, .noop)

def initL (c : Cfg) : LSt :=
  { base := init c, cancelled := false, ph := [.run], created := [], destroyed := [], cleaned := [], stops := 0,
    returned := false, leaked := [] }

def stepE (c : Cfg) (f : Flags) (s : LSt) (e : Ev) : LSt := (stepEv c f s e).1

def runL (c : Cfg) (f : Flags) (evs : List Ev) : LSt := evs.foldl (stepE c f) (initL c)

/-- a filter invocation is in progress in task `tid` (its body has been entered and has neither returned nor thrown) -/
def insideBody (s : LSt) (tid : Nat) : Bool :=
  match s.base.tasks[tid]?, s.ph[tid]? with
  | some t, some .run => inBodyPc t.pc
  | _, _ => false

/-- the stage_task object `tid` exists (constructed, not yet destroyed) -/
def liveTask (s : LSt) (tid : Nat) : Bool :=
  match s.base.tasks[tid]?, s.ph[tid]? with
  | some t, some p => t.pc != .dead && p != .gone
  | _, _ => false

/-! ## `c07life`: validation of an observed event log (with faults and token-object events) against the model.

Log lines (`harness/c07/life.cpp`):
  `cfg <limit> <items> <modes> <cleanup 0|1>`
  `ib <inv>` `ie <inv> <item|->` `ix <inv>`           input body begins / returns / throws
  `b <k> <item>` `e <k> <item>` `x <k> <item>`        body of filter k begins / returns / throws
  `cq`                                                 somebody is about to call cancel_group_execution
  `d <item> <k>`                                       token object `tok item k` was destroyed
  `ret`                                                the call returned (normally or by exception)
  `alive <item> <k>`                                   after `ret`: a token object that was never destroyed
  `fin`                                                end of log: ledgers must agree
Invisible steps (token accounting, put, note-done, dispatcher checks, clean-up of tasks that hold nothing) are inserted
as late as possible; the model's `cancel` event is applied as late as possible after a `cq` line (the flag is stored
some time after the line was written; tasks that passed their check earlier still run).  Every state change goes
through `stepEv`. -/

open Proto

structure VL where
  cfg   : Cfg := { modes := [], maxTok := 0, total := 0 }
  fl    : Flags := { bufferCleanup := false }
  st    : LSt := initL { modes := [], maxTok := 0, total := 0 }
  inv   : List (Nat × Nat) := []      -- input invocation ↦ task
  pend  : Bool := false               -- a `cq` line was seen and the model's flag is not yet set
  seenD : List Obj := []              -- `d` lines seen
  alive : List Obj := []              -- `alive` lines seen
  ok    : Bool := false

def phOf (s : LSt) (tid : Nat) : Phase := s.ph.getD tid .gone

def ev (v : VL) (s : LSt) (e : Ev) : LSt × LLabel := stepEv v.cfg v.fl s e

/-- invisible steps a task may take on its own without entering a body or touching a token object -/
def quietStep (v : VL) (s : LSt) (tid : Nat) (allowStart : Bool) : Option LSt :=
  match s.base.tasks[tid]? with
  | none => none
  | some t =>
    let p := phOf s tid
    let c := v.cfg
    if p == .gone || t.pc == .dead then none
    else if p == .thrown then none     -- the catch block (it sets the cancellation flag) runs as late as possible
    else if p == .atDisp then (if heldObj c t == none then some (ev v s (.run tid)).1 else none)
    else if p == .checked then
      -- a parallel input task that passed the check: its next step is the end_of_input load
      (if t.pc == .start && !(c.mode 0).serial && allowStart then some (ev v s (.run tid)).1 else none)
    else if t.pc == .fsubS || t.pc == .fsubP || t.pc == .ldEoi || t.pc == .fadd || (t.pc == .noteDone && t.stage + 1 == c.n) then
      some (ev v s (.run tid)).1
    else if atDispPc t.pc && s.cancelled && heldObj c t == none then some (ev v s (.run tid)).1
    else if t.pc == .start && !(c.mode 0).serial && allowStart && !s.cancelled then some (ev v s (.run tid)).1
    else none

def ensureL (v : VL) (target : LSt → Bool) (allowStart : Bool) : Nat → LSt → Option LSt
  | 0, _ => none
  | f + 1, s =>
    if target s then some s else
    match (List.range s.base.tasks.length).findSome? (fun tid => quietStep v s tid allowStart) with
    | none => none
    | some s' => ensureL v target allowStart f s'

def fuelL (s : LSt) : Nat := 12 * s.base.tasks.length + 64

/-- bring the task carrying `item` to the dispatcher entry in front of filter `k` (base pc `call`, stage `k`) -/
def toCall (v : VL) (k item : Nat) : Except String (LSt × Nat) :=
  match v.st.base.loc[item]? with
  | some (.task tid) =>
    if phOf v.st tid == .checked &&
        (match v.st.base.tasks[tid]? with | some t => t.pc == .call && t.stage == k | none => false) then .ok (v.st, tid) else
    if phOf v.st tid != .run then .error s!"item {item}: its task is not running ({reprStr (phOf v.st tid)})" else
    let s1 := match v.st.base.tasks[tid]? with
      | some t => if t.pc == .fsubS || (t.pc == .noteDone && t.stage + 1 == k) then (ev v v.st (.run tid)).1 else v.st
      | none => v.st
    match s1.base.tasks[tid]? with
    | some t =>
      if t.stage != k then .error s!"item {item} is at filter {t.stage} ({reprStr t.pc}), not at filter {k}" else
      let s2 := if t.pc == .put then
          let s1' := match s1.base.tasks.findIdx? (fun u => u.pc == .noteDone && u.stage == k) with
            | some o => if phOf s1 o == .run then (ev v s1 (.run o)).1 else s1
            | none => s1
          (ev v s1' (.run tid)).1
        else s1
      match s2.base.tasks[tid]? with
      | some t2 =>
        if t2.pc != .call then
          .error s!"item {item} may not enter filter {k} now (model: {reprStr t2.pc}; serial filter busy or not its turn in the token order)"
        else .ok (s2, tid)
      | none => .error "internal"
    | none => .error "internal"
  | some l => .error s!"item {item} is not carried by a task ({reprStr l})"
  | none => .error s!"item {item} was never emitted"

def vlIb (v : VL) (inv : Nat) : VL × String :=
  let ser := (v.cfg.mode 0).serial
  let want : Pc := if ser then .start else .callInP
  let ready (s : LSt) (tid : Nat) : Bool :=
    match s.base.tasks[tid]? with
    | some t => t.pc == want && (if ser then phOf s tid == .checked else phOf s tid == .run)
    | none => false
  -- a serial input task at `start` must pass the dispatcher check first
  let pre (s : LSt) : LSt :=
    if ser then
      match (List.range s.base.tasks.length).find? (fun tid =>
        match s.base.tasks[tid]? with | some t => t.pc == .start && phOf s tid == .run | none => false) with
      | some tid => if s.cancelled then s else (ev v s (.run tid)).1
      | none => s
    else s
  let tgt (s : LSt) : Bool := (List.range s.base.tasks.length).any (ready (pre s))
  match ensureL v tgt (!ser) (fuelL v.st) v.st with
  | none => (v, "stuck ib: no input task can exist (no free token, end of input already seen, or cancelled)")
  | some s0 =>
    let s := pre s0
    match (List.range s.base.tasks.length).find? (ready s) with
    | none => (v, "stuck ib")
    | some tid =>
      let r := ev v s (.run tid)
      if r.2 == .base .ibeg then ({ v with st := r.1, inv := (inv, tid) :: v.inv }, "ok")
      else (v, "stuck ib: step gave " ++ reprStr r.2)

def vlIe (v : VL) (inv : Nat) (item : Option Nat) : VL × String :=
  match v.inv.lookup inv with
  | none => (v, "stuck ie: unknown invocation")
  | some tid =>
    let r := ev v v.st (.run tid)
    if r.2 == .base (.iend item) then ({ v with st := r.1, inv := v.inv.filter (fun p => p.1 != inv) }, "ok")
    else (v, s!"stuck ie: model step gives {reprStr r.2}")

def vlIx (v : VL) (inv : Nat) : VL × String :=
  match v.inv.lookup inv with
  | none => (v, "stuck ix: unknown invocation")
  | some tid =>
    let r := ev v v.st (.throw tid)
    if r.2 == .thrown then ({ v with st := r.1, inv := v.inv.filter (fun p => p.1 != inv) }, "ok")
    else (v, s!"stuck ix: model step gives {reprStr r.2}")

def vlPrep (v : VL) (m : Nat) : VL × String :=
  match ensureL v (fun s => decide (m ≤ s.base.tasks.countP (fun t => t.pc == .callInP))) true (fuelL v.st + 8 * m) v.st with
  | none => (v, s!"stuck prep: {m} further input invocations cannot have passed the end-of-input test")
  | some s => ({ v with st := s }, "ok")

def vlB (v : VL) (k item : Nat) : VL × String :=
  match toCall v k item with
  | .error m => (v, "stuck b: " ++ m)
  | .ok (s2, tid) =>
    -- the dispatcher check was passed (possibly before a pending cancellation became visible)
    if s2.cancelled && phOf s2 tid != .checked then (v, s!"stuck b: item {item} enters filter {k} although the context was cancelled before its task was dispatched") else
    let s3 := if phOf s2 tid == .checked then s2 else (ev v s2 (.run tid)).1
    let r := ev v s3 (.run tid)
    if r.2 == .base (.fbeg k item) then ({ v with st := r.1 }, "ok") else (v, s!"stuck b: model step gives {reprStr r.2}")

def vlE (v : VL) (k item : Nat) (thrw : Bool) : VL × String :=
  match v.st.base.loc[item]? with
  | some (.task tid) =>
    (match v.st.base.tasks[tid]? with
     | some t =>
       if t.pc == .inFilter && t.stage == k && phOf v.st tid == .run then
         if thrw then
           let r := ev v v.st (.throw tid)
           if r.2 == .thrown then ({ v with st := r.1 }, "ok") else (v, s!"stuck x: model step gives {reprStr r.2}")
         else
           let r := ev v v.st (.run tid)
           if r.2 == .base (.fend k item) then ({ v with st := r.1 }, "ok") else (v, s!"stuck e: model step gives {reprStr r.2}")
       else (v, s!"stuck e: item {item} is not inside filter {k}")
     | none => (v, "stuck e"))
  | _ => (v, s!"stuck e: item {item} is not carried by a task")

/-- the dispatcher's catch block of every task whose body has thrown -/
def catchAll (v : VL) (s : LSt) : LSt :=
  (List.range s.base.tasks.length).foldl (fun s tid => if phOf s tid == .thrown then (ev v s (.run tid)).1 else s) s

/-- make the cancellation flag set, if anything on record can have set it -/
def setFlag (v : VL) (s : LSt) : Option LSt :=
  if s.cancelled then some s
  else if v.pend then some (ev v s .cancel).1
  else
    let s' := catchAll v s
    if s'.cancelled then some s' else none

/-- hint `pass b k item`: a later line of the log shows this invocation beginning; if the flag is not yet set in the
model its task passes the dispatcher check now (it may have done so before the flag was stored) -/
def vlPassB (v : VL) (k item : Nat) : VL × String :=
  if v.st.cancelled then (v, "ok") else
  match toCall v k item with
  | .error _ => (v, "ok")
  | .ok (s2, tid) =>
    if phOf s2 tid == .run then ({ v with st := (ev v s2 (.run tid)).1 }, "ok") else ({ v with st := s2 }, "ok")

/-- hint `pass ib`: one more input task passes the dispatcher check now -/
def vlPassIb (v : VL) : VL × String :=
  if v.st.cancelled then (v, "ok") else
  let atStart (s : LSt) (tid : Nat) : Bool :=
    match s.base.tasks[tid]? with | some t => t.pc == .start && phOf s tid == .run | none => false
  -- the task may still have to be recycled / spawned by invisible steps (token accounting) of other tasks
  match ensureL v (fun s => (List.range s.base.tasks.length).any (atStart s)) false (fuelL v.st) v.st with
  | none => (v, "ok")
  | some s =>
    match (List.range s.base.tasks.length).find? (atStart s) with
    | some tid => ({ v with st := (ev v s (.run tid)).1 }, "ok")
    | none => (v, "ok")

/-- after the last visible event: let every task finish; the remaining puts park (or run into the clean-up) -/
def drainL (v : VL) : Nat → LSt → LSt
  | 0, s => s
  | f + 1, s =>
    match (List.range s.base.tasks.length).findSome? (fun tid => quietStep v s tid true) with
    | some s' => drainL v f s'
    | none =>
      match (List.range s.base.tasks.length).find? (fun tid =>
          (match s.base.tasks[tid]? with | some t => t.pc == .put || t.pc == .noteDone | none => false) && phOf s tid == .run) with
      | some tid => drainL v f (ev v s (.run tid)).1
      | none => s

/-- `d item k`: either the consuming invocation already destroyed it in the model, or a cancelled task does it now -/
def vlD (v : VL) (item k : Nat) : VL × String :=
  let o := Obj.tok item k
  if v.seenD.contains o then (v, s!"stuck d: token object ({item},{k}) destroyed twice") else
  let v := { v with seenD := o :: v.seenD }
  if v.st.destroyed.contains o then (v, "ok") else
  if !v.st.created.contains o then (v, s!"stuck d: token object ({item},{k}) was never created in the model") else
  -- clean-up of the task that carries the item in front of filter k+1
  match v.st.base.loc[item]? with
  | some (.task tid) =>
    let p := phOf v.st tid
    if p == .thrown || p == .atDisp then
      let s1 := if p == .thrown then (ev v v.st (.run tid)).1 else v.st
      let r := ev v s1 (.run tid)
      if r.2 == .fin (some o) then ({ v with st := r.1, pend := v.pend && !r.1.cancelled }, "ok")
      else (v, s!"stuck d: model clean-up gives {reprStr r.2}")
    else
      match toCall v (k + 1) item with
      | .error m =>
        -- with the clean-up in `~pipeline`: every task has finished, the item was parked, the destructor walks the slots
        if v.fl.bufferCleanup then
          let s0 := catchAll v (if v.pend && !v.st.cancelled then (ev v v.st .cancel).1 else v.st)
          let s := drainL v (4 * fuelL s0) s0
          match s.base.loc[item]? with
          | some (.parked j _) => if j == k + 1 && waitL s == 0 then ({ v with st := s, pend := false }, "ok") else (v, "stuck d: " ++ m)
          | _ => (v, "stuck d: " ++ m)
        else (v, "stuck d: " ++ m)
      | .ok (s2, tid) =>
        if phOf s2 tid == .checked then (v, s!"stuck d: the task of item {item} already passed the dispatcher check") else
        match setFlag v s2 with
        | none => (v, s!"stuck d: token object ({item},{k}) destroyed by a clean-up although nobody cancelled the context")
        | some s3 =>
          let r := ev v s3 (.run tid)
          if r.2 == .fin (some o) then ({ v with st := r.1, pend := false }, "ok")
          else (v, s!"stuck d: model clean-up gives {reprStr r.2}")
  | some (.parked j _) =>
    -- `~pipeline` with the clean-up: the slot's object is destroyed while the call returns (the model does it in `ret`)
    if v.fl.bufferCleanup && j == k + 1 then (v, "ok")
    else (v, s!"stuck d: token object ({item},{k}) destroyed while its item is parked at filter {j}")
  | some l => (v, s!"stuck d: token object ({item},{k}) destroyed while its item is {reprStr l}")
  | none => (v, s!"stuck d: item {item} was never emitted")

def showObj : Obj → String
  | .tok i k => s!"({i},{k})"
  | .stopVal j => s!"(stop {j})"

def vlRet (v : VL) : VL × String :=
  let s0 := catchAll v (if v.pend && !v.st.cancelled then (ev v v.st .cancel).1 else v.st)
  let s := drainL v (4 * fuelL s0) s0
  let r := ev v s .ret
  if r.2 == .ret then ({ v with st := r.1, pend := false }, "ok")
  else
    let live := (List.range s.base.tasks.length).filter (liveTask s)
    (v, s!"stuck ret: stage tasks still alive in the model: {reprStr (live.map (fun tid => ((s.base.tasks.getD tid default).pc, (s.base.tasks.getD tid default).stage, (s.base.tasks.getD tid default).info.item, phOf s tid)))}")

def vlFin (v : VL) : VL × String :=
  let s := v.st
  if !s.returned then (v, "stuck fin: no return") else
  let toks (l : List Obj) := l.filter (fun o => match o with | .tok _ _ => true | _ => false)
  let missing := (toks s.destroyed).filter (fun o => !v.seenD.contains o)
  let extra := v.seenD.filter (fun o => !s.destroyed.contains o)
  let leakM := s.leaked.filter (fun o => !v.alive.contains o)
  let leakI := v.alive.filter (fun o => !s.leaked.contains o)
  if !missing.isEmpty then (v, "stuck fin: destroyed in the model, not in the run: " ++ " ".intercalate (missing.map showObj))
  else if !extra.isEmpty then (v, "stuck fin: destroyed in the run, not in the model: " ++ " ".intercalate (extra.map showObj))
  else if !leakM.isEmpty then (v, "stuck fin: the model leaves these in buffer slots, the run destroyed or never made them: " ++ " ".intercalate (leakM.map showObj))
  else if !leakI.isEmpty then (v, "stuck fin: alive after return in the run, not parked in the model: " ++ " ".intercalate (leakI.map showObj))
  else if s.base.err then (v, "stuck fin: model error flag")
  else (v, s!"ok leaked={s.leaked.length} cancelled={showBool s.cancelled}")

def driveLife (v : VL) (ws : List String) : VL × String :=
  match ws with
  | ["cfg", mx, total, modes, cl] => match nat? mx, nat? total, parseModes modes, nat? cl with
      | some mx, some total, some ms, some cl =>
        if mx = 0 ∨ ms.isEmpty then (v, "bad-op") else
        let c : Cfg := { modes := ms, maxTok := mx, total := total }
        ({ cfg := c, fl := { bufferCleanup := cl != 0 }, st := initL c, ok := true }, "ok")
      | _, _, _, _ => (v, "bad-op")
  | ["ib", i] => match nat? i with
      | some i => if v.ok then vlIb v i else (v, "bad-op")
      | none => (v, "bad-op")
  | ["ie", i, x] => match nat? i with
      | some i => if !v.ok then (v, "bad-op") else
          if x == "-" then vlIe v i none else (match nat? x with | some x => vlIe v i (some x) | none => (v, "bad-op"))
      | none => (v, "bad-op")
  | ["ix", i] => match nat? i with
      | some i => if v.ok then vlIx v i else (v, "bad-op")
      | none => (v, "bad-op")
  | ["prep", m] => match nat? m with
      | some m => if v.ok then vlPrep v m else (v, "bad-op")
      | none => (v, "bad-op")
  | ["b", k, i] => match nat? k, nat? i with
      | some k, some i => if v.ok then vlB v k i else (v, "bad-op")
      | _, _ => (v, "bad-op")
  | ["e", k, i] => match nat? k, nat? i with
      | some k, some i => if v.ok then vlE v k i false else (v, "bad-op")
      | _, _ => (v, "bad-op")
  | ["x", k, i] => match nat? k, nat? i with
      | some k, some i => if v.ok then vlE v k i true else (v, "bad-op")
      | _, _ => (v, "bad-op")
  | ["pass", "b", k, i] => match nat? k, nat? i with
      | some k, some i => if v.ok then vlPassB v k i else (v, "bad-op")
      | _, _ => (v, "bad-op")
  | ["pass", "ib"] => if v.ok then vlPassIb v else (v, "bad-op")
  | ["cq"] => if v.ok then ({ v with pend := !v.st.cancelled }, "ok") else (v, "bad-op")
  | ["d", i, k] => match nat? i, nat? k with
      | some i, some k => if v.ok then vlD v i k else (v, "bad-op")
      | _, _ => (v, "bad-op")
  | ["alive", i, k] => match nat? i, nat? k with
      | some i, some k => if v.ok then ({ v with alive := .tok i k :: v.alive }, "ok") else (v, "bad-op")
      | _, _ => (v, "bad-op")
  | ["ret"] => if v.ok then vlRet v else (v, "bad-op")
  | ["fin"] => if v.ok then vlFin v else (v, "bad-op")
  | ["dump"] =>
      let s := v.st
      (v, s!"tokens={s.base.tokens} eoi={s.base.eoi} wait={waitL s} cancelled={s.cancelled} produced={s.base.produced} tasks={reprStr ((List.range s.base.tasks.length).map (fun tid => ((s.base.tasks.getD tid default).pc, (s.base.tasks.getD tid default).stage, (s.base.tasks.getD tid default).info.item, phOf s tid)))}")
  | _ => (v, "bad-op")

def driverLife : Proto.Driver := { σ := VL, init := {}, step := driveLife }

/-- `c07liferun`: the model under an explicit event list: `cfg …`, then `r <tid>` / `t <tid>` / `c` / `ret`. -/
def driveLifeRun (v : VL) (ws : List String) : VL × String :=
  match ws with
  | ["cfg", _, _, _, _] => driveLife v ws
  | ["r", t] => match nat? t with
      | some t => if !v.ok then (v, "bad-op") else let r := ev v v.st (.run t); ({ v with st := r.1 }, reprStr r.2)
      | none => (v, "bad-op")
  | ["t", t] => match nat? t with
      | some t => if !v.ok then (v, "bad-op") else let r := ev v v.st (.throw t); ({ v with st := r.1 }, reprStr r.2)
      | none => (v, "bad-op")
  | ["c"] => if !v.ok then (v, "bad-op") else let r := ev v v.st .cancel; ({ v with st := r.1 }, reprStr r.2)
  | ["ret"] => if !v.ok then (v, "bad-op") else
      let r := ev v v.st .ret
      ({ v with st := r.1 }, reprStr r.2 ++ " leaked=" ++ " ".intercalate (r.1.leaked.map showObj))
  | ["dump"] => driveLife v ws
  | _ => (v, "bad-op")

def driverLifeRun : Proto.Driver := { σ := VL, init := {}, step := driveLifeRun }

end TbbVerif.C07.Life
