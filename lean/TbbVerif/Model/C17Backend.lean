/-
C17 — tbbmalloc BACK END (src/tbbmalloc/backend.cpp, backend.h): executable model, core Lean only.

Granularity: one model step per serialised back-end operation (`genericGetBlock`, `genericPutBlock`, `scanCoalescQ`,
`clean`, `reset`), written statement by statement after the code; the guarded-size locking protocol of `doCoalesc`
is modelled separately at atomic-access level in `Model/C17Coal.lean`.

State = the code's own state words:
  * `regionList` (head first); per region `allocSz`, `blockSz`, `type`;
  * per block start the `FreeBlock` header: the boundary tags `myL` / `leftL` (`GuardedSize`: LOCKED = 0, COAL_BLOCK = 1,
    LAST_REGION_BLOCK = 2, otherwise a size), `sizeTmp`, `myBin`, `slabAligned`, `blockInBin`;
  * the two `IndexedBins` (one list of entries `(slabAligned, bin, address)`; the order of the entries of one bin is the
    order of that bin's doubly linked list: head insertion = `cons`, tail insertion = append), their bit masks,
    `advRegBins`; the delayed-coalescing queue `coalescQ`; `maxRequestedSize`, `bootsrapMemStatus`, `binsModifications`.
Ghost: the extent `size` of every block (the code only knows it for free blocks) and who owns it (`Own`).  The code's
decisions never read the ghost fields: neighbours are reached through the tag VALUES as in `rightNeig(sz)` /
`leftNeig(sz)`; if a value is not the neighbour's extent the model raises `bad` (the theorems show it never does).
A block of a region is addressed through a zipper (`Zip`): blocks to the left (nearest first), the block, blocks to
the right.  `skip` is raised when an internal step is asked to work on a block that is not in the expected ghost state
(never on the unchanged code: the white-box differential compares every state).

Environment: raw memory (`rawAlloc` answers are an input list: address and granted size, or failure), other threads
holding a bin mutex (`lockbin`), another thread having started to free a block (`markcoal`).
-/
import TbbVerif.Core.Sched
import TbbVerif.Core.Proto
import TbbVerif.Generated.C17Backend

namespace TbbVerif.C17.BE
open TbbVerif.Generated.C17Backend

/-! ### arithmetic of the back end -/

def alignUpN (x a : Nat) : Nat := (x + (a - 1)) / a * a
def alignDownN (x a : Nat) : Nat := x / a * a

/-- `Backend::sizeToBin`: `NO_BIN` is `-1` -/
def sizeToBin (size : Nat) : Int :=
  if size ≥ beMaxBinnedHugePage then (beHugeBin : Int)
  else if size < beMinBinnedSize then -1
  else (((size - beMinBinnedSize) / beFreeBinsStep : Nat) : Int)

/-- `Backend::toAlignedBin(block, size)` -/
def toAlignedBin (addr size : Nat) : Bool := (addr + size) % beSlabSize == 0 && size ≥ beSlabSize

/-- the fit test of `getFromBin`, general case -/
def fitGeneral (szBlock size : Nat) : Bool :=
  szBlock ≥ size && (szBlock - size ≥ beMinBlockSize || szBlock - size == 0)

/-- the fit test of `getFromBin`, slab-aligned block out of an unaligned bin (fixed pools) -/
def fitAligned (curr szBlock size : Nat) : Bool :=
  let newB := alignUpN curr beSlabSize
  let rightNew := newB + size
  let rightCurr := curr + szBlock
  rightNew ≤ rightCurr && (newB == curr || newB - curr ≥ beMinBlockSize) &&
    (rightNew == rightCurr || rightCurr - rightNew ≥ beMinBlockSize)

/-! ### state -/

inductive Own where
  /-- handed out by `genericGetBlock`; the flag is the `slabAligned` the holder will pass to `genericPutBlock` -/
  | user (aligned : Bool)
  /-- another thread has started to free it (`markCoalescing` done) -/
  | coal (aligned : Bool)
  /-- locked by the running operation -/
  | held
  /-- waiting in `coalescQ` -/
  | queued
  | free
  /-- the `LastFreeBlock` of the region -/
  | last
  deriving DecidableEq, Repr

structure Blk where
  size : Nat
  own : Own
  myL : Nat
  leftL : Nat
  sizeTmp : Nat := 0
  myBin : Int := -1
  aligned : Bool := false
  inBin : Bool := false
  deriving DecidableEq, Repr

structure Region where
  base : Nat
  allocSz : Nat
  blockSz : Nat
  type : Nat
  first : Nat
  blocks : List Blk
  deriving DecidableEq, Repr

structure Entry where
  al : Bool
  bin : Nat
  addr : Nat
  deriving DecidableEq, Repr

structure Cfg where
  fixedPool : Bool
  keepAll : Bool
  granularity : Nat
  deriving DecidableEq, Repr

/-- everything but the regions -/
structure Glob where
  cfg : Cfg
  bins : List Entry := []
  mask : List (Bool × Nat) := []
  adv : List Nat := []
  queue : List Nat := []
  binLocked : List (Bool × Nat) := []
  maxReq : Nat := 0
  boot : Nat := 0
  delay : Bool := false
  mods : Nat := 0
  /-- log of raw-memory traffic of the current operation (not read by the model) -/
  log : List String := []
  /-- the code would have followed a tag value to something that is not a block start / failed an assertion -/
  bad : Bool := false
  /-- an internal step found its block in an unexpected ghost state and did nothing -/
  skip : Bool := false
  deriving Repr

structure St where
  g : Glob
  regions : List Region := []
  deriving Repr

def Glob.setBad (g : Glob) : Glob := { g with bad := true }
def Glob.setSkip (g : Glob) : Glob := { g with skip := true }
def St.setBad (s : St) : St := { s with g := s.g.setBad }
def St.setSkip (s : St) : St := { s with g := s.g.setSkip }

/-! ### addressing: zippers -/

def sumSizes (bs : List Blk) : Nat := (bs.map (·.size)).sum

/-- a block of a region in its context: `pre` are the blocks to its left, NEAREST FIRST -/
structure Zip where
  pre : List Blk
  cur : Blk
  post : List Blk
  addr : Nat
  deriving Repr

def Zip.blocks (z : Zip) : List Blk := z.pre.reverse ++ z.cur :: z.post

/-- the block that starts at `target`, scanning from address `a` with `acc` already passed -/
def findZip : Nat → List Blk → List Blk → Nat → Option Zip
  | _, _, [], _ => none
  | a, acc, b :: rest, target =>
    if a = target then some ⟨acc, b, rest, a⟩
    else if target < a + b.size then none
    else findZip (a + b.size) (b :: acc) rest target

/-- a region in its context (regions before it NEAREST FIRST) with a block of it -/
structure Cursor where
  before : List Region
  reg : Region
  after : List Region
  z : Zip
  deriving Repr

def findCursor : List Region → List Region → Nat → Option Cursor
  | _, [], _ => none
  | acc, r :: rest, target =>
    match findZip r.first [] r.blocks target with
    | some z => some ⟨acc, r, rest, z⟩
    | none => findCursor (r :: acc) rest target

def locate (s : St) (addr : Nat) : Option Cursor := findCursor [] s.regions addr

/-- write the (changed) block list back -/
def Cursor.close (c : Cursor) (z : Zip) : List Region :=
  c.before.reverse ++ { c.reg with blocks := z.blocks } :: c.after

/-- the region is gone (released to the OS) -/
def Cursor.drop (c : Cursor) : List Region := c.before.reverse ++ c.after

/-! ### bins -/

def binEmpty (bins : List Entry) (al : Bool) (bin : Nat) : Bool := !(bins.any (fun e => e.al == al && e.bin == bin))

def maskSet (m : List (Bool × Nat)) (al : Bool) (bin : Nat) : List (Bool × Nat) :=
  if m.contains (al, bin) then m else (al, bin) :: m

def maskClear (m : List (Bool × Nat)) (al : Bool) (bin : Nat) : List (Bool × Nat) := m.filter (· != (al, bin))

/-- `IndexedBins::lockRemoveBlock` / `Bin::removeBlock` + the bit-mask update of the callers that do one -/
def Glob.binRemove (g : Glob) (e : Entry) : Glob :=
  if g.bins.contains e then
    let bins := g.bins.erase e
    { g with bins := bins, mask := if binEmpty bins e.al e.bin then maskClear g.mask e.al e.bin else g.mask }
  else g.setBad

/-- `Backend::removeBlockFromBin(fBlock)` for the block `b` at `addr` -/
def Glob.removeBlockFromBin (g : Glob) (addr : Nat) (b : Blk) : Glob :=
  if b.myBin = -1 then g else g.binRemove ⟨b.aligned, b.myBin.toNat, addr⟩

/-- `IndexedBins::addBlock` / a successful `tryAddBlock` (the caller writes `myBin`) -/
def Glob.binAdd (g : Glob) (addr : Nat) (al : Bool) (bin : Nat) (toTail : Bool) : Glob :=
  let e : Entry := ⟨al, bin, addr⟩
  { g with bins := if toTail then g.bins ++ [e] else e :: g.bins, mask := maskSet g.mask al bin }

/-! ### delayed coalescing queue -/

/-- `CoalRequestQ::putBlock(fBlock)`: `markUsed` (tags back to LOCKED) and push -/
def queuePut (g : Glob) (z : Zip) : Glob × Zip :=
  match z.post with
  | [] => (g.setBad, z)
  | r :: post =>
    if z.cur.sizeTmp ≠ z.cur.size then (g.setBad, z) else
    ({ g with queue := z.addr :: g.queue },
     { z with cur := { z.cur with myL := gsLocked, own := .queued }, post := { r with leftL := gsLocked } :: post })

/-! ### coalescing -/

inductive CoOut where
  /-- the (possibly merged) block is held by the caller; `lastRight`: the `LastFreeBlock` is its right neighbour -/
  | merged (lastRight : Bool)
  /-- the request was put into `coalescQ` -/
  | queued
  deriving DecidableEq, Repr

/-- the left half of `Backend::doCoalesc`; `leftSz` = what `fBlock->trySetLeftUsed(COAL_BLOCK)` returned.
`true`: go on with the right neighbour -/
def coLeft (g : Glob) (z : Zip) (leftSz : Nat) : Glob × Zip × Bool :=
  if leftSz = gsLocked then (g, z, true)
  else if leftSz = gsCoalBlock then
    let (g, z) := queuePut g z
    (g, z, false)
  else
    match z.pre with
    | [] => (g.setBad, z, false)
    | l :: pre1 =>
      if l.size ≠ leftSz then (g.setBad, z, false) else
      let lSz := l.myL
      if lSz ≤ gsMaxLockedVal then
        -- rollback, delay
        let (g, z) := queuePut g { z with cur := { z.cur with leftL := leftSz } }
        (g, z, false)
      else
        let g := if lSz ≠ leftSz then g.setBad else g
        -- left->blockInBin = true; resBlock = left; resSize += leftSz; resBlock->sizeTmp = resSize
        let m : Blk := { l with myL := gsCoalBlock, inBin := true, sizeTmp := z.cur.sizeTmp + leftSz, size := l.size + z.cur.size, own := .held }
        (g, ⟨pre1, m, z.post, z.addr - l.size⟩, true)

/-- `if (resBlock->blockInBin) { resBlock->blockInBin = false; removeBlockFromBin(resBlock); } coalescQ.putBlock(resBlock);` -/
def coGiveUp (g : Glob) (z : Zip) : Glob × Zip × CoOut :=
  let g := if z.cur.inBin then g.removeBlockFromBin z.addr z.cur else g
  let (g, z) := queuePut g { z with cur := { z.cur with inBin := false } }
  (g, z, .queued)

/-- the right half of `Backend::doCoalesc`; `z.cur` is `resBlock` -/
def coRight (g : Glob) (z : Zip) : Glob × Zip × CoOut :=
  match z.post with
  | [] => (g.setBad, z, .queued)
  | r :: post1 =>
    let rightSz := r.myL
    if rightSz = gsLocked then (g, z, .merged false)
    else if rightSz = gsLastRegionBlock then (g, z, .merged true)      -- tag set to COAL and back
    else if rightSz = gsCoalBlock then coGiveUp g z
    else
      match post1 with
      | [] => (g.setBad, z, .queued)
      | rr :: post2 =>
        if r.size ≠ rightSz then (g.setBad, z, .queued) else
        let rSz := rr.leftL
        if rSz ≤ gsMaxLockedVal then coGiveUp g z     -- right->setMeFree(rightSz): rollback
        else
          let g := if rSz ≠ rightSz then g.setBad else g
          let g := g.removeBlockFromBin (z.addr + z.cur.size) r
          let m : Blk := { z.cur with sizeTmp := z.cur.sizeTmp + rightSz, size := z.cur.size + r.size }
          (g, { z with cur := m, post := { rr with leftL := gsCoalBlock } :: post2 }, .merged (decide (rr.myL = gsLastRegionBlock)))

/-- `Backend::doCoalesc(fBlock, &memRegion)` for a held block whose `sizeTmp` is its size -/
def doCoalesc (g : Glob) (z : Zip) : Glob × Zip × CoOut :=
  match z.post with
  | [] => (g.setBad, z, .queued)
  | r :: post1 =>
    let f := z.cur
    if f.sizeTmp ≠ f.size then (g.setBad, z, .queued) else
    -- fBlock->markCoalescing(resSize); resBlock->blockInBin = false; leftSz = fBlock->trySetLeftUsed(COAL_BLOCK)
    let leftSz := f.leftL
    let f' : Blk := { f with myL := gsCoalBlock, inBin := false, leftL := if leftSz > gsMaxLockedVal then gsCoalBlock else leftSz }
    let z : Zip := { z with cur := f', post := { r with leftL := gsCoalBlock } :: post1 }
    let (g, z, go) := coLeft g z leftSz
    if go && !g.bad then coRight g z else (g, z, .queued)

/-- `ExtMemoryPool::regionsAreReleaseable` -/
def Glob.releasable (g : Glob) : Bool := !g.cfg.keepAll && !g.delay

/-- `toRet->setMeFree(currSz); toRet->rightNeig(currSz)->setLeftFree(currSz)` -/
def setFree (z : Zip) (currSz : Nat) : Zip :=
  match z.post with
  | [] => z
  | r :: post => { z with cur := { z.cur with myL := currSz, own := .free, inBin := false }, post := { r with leftL := currSz } :: post }

/-- the body of the loop of `Backend::coalescAndPutList` after `doCoalesc` returned the block `z.cur`;
`none`: the whole region was released -/
def putCoalesced (g : Glob) (regBlockSz : Nat) (z : Zip) (lastRight force : Bool) : Glob × Option Zip :=
  let t := z.cur
  let whole := lastRight && regBlockSz == t.sizeTmp && !g.cfg.fixedPool
  if whole && g.releasable then
    -- release the region, because there is no used blocks in it
    (if t.inBin then g.removeBlockFromBin z.addr t else g, none)
  else
    let addToTail := whole
    let currSz := t.sizeTmp
    let bin := sizeToBin currSz
    let toAligned := if g.cfg.fixedPool then toAlignedBin z.addr currSz else t.aligned
    let stays := t.inBin && t.myBin == bin && t.aligned == toAligned
    let g := if t.inBin && !stays then g.removeBlockFromBin z.addr t else g
    if stays then (g, some (setFree z currSz))
    else
      let t : Blk := { t with inBin := false, myBin := -1, aligned := toAligned }
      if currSz ≥ beMinBinnedSize then
        if force || !(g.binLocked.contains (toAligned, bin.toNat)) then
          let g := g.binAdd z.addr toAligned bin.toNat addToTail
          (g, some (setFree { z with cur := { t with myBin := bin, sizeTmp := 0 } } currSz))
        else
          -- tryAddBlock failed (`myBin` is written before the attempt): delay the request
          let (g, z) := queuePut g { z with cur := { t with myBin := bin, sizeTmp := currSz } }
          (g, some z)
      else (g, some (setFree { z with cur := { t with sizeTmp := 0 } } currSz))

/-- one iteration of the loop of `Backend::coalescAndPutList` for the block at `addr` (which must be held, with
`sizeTmp` = its size); returns the new state and whether a region was released -/
def coalescAndPut1 (s : St) (addr : Nat) (force report : Bool) : St × Bool :=
  match locate s addr with
  | none => (s.setSkip, false)
  | some c =>
    if c.z.cur.own ≠ .held ∨ c.z.cur.sizeTmp ≠ c.z.cur.size ∨ c.z.cur.inBin = true then (s.setSkip, false) else
    let (g, z, out) := doCoalesc s.g c.z
    let fin (g : Glob) : Glob := if report then { g with mods := g.mods + 1 } else g
    match out with
    | .queued => (⟨fin g, c.close z⟩, false)
    | .merged lastRight =>
      if g.bad then (⟨g, c.close z⟩, false) else
      match putCoalesced g c.reg.blockSz z lastRight force with
      | (g, some z) => (⟨fin g, c.close z⟩, false)
      | (g, none) => (⟨fin { g with log := g.log ++ [s!"[F {c.reg.base} {c.reg.allocSz}]"] }, c.drop⟩, true)

def coalescAndPutList (s : St) (addrs : List Nat) (force report : Bool) : St × Bool :=
  addrs.foldl (fun (acc : St × Bool) a =>
    let (s', rel) := coalescAndPut1 acc.1 a force report
    (s', acc.2 || rel)) (s, false)

/-- `Backend::coalescAndPut(fBlock, blockSz, slabAligned)` for the held block at `addr` -/
def coalescAndPut (s : St) (addr blockSz : Nat) (slabAligned : Bool) : St :=
  match locate s addr with
  | none => s.setSkip
  | some c =>
    -- (in a pool that is not fixed the flag a caller passes is the kind of the region; the model keeps it in the
    -- header of every block it holds, where the real header holds garbage until this very store)
    if c.z.cur.own ≠ .held ∨ c.z.cur.size ≠ blockSz ∨ c.z.cur.inBin = true ∨ (!s.g.cfg.fixedPool && slabAligned != c.z.cur.aligned) then s.setSkip else
    let s : St := ⟨s.g, c.close { c.z with cur := { c.z.cur with sizeTmp := blockSz, aligned := slabAligned } }⟩
    (coalescAndPutList s [addr] false false).1

/-- the blocks leave the queue: they are held by the scanning thread now -/
def unqueue (rs : List Region) : List Region :=
  rs.map (fun r => { r with blocks := r.blocks.map (fun b => if b.own = .queued then { b with own := .held } else b) })

/-- `Backend::scanCoalescQ(forceCoalescQDrop)` -/
def scanCoalescQ (s : St) (force : Bool) : St × Bool :=
  let l := s.g.queue
  if l.isEmpty then (s, false)
  else ((coalescAndPutList ⟨{ s.g with queue := [] }, unqueue s.regions⟩ l force true).1, true)

/-! ### regions -/

def regionsOverlap (rs : List Region) (addr size : Nat) : Bool :=
  rs.any (fun r => addr < r.base + r.allocSz && r.base < addr + size)

/-- `Backend::findBlockInRegion`: `(first block address, block size)` -/
def findBlockInRegion (base allocSz type exactBlockSize : Nat) : Option (Nat × Nat) :=
  let lastFreeBlock := base + allocSz - beSizeofLastFreeBlock
  let fBlock := if type = beRegSlab then alignUpN (base + beSizeofMemRegion) 8 else alignUpN (base + beSizeofMemRegion) beLargeObjectAlignment
  let fBlockEnd := if type = beRegSlab then alignDownN lastFreeBlock beSlabSize else fBlock + exactBlockSize
  if allocSz < beSizeofLastFreeBlock then none
  else if fBlockEnd ≤ fBlock then none
  else if fBlockEnd - fBlock < beNumOfSlabAllocOnMiss * beSlabSize then none
  else if type ≠ beRegSlab ∧ fBlockEnd > lastFreeBlock then none
  else some (fBlock, fBlockEnd - fBlock)

/-- the raw request size of `addNewRegion` -/
def regionRequestSize (size type : Nat) : Nat :=
  if type = beRegSlab then size
  else size + beSizeofMemRegion + beLargeObjectAlignment + beMinBlockSize + beSizeofLastFreeBlock

def alignUpGeneric (x a : Nat) : Nat := if x % a = 0 then x else x + (a - x % a)

/-- the raw size `allocRawMem` asks the pool callback for -/
def rawRequest (g : Glob) (size type : Nat) : Nat := alignUpGeneric (regionRequestSize size type) g.cfg.granularity

inductive AddRes where
  | fail | inBin | block
  deriving DecidableEq, Repr

/-- `startUseBlock`: the two blocks of a fresh (or reset) region -/
def freshBlocks (blockSz type : Nat) (addToBin : Bool) : List Blk :=
  let bin := (sizeToBin blockSz).toNat
  [{ size := blockSz, own := if addToBin then .free else .held,
     myL := if addToBin then blockSz else gsLocked, leftL := gsLocked,
     sizeTmp := if addToBin then 0 else blockSz,
     myBin := if addToBin then (bin : Int) else -1,
     aligned := decide (type = beRegSlab), inBin := false },
   { size := beSizeofLastFreeBlock, own := .last, myL := gsLastRegionBlock,
     leftL := if addToBin then blockSz else gsLocked }]

/-- `Backend::addNewRegion(size, type, addToBin)`.  `raw` is the answer of the raw allocator for the request
(`none`: refused; `some (addr, granted)`); an answer that overlaps a live region, is not word aligned or (non-fixed
pools) is smaller than asked is not a legal environment and counts as a refusal.  The new region is the head of
`regionList`.  Also returns the number of raw answers consumed (0 when a fixed pool does not ask at all). -/
def addNewRegion (s : St) (size type : Nat) (addToBin : Bool) (raw : Option (Nat × Nat)) : St × AddRes × Nat :=
  if s.g.cfg.fixedPool && s.g.boot == 2 then (s, .fail, 0) else
  let req := rawRequest s.g size type
  match raw with
  | none => (⟨{ s.g with log := s.g.log ++ [s!"[P {req} fail]"] }, s.regions⟩, .fail, 1)
  | some (addr, granted) =>
    let s : St := ⟨{ s.g with log := s.g.log ++ [s!"[P {req} {addr}]"] }, s.regions⟩
    if addr % 8 ≠ 0 ∨ addr = 0 ∨ regionsOverlap s.regions addr granted ∨ granted < beSizeofMemRegion
        ∨ (!s.g.cfg.fixedPool && granted < req) then (s, .fail, 1) else
    match findBlockInRegion addr granted type size with
    | none => (s, .fail, 1)      -- the memory goes straight back (not for fixed pools, where it stays with the caller)
    | some (fb, blockSz) =>
      let r : Region := { base := addr, allocSz := granted, blockSz := blockSz, type := type, first := fb,
                          blocks := freshBlocks blockSz type addToBin }
      let g := { s.g with mods := s.g.mods + 1 }
      if addToBin then
        let bin := (sizeToBin blockSz).toNat
        let g := g.binAdd fb (decide (type = beRegSlab)) bin false
        (⟨{ g with adv := if g.adv.contains bin then g.adv else bin :: g.adv }, r :: s.regions⟩, .inBin, 1)
      else (⟨g, r :: s.regions⟩, .block, 1)

/-! ### getting a block -/

/-- `FreeBlock::tryLockBlock` on the block of entry `e` found in a bin, then its removal from the bin -/
def takeFromBin (s : St) (e : Entry) : St :=
  if !s.g.bins.contains e then s.setSkip else
  match locate s e.addr with
  | none => s.setBad
  | some c =>
    match c.z.post with
    | [] => s.setBad
    | r :: post =>
      let b := c.z.cur
      let sz := b.myL
      if sz ≤ gsMaxLockedVal ∨ b.size ≠ sz ∨ r.leftL ≠ sz then s.setBad else
      let z : Zip := { c.z with cur := { b with myL := gsLocked, sizeTmp := sz, own := .held }, post := { r with leftL := gsLocked } :: post }
      ⟨s.g.binRemove e, c.close z⟩

def sizeAt (s : St) (addr : Nat) : Nat :=
  match locate s addr with
  | some c => c.z.cur.myL
  | none => 0

/-- `IndexedBins::getFromBin` for one bin: the first entry (list order) whose block fits -/
def getFromBin (s : St) (al : Bool) (bin : Nat) (size : Nat) (needAligned alignedBin : Bool) : Option Entry :=
  (s.g.bins.filter (fun e => e.al == al && e.bin == bin)).find? (fun e =>
    let szBlock := sizeAt s e.addr
    if alignedBin || !needAligned then fitGeneral szBlock size else fitAligned e.addr szBlock size)

/-- `IndexedBins::findBlock`: bins `nativeBin ..` whose mask bit is set, skipping bins whose mutex is held by someone
else (counted in the second component) -/
def findBlockFrom (s : St) (al : Bool) (size : Nat) (needAligned alignedBin : Bool) : Nat → Nat → Nat → Option Entry × Nat
  | 0, _, locked => (none, locked)
  | fuel + 1, bin, locked =>
    if bin ≥ beFreeBinsNum then (none, locked)
    else if s.g.mask.contains (al, bin) then
      if s.g.binLocked.contains (al, bin) then
        findBlockFrom s al size needAligned alignedBin fuel (bin + 1) (if binEmpty s.g.bins al bin then locked else locked + 1)
      else
        match getFromBin s al bin size needAligned alignedBin with
        | some x => (some x, locked)
        | none => findBlockFrom s al size needAligned alignedBin fuel (bin + 1) locked
    else findBlockFrom s al size needAligned alignedBin fuel (bin + 1) locked

def findBlock (s : St) (al : Bool) (nativeBin : Nat) (size : Nat) (needAligned alignedBin : Bool) : Option Entry × Nat :=
  findBlockFrom s al size needAligned alignedBin (beFreeBinsNum + 1) nativeBin 0

/-- the held block at `addr` is cut at offset `k` (a new header is initialised there: `initHeader`) -/
def splitHeld (s : St) (addr k : Nat) : St :=
  match locate s addr with
  | none => s.setSkip
  | some c =>
    let b := c.z.cur
    -- (ghost checks: the pieces are blocks, the tags are LOCKED, in a slab region of a pool that is not fixed the cut
    -- is on a slab boundary)
    if b.own ≠ .held ∨ k < beMinBlockSize ∨ b.size < k + beMinBlockSize ∨ b.myL ≠ gsLocked ∨
        (s.g.cfg.fixedPool = false ∧ c.reg.type = beRegSlab ∧ (addr + k) % beSlabSize ≠ 0) then s.setSkip else
    let nb : Blk := { size := b.size - k, own := .held, myL := gsLocked, leftL := gsLocked, aligned := b.aligned }
    ⟨s.g, c.close { c.z with cur := { b with size := k, sizeTmp := k }, post := nb :: c.z.post }⟩

/-- `FreeBlock::markBlocks(fBlock, num, size)`: headers for the 2nd .. `num`-th block -/
def markBlocks (s : St) (addr size : Nat) : Nat → St
  | 0 => s
  | j + 1 => markBlocks (splitHeld s addr size) (addr + size) size j

/-- `Backend::splitBlock(fBlock, num, size, blockIsAligned, needAlignedBlock)` for the held block at `fAddr` whose
`sizeTmp` is `fSize`; returns the state and the address of the first block to hand out -/
def splitBlock (s : St) (fAddr fSize : Nat) (num size : Nat) (blockIsAligned needAligned : Bool) : St × Nat :=
  let totalSize := num * size
  if needAligned && !blockIsAligned then
    -- Space to use is in the middle
    let newAddr := alignUpN fAddr beSlabSize
    let rightAddr := newAddr + totalSize
    let fEnd := fAddr + fSize
    -- Return free right part
    let s := if rightAddr ≠ fEnd then
        coalescAndPut (splitHeld s fAddr (rightAddr - fAddr)) rightAddr (fEnd - rightAddr) (toAlignedBin rightAddr (fEnd - rightAddr))
      else s
    -- And free left part
    let s := if newAddr ≠ fAddr then
        coalescAndPut (splitHeld s fAddr (newAddr - fAddr)) fAddr (newAddr - fAddr) (toAlignedBin fAddr (newAddr - fAddr))
      else s
    (markBlocks s newAddr size (num - 1), newAddr)
  else
    let splitSize := fSize - totalSize
    if splitSize ≠ 0 then
      if needAligned then
        -- cut the right side of the block, the original (left) block returns to the backend
        let markAligned := if blockIsAligned != needAligned then toAlignedBin fAddr splitSize else blockIsAligned
        let s := coalescAndPut (splitHeld s fAddr splitSize) fAddr splitSize markAligned
        (markBlocks s (fAddr + splitSize) size (num - 1), fAddr + splitSize)
      else
        let markAligned := if blockIsAligned != needAligned then toAlignedBin (fAddr + totalSize) splitSize else blockIsAligned
        let s := coalescAndPut (splitHeld s fAddr totalSize) (fAddr + totalSize) splitSize markAligned
        (markBlocks s fAddr size (num - 1), fAddr)
    else (markBlocks s fAddr size (num - 1), fAddr)

/-- `IndexedBins::tryReleaseRegions(binIdx)`: every block of the bin is taken out (bit mask untouched) and coalesced
again with `forceCoalescQDrop` -/
def tryReleaseRegions (s : St) (al : Bool) (bin : Nat) : St × Bool :=
  let cands := s.g.bins.filter (fun e => e.al == al && e.bin == bin)
  let s := cands.foldl (fun (s : St) e =>
    let m := s.g.mask
    let s := takeFromBin s e
    ⟨{ s.g with mask := m }, s.regions⟩) s
  coalescAndPutList s (cands.map (·.addr)).reverse true false

/-- `Backend::clean()` -/
def clean (s : St) : St × Bool :=
  let s := (scanCoalescQ s false).1
  let advSorted := (List.range beFreeBinsNum).filter (fun i => s.g.adv.contains i)
  advSorted.foldl (fun (acc : St × Bool) i =>
    let (s, res) := acc
    let (s, r1) := if s.g.mask.contains (true, i) then tryReleaseRegions s true i else (s, false)
    let (s, r2) := if s.g.mask.contains (false, i) then tryReleaseRegions s false i else (s, false)
    (s, res || r1 || r2)) (s, false)

inductive GetRes where
  | block (addr : Nat)
  | null
  /-- the real call would wait for another thread (a bin mutex is held by the environment) -/
  | blocked
  deriving DecidableEq, Repr

/-- `BackendSync::waitTillBlockReleased` in a quiescent back end -/
def waitTillBlockReleased (s : St) (startMods : Nat) : St × Bool :=
  if s.g.queue.isEmpty then (s, startMods != s.g.mods)
  else ((scanCoalescQ s false).1, true)

/-- `Backend::releaseMemInCaches`: `true` = "valid block somewhere in bins" -/
def releaseMemInCaches (s : St) (startMods : Nat) (threshold numLocked : Nat) : St × Bool × Nat :=
  let (s, cleaned) := clean s
  if cleaned then (s, true, threshold) else
  let (s, w) := waitTillBlockReleased s startMods
  if w then (s, true, threshold) else
  if threshold ≠ 0 ∧ numLocked ≠ 0 then (s, true, 0) else (s, false, threshold)

/-- the "advance" regions of `askMemFromOS` -/
def addAdvance (s : St) (regSz regType : Nat) : Nat → List (Option (Nat × Nat)) → Nat → St × Nat
  | 0, _, used => (s, used)
  | n + 1, raws, used =>
    let (s', r, u) := addNewRegion s regSz regType true raws.head?.join
    if r = .inBin then addAdvance s' regSz regType n (raws.drop u) (used + u) else (s', used + u)

structure AskRes where
  s : St
  /-- address of a (held) block to use -/
  block : Option Nat
  /-- "valid block somewhere in bins": search again -/
  valid : Bool
  splittable : Bool
  threshold : Nat
  used : Nat

/-- `Backend::askMemFromOS`; `raws`: the raw allocator's answers, in call order -/
def askMemFromOS (s : St) (blockSize startMods threshold numLocked : Nat) (needSlab : Bool) (raws : List (Option (Nat × Nat))) : AskRes :=
  let maxBinned := beMaxBinnedSmallPage
  if blockSize ≥ maxBinned then
    let (s, r, used) := addNewRegion s blockSize beRegOne false raws.head?.join
    match r, s.regions with
    | .block, reg :: _ => ⟨s, some reg.first, false, false, threshold, used⟩
    | _, _ =>
      let (s, v, th) := releaseMemInCaches s startMods threshold numLocked
      ⟨s, none, v, true, th, used⟩
  else
    let regSz := alignUpN (4 * s.g.maxReq) (1024 * 1024)
    let (s, w) := waitTillBlockReleased s startMods
    if w then ⟨s, none, true, true, threshold, 0⟩ else
    if startMods != s.g.mods then ⟨s, none, true, true, threshold, 0⟩ else
    let quiteSmall := maxBinned / 8
    let regType := if blockSize < quiteSmall then (if needSlab then beRegSlab else beRegLarge) else beRegLarge
    let (s, r, used) := addNewRegion s regSz regType false raws.head?.join
    match r, s.regions with
    | .block, reg :: _ =>
      let (s, used) := if blockSize < quiteSmall then addAdvance s regSz regType 3 (raws.drop used) used else (s, used)
      ⟨s, some reg.first, false, true, threshold, used⟩
    | _, _ =>
      let (s, v, th) := releaseMemInCaches s startMods threshold numLocked
      ⟨s, none, v, true, th, used⟩

/-- the blocks handed out belong to the caller from now on -/
def giveUser (s : St) (addr size : Nat) (al : Bool) : Nat → St
  | 0 => s
  | j + 1 =>
    match locate s addr with
    | none => s.setSkip
    | some c =>
      if c.z.cur.own ≠ .held ∨ c.z.cur.size ≠ size ∨ c.z.cur.myL ≠ gsLocked ∨
          (s.g.cfg.fixedPool = false ∧ al ≠ decide (c.reg.type = beRegSlab)) then s.setSkip
      else giveUser ⟨s.g, c.close { c.z with cur := { c.z.cur with own := Own.user al } }⟩ (addr + size) size al j

/-- the end of `genericGetBlock`: split, hand out -/
def finishGet (s : St) (addr : Nat) (num size : Nat) (needAligned splittable : Bool) (used : Nat) : St × GetRes × Nat :=
  match locate s addr with
  | none => (s.setSkip, .null, used)
  | some c =>
    let b := c.z.cur
    if b.own ≠ .held ∨ b.sizeTmp ≠ b.size ∨ b.size < num * size then (s.setSkip, .null, used) else
    let (s, res) := if splittable then splitBlock s addr b.sizeTmp num size b.aligned needAligned else (s, addr)
    let s := if splittable then giveUser s res size needAligned num else giveUser s res b.size needAligned 1
    (⟨{ s.g with mods := s.g.mods + 1 }, s.regions⟩, .block res, used)

/-- the search of `genericGetBlock` in both sets of bins -/
def searchBins (s : St) (nativeBin totalReqSize : Nat) (needAligned : Bool) : Option Entry × Nat :=
  if needAligned then
    match findBlock s true nativeBin totalReqSize needAligned true with
    | (some x, l) => (some x, l)
    | (none, l) =>
      if s.g.cfg.fixedPool then
        match findBlock s false nativeBin totalReqSize needAligned false with
        | (r, l2) => (r, l + l2)
      else (none, l)
  else
    match findBlock s false nativeBin totalReqSize needAligned false with
    | (some x, l) => (some x, l)
    | (none, l) =>
      if s.g.cfg.fixedPool then
        match findBlock s true nativeBin totalReqSize needAligned true with
        | (r, l2) => (r, l + l2)
      else (none, l)

/-- the main loop of `genericGetBlock` -/
def getLoop (num size : Nat) (needAligned : Bool) : Nat → St → Nat → List (Option (Nat × Nat)) → Nat → St × GetRes × Nat
  | 0, s, _, _, used => (s, .blocked, used)
  | fuel + 1, s, threshold, raws, used =>
    let totalReqSize := num * size
    let nativeBin := (sizeToBin totalReqSize).toNat
    let startMods := s.g.mods
    match searchBins s nativeBin totalReqSize needAligned with
    | (some e, _) =>
      let s := takeFromBin s e
      if s.g.bad then (s, .null, used) else finishGet s e.addr num size needAligned true used
    | (none, numLocked) =>
      if numLocked > threshold then (s, .blocked, used) else
      let (s, r1) := scanCoalescQ s true
      if r1 then getLoop num size needAligned fuel s threshold raws used else
      let a := askMemFromOS s totalReqSize startMods threshold numLocked needAligned raws
      match a.block with
      | some addr => finishGet a.s addr num size needAligned a.splittable (used + a.used)
      | none =>
        if a.valid then getLoop num size needAligned fuel a.s a.threshold (raws.drop a.used) (used + a.used)
        else (a.s, .null, used + a.used)

/-- `Backend::genericGetBlock(num, size, needAlignedBlock)` -/
def genericGetBlock (s : St) (num size : Nat) (needAligned : Bool) (raws : List (Option (Nat × Nat))) : St × GetRes × Nat :=
  let totalReqSize := num * size
  -- requestBootstrapMem
  let (s, used0) :=
    if s.g.boot == 2 then (s, 0)
    else
      let (s', _, u) := addNewRegion ⟨{ s.g with boot := 1 }, s.regions⟩ beBootstrapRegionSize beRegSlab true raws.head?.join
      (⟨{ s'.g with boot := 2 }, s'.regions⟩, u)
  let threshold0 := if s.g.cfg.fixedPool || size ≥ beMaxBinnedSmallPage then 0 else 2
  let s : St := if totalReqSize > s.g.maxReq && totalReqSize < beMaxBinnedSmallPage then ⟨{ s.g with maxReq := totalReqSize }, s.regions⟩ else s
  let s := (scanCoalescQ s false).1
  getLoop num size needAligned 12 s threshold0 (raws.drop used0) used0

/-- `Backend::genericPutBlock(fBlock, blockSz, slabAligned)`: the caller gives back a block it got from
`genericGetBlock` (the model rejects anything else: not a legal request) -/
def genericPutBlock (s : St) (addr : Nat) : St × Bool :=
  match locate s addr with
  | none => (s, false)
  | some c =>
    let b := c.z.cur
    let go (al : Bool) : St × Bool :=
      let s : St := ⟨s.g, c.close { c.z with cur := { b with own := .held, aligned := al, inBin := false } }⟩
      let s := coalescAndPut s addr b.size al
      (⟨{ s.g with mods := s.g.mods + 1 }, s.regions⟩, true)
    match b.own with
    | .user al => go al
    | .coal al => go al
    | _ => (s, false)

/-- another thread starts to free a block it holds: `fBlock->markCoalescing(blockSz)` -/
def markCoal (s : St) (addr : Nat) : St × Bool :=
  match locate s addr with
  | none => (s, false)
  | some c =>
    match c.z.cur.own, c.z.post with
    | .user al, r :: post =>
      let b : Blk := { c.z.cur with myL := gsCoalBlock, sizeTmp := c.z.cur.size, own := Own.coal al }
      let z : Zip := { c.z with cur := b, post := { r with leftL := gsCoalBlock } :: post }
      (⟨s.g, c.close z⟩, true)
    | _, _ => (s, false)

/-- `Backend::reset()` (user pools; no thread is inside the back end): regions are re-initialised in list order;
each becomes one free block in its bin (head insertion) -/
def resetRegions (g : Glob) : List Region → Glob × List Region
  | [] => (g, [])
  | r :: rest =>
    match findBlockInRegion r.base r.allocSz r.type r.blockSz with
    | none => let (g, rs) := resetRegions g.setBad rest; (g, r :: rs)
    | some (fb, blockSz) =>
      let bin := (sizeToBin blockSz).toNat
      let g := g.binAdd fb (decide (r.type = beRegSlab)) bin false
      let g := { g with adv := if g.adv.contains bin then g.adv else bin :: g.adv }
      let (g, rs) := resetRegions g rest
      (g, { r with blockSz := blockSz, first := fb, blocks := freshBlocks blockSz r.type true } :: rs)

def reset (s : St) : St :=
  let g := { s.g with queue := [], mods := s.g.mods + s.g.queue.length, bins := [], mask := [], adv := [] }
  let (g, rs) := resetRegions g s.regions
  ⟨g, rs⟩

/-! ### operations of the sequential machine -/

inductive Op where
  | get (num size : Nat) (aligned : Bool) (raws : List (Option (Nat × Nat)))
  | put (addr : Nat)
  | scan (force : Bool)
  | clean
  | reset
  | delay (on : Bool)
  | lockbin (al : Bool) (bin : Nat)
  | unlockbin (al : Bool) (bin : Nat)
  | markcoal (addr : Nat)
  deriving Repr

inductive Out where
  | got (r : GetRes) (rawsUsed : Nat)
  | flag (b : Bool)
  | unit
  | rejected
  deriving DecidableEq, Repr

/-- requests the real entry points are never called with are rejected (no state change): sizes below the smallest
binned size (`sizeToBin` would return `NO_BIN`, which `findBlock` uses as an index), unaligned sizes, several blocks
that do not come out of one splittable block, slab-aligned requests so big that a pool that is not fixed would
serve them from a region that is not a slab region (`splitBlock` asserts a fixed pool there) -/
def legalGet (cfg : Cfg) (num size : Nat) (aligned : Bool) : Bool :=
  num ≥ 1 && size ≥ beMinBlockSize && size % 8 == 0 && num * size < 2 ^ 40 &&
    (num == 1 || num * size < beMaxBinnedSmallPage) && num * size ≥ beMinBinnedSize &&
    (!aligned || (size % beSlabSize == 0 && (cfg.fixedPool || num * size < beMaxBinnedSmallPage / 8)))

def step (s : St) : Op → St × Out
  | .get num size al raws =>
    if !legalGet s.g.cfg num size al then (s, .rejected) else
    let (s', r, u) := genericGetBlock s num size al raws
    (s', .got r u)
  | .put addr =>
    match genericPutBlock s addr with
    | (s', true) => (s', .unit)
    | (_, false) => (s, .rejected)
  | .scan force => let (s', b) := scanCoalescQ s force; (s', .flag b)
  | .clean => let (s', b) := clean s; (s', .flag b)
  | .reset => (reset s, .unit)
  | .delay on => (⟨{ s.g with delay := on }, s.regions⟩, .unit)
  | .lockbin al bin =>
    if bin < beFreeBinsNum then (⟨{ s.g with binLocked := (al, bin) :: s.g.binLocked }, s.regions⟩, .unit) else (s, .rejected)
  | .unlockbin al bin => (⟨{ s.g with binLocked := s.g.binLocked.filter (· != (al, bin)) }, s.regions⟩, .unit)
  | .markcoal addr =>
    match markCoal s addr with
    | (s', true) => (s', .unit)
    | (_, false) => (s, .rejected)

def machine (cfg : Cfg) : Mach St Op Out := { init := { g := { cfg := cfg } }, step := step }

end TbbVerif.C17.BE
