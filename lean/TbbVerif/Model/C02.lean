/-
C02 — no lost wake-up: executable protocol models (core Lean only; linked into drv_c02).

`Monitor`  : src/tbb/concurrent_monitor.h — N sleepers running `wait(pred, node)` (prepare_wait / predicate /
             commit_wait / cancel_wait, incl. the skipped-wake-up pumping in prepare_wait and ~sleep_node) against
             M notifiers running `[state change;] notify(pred) | notify_all | notify_one | notify_one(pred) |
             abort_all` (fenced or
             `_relaxed` entry points).  One model step = one atomic access of the code (the monitor's mutex is an
             abstract lock: acquire = the successful `my_flag.exchange(1)`, release = `my_flag.exchange(0)`); the
             non-atomic fields of a node (`my_epoch`, `my_skipped_wakeup`, `my_aborted`, list links) are updated in the
             step of the adjacent atomic access.  The per-node binary semaphore is abstract here (a count of
             unconsumed V's; `P` blocks while it is 0); its futex word protocol is `BinSem` below.
`BinSem`   : src/tbb/semaphore.h (futex `binary_semaphore`): the 0/1/2 word, P (cas / exchange(2) / futex_wait(2)
             loop), V (exchange(0), futex_wakeup_one if the old value was 2); futex wait = atomic compare-and-park.
`Tso`      : the 1-sleeper / 1-notifier Monitor instance under x86-TSO store buffers, parameterised by `Orders`.
`Flag`     : src/tbb/arena.h `atomic_flag` (SET / UNSET / busy) composed into `ArenaWork`
             (advertise_new_work publishers, out_of_work cleaners, consumers).
`WaitCtx`  : external waiter sleeping on `released ∨ arena non-empty` (an instance of `Monitor`).
-/
import TbbVerif.Core.Sched
import TbbVerif.Core.Proto
import Std.Data.HashSet

namespace TbbVerif.C02

/-! ## Monitor (sequentially consistent interleavings) -/

/-- which waiters a notification dequeues -/
inductive NKind where
  | ctx (c : Nat)     -- notify(pred) with pred = (context == c)
  | all               -- notify_all
  | one               -- notify_one (front of the waitset)
  | abort             -- abort_all
  | onec (c : Nat)    -- notify_one_relaxed(pred) with pred = (context == c): the FIRST matching node met by the scan
                      -- `for (n = my_waitset.last(); n != end; n = n->prev)` (newest waiter first), then `break`
  | leq (k : Nat)     -- notify(pred) with pred = (context <= k): `predicate_leq(ticket)` of concurrent_bounded_queue.cpp
  deriving Repr, DecidableEq

/-- does the notification's predicate match a waiter whose context is `x`?  (`notify(pred)`, `notify_all`, `abort_all`
dequeue *every* such waiter; `notify_one(pred)` dequeues one of them — all of them when at most one thread ever waits
with that context, which is what `compatB` demands of a `notify_one(pred)` that announces a state change; the
predicate-less `notify_one` promises nothing about contexts.) -/
def NKind.accepts : NKind → Nat → Bool
  | .ctx c, x => c == x
  | .all, _ => true
  | .abort, _ => true
  | .one, _ => false
  | .onec c, x => c == x
  | .leq k, x => decide (x ≤ k)

/-- one `monitor.wait(pred, node(ctx))` call; `pred` = user condition number `cond` is true -/
structure WOp where
  ctx : Nat
  cond : Nat
  deriving Repr, DecidableEq

inductive NOp where
  /-- `[cond := true;]` then the notification (`relaxed` = the `_relaxed` entry point, i.e. no leading fence) -/
  | sig (cond : Option Nat) (kind : NKind) (relaxed : Bool)
  /-- `cond := false` -/
  | clr (cond : Nat)
  deriving Repr, DecidableEq

/-- program counters of a sleeper = the next atomic access it will perform -/
inductive SPc where
  | init      -- node.init(): `new binary_semaphore` (store sem := 1, closed)        [first prepare_wait of a wait()]
  | pump      -- prepare_wait: node.reset() → P()                                    [pumps a skipped wake-up]
  | storeIn   -- my_is_in_list.store(true, relaxed)
  | lock      -- my_mutex.lock()
  | epoch     -- node.my_epoch = my_epoch.load(relaxed)                              [under the lock]
  | add       -- my_waitset.add(&node): count.store(count+1)                         [under the lock]
  | unlock    -- my_mutex.unlock()
  | fence     -- atomic_fence_seq_cst()
  | check     -- the user predicate
  | commit    -- commit_wait: node.my_epoch == my_epoch.load(relaxed) ?
  | park      -- node.wait(): semaphore().P()
  | cLoad     -- cancel_wait: my_skipped_wakeup = true; my_is_in_list.load(acquire)
  | cLock     -- cancel_wait: lock
  | cChk      -- cancel_wait: my_is_in_list.load(relaxed)                            [under the lock]
  | cRemove   -- cancel_wait: my_waitset.remove(node): count.store(count-1)          [under the lock]
  | cMark     -- cancel_wait: my_is_in_list.store(false); my_skipped_wakeup = false  [under the lock]
  | cUnlock   -- cancel_wait: unlock
  | dtor      -- ~sleep_node: if (my_skipped_wakeup) P()
  deriving Repr, DecidableEq

structure Sleeper where
  ops     : List WOp := []       -- remaining wait() calls, head = current
  pc      : SPc := .init
  inList  : Bool := false        -- node.my_is_in_list
  nepoch  : Nat := 0             -- node.my_epoch
  skipped : Bool := false        -- node.my_skipped_wakeup
  aborted : Bool := false        -- node.my_aborted
  sem     : Nat := 0             -- V's issued to the node's semaphore and not yet consumed by a P (0 = closed)
  again   : Bool := false        -- cancel_wait was entered from commit_wait (wait() loops) rather than from a true predicate
  results : List Nat := []       -- newest first: 1 = woken, 0 = predicate true, 2 = aborted (user_abort thrown)
  deriving Repr, DecidableEq

def Sleeper.ctx (sl : Sleeper) : Nat := match sl.ops with | o :: _ => o.ctx | [] => 0
def Sleeper.cond (sl : Sleeper) : Nat := match sl.ops with | o :: _ => o.cond | [] => 0

inductive NPc where
  | set       -- the user state change (cond := true)
  | clr       -- cond := false
  | fence     -- atomic_fence_seq_cst()
  | test      -- my_waitset.empty(): count.load(relaxed)
  | lock
  | epoch     -- my_epoch.store(my_epoch.load+1)                                     [under the lock]
  | flush     -- notify_all / abort_all: my_waitset.flush_to(temp): count.store(0)   [under the lock]
  | scan      -- notify(pred) / notify_one / notify_one(pred): my_waitset.remove(*n): count.store(count-1); temp.add(n)
  | mark      -- to_wait_node(n)->my_is_in_list.store(false)                         [under the lock]
  | unlock
  | v         -- to_wait_node(n)->notify(): semaphore().V()   (abort_all: my_aborted = true first)
  deriving Repr, DecidableEq

structure Notifier where
  ops    : List NOp := []
  pc     : NPc := .fence
  temp   : List Nat := []        -- the local list of dequeued nodes (ids = sleeper indices), in V order
  marked : Nat := 0              -- how many nodes of `temp` already have my_is_in_list == false
  deriving Repr, DecidableEq

def NOp.startPc : NOp → NPc
  | .sig (some _) _ _ => .set
  | .sig none _ false => .fence
  | .sig none _ true => .test
  | .clr _ => .clr

def Notifier.kind (n : Notifier) : NKind := match n.ops with | .sig _ k _ :: _ => k | _ => .all
def Notifier.relaxed (n : Notifier) : Bool := match n.ops with | .sig _ _ r :: _ => r | _ => false
def Notifier.cond? (n : Notifier) : Option Nat := match n.ops with | .sig c _ _ :: _ => c | .clr c :: _ => some c | _ => none

structure St where
  conds   : List Bool := []      -- the user state the predicates read
  epoch   : Nat := 0             -- my_epoch
  count   : Nat := 0             -- my_waitset.count (read without the lock by the notifiers)
  waitset : List Nat := []       -- my_waitset, front first (node id = sleeper index)
  lock    : Option Tid := none   -- holder of my_mutex
  slp     : List Sleeper := []
  ntf     : List Notifier := []
  deriving Repr, DecidableEq

def St.cond (s : St) (c : Nat) : Bool := s.conds.getD c false
def St.setCond (s : St) (c : Nat) (b : Bool) : St :=
  { s with conds := if c < s.conds.length then s.conds.set c b else s.conds ++ List.replicate (c - s.conds.length) false ++ [b] }
def St.setS (s : St) (i : Nat) (sl : Sleeper) : St := { s with slp := s.slp.set i sl }
def St.setN (s : St) (j : Nat) (n : Notifier) : St := { s with ntf := s.ntf.set j n }
def St.nS (s : St) : Nat := s.slp.length
def St.ctxOf (s : St) (x : Nat) : Nat := match s.slp[x]? with | some sl => sl.ctx | none => 0

/-- start the next wait() with a fresh node (the old node is destroyed) -/
def Sleeper.fresh (sl : Sleeper) : Sleeper :=
  { sl with ops := sl.ops.tail, pc := .init, inList := false, nepoch := 0, skipped := false, aborted := false, again := false }

/-- wait() returns with result `res`; ~sleep_node pumps a skipped wake-up first -/
def Sleeper.finish (sl : Sleeper) (res : Nat) : Sleeper :=
  if sl.skipped then { sl with pc := .dtor, results := res :: sl.results } else { sl with results := res :: sl.results }.fresh

/-- the end of cancel_wait: loop in wait() (prepare_wait again) or return false -/
def Sleeper.afterCancel (sl : Sleeper) : Sleeper :=
  if sl.again then { sl with pc := if sl.skipped then .pump else .storeIn } else sl.finish 0

/-- One atomic access of sleeper `i` (thread id `i`). A blocked access (lock held, semaphore closed) leaves the
state unchanged. -/
def stepS (s : St) (i : Nat) (sl : Sleeper) : St :=
  if sl.ops.isEmpty then s else
  match sl.pc with
  | .init => s.setS i { sl with pc := .storeIn }
  | .pump => if sl.sem = 0 then s else s.setS i { sl with sem := sl.sem - 1, skipped := false, pc := .storeIn }
  | .storeIn => s.setS i { sl with inList := true, pc := .lock }
  | .lock => if s.lock.isSome then s else { s with lock := some i }.setS i { sl with pc := .epoch }
  | .epoch => s.setS i { sl with nepoch := s.epoch, pc := .add }
  | .add => { s with count := s.count + 1, waitset := s.waitset ++ [i] }.setS i { sl with pc := .unlock }
  | .unlock => { s with lock := none }.setS i { sl with pc := .fence }
  | .fence => s.setS i { sl with pc := .check }
  | .check => if s.cond sl.cond then s.setS i { sl with again := false, pc := .cLoad } else s.setS i { sl with pc := .commit }
  | .commit => if sl.nepoch = s.epoch then s.setS i { sl with pc := .park } else s.setS i { sl with again := true, pc := .cLoad }
  | .park => if sl.sem = 0 then s else s.setS i ({ sl with sem := sl.sem - 1 }.finish (if sl.aborted then 2 else 1))
  | .cLoad => if sl.inList then s.setS i { sl with skipped := true, pc := .cLock }
              else s.setS i ({ sl with skipped := true }.afterCancel)
  | .cLock => if s.lock.isSome then s else { s with lock := some i }.setS i { sl with pc := .cChk }
  | .cChk => s.setS i { sl with pc := if sl.inList then .cRemove else .cUnlock }
  | .cRemove => { s with count := s.count - 1, waitset := s.waitset.erase i }.setS i { sl with pc := .cMark }
  | .cMark => s.setS i { sl with inList := false, skipped := false, pc := .cUnlock }
  | .cUnlock => { s with lock := none }.setS i sl.afterCancel
  | .dtor => if sl.sem = 0 then s else s.setS i { sl with sem := sl.sem - 1 }.fresh

/-- the node a `scan` step dequeues: notify(pred) and notify_one(pred) walk from the back (`last()`, then `prev`) and
take the first node whose context satisfies the predicate, notify_one takes the front -/
def scanPick (s : St) (k : NKind) : Option Nat :=
  match k with
  | .ctx c => s.waitset.reverse.find? (fun x => s.ctxOf x == c)
  | .onec c => s.waitset.reverse.find? (fun x => s.ctxOf x == c)
  | .leq k => s.waitset.reverse.find? (fun x => decide (s.ctxOf x ≤ k))
  | .one => s.waitset.head?
  | _ => none

def Notifier.finish (n : Notifier) : Notifier :=
  { n with ops := n.ops.tail, pc := (match n.ops.tail with | o :: _ => o.startPc | [] => .fence), temp := [], marked := 0 }

/-- after the epoch bump / after a mark: is there (more) to dequeue? -/
def afterEpoch (s : St) (k : NKind) : NPc :=
  match k with
  | .all | .abort => if s.waitset.isEmpty then .unlock else .flush
  | .ctx _ => if (scanPick s k).isSome then .scan else .unlock
  | .one => if (scanPick s k).isSome then .scan else .unlock
  | .onec _ => if (scanPick s k).isSome then .scan else .unlock
  | .leq _ => if (scanPick s k).isSome then .scan else .unlock

/-- after an in_list store: next node to mark (notify_all / abort_all), next node to dequeue (notify(pred)) or unlock -/
def afterMark (s : St) (n : Notifier) : NPc :=
  match n.kind with
  | .all | .abort => if n.marked + 1 < n.temp.length then .mark else .unlock
  | .ctx _ => afterEpoch s n.kind
  | .leq _ => afterEpoch s n.kind
  | .one => .unlock
  | .onec _ => .unlock      -- `break` after the first match

def modS (s : St) (x : Nat) (f : Sleeper → Sleeper) : St :=
  match s.slp[x]? with | some sl => s.setS x (f sl) | none => s

/-- One atomic access of notifier `j` (thread id `nS + j`). -/
def stepN (s : St) (j : Nat) (n : Notifier) : St :=
  if n.ops.isEmpty then s else
  let me : Tid := s.nS + j
  match n.pc with
  | .clr => (s.setCond (n.cond?.getD 0) false).setN j n.finish
  | .set => (s.setCond (n.cond?.getD 0) true).setN j { n with pc := if n.relaxed then .test else .fence }
  | .fence => s.setN j { n with pc := .test }
  | .test => if s.count = 0 then s.setN j n.finish else s.setN j { n with pc := .lock }
  | .lock => if s.lock.isSome then s else { s with lock := some me }.setN j { n with pc := .epoch }
  | .epoch => let s' := { s with epoch := s.epoch + 1 }; s'.setN j { n with pc := afterEpoch s' n.kind }
  | .flush => { s with count := 0, waitset := [] }.setN j { n with temp := s.waitset, marked := 0, pc := if s.waitset.isEmpty then .unlock else .mark }
  | .scan =>
      match scanPick s n.kind with
      | some x => { s with count := s.count - 1, waitset := s.waitset.erase x }.setN j { n with temp := n.temp ++ [x], pc := .mark }
      | none => s.setN j { n with pc := .unlock }
  | .mark =>
      match n.temp[n.marked]? with
      | some x =>
          let s' := modS s x (fun sl => { sl with inList := false })
          s'.setN j { n with marked := n.marked + 1, pc := afterMark s' n }
      | none => s.setN j { n with pc := .unlock }
  | .unlock => { s with lock := none }.setN j (if n.temp.isEmpty then n.finish else { n with pc := .v })
  | .v =>
      match n.temp with
      | x :: rest =>
          let s' := modS s x (fun sl => { sl with sem := sl.sem + 1, aborted := sl.aborted || (n.kind == .abort) })
          s'.setN j (if rest.isEmpty then n.finish else { n with temp := rest, marked := n.marked - 1 })
      | [] => s.setN j n.finish

def step (s : St) (t : Tid) : St :=
  if t < s.slp.length then
    match s.slp[t]? with | some sl => stepS s t sl | none => s
  else
    match s.ntf[t - s.slp.length]? with | some n => stepN s (t - s.slp.length) n | none => s

def mkSleeper (p : List WOp) : Sleeper := { ops := p }
def mkNotifier (p : List NOp) : Notifier := { ops := p, pc := match p with | o :: _ => o.startPc | [] => .fence }

def init (ws : List (List WOp)) (ns : List (List NOp)) : St :=
  { slp := ws.map mkSleeper, ntf := ns.map mkNotifier }

/-- The interleaving system: `ws` = the sleepers' programs (thread ids `0 … ws.length-1`), `ns` = the notifiers'. -/
def sys (ws : List (List WOp)) (ns : List (List NOp)) : Sys St := { init := init ws ns, step := step }

/-! ### the dequeue order of one notification on a quiescent wait set (tie to the order observed on the real code) -/

/-- the nodes whose `my_is_in_list` notifier thread `t` clears (in order) during its next `fuel` steps -/
def markSeq (s : St) (t : Tid) : Nat → List Nat
  | 0 => []
  | fuel + 1 =>
    match s.ntf[t - s.slp.length]? with
    | some n => (if n.pc == .mark && !n.ops.isEmpty then (n.temp[n.marked]?).toList else []) ++ markSeq (step s t) t fuel
    | none => []

/-- Sleepers `0 … n-1` with the contexts `ctxs` enqueue one after the other (arrival order = index order) and park;
then one notifier runs the notification `k`: the sequence of nodes it dequeues, as computed by the model's steps. -/
def obsDequeue (ctxs : List Nat) (k : NKind) : List Nat :=
  let ws := (List.range ctxs.length).map fun i => [(⟨ctxs.getD i 0, i⟩ : WOp)]
  let s1 := (sys ws [[.sig none k true]]).run ((List.range ctxs.length).flatMap fun i => List.replicate 9 i)
  markSeq s1 ctxs.length (4 * ctxs.length + 12)

/-! ### the access a step performs, for trace replay: `kind var order values…` (`-` = blocked or finished) -/

def ordS : SPc → String
  | .cLoad => "acq" | .lock | .unlock | .cLock | .cUnlock | .fence | .init => "sc" | _ => "rlx"

def evS (s : St) (i : Nat) (sl : Sleeper) : String :=
  match sl.ops with
  | [] => "-"
  | _ :: _ =>
  match sl.pc with
  | .init => s!"store sem{i} sc 1"
  | .pump | .park | .dtor => if sl.sem = 0 then "-" else s!"P sem{i}"
  | .storeIn => s!"store inl{i} rlx 1"
  | .lock | .cLock => if s.lock.isSome then "-" else "xchg mflag sc 0 1"
  | .epoch | .commit => s!"load epoch rlx {s.epoch}"
  | .add => s!"store count rlx {s.count + 1}"
  | .unlock | .cUnlock => "xchg mflag sc 1 0"
  | .fence => "fence - sc"
  | .check => s!"load cond{sl.cond} rlx {if s.cond sl.cond then 1 else 0}"
  | .cLoad => s!"load inl{i} acq {if sl.inList then 1 else 0}"
  | .cChk => s!"load inl{i} rlx {if sl.inList then 1 else 0}"
  | .cRemove => s!"store count rlx {s.count - 1}"
  | .cMark => s!"store inl{i} rlx 0"

def evN (s : St) (n : Notifier) : String :=
  match n.ops with
  | [] => "-"
  | _ :: _ =>
  match n.pc with
  | .clr => s!"store cond{n.cond?.getD 0} rlx 0"
  | .set => s!"store cond{n.cond?.getD 0} rlx 1"
  | .fence => "fence - sc"
  | .test => s!"load count rlx {s.count}"
  | .lock => if s.lock.isSome then "-" else "xchg mflag sc 0 1"
  | .epoch => s!"store epoch rlx {s.epoch + 1}"
  | .flush => "store count rlx 0"
  | .scan => s!"store count rlx {s.count - 1}"
  | .mark => match n.temp[n.marked]? with | some x => s!"store inl{x} rlx 0" | none => "-"
  | .unlock => "xchg mflag sc 1 0"
  | .v => match n.temp with | x :: _ => s!"V sem{x}" | [] => "-"

def ev (s : St) (t : Tid) : String :=
  if t < s.slp.length then
    match s.slp[t]? with | some sl => evS s t sl | none => "-"
  else
    match s.ntf[t - s.slp.length]? with | some n => evN s n | none => "-"

/-! ## BinSem: the futex `binary_semaphore` (src/tbb/semaphore.h) -/

namespace BinSem

/-- program counters of the single waiter (the node's owner) inside `P()` -/
inductive PPc where
  | idle      -- not inside P()
  | cas       -- my_sem.compare_exchange_strong(s = 0, 1)
  | xchg      -- s = my_sem.exchange(2)            (first time, only if the cas saw 1)
  | fwait     -- futex_wait(&my_sem, 2): atomic compare-and-park
  | parked    -- sleeping in the kernel
  | rexchg    -- s = my_sem.exchange(2)            (after a wake-up or EAGAIN)
  deriving Repr, DecidableEq

inductive VPc where
  | xchg      -- my_sem.exchange(0)
  | wake      -- futex_wakeup_one(&my_sem)         (only if the old value was 2)
  deriving Repr, DecidableEq

structure Poster where
  left : Nat := 0          -- V() calls still to perform (current one included)
  pc   : VPc := .xchg
  deriving Repr, DecidableEq

structure St where
  word    : Nat := 1        -- 0 open, 1 closed, 2 closed with possible waiter   (constructor stores 1)
  wpc     : PPc := .idle
  wleft   : Nat := 0        -- P() calls still to perform (current one included)
  nP      : Nat := 0        -- completed P()
  nV      : Nat := 0        -- V() whose exchange(0) has been performed
  doubleV : Bool := false   -- some V() found the word already 0 (the protocol violation the assertion in V() guards)
  posters : List Poster := []
  deriving Repr, DecidableEq

def St.pDone (s : St) : St :=
  { s with nP := s.nP + 1, wleft := s.wleft - 1, wpc := if s.wleft - 1 = 0 then .idle else .cas }

/-- thread 0 = the waiter -/
def stepW (s : St) : St :=
  match s.wpc with
  | .idle => s
  | .cas => if s.word = 0 then { s with word := 1 }.pDone
            else if s.word = 2 then { s with wpc := .fwait } else { s with wpc := .xchg }
  | .xchg | .rexchg => if s.word = 0 then { s with word := 2 }.pDone else { s with word := 2, wpc := .fwait }
  | .fwait => if s.word = 2 then { s with wpc := .parked } else { s with wpc := .rexchg }
  | .parked => s

/-- thread k+1 = poster k -/
def stepV (s : St) (k : Nat) (p : Poster) : St :=
  if p.left = 0 then s else
  match p.pc with
  | .xchg =>
      let s' := { s with word := 0, nV := s.nV + 1, doubleV := s.doubleV || s.word == 0 }
      if s.word = 2 then { s' with posters := s.posters.set k { p with pc := .wake } }
      else { s' with posters := s.posters.set k { left := p.left - 1, pc := .xchg } }
  | .wake =>
      { s with wpc := if s.wpc = .parked then .rexchg else s.wpc,
               posters := s.posters.set k { left := p.left - 1, pc := .xchg } }

def step (s : St) (t : Tid) : St :=
  match t with
  | 0 => stepW s
  | k + 1 => match s.posters[k]? with | some p => stepV s k p | none => s

/-- `np` = number of P() calls of the owner, `vs` = number of V() calls of each poster -/
def init (np : Nat) (vs : List Nat) : St :=
  { wleft := np, wpc := if np = 0 then .idle else .cas, posters := vs.map fun v => { left := v } }

def sys (np : Nat) (vs : List Nat) : Sys St := { init := init np vs, step := step }

/-- some poster still owes a `futex_wakeup_one` -/
def wakePending (s : St) : Bool := s.posters.any fun p => p.left != 0 && p.pc == .wake

def ev (s : St) (t : Tid) : String :=
  match t with
  | 0 =>
    match s.wpc with
    | .idle | .parked => "-"
    | .cas => if s.word = 0 then "cas 0 1 1" else s!"cas 0 {s.word} 0"
    | .xchg | .rexchg => s!"xchg {s.word} 2 1"
    | .fwait => if s.word = 2 then "fwait 2 2 1" else s!"fwait {s.word} 2 0"
  | k + 1 =>
    match s.posters[k]? with
    | none => "-"
    | some p =>
      if p.left = 0 then "-" else
      match p.pc with
      | .xchg => s!"xchg {s.word} 0 1"
      | .wake => s!"fwake {if s.wpc = .parked then 1 else 0} 1 1"

end BinSem

/-! ## Tso: the 1-sleeper / 1-notifier Monitor instance under x86-TSO store buffers

One `wait(pred = cond)` call against one `cond := true; notify(pred)` call.  Granularity: one step per atomic access
outside the monitor's lock, one step per lock region (the accesses inside a region only touch lock-protected data;
their stores enter the store buffer individually and in program order, followed by the unlock).  Every thread has a
FIFO store buffer: relaxed/release stores are appended, loads read the newest own entry or memory, seq_cst fences
and (on x86) seq_cst RMWs drain the buffer.  Schedule actions: 0 = sleeper instruction, 1 = notifier instruction,
2 = flush the oldest entry of the sleeper's buffer, 3 = same for the notifier. -/

namespace Tso

/-- Which accesses of the two Dekker sides are fences — regenerated from the memory orders observed in the E-SHIM
trace of the real code (`Generated/C02.lean`). -/
structure Orders where
  prepFence   : Bool   -- prepare_wait ends with a seq_cst fence
  unlockRmw   : Bool   -- concurrent_monitor_mutex::unlock() is a seq_cst RMW (exchange)
  notifyFence : Bool   -- notify() starts with a seq_cst fence
  chgRmw      : Bool   -- the notifier's state change is a seq_cst RMW (e.g. fetch_sub / exchange) rather than a plain store
  rmwFence    : Bool   -- target mapping: a seq_cst RMW is a full fence (x86 `lock` prefix); false = only acquire/release (C++ abstract machine, ARMv8)
  deriving Repr, DecidableEq

/-- a store→load barrier exists on both Dekker sides -/
def fencesOK (o : Orders) : Bool :=
  (o.prepFence || (o.unlockRmw && o.rmwFence)) && (o.notifyFence || (o.chgRmw && o.rmwFence))

inductive Var where
  | cond | count | epoch | inl | lock
  deriving Repr, DecidableEq, Hashable

structure Mem where
  cond : Nat := 0
  count : Nat := 0
  epoch : Nat := 0
  inl : Nat := 0
  lock : Nat := 0
  deriving Repr, DecidableEq, Hashable

def Mem.get (m : Mem) : Var → Nat
  | .cond => m.cond | .count => m.count | .epoch => m.epoch | .inl => m.inl | .lock => m.lock

def Mem.put (m : Mem) (v : Var) (x : Nat) : Mem :=
  match v with
  | .cond => { m with cond := x } | .count => { m with count := x } | .epoch => { m with epoch := x }
  | .inl => { m with inl := x } | .lock => { m with lock := x }

abbrev Buf := List (Var × Nat)

def applyAll (b : Buf) (m : Mem) : Mem := b.foldl (fun m e => m.put e.1 e.2) m

/-- a load: newest own buffered store to `v`, else memory -/
def rd (b : Buf) (m : Mem) (v : Var) : Nat :=
  match b.reverse.find? (fun e => e.1 == v) with
  | some e => e.2
  | none => m.get v

inductive SPc where
  | prep      -- prepare_wait's lock region: [in_list := 1; lock; node.epoch := epoch; count := count+1; unlock]
  | fence     -- atomic_fence_seq_cst()
  | check     -- load cond
  | commit    -- load epoch
  | park      -- P()
  | cLoad     -- cancel_wait: skipped := true; load in_list
  | cReg      -- cancel_wait's lock region: [lock; if in_list then (count := count-1; in_list := 0; skipped := false); unlock]
  | pump      -- prepare_wait: P() of a skipped wake-up
  | dtor      -- ~sleep_node: P() of a skipped wake-up
  | done
  deriving Repr, DecidableEq, Hashable

inductive NPc where
  | set       -- cond := 1
  | fence     -- atomic_fence_seq_cst()
  | test      -- load count
  | reg       -- notify's lock region: [lock; epoch := epoch+1; if count > 0 then (count := count-1; in_list := 0); unlock]
  | v         -- V()
  | done
  deriving Repr, DecidableEq, Hashable

structure St where
  mem     : Mem := {}
  sem     : Nat := 0
  bufS    : Buf := []
  bufN    : Buf := []
  spc     : SPc := .prep
  nepoch  : Nat := 0
  skipped : Bool := false
  again   : Bool := false
  res     : Option Nat := none     -- result of wait(): 1 woken, 0 predicate true
  npc     : NPc := .set
  deq     : Bool := false          -- the notifier dequeued the node and owes / delivered its V
  deriving Repr, DecidableEq, Hashable

/-- what the semantics depends on: which of the four sites drain the store buffer -/
structure Eff where
  prepFence    : Bool   -- the fence at the end of prepare_wait
  unlockDrains : Bool   -- the unlock at the end of a lock region
  notifyFence  : Bool   -- the fence at the start of notify
  chgDrains    : Bool   -- the notifier's state change
  deriving Repr, DecidableEq

def Orders.eff (o : Orders) : Eff := ⟨o.prepFence, o.unlockRmw && o.rmwFence, o.notifyFence, o.chgRmw && o.rmwFence⟩

def Eff.ok (e : Eff) : Bool := (e.prepFence || e.unlockDrains) && (e.notifyFence || e.chgDrains)

/-- execute a lock region of the thread with buffer `b`: needs the lock free after draining `b`; returns the new memory
and buffer given the region's stores `w` (computed from the drained memory) -/
def region (o : Eff) (b : Buf) (m : Mem) (w : Mem → Buf) : Option (Mem × Buf) :=
  let m1 := applyAll b m
  if m1.lock ≠ 0 then none else
  let b' := w m1 ++ [(.lock, 0)]
  let m2 := { m1 with lock := 1 }
  if o.unlockDrains then some (applyAll b' m2, []) else some (m2, b')

def afterCancel (s : St) : St :=
  if s.again then { s with spc := if s.skipped then .pump else .prep }
  else { s with res := some 0, spc := if s.skipped then .dtor else .done }

def stepS (o : Eff) (s : St) : St :=
  match s.spc with
  | .prep =>
      match region o s.bufS s.mem (fun m => [(.inl, 1), (.count, m.count + 1)]) with
      | some (m, b) => { s with mem := m, bufS := b, nepoch := (applyAll s.bufS s.mem).epoch, spc := .fence }
      | none => s
  | .fence => if o.prepFence then { s with mem := applyAll s.bufS s.mem, bufS := [], spc := .check } else { s with spc := .check }
  | .check => if rd s.bufS s.mem .cond ≠ 0 then { s with again := false, spc := .cLoad } else { s with spc := .commit }
  | .commit => if rd s.bufS s.mem .epoch = s.nepoch then { s with spc := .park } else { s with again := true, spc := .cLoad }
  | .park => if s.sem = 0 then s else
      { s with mem := applyAll s.bufS s.mem, bufS := [], sem := s.sem - 1, res := some 1, spc := .done }
  | .cLoad => if rd s.bufS s.mem .inl ≠ 0 then { s with skipped := true, spc := .cReg } else afterCancel { s with skipped := true }
  | .cReg =>
      let inl := (applyAll s.bufS s.mem).inl
      match region o s.bufS s.mem (fun m => if m.inl ≠ 0 then [(.count, m.count - 1), (.inl, 0)] else []) with
      | some (m, b) => afterCancel { s with mem := m, bufS := b, skipped := if inl ≠ 0 then false else s.skipped }
      | none => s
  | .pump => if s.sem = 0 then s else
      { s with mem := applyAll s.bufS s.mem, bufS := [], sem := s.sem - 1, skipped := false, spc := .prep }
  | .dtor => if s.sem = 0 then s else
      { s with mem := applyAll s.bufS s.mem, bufS := [], sem := s.sem - 1, spc := .done }
  | .done => s

def stepN (o : Eff) (s : St) : St :=
  match s.npc with
  | .set => if o.chgDrains then { s with mem := { applyAll s.bufN s.mem with cond := 1 }, bufN := [], npc := .fence }
            else { s with bufN := s.bufN ++ [(.cond, 1)], npc := .fence }
  | .fence => if o.notifyFence then { s with mem := applyAll s.bufN s.mem, bufN := [], npc := .test } else { s with npc := .test }
  | .test => if rd s.bufN s.mem .count = 0 then { s with npc := .done } else { s with npc := .reg }
  | .reg =>
      let c := (applyAll s.bufN s.mem).count
      match region o s.bufN s.mem (fun m => (.epoch, m.epoch + 1) :: (if m.count ≠ 0 then [(.count, m.count - 1), (.inl, 0)] else [])) with
      | some (m, b) => { s with mem := m, bufN := b, deq := c ≠ 0, npc := if c ≠ 0 then .v else .done }
      | none => s
  | .v => { s with mem := applyAll s.bufN s.mem, bufN := [], sem := s.sem + 1, npc := .done }
  | .done => s

def flushS (s : St) : St :=
  match s.bufS with | e :: b => { s with mem := s.mem.put e.1 e.2, bufS := b } | [] => s
def flushN (s : St) : St :=
  match s.bufN with | e :: b => { s with mem := s.mem.put e.1 e.2, bufN := b } | [] => s

def step (o : Eff) (s : St) (a : Tid) : St :=
  match a with
  | 0 => stepS o s
  | 1 => stepN o s
  | 2 => flushS s
  | 3 => flushN s
  | _ => s

def sysE (e : Eff) : Sys St := { init := {}, step := step e }

def sys (o : Orders) : Sys St := sysE o.eff

/-- the lost wake-up: the notifier has finished, everything it wrote is visible (buffers empty, predicate true in
memory), and the sleeper is parked in P() with a closed semaphore -/
def lost (s : St) : Bool :=
  s.spc == .park && s.sem == 0 && s.npc == .done && s.bufS.isEmpty && s.bufN.isEmpty && s.mem.cond != 0

/-- breadth-first search for a schedule reaching a lost wake-up (failing-input search; `fuel` bounds the number of
explored states) -/
instance : Inhabited St := ⟨{}⟩

def exploreLoop (o : Eff) : Nat → Array (St × List Nat) → Nat → Std.HashSet St → Option (List Nat) × Nat
  | 0, _, _, seen => (none, seen.size)
  | fuel + 1, queue, qi, seen =>
    if h : qi < queue.size then
      let (s, path) := queue[qi]
      if lost s then (some path.reverse, seen.size) else
      let (queue, seen) := [0, 1, 2, 3].foldl (fun (acc : Array (St × List Nat) × Std.HashSet St) a =>
        let s' := step o s a
        if acc.2.contains s' then acc else (acc.1.push (s', a :: path), acc.2.insert s')) (queue, seen)
      exploreLoop o fuel queue (qi + 1) seen
    else (none, seen.size)

def explore (o : Orders) (fuel : Nat := 200000) : Option (List Nat) × Nat :=
  exploreLoop o.eff fuel #[({}, [])] 0 ((Std.HashSet.emptyWithCapacity 1024).insert {})

end Tso

/-! ## Flag / ArenaWork: arena's `atomic_flag` (SET / UNSET / busy) under publishers, cleaners and consumers

`flag` encodes `my_state`: 0 = UNSET, 1 = SET, 2 + k = the `busy` value of cleaner `k` (the address of its local).
Publisher op (arena::advertise_new_work after making a task visible): `work += 1`; fence; `test_and_set()`; when it
returns true the publisher requests workers (`req += 1`, folded into the returning access).  Cleaner op
(arena::out_of_work): `try_clear_if(!has_tasks())`; when it returns true it releases the workers (`rel += 1`).
Consumer op: take one task if there is one. -/

namespace Flag

inductive PubPc where
  | pub     -- make the task visible (work += 1)
  | fence   -- atomic_fence_seq_cst()
  | load    -- test_and_set: state = my_state.load(acquire)
  | casB    -- my_state.compare_exchange_strong(state /*busy*/, SET)
  | casU    -- my_state.compare_exchange_strong(state /*UNSET*/, SET)
  deriving Repr, DecidableEq

inductive ClPc where
  | load    -- try_clear_if: state = my_state.load(acquire)
  | cas1    -- compare_exchange_strong(state /*SET*/, busy)
  | pred    -- pred(): !has_tasks()
  | cas2    -- compare_exchange_strong(busy, UNSET)
  | cas3    -- compare_exchange_strong(busy, SET)      (result discarded)
  deriving Repr, DecidableEq

structure Pub where
  left : Nat := 0
  pc   : PubPc := .pub
  st   : Nat := 0          -- the local `state`
  rets : List Nat := []    -- results of test_and_set, newest first
  deriving Repr, DecidableEq

structure Cl where
  left : Nat := 0
  pc   : ClPc := .load
  rets : List Nat := []    -- results of try_clear_if, newest first
  deriving Repr, DecidableEq

structure St where
  flag : Nat := 0
  work : Nat := 0
  req  : Nat := 0          -- test_and_set() calls that returned true  (workers requested)
  rel  : Nat := 0          -- try_clear_if() calls that returned true  (workers released)
  pubs : List Pub := []
  cls  : List Cl := []
  cons : List Nat := []    -- consumers: take attempts left
  deriving Repr, DecidableEq

def Pub.ret (p : Pub) (r : Nat) : Pub := { left := p.left - 1, pc := .pub, st := 0, rets := r :: p.rets }
def Cl.ret (c : Cl) (r : Nat) : Cl := { left := c.left - 1, pc := .load, rets := r :: c.rets }

def stepP (s : St) (i : Nat) (p : Pub) : St :=
  if p.left = 0 then s else
  match p.pc with
  | .pub => { s with work := s.work + 1, pubs := s.pubs.set i { p with pc := .fence } }
  | .fence => { s with pubs := s.pubs.set i { p with pc := .load } }
  | .load =>
      if s.flag = 1 then { s with pubs := s.pubs.set i (p.ret 0) }
      else if s.flag = 0 then { s with pubs := s.pubs.set i { p with st := 0, pc := .casU } }
      else { s with pubs := s.pubs.set i { p with st := s.flag, pc := .casB } }
  | .casB =>
      if s.flag = p.st then { s with flag := 1, pubs := s.pubs.set i (p.ret 0) }          -- interrupted a clear transaction
      else if s.flag ≠ 0 then { s with pubs := s.pubs.set i (p.ret 0) }                   -- lost our epoch
      else { s with pubs := s.pubs.set i { p with st := 0, pc := .casU } }                 -- too late but same epoch
  | .casU =>
      if s.flag = 0 then { s with flag := 1, req := s.req + 1, pubs := s.pubs.set i (p.ret 1) }
      else { s with pubs := s.pubs.set i (p.ret 0) }

def stepC (s : St) (k : Nat) (c : Cl) : St :=
  if c.left = 0 then s else
  match c.pc with
  | .load => if s.flag = 1 then { s with cls := s.cls.set k { c with pc := .cas1 } } else { s with cls := s.cls.set k (c.ret 0) }
  | .cas1 => if s.flag = 1 then { s with flag := 2 + k, cls := s.cls.set k { c with pc := .pred } }
             else { s with cls := s.cls.set k (c.ret 0) }
  | .pred => { s with cls := s.cls.set k { c with pc := if s.work = 0 then .cas2 else .cas3 } }
  | .cas2 => if s.flag = 2 + k then { s with flag := 0, rel := s.rel + 1, cls := s.cls.set k (c.ret 1) }
             else { s with cls := s.cls.set k (c.ret 0) }
  | .cas3 => if s.flag = 2 + k then { s with flag := 1, cls := s.cls.set k (c.ret 0) }
             else { s with cls := s.cls.set k (c.ret 0) }

def stepT (s : St) (k : Nat) (left : Nat) : St :=
  if left = 0 then s else
  { s with work := s.work - 1, cons := s.cons.set k (left - 1) }

/-- thread ids: publishers first, then cleaners, then consumers -/
def step (s : St) (t : Tid) : St :=
  if t < s.pubs.length then
    match s.pubs[t]? with | some p => stepP s t p | none => s
  else if t - s.pubs.length < s.cls.length then
    match s.cls[t - s.pubs.length]? with | some c => stepC s (t - s.pubs.length) c | none => s
  else
    match s.cons[t - s.pubs.length - s.cls.length]? with | some l => stepT s (t - s.pubs.length - s.cls.length) l | none => s

def init (ps cs ts : List Nat) : St :=
  { pubs := ps.map fun n => { left := n }, cls := cs.map fun n => { left := n }, cons := ts }

/-- `ps` / `cs` / `ts` = number of operations of each publisher / cleaner / consumer -/
def sys (ps cs ts : List Nat) : Sys St := { init := init ps cs ts, step := step }

/-- a publisher that has made its task visible and has not yet returned from `test_and_set` -/
def Pub.inflight (p : Pub) : Bool := p.left != 0 && p.pc != .pub

def evP (s : St) (p : Pub) : String :=
  if p.left = 0 then "-" else
  match p.pc with
  | .pub => s!"fadd work {s.work} {s.work + 1} 1"
  | .fence => "fence - - 1"
  | .load => s!"load flag {s.flag} - 1"
  | .casB => if s.flag = p.st then s!"cas flag {p.st} 1 1" else s!"cas flag {p.st} {s.flag} 0"
  | .casU => if s.flag = 0 then "cas flag 0 1 1" else s!"cas flag 0 {s.flag} 0"

def evC (s : St) (k : Nat) (c : Cl) : String :=
  if c.left = 0 then "-" else
  match c.pc with
  | .load => s!"load flag {s.flag} - 1"
  | .cas1 => if s.flag = 1 then s!"cas flag 1 {2 + k} 1" else s!"cas flag 1 {s.flag} 0"
  | .pred => s!"load work {s.work} - 1"
  | .cas2 => if s.flag = 2 + k then s!"cas flag {2 + k} 0 1" else s!"cas flag {2 + k} {s.flag} 0"
  | .cas3 => if s.flag = 2 + k then s!"cas flag {2 + k} 1 1" else s!"cas flag {2 + k} {s.flag} 0"

def ev (s : St) (t : Tid) : String :=
  if t < s.pubs.length then
    match s.pubs[t]? with | some p => evP s p | none => "-"
  else if t - s.pubs.length < s.cls.length then
    match s.cls[t - s.pubs.length]? with | some c => evC s (t - s.pubs.length) c | none => "-"
  else
    match s.cons[t - s.pubs.length - s.cls.length]? with
    | some l => if l = 0 then "-" else s!"take work {s.work} {s.work - 1} 1"
    | none => "-"

end Flag

/-! ## WaitCtx: external waiters sleeping on a `wait_context` through the monitor

`nW` waiters run `wait(ctx = x, cond = c)` (`external_waiter::pause`: the predicate is "the reference count is zero", the
context the address of the wait_context); `K` releasers each call `release()` once: `fetch_sub(1)`, and only the
releaser that brings the counter to zero goes on to `notify_waiters(x)` = `notify(ctx == x)`.  The monitor part is the
`Monitor` model unchanged (a releaser is notifier `j` with program `cond c := true; notify(ctx == x)`); the counter
decides at the releaser's first access whether that program runs (last reference) or is dropped. -/

namespace WaitCtx

structure St where
  mon : C02.St := {}
  ref : Nat := 0            -- wait_context::m_ref_count
  deriving Repr, DecidableEq

def relProg (x c : Nat) : List NOp := [.sig (some c) (.ctx x) false]

def step (x c : Nat) (s : St) (t : Tid) : St :=
  if t < s.mon.slp.length then { s with mon := C02.step s.mon t } else
  match s.mon.ntf[t - s.mon.slp.length]? with
  | some n =>
      if n.pc = .set ∧ n.ops = relProg x c then           -- the releaser's fetch_sub(1)
        if s.ref = 1 then { mon := C02.step s.mon t, ref := 0 }                         -- reached zero: goes on to notify_waiters
        else { mon := s.mon.setN (t - s.mon.slp.length) n.finish, ref := s.ref - 1 }    -- not the last reference: returns
      else { s with mon := C02.step s.mon t }
  | none => s

def init (nW K x c : Nat) : St :=
  { mon := C02.init (List.replicate nW [⟨x, c⟩]) (List.replicate K (relProg x c)), ref := K }

def sys (nW K x c : Nat) : Sys St := { init := init nW K x c, step := step x c }

end WaitCtx

/-! ## line-protocol driver for trace replay -/

open Proto

def splitOn1 (s : String) (c : Char) : List String := s.splitOn (String.singleton c)

def parseKind (s : String) : Option NKind :=
  if s == "all" then some .all else if s == "one" then some .one else if s == "abort" then some .abort
  else if s.startsWith "c" then (s.drop 1).toString.toNat?.map NKind.ctx
  else if s.startsWith "p" then (s.drop 1).toString.toNat?.map NKind.onec
  else if s.startsWith "l" then (s.drop 1).toString.toNat?.map NKind.leq else none

def parseWOp (w : String) : Option WOp :=
  match splitOn1 w ',' with
  | ["w", a, b] => do let a ← a.toNat?; let b ← b.toNat?; pure ⟨a, b⟩
  | _ => none

def parseNOp (w : String) : Option NOp :=
  match splitOn1 w ',' with
  | ["clr", c] => c.toNat?.map NOp.clr
  | ["sig", c, k, r] => do
      let k ← parseKind k
      let c ← (if c == "-" then some none else c.toNat?.map some)
      if r == "f" then pure (.sig c k false) else if r == "r" then pure (.sig c k true) else none
  | _ => none

/-- `S <wop>*` / `N <nop>*` declare threads (all S lines first); `s <tid>` performs one step and prints the access;
`state` prints `<results of sleeper 0 oldest first> | …` ; `left` prints the number of unfinished threads. -/
def driveMon (st : St) (ws : List String) : St × String :=
  match ws with
  | "S" :: ops =>
      if !st.ntf.isEmpty then (st, "bad-op") else
      match ops.mapM parseWOp with
      | some os => ({ st with slp := st.slp ++ [mkSleeper os] }, "ok")
      | none => (st, "bad-op")
  | "N" :: ops =>
      match ops.mapM parseNOp with
      | some os => ({ st with ntf := st.ntf ++ [mkNotifier os] }, "ok")
      | none => (st, "bad-op")
  | ["s", t] =>
      match nat? t with
      | some t => if t < st.slp.length + st.ntf.length then (step st t, ev st t) else (st, "bad-tid")
      | none => (st, "bad-op")
  | ["state"] =>
      (st, " | ".intercalate (st.slp.map (fun sl => showNats sl.results.reverse)))
  | ["left"] =>
      (st, toString ((st.slp.filter (fun sl => !sl.ops.isEmpty)).length + (st.ntf.filter (fun n => !n.ops.isEmpty)).length))
  | ["reset"] => ({}, "ok")
  | _ => (st, "bad-op")

def driverMon : Proto.Driver := { σ := St, init := {}, step := driveMon }

/-- `init <np> <v_1> … <v_k>`; `s <tid>` prints the access `kind a b ok`; `state` prints `word nP nV doubleV parked wakePending` -/
def driveSem (st : BinSem.St) (ws : List String) : BinSem.St × String :=
  match ws with
  | "init" :: np :: vs =>
      match nat? np, nats? vs with
      | some np, some vs => (BinSem.init np vs, "ok")
      | _, _ => (st, "bad-op")
  | ["s", t] =>
      match nat? t with
      | some t => if t < st.posters.length + 1 then (BinSem.step st t, BinSem.ev st t) else (st, "bad-tid")
      | none => (st, "bad-op")
  | ["state"] =>
      (st, s!"{st.word} {st.nP} {st.nV} {showBool st.doubleV} {showBool (st.wpc == .parked)} {showBool (BinSem.wakePending st)}")
  | _ => (st, "bad-op")

def driverSem : Proto.Driver := { σ := BinSem.St, init := {}, step := driveSem }

/-- `init <#pub> <ops…> | <#ops of cleaners…> | <#ops of consumers…>` written as `init p a b | c d | t`; `s <tid>`; `state`
prints `flag work req rel | rets of publishers (oldest first) ; … | rets of cleaners ; …` -/
def driveFlag (st : Flag.St) (ws : List String) : Flag.St × String :=
  match ws with
  | "init" :: rest =>
      let groups := (" ".intercalate rest).splitOn "|" |>.map (fun g => (g.splitOn " ").filter (· ≠ ""))
      match groups with
      | [a, b, c] =>
          match nats? a, nats? b, nats? c with
          | some a, some b, some c => (Flag.init a b c, "ok")
          | _, _, _ => (st, "bad-op")
      | _ => (st, "bad-op")
  | ["s", t] =>
      match nat? t with
      | some t => if t < st.pubs.length + st.cls.length + st.cons.length then (Flag.step st t, Flag.ev st t) else (st, "bad-tid")
      | none => (st, "bad-op")
  | ["state"] =>
      (st, s!"{st.flag} {st.work} {st.req} {st.rel} | " ++ " ; ".intercalate (st.pubs.map fun p => showNats p.rets.reverse) ++ " | " ++
           " ; ".intercalate (st.cls.map fun c => showNats c.rets.reverse))
  | _ => (st, "bad-op")

def driverFlag : Proto.Driver := { σ := Flag.St, init := {}, step := driveFlag }

def parseOrders (ws : List String) : Option Tso.Orders :=
  match ws.mapM (fun w => if w == "1" then some true else if w == "0" then some false else none) with
  | some [a, b, c, d, e] => some ⟨a, b, c, d, e⟩
  | _ => none

/-- `explore <prepFence> <unlockRmw> <notifyFence> <chgRmw> <rmwFence>` → `lost <schedule>` / `none <states explored>`;
`run <5 flags> <schedule…>` → `lost|ok` and the final program counters. -/
def driveTso (_ : Unit) (ws : List String) : Unit × String :=
  match ws with
  | "explore" :: fl =>
      match parseOrders fl with
      | some o =>
          match Tso.explore o with
          | (some p, n) => ((), s!"lost {showNats p} | fencesOK={showBool (Tso.fencesOK o)} states={n}")
          | (none, n) => ((), s!"none {n} | fencesOK={showBool (Tso.fencesOK o)}")
      | none => ((), "bad-op")
  | "run" :: a :: b :: c :: d :: e :: sched =>
      match parseOrders [a, b, c, d, e], nats? sched with
      | some o, some sc =>
          let s := (Tso.sys o).run sc
          ((), s!"{if Tso.lost s then "lost" else "ok"} spc={repr s.spc} npc={repr s.npc} sem={s.sem} cond={s.mem.cond} count={s.mem.count}")
      | _, _ => ((), "bad-op")
  | _ => ((), "bad-op")

def driverTso : Proto.Driver := { σ := Unit, init := (), step := driveTso }

end TbbVerif.C02
