/-
C07 — parallel_pipeline model (executable, core Lean only).

Code modelled: src/tbb/parallel_pipeline.cpp
  * `input_buffer` (`TokenBuf`): array / array_size / low_token / high_token, `try_put_token`,
    `try_to_spawn_task_for_next_token` (`noteDone`), `get_ordered_token`, `grow`.
  * `pipeline` + `stage_task::execute_filter` (`Pipeline`): an interleaving system whose agents are the
    stage_task objects; one model step per lock region / RMW / atomic load of the code
    (`input_tokens.fetch_sub`, `fetch_add`, `end_of_input` load/store, `try_put_token`,
    `try_to_spawn_task_for_next_token`) plus one step for the begin and one for the end of a filter call.
-/
import TbbVerif.Core.Sched
import TbbVerif.Core.Proto
import TbbVerif.Generated.C07

namespace TbbVerif.C07

/-! ## `task_info` and `input_buffer` -/

/-- `task_info`: `my_object` (an item id), `my_token`, `my_token_ready` (`is_valid` is the `Option` of a slot). -/
structure Info where
  item  : Nat
  token : Nat := 0
  ready : Bool := false
  deriving Repr, DecidableEq, Inhabited

/-- `input_buffer`. `slots[j] = none` stands for `array[j].is_valid == false`. -/
structure TokenBuf where
  ordered : Bool
  size    : Nat
  low     : Nat
  high    : Nat
  slots   : List (Option Info)
  deriving Repr, DecidableEq

namespace TokenBuf

/-- `while (new_size < minimum_size) new_size *= 2;` (fuel = `minimum_size` suffices for `new_size ≥ 1`). -/
def dblUntil : Nat → Nat → Nat → Nat
  | 0, n, _ => n
  | f + 1, n, m => if n < m then dblUntil f (2 * n) m else n

/-- `new_size` computed by `grow(minimum_size)`. -/
def growSize (old minSize : Nat) : Nat :=
  dblUntil minSize (if old = 0 then Generated.C07.initialBufferSize else 2 * old) minSize

/-- slot index of a token: `token & (array_size-1)` -/
def idx (size tok : Nat) : Nat := tok &&& (size - 1)

/-- `input_buffer::grow`: allocate the doubled array, mark everything invalid, then copy the `old_size`
tokens starting at `low_token` to their new positions. -/
def grow (b : TokenBuf) (minSize : Nat) : TokenBuf :=
  let newSize := growSize b.size minSize
  let fresh : List (Option Info) := List.replicate newSize none
  let slots' := (List.range b.size).foldl
    (fun acc i => acc.set (idx newSize (b.low + i)) (b.slots.getD (idx b.size (b.low + i)) none)) fresh
  { b with size := newSize, slots := slots' }

/-- The constructor: empty array, then `grow(initial_buffer_size)`. -/
def new (ordered : Bool) : TokenBuf :=
  grow { ordered := ordered, size := 0, low := 0, high := 0, slots := [] } Generated.C07.initialBufferSize

/-- `get_ordered_token`: `return high_token++` -/
def getOrderedToken (b : TokenBuf) : TokenBuf × Nat := ({ b with high := b.high + 1 }, b.high)

/-- second half of `try_put_token`, once `token` is known: assertion, `token != low_token` test, `grow`,
store into the slot. -/
def park (b1 : TokenBuf) (info1 : Info) (tok : Nat) : Option (TokenBuf × Info × Nat × Bool) :=
  if tok < b1.low then none
  else if tok ≠ b1.low then
    let b2 := if tok - b1.low ≥ b1.size then b1.grow (tok - b1.low + 1) else b1
    some ({ b2 with slots := b2.slots.set (idx b2.size tok) (some info1) }, info1, tok, true)
  else some (b1, info1, tok, false)

/-- `try_put_token`.  Result: the buffer, the (possibly newly numbered) info, the token under which the
item was handled in this buffer, and whether it was parked (`true`, the caller's task ends) or must run
now (`false`).  `none`: the code's assertion `(long)(token-low_token) >= 0` fails. -/
def tryPut (b : TokenBuf) (info : Info) : Option (TokenBuf × Info × Nat × Bool) :=
  if b.ordered then
    if info.ready then park b info info.token
    else park { b with high := b.high + 1 } { info with token := b.high, ready := true } b.high
  else park { b with high := b.high + 1 } info b.high

/-- `try_to_spawn_task_for_next_token`, the locked region: `++low_token`, read the slot of the new
low token, invalidate it.  Result: buffer and the wakee (if valid). -/
def noteDone (b : TokenBuf) : TokenBuf × Option Info :=
  let low' := b.low + 1
  let j := idx b.size low'
  ({ b with low := low', slots := b.slots.set j none }, b.slots.getD j none)

/-- The finite map the ring stands for: token ↦ parked item, on the window `[low, low+size)`. -/
def abs (b : TokenBuf) (tok : Nat) : Option Info :=
  if b.low ≤ tok ∧ tok < b.low + b.size then b.slots.getD (idx b.size tok) none else none

end TokenBuf

/-! ## The pipeline -/

inductive Mode where
  | parallel | inOrder | outOfOrder
  deriving Repr, DecidableEq, Inhabited

def Mode.serial : Mode → Bool
  | .parallel => false
  | _ => true

def Mode.ordered : Mode → Bool
  | .inOrder => true
  | _ => false

/-- Configuration of one `parallel_pipeline` call: the filter modes, `max_number_of_live_tokens`, and how
many items the input body yields before it calls `flow_control::stop()`. -/
structure Cfg where
  modes  : List Mode
  maxTok : Nat
  total  : Nat
  deriving Repr

def Cfg.n (c : Cfg) : Nat := c.modes.length
def Cfg.mode (c : Cfg) (k : Nat) : Mode := c.modes.getD k .parallel

/-- Program counter of a `stage_task` (where its next shared access is). -/
inductive Pc where
  | start     -- `my_at_start`: serial input → call the input filter; parallel input → load `end_of_input`
  | inCallS   -- inside the serial input filter
  | fsubS     -- serial input returned an item: about to `input_tokens.fetch_sub(1)`
  | fsubP     -- parallel input: about to `input_tokens.fetch_sub(1)` (before the filter call)
  | callInP   -- parallel input: about to call the input filter
  | inCallP   -- inside the parallel input filter
  | put       -- about to `try_put_token` at filter `stage`
  | call      -- about to call filter `stage` on the item
  | inFilter  -- inside filter `stage`
  | noteDone  -- about to `try_to_spawn_task_for_next_token` of filter `stage`
  | fadd      -- end of pipe: about to `input_tokens.fetch_add(1)`
  | ldEoi     -- `fetch_add` returned 0: about to load `end_of_input`
  | dead      -- task destroyed (`wait_ctx.release()` done)
  deriving Repr, DecidableEq, Inhabited

structure Task where
  pc    : Pc
  stage : Nat := 0
  info  : Info := { item := 0 }
  deriving Repr, DecidableEq, Inhabited

/-- ghost: where an emitted item currently is -/
inductive Loc where
  | task (tid : Nat)
  | parked (k tok : Nat)
  | retired
  deriving Repr, DecidableEq, Inhabited

def Loc.isParked : Loc → Bool
  | .parked _ _ => true
  | _ => false

def upd {α : Type} (f : Nat → α) (k : Nat) (v : α) : Nat → α := fun j => if j = k then v else f j

structure St where
  bufs     : Nat → TokenBuf          -- `my_input_buffer` of filter k (unused for parallel filters)
  tokens   : Nat                     -- `input_tokens`
  eoi      : Bool                    -- `end_of_input`
  tasks    : List Task               -- every stage_task ever created (agent id = index)
  wait     : Nat                     -- `wait_ctx` reference count
  err      : Bool                    -- an assertion of the code failed / a counter underflowed
  -- ghost
  produced : Nat                     -- number of items the input filter has returned
  loc      : List Loc                -- item ↦ where it is
  numbered : List Nat                -- items in the order in which the first ordered filter numbered them
  seen     : Nat → List Nat          -- filter k ↦ items in the order its invocations began (k = 0: were returned)
  done     : Nat → List Nat          -- filter k ↦ items in the order its invocations returned

/-- What a step did (used by the trace validator; the property theorems talk about `St` only). -/
inductive Label where
  | noop
  | tau (what : String)
  | ibeg
  | iend (item : Option Nat)
  | fbeg (k item : Nat)
  | fend (k item : Nat)
  | spawnT                 -- tau that also made a new task
  | error
  deriving Repr, DecidableEq, Inhabited

def setTask (s : St) (tid : Nat) (t : Task) : St := { s with tasks := s.tasks.set tid t }

/-- the task's destructor: `wait_ctx.release()` -/
def kill (s : St) (tid : Nat) : St :=
  { s with tasks := s.tasks.set tid { pc := .dead }, wait := s.wait - 1 }

/-- construct + spawn a stage_task: `wait_ctx.reserve()` -/
def spawn (s : St) (t : Task) : St := { s with tasks := s.tasks ++ [t], wait := s.wait + 1 }

/-- `my_filter = my_filter->next_filter_in_pipeline` and what the task does next. -/
def advance (c : Cfg) (t : Task) : Task :=
  let k := t.stage + 1
  if k < c.n then { t with stage := k, pc := if (c.mode k).serial then .put else .call }
  else { t with stage := k, pc := .fadd }

def fresh : Task := { pc := .start, stage := 0, info := { item := 0 } }

/-- an assertion of the code fails / a counter would underflow: flag it (the task stays where it is) -/
def fail (s : St) (_tid : Nat) : St × Label := ({ s with err := true }, .error)

/-- One atomic step of task `tid`. -/
def stepL (c : Cfg) (s : St) (tid : Tid) : St × Label :=
  match s.tasks[tid]? with
  | none => (s, .noop)
  | some t =>
    match t.pc with
    | .dead => (s, .noop)
    | .start =>
      if (c.mode 0).serial then (setTask s tid { fresh with pc := .inCallS }, .ibeg)
      else if s.eoi then (kill s tid, .tau "start:eoi")
      else (setTask s tid { fresh with pc := .fsubP }, .tau "start")
    | .inCallS =>
      if s.produced < c.total then
        let i := s.produced
        let ord := (c.mode 0).ordered
        let info : Info := if ord then { item := i, token := (s.bufs 0).high, ready := true } else { item := i }
        let s1 : St := { s with
          produced := i + 1,
          bufs := if ord then upd s.bufs 0 (s.bufs 0).getOrderedToken.1 else s.bufs,
          numbered := if ord then s.numbered ++ [i] else s.numbered,
          seen := upd s.seen 0 (s.seen 0 ++ [i]),
          done := upd s.done 0 (s.done 0 ++ [i]) }
        if c.n = 1 then
          (setTask { s1 with loc := s.loc ++ [.retired] } tid fresh, .iend (some i))
        else
          (setTask { s1 with loc := s.loc ++ [.task tid] } tid { pc := .fsubS, stage := 0, info := info }, .iend (some i))
      else (kill { s with eoi := true } tid, .iend none)
    | .fsubS =>
      if s.tokens = 0 then fail s tid
      else
        let s1 : St := { s with tokens := s.tokens - 1 }
        let s2 := if s.tokens > 1 then spawn s1 fresh else s1
        (setTask s2 tid (advance c t), if s.tokens > 1 then .spawnT else .tau "fsub")
    | .fsubP =>
      if s.tokens = 0 then fail s tid
      else
        let s1 : St := { s with tokens := s.tokens - 1 }
        let s2 := if s.tokens > 1 then spawn s1 fresh else s1
        (setTask s2 tid { t with pc := .callInP }, if s.tokens > 1 then .spawnT else .tau "fsub")
    | .callInP => (setTask s tid { t with pc := .inCallP }, .ibeg)
    | .inCallP =>
      if s.produced < c.total then
        let i := s.produced
        let s1 : St := { s with
          produced := i + 1,
          loc := s.loc ++ [if c.n = 1 then .retired else .task tid],
          seen := upd s.seen 0 (s.seen 0 ++ [i]),
          done := upd s.done 0 (s.done 0 ++ [i]) }
        (setTask s1 tid (advance c { t with stage := 0, info := { item := i } }), .iend (some i))
      else (kill { s with eoi := true } tid, .iend none)
    | .put =>
      let k := t.stage
      match (s.bufs k).tryPut t.info with
      | none => fail s tid
      | some (b', info', tok, parked) =>
        let s1 : St := { s with
          bufs := upd s.bufs k b',
          numbered := if (s.bufs k).ordered && !t.info.ready then s.numbered ++ [t.info.item] else s.numbered }
        if parked then (kill { s1 with loc := s.loc.set t.info.item (.parked k tok) } tid, .tau "put:parked")
        else (setTask s1 tid { t with pc := .call, info := info' }, .tau "put:run")
    | .call =>
      ({ setTask s tid { t with pc := .inFilter } with seen := upd s.seen t.stage (s.seen t.stage ++ [t.info.item]) },
        .fbeg t.stage t.info.item)
    | .inFilter =>
      let k := t.stage
      let s1 : St := { s with
        done := upd s.done k (s.done k ++ [t.info.item]),
        -- the item has left the pipeline once the last filter returned; the ghost location is retired
        -- here for a parallel last filter, and by the note-done step for a serial one
        loc := if k + 1 = c.n ∧ !(c.mode k).serial then s.loc.set t.info.item .retired else s.loc }
      (setTask s1 tid (if (c.mode k).serial then { t with pc := .noteDone } else advance c t), .fend k t.info.item)
    | .noteDone =>
      let k := t.stage
      let r := (s.bufs k).noteDone
      let loc1 := if k + 1 = c.n then s.loc.set t.info.item .retired else s.loc
      let s1 : St := { s with bufs := upd s.bufs k r.1, loc := loc1 }
      match r.2 with
      | none => (setTask s1 tid (advance c t), .tau "done")
      | some w =>
        let s2 := spawn { s1 with loc := loc1.set w.item (.task s.tasks.length) } { pc := .call, stage := k, info := w }
        (setTask s2 tid (advance c t), .spawnT)
    | .fadd =>
      let s1 : St := { s with tokens := s.tokens + 1 }
      if s.tokens > 0 then (kill s1 tid, .tau "fadd:die") else (setTask s1 tid { t with pc := .ldEoi }, .tau "fadd:0")
    | .ldEoi =>
      if s.eoi then (kill s tid, .tau "recycle:eoi") else (setTask s tid fresh, .tau "recycle")

def step (c : Cfg) (s : St) (tid : Tid) : St := (stepL c s tid).1

def init (c : Cfg) : St :=
  { bufs := fun k => TokenBuf.new (c.mode k).ordered,
    tokens := c.maxTok, eoi := false, tasks := [fresh], wait := 1, err := false,
    produced := 0, loc := [], numbered := [], seen := fun _ => [], done := fun _ => [] }

def sys (c : Cfg) : Sys St := { init := init c, step := step c }


/-! ## line-protocol drivers (not part of the proved model; they only call `TokenBuf.*` and `step`) -/

open Proto

def showInfo (i : Info) : String := s!"{i.item}:{i.token}:{showBool i.ready}"

def showBuf (b : TokenBuf) : String :=
  let sl := b.slots.map (fun o => match o with | none => "-" | some i => showInfo i)
  s!"{b.size} {b.low} {b.high} " ++ " ".intercalate sl

/-- `c07buf`: white-box differential of `input_buffer`. -/
def driveBuf (b : TokenBuf) (ws : List String) : TokenBuf × String :=
  match ws with
  | ["new", o] => match nat? o with
      | some o => let b' := TokenBuf.new (o != 0); (b', showBuf b')
      | none => (b, "bad-op")
  | ["put", item, ready, token] => match nat? item, nat? ready, nat? token with
      | some item, some ready, some token =>
        (match b.tryPut { item := item, token := token, ready := ready != 0 } with
         | none => (b, "reject")
         | some (b', i', tok, parked) => (b', s!"P {showBool parked} {showInfo i'} {tok} | {showBuf b'}"))
      | _, _, _ => (b, "bad-op")
  | ["done"] =>
      let r := b.noteDone
      (r.1, (match r.2 with | none => "D -" | some i => s!"D {showInfo i}") ++ s!" | {showBuf r.1}")
  | ["tok"] => let r := b.getOrderedToken; (r.1, s!"T {r.2} | {showBuf r.1}")
  | _ => (b, "bad-op")

def driverBuf : Proto.Driver := { σ := TokenBuf, init := TokenBuf.new true, step := driveBuf }

/-! ### `c07pipe`: validation of an observed per-filter event log against `Pipeline`.
Observed events are the visible labels (`ibeg`, `iend`, `fbeg`, `fend`) and the return of the call; the
invisible steps (token accounting, put, note-done, recycling) are inserted by the procedures below as late
as possible.  Every state change goes through `step`, so an accepted log is a trace of the model. -/

structure VSt where
  cfg  : Cfg := { modes := [], maxTok := 0, total := 0 }
  st   : St := init { modes := [], maxTok := 0, total := 0 }
  inv  : List (Nat × Nat) := []     -- input invocation id ↦ task id
  ok   : Bool := false

def parseModes (m : String) : Option (List Mode) :=
  m.toList.mapM (fun ch => if ch = 'p' then some Mode.parallel else if ch = 'i' then some Mode.inOrder
    else if ch = 'o' then some Mode.outOfOrder else none)

def tauCandidates (c : Cfg) (allowStart : Bool) : List (Task → Bool) :=
  [fun t => t.pc == .fsubS, fun t => t.pc == .fsubP, fun t => allowStart && t.pc == .start,
   fun t => t.pc == .ldEoi, fun t => t.pc == .fadd, fun t => t.pc == .noteDone && t.stage + 1 == c.n]

/-- take invisible steps (in a fixed priority order) until `target` holds -/
def ensure (c : Cfg) (target : St → Bool) (allowStart : Bool) : Nat → St → Option St
  | 0, _ => none
  | f + 1, s =>
    if target s then some s else
    match (tauCandidates c allowStart).findSome? (fun p => s.tasks.findIdx? p) with
    | none => none
    | some tid => ensure c target allowStart f (step c s tid)

def fuelOf (s : St) : Nat := 8 * s.tasks.length + 64

def vIb (v : VSt) (inv : Nat) : VSt × String :=
  let c := v.cfg
  let ser := (c.mode 0).serial
  let want : Pc := if ser then .start else .callInP
  match ensure c (fun s => s.tasks.any (fun t => t.pc == want)) (!ser) (fuelOf v.st) v.st with
  | none => (v, "stuck ib: no input task can exist (no free token or end of input already seen)")
  | some s =>
    match s.tasks.findIdx? (fun t => t.pc == want) with
    | none => (v, "stuck ib")
    | some tid =>
      let r := stepL c s tid
      if r.2 == .ibeg then ({ v with st := r.1, inv := (inv, tid) :: v.inv }, "ok")
      else (v, "stuck ib: step gave " ++ reprStr r.2)

def vIe (v : VSt) (inv : Nat) (item : Option Nat) : VSt × String :=
  match v.inv.lookup inv with
  | none => (v, "stuck ie: unknown invocation")
  | some tid =>
    let r := stepL v.cfg v.st tid
    if r.2 == .iend item then ({ v with st := r.1, inv := v.inv.filter (fun p => p.1 != inv) }, "ok")
    else (v, s!"stuck ie: model step gives {reprStr r.2}")

def vPrep (v : VSt) (m : Nat) : VSt × String :=
  match ensure v.cfg (fun s => decide (m ≤ s.tasks.countP (fun t => t.pc == .callInP))) true (fuelOf v.st + 8 * m) v.st with
  | none => (v, s!"stuck prep: {m} further input invocations cannot have passed the end-of-input test")
  | some s => ({ v with st := s }, "ok")

def vB (v : VSt) (k item : Nat) : VSt × String :=
  let c := v.cfg
  match v.st.loc[item]? with
  | some (.task tid) =>
    -- own invisible steps up to the put / call of filter k
    let s1 := match v.st.tasks[tid]? with
      | some t => if t.pc == .fsubS || (t.pc == .noteDone && t.stage + 1 == k) then step c v.st tid else v.st
      | none => v.st
    match s1.tasks[tid]? with
    | some t =>
      if t.stage != k then (v, s!"stuck b: item {item} is at filter {t.stage} ({reprStr t.pc}), not at filter {k}") else
      let s2 := if t.pc == .put then
          -- the previous occupant of the serial filter finishes its note-done first
          let s1' := match s1.tasks.findIdx? (fun u => u.pc == .noteDone && u.stage == k) with
            | some o => step c s1 o
            | none => s1
          step c s1' tid
        else s1
      match s2.tasks[tid]? with
      | some t2 =>
        if t2.pc != .call then
          (v, s!"stuck b: item {item} may not enter filter {k} now (model: {reprStr t2.pc}; serial filter busy or not its turn in the token order)")
        else
          let r := stepL c s2 tid
          if r.2 == .fbeg k item then ({ v with st := r.1 }, "ok") else (v, s!"stuck b: model step gives {reprStr r.2}")
      | none => (v, "stuck b")
    | none => (v, "stuck b")
  | some l => (v, s!"stuck b: item {item} is not carried by a task ({reprStr l})")
  | none => (v, s!"stuck b: item {item} was never emitted")

def vE (v : VSt) (k item : Nat) : VSt × String :=
  match v.st.loc[item]? with
  | some (.task tid) =>
    (match v.st.tasks[tid]? with
     | some t =>
       if t.pc == .inFilter && t.stage == k then
         let r := stepL v.cfg v.st tid
         if r.2 == .fend k item then ({ v with st := r.1 }, "ok") else (v, s!"stuck e: model step gives {reprStr r.2}")
       else (v, s!"stuck e: item {item} is not inside filter {k}")
     | none => (v, "stuck e"))
  | _ => (v, s!"stuck e: item {item} is not carried by a task")

def vRet (v : VSt) : VSt × String :=
  let c := v.cfg
  let par := !(c.mode 0).serial
  match ensure c (fun s => s.tasks.all (fun t => t.pc == .dead)) par (fuelOf v.st) v.st with
  | none =>
    let live := v.st.tasks.filter (fun t => t.pc != .dead)
    (v, s!"stuck ret: tasks still alive in the model: {reprStr (live.map (fun t => (t.pc, t.stage, t.info.item)))}")
  | some s =>
    let drained := (List.range s.produced).all (fun i => (List.range c.n).all (fun k => (s.done k).contains i))
    if s.wait == 0 && s.eoi && drained && !s.err then ({ v with st := s }, "ok")
    else (v, s!"stuck ret: wait={s.wait} eoi={s.eoi} drained={drained} err={s.err}")

def drivePipe (v : VSt) (ws : List String) : VSt × String :=
  match ws with
  | ["cfg", mx, total, modes] => match nat? mx, nat? total, parseModes modes with
      | some mx, some total, some ms =>
        if mx = 0 ∨ ms.isEmpty then (v, "bad-op") else
        let c : Cfg := { modes := ms, maxTok := mx, total := total }
        ({ cfg := c, st := init c, inv := [], ok := true }, "ok")
      | _, _, _ => (v, "bad-op")
  | ["ib", i] => match nat? i with
      | some i => if v.ok then vIb v i else (v, "bad-op")
      | none => (v, "bad-op")
  | ["ie", i, x] => match nat? i with
      | some i => if !v.ok then (v, "bad-op") else
          if x == "-" then vIe v i none else (match nat? x with | some x => vIe v i (some x) | none => (v, "bad-op"))
      | none => (v, "bad-op")
  | ["prep", m] => match nat? m with
      | some m => if v.ok then vPrep v m else (v, "bad-op")
      | none => (v, "bad-op")
  | ["b", k, i] => match nat? k, nat? i with
      | some k, some i => if v.ok then vB v k i else (v, "bad-op")
      | _, _ => (v, "bad-op")
  | ["e", k, i] => match nat? k, nat? i with
      | some k, some i => if v.ok then vE v k i else (v, "bad-op")
      | _, _ => (v, "bad-op")
  | ["ret"] => if v.ok then vRet v else (v, "bad-op")
  | ["dump"] =>
      let s := v.st
      (v, s!"tokens={s.tokens} eoi={s.eoi} wait={s.wait} produced={s.produced} err={s.err} tasks={reprStr (s.tasks.map (fun t => (t.pc, t.stage, t.info.item)))}")
  | _ => (v, "bad-op")

def driverPipe : Proto.Driver := { σ := VSt, init := {}, step := drivePipe }

/-- `c07run`: run the model itself under an explicit schedule: `cfg …`, then `s <tid>` lines;
output = label of the step.  Used for replays and by the E-SHIM correspondence. -/
def driveRun (v : VSt) (ws : List String) : VSt × String :=
  match ws with
  | ["cfg", _, _, _] => drivePipe v ws
  | ["s", t] => match nat? t with
      | some t => if !v.ok then (v, "bad-op") else
          let r := stepL v.cfg v.st t
          ({ v with st := r.1 }, reprStr r.2)
      | none => (v, "bad-op")
  | ["dump"] => drivePipe v ws
  | _ => (v, "bad-op")

def driverRun : Proto.Driver := { σ := VSt, init := {}, step := driveRun }

end TbbVerif.C07
