/-
C17 — the invariant of the back-end model (`Model/C17Backend.lean`), as decidable predicates: the theorems of
`Props/C17.lean` state that it holds in every reachable state of the model, and the check evaluates THE SAME
predicates on snapshots of the real back end (walked by `harness/c17/be.cpp`), see `Model/C17BackendDrv.lean`.
Core Lean only (linked into the driver).
-/
import TbbVerif.Model.C17Backend

namespace TbbVerif.C17.BE
open TbbVerif.Generated.C17Backend

/-- a block contributes an entry to the bins: it is free and says which bin (`myBin`), or it is the left neighbour a
running `doCoalesc` has already merged but not yet unlinked (`blockInBin`) -/
def hasEntry (b : Blk) : Bool := b.myBin != -1 && (b.own == .free || b.inBin)

def entryOf (a : Nat) (b : Blk) : List Entry := if hasEntry b then [⟨b.aligned, b.myBin.toNat, a⟩] else []

/-- the bin entries the blocks of a region account for, `a` = address of the first block of the list -/
def entriesOf : Nat → List Blk → List Entry
  | _, [] => []
  | a, b :: rest => entryOf a b ++ entriesOf (a + b.size) rest

def allEntries (rs : List Region) : List Entry := rs.flatMap (fun r => entriesOf r.first r.blocks)

def queuedOf : Nat → List Blk → List Nat
  | _, [] => []
  | a, b :: rest => (if b.own = .queued then [a] else []) ++ queuedOf (a + b.size) rest

def allQueued (rs : List Region) : List Nat := rs.flatMap (fun r => queuedOf r.first r.blocks)

/-- the blocks in the hands of callers of `genericGetBlock`: `(address, size)` -/
def usersOf : Nat → List Blk → List (Nat × Nat)
  | _, [] => []
  | a, b :: rest => (match b.own with | .user _ => [(a, b.size)] | .coal _ => [(a, b.size)] | _ => []) ++ usersOf (a + b.size) rest

def allUsers (rs : List Region) : List (Nat × Nat) := rs.flatMap (fun r => usersOf r.first r.blocks)

/-- what must hold of one block, given where it lies -/
def blkOK (cfg : Cfg) (rtype : Nat) (a : Nat) (b : Blk) : Prop :=
  (b.inBin = true → b.own = .held) ∧
  (match b.own with
   | .free => b.myL = b.size ∧ beMinBlockSize ≤ b.size ∧
       (b.myBin = -1 ∨ (b.myBin = sizeToBin b.size ∧ beMinBinnedSize ≤ b.size)) ∧
       (if cfg.fixedPool then (b.myBin ≠ -1 → b.aligned = true → (a + b.size) % beSlabSize = 0)
        else b.aligned = decide (rtype = beRegSlab))
   | .user al => b.myL = gsLocked ∧ beMinBlockSize ≤ b.size ∧ (cfg.fixedPool = false → al = decide (rtype = beRegSlab))
   | .coal al => b.myL = gsCoalBlock ∧ b.sizeTmp = b.size ∧ beMinBlockSize ≤ b.size ∧ (cfg.fixedPool = false → al = decide (rtype = beRegSlab))
   | .held => b.myL ≤ gsMaxLockedVal ∧ beMinBlockSize ≤ b.size ∧ (cfg.fixedPool = false → b.aligned = decide (rtype = beRegSlab))
   | .queued => b.myL = gsLocked ∧ b.sizeTmp = b.size ∧ beMinBlockSize ≤ b.size ∧ (cfg.fixedPool = false → b.aligned = decide (rtype = beRegSlab))
   | .last => b.myL = gsLastRegionBlock ∧ b.size = beSizeofLastFreeBlock) ∧
  -- in a pool that is not fixed every block of a slab region ends on a slab boundary
  (cfg.fixedPool = false → rtype = beRegSlab → b.own ≠ .last → (a + b.size) % beSlabSize = 0)

instance (cfg : Cfg) (rtype a : Nat) (b : Blk) : Decidable (blkOK cfg rtype a b) := by
  unfold blkOK; cases b.own <;> infer_instance

/-- a block at rest: `blockInBin` is only set while `doCoalesc` works on the block -/
def sblk (cfg : Cfg) (rtype : Nat) (a : Nat) (b : Blk) : Prop := blkOK cfg rtype a b ∧ b.inBin = false

instance (cfg : Cfg) (rtype a : Nat) (b : Blk) : Decidable (sblk cfg rtype a b) := by unfold sblk; infer_instance

/-- blocks `bs` start at `a`, the left neighbour's tag is `t`, none of them is the last block of a region -/
def chainPre (cfg : Cfg) (rtype : Nat) : Nat → Nat → List Blk → Prop
  | _, _, [] => True
  | a, t, b :: rest => b.leftL = t ∧ sblk cfg rtype a b ∧ b.own ≠ .last ∧ chainPre cfg rtype (a + b.size) b.myL rest

/-- blocks `bs` start at `a`, the left neighbour's tag is `t`, and they end, with the `LastFreeBlock`, at `endA`:
exact tiling, consistent boundary tags -/
def chainOK (cfg : Cfg) (rtype : Nat) (endA : Nat) : Nat → Nat → List Blk → Prop
  | a, _, [] => a = endA
  | a, t, b :: rest => b.leftL = t ∧ sblk cfg rtype a b ∧ (b.own = .last ↔ rest = []) ∧ chainOK cfg rtype endA (a + b.size) b.myL rest

instance chainOKDec (cfg : Cfg) (rtype endA : Nat) : (a t : Nat) → (bs : List Blk) → Decidable (chainOK cfg rtype endA a t bs)
  | a, _, [] => by unfold chainOK; infer_instance
  | a, t, b :: rest => by
    unfold chainOK
    have := chainOKDec cfg rtype endA (a + b.size) b.myL rest
    infer_instance

/-- a region: header, first block, exact tiling up to the `LastFreeBlock`, which fits the mapping -/
def regOK (cfg : Cfg) (r : Region) : Prop :=
  r.blocks ≠ [] ∧ r.base + beSizeofMemRegion ≤ r.first ∧ r.first + r.blockSz + beSizeofLastFreeBlock ≤ r.base + r.allocSz ∧
  r.first % 8 = 0 ∧ (r.type = beRegSlab ∨ r.type = beRegLarge ∨ r.type = beRegOne) ∧
  chainOK cfg r.type (r.first + r.blockSz + beSizeofLastFreeBlock) r.first gsLocked r.blocks ∧
  -- the first block and its size are where `findBlockInRegion` puts them (`Backend::reset` recomputes them)
  findBlockInRegion r.base r.allocSz r.type r.blockSz = some (r.first, r.blockSz)

instance (cfg : Cfg) (r : Region) : Decidable (regOK cfg r) := by unfold regOK; infer_instance

def regionsDisjoint (r1 r2 : Region) : Prop := r1.base + r1.allocSz ≤ r2.base ∨ r2.base + r2.allocSz ≤ r1.base

instance (r1 r2 : Region) : Decidable (regionsDisjoint r1 r2) := by unfold regionsDisjoint; infer_instance

/-- the invariant of the sequential back-end model -/
structure WF (s : St) : Prop where
  not_bad : s.g.bad = false
  regs : ∀ r ∈ s.regions, regOK s.g.cfg r
  disjoint : s.regions.Pairwise regionsDisjoint
  /-- the bins hold exactly the blocks that say so, each once -/
  bins : s.g.bins.Perm (allEntries s.regions)
  /-- a non-empty bin has its bit set (the converse need not hold: `tryReleaseRegions` empties a bin without clearing it) -/
  mask : ∀ e ∈ s.g.bins, (e.al, e.bin) ∈ s.g.mask
  queue : s.g.queue.Perm (allQueued s.regions)

instance (s : St) : Decidable (WF s) :=
  if h : s.g.bad = false ∧ (∀ r ∈ s.regions, regOK s.g.cfg r) ∧ s.regions.Pairwise regionsDisjoint ∧
      s.g.bins.Perm (allEntries s.regions) ∧ (∀ e ∈ s.g.bins, (e.al, e.bin) ∈ s.g.mask) ∧ s.g.queue.Perm (allQueued s.regions)
  then isTrue ⟨h.1, h.2.1, h.2.2.1, h.2.2.2.1, h.2.2.2.2.1, h.2.2.2.2.2⟩
  else isFalse (fun w => h ⟨w.not_bad, w.regs, w.disjoint, w.bins, w.mask, w.queue⟩)

/-- which clause fails (for the evidence / replay text) -/
def wfReport (s : St) : List String :=
  (if s.g.bad then ["bad"] else []) ++
  (s.regions.filter (fun r => !decide (regOK s.g.cfg r))).map (fun r => s!"region {r.base}: tiling / boundary tags / block discipline") ++
  (if decide (s.regions.Pairwise regionsDisjoint) then [] else ["regions overlap"]) ++
  (if decide (s.g.bins.Perm (allEntries s.regions)) then [] else ["bins do not hold exactly the free blocks that name a bin"]) ++
  (if decide (∀ e ∈ s.g.bins, (e.al, e.bin) ∈ s.g.mask) then [] else ["a non-empty bin has a clear mask bit"]) ++
  (if decide (s.g.queue.Perm (allQueued s.regions)) then [] else ["coalescQ does not hold exactly the queued blocks"])

end TbbVerif.C17.BE
